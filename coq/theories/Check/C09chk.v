(* Case types and boolean functions evaluated by the C09 correspondence harness. *)
From Coq Require Import NArith List Bool String. Import ListNotations.
From TP Require Export Base.PyVal Base.PyEq Schema.PyLiteral Schema.CodeGen Gen.EmitSites
     Schema.ModuleGen Gen.ModuleLayout Schema.BackRequired.
Local Open Scope N_scope.

Definition opt_lex_eqb (a b : option (pystr * list N)) : bool :=
  match a, b with
  | Some (s, r), Some (s', r') => pystr_eqb s s' && pystr_eqb r r'
  | None, None => true
  | _, _ => false
  end.

(* ---- stream "lexer": arbitrary literal text; obs = what CPython's tokenizer + literal_eval make of it *)
Definition lexcase := (list N * option (pystr * list N))%type.
Definition lex_mismatch (c : lexcase) : bool :=
  let '(src, obs) := c in negb (opt_lex_eqb (lex_lit src) obs).
Definition lex_accepts (c : lexcase) : bool :=
  let '(src, obs) := c in match lex_lit src with Some _ => true | None => false end.

(* ---- stream "probe": one schema string s at one emission site.
   lit  = the text the real generator wrote for it;
   obs  = None: the generated source does not parse; Some None: it parses but the site does not hold
          a plain string constant / name; Some (Some v): it holds v. *)
Definition probecase := (pystr * pystr * list N * option (option pystr))%type.

(* every site writes the schema string itself (the description is the docstring, nothing around it) *)
Definition site_payload (site s : pystr) : pystr := s.

  Definition probe_emit_mismatch (printable : N -> bool) (c : probecase) : bool :=
    let '(site, s, lit, obs) := c in
    negb (pystr_eqb (emit printable (site_disc emit_sites site) (site_payload site s)) lit).

  Definition probe_lex_mismatch (c : probecase) : bool :=
    let '(site, s, lit, obs) := c in
    let s' := site_payload site s in
    match lex_tok py_keywords (site_disc emit_sites site) lit, obs with
    | Some (v, []), Some (Some v') => negb (pystr_eqb v v')
    | Some (v, []), _ => true
    | _, Some (Some v') => pystr_eqb v' s'      (* the model says broken: CPython must not read s back *)
    | _, _ => false
    end.

  (* the model's verdict on the site: the discipline emits this string correctly *)
  Definition probe_model_ok (c : probecase) : bool :=
    let '(site, s, lit, obs) := c in
    let s' := site_payload site s in
    valid_str s' && quote_ok py_keywords (site_disc emit_sites site) s'.

  (* the characterisation theorem, instantiated: verdict = the literal is read back as s *)
  Definition probe_theorem_violated (printable : N -> bool) (c : probecase) : bool :=
    let '(site, s, lit, obs) := c in
    let s' := site_payload site s in
    let q := site_disc emit_sites site in
    negb (Bool.eqb (probe_model_ok c)
                   (opt_lex_eqb (lex_tok py_keywords q (emit printable q s')) (Some (s', [])))).

  (* ---- stream "class": a whole class of the modelled fragment; obs = the generated source, or None
     when the generator raised *)
  Definition classcase := (jclass * option (list N))%type.

  Definition class_mismatch (printable : N -> bool) (c : classcase) : bool :=
    let '(cls, obs) := c in
    match class_toks cls, obs with
    | Some toks, Some txt => negb (pystr_eqb (render printable emit_sites toks) txt)
    | None, None => false
    | _, _ => true
    end.

  Definition class_bad_sep (c : classcase) : bool :=
    let '(cls, obs) := c in
    match class_toks cls with Some toks => negb (well_sep toks) | None => false end.

  (* model prediction: the output is read back as the strings of the schema *)
  Definition class_predicted_ok (c : classcase) : bool :=
    let '(cls, obs) := c in
    match class_toks cls with
    | Some toks => all_sites_ok py_keywords emit_sites toks
    | None => false
    end.

  (* the real output, tokenised along the generator's layout by the lexer model *)
  Definition class_real_relex_ok (c : classcase) : bool :=
    let '(cls, obs) := c in
    match class_toks cls, obs with
    | Some toks, Some txt =>
        match relex py_keywords emit_sites (map shape_of toks) txt with
        | Some l => forallb (fun p => pystr_eqb (fst p) (snd p)) (combine l (leaves toks))
                    && Nat.eqb (List.length l) (List.length (leaves toks))
        | None => false
        end
    | _, _ => false
    end.

  Definition class_crashes (c : classcase) : bool :=
    let '(cls, obs) := c in match class_toks cls with None => true | Some _ => false end.

(* the sites of the current table that are not safe for every string, with their witness strings *)
Definition unsafe_sites : list (pystr * quoting) :=
  filter (fun p => negb (discipline_total (snd p))) emit_sites.

(* ---- stream "module": definitions + main class through write_code_from_schema (GENERATED layout
   Gen/ModuleLayout.v).
   txt = the text of the written file (None: the generator raised);
   ran = None: the file was not executed (or failed for another reason than a NameError);
         Some None: it executed to the end; Some (Some n): it raised NameError on name n. *)
Definition modcase := (list jclass * jclass * option (list N) * option (option pystr))%type.

Definition module_mismatch (printable : N -> bool) (c : modcase) : bool :=
  let '(defs, main, obs, ran) := c in
  match module_toks module_layout defs_joiner defs main, obs with
  | Some toks, Some txt => negb (pystr_eqb (render printable emit_sites toks) txt)
  | None, None => false
  | _, _ => true
  end.

Definition opt_str_eqb (a b : option pystr) : bool :=
  match a, b with
  | Some x, Some y => pystr_eqb x y
  | None, None => true
  | _, _ => false
  end.

(* the model's name resolution over the class statements of the generated layout against what CPython did *)
Definition module_names_mismatch (c : modcase) : bool :=
  let '(defs, main, obs, ran) := c in
  match ran with
  | Some r => negb (opt_str_eqb (first_unbound [] (module_classes module_layout defs main)) r)
              || negb (Bool.eqb (module_names_ok [] module_layout defs main)
                                (match r with None => true | Some _ => false end))
  | None => false
  end.

Definition module_predicted_ok (c : modcase) : bool :=
  let '(defs, main, obs, ran) := c in module_names_ok [] module_layout defs main.

Definition module_bad_sep (c : modcase) : bool :=
  let '(defs, main, obs, ran) := c in
  match module_toks module_layout defs_joiner defs main with
  | Some toks => negb (well_sep toks)
  | None => false
  end.

(* the module's text, tokenised along the generator's layout by the lexer model, gives back the schema's strings *)
Definition module_real_relex_ok (c : modcase) : bool :=
  let '(defs, main, obs, ran) := c in
  match module_toks module_layout defs_joiner defs main, obs with
  | Some toks, Some txt =>
      match relex py_keywords emit_sites (map shape_of toks) txt with
      | Some l => forallb (fun p => pystr_eqb (fst p) (snd p)) (combine l (leaves toks))
                  && Nat.eqb (List.length l) (List.length (leaves toks))
      | None => false
      end
  | _, _ => false
  end.

Definition module_sites_predicted_ok (c : modcase) : bool :=
  let '(defs, main, obs, ran) := c in
  match module_toks module_layout defs_joiner defs main with
  | Some toks => all_sites_ok py_keywords emit_sites toks
  | None => false
  end.

(* ---- the required list across the round trip: obs = the "required" structure_to_schema returned for the
   class built from the generated source *)
Definition reqcase := (jclass * list pystr)%type.

Definition required_mismatch (c : reqcase) : bool :=
  let '(cls, obs) := c in
  match roundtrip_required cls with
  | Some r => negb (same_members r obs)
  | None => true
  end.

Fixpoint nodupb (l : list pystr) : bool :=
  match l with [] => true | x :: t => negb (str_in x t) && nodupb t end.

(* the hypotheses of C09_required_roundtrip *)
Definition required_hypotheses (c : reqcase) : bool :=
  let '(cls, obs) := c in
  match c_required cls with
  | Some req => nodupb req && forallb (fun x => str_in x req) (defaulted (c_props cls))
  | None => false
  end.

(* ... and its conclusion, on what the implementation returned *)
Definition required_theorem_violated (c : reqcase) : bool :=
  let '(cls, obs) := c in
  required_hypotheses c &&
  match c_required cls with Some req => negb (same_members obs req) | None => false end.
