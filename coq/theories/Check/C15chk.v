(* Case type and boolean functions evaluated by the C15 correspondence harness. *)
From Coq Require Import NArith List Bool String. Import ListNotations.
From TP Require Export Base.PyVal Base.PyEq Global.Keys Global.History Gen.Globals.

(* the memo table of the model stands for every cache of typedpy: it gets the kind of the first cache the
   generated layer reports as unsafe, or (class, flags) when all are safe *)
Definition eff_ck : keykind :=
  match unsafe_caches caches with
  | [] => ClassAndFlags
  | c :: _ => cache_kind c
  end.

Definition std_an (e : rentry) (fl : N) : N := (snd (fst e) * 16 + fl)%N.

Definition behT := (list (option (rentry * option N * list N)) * list bool)%type.
Definition behT_eq_dec (a b : behT) : {a = b} + {a <> b}.
Proof. repeat decide equality. Defined.

(* history (definitions explicit), the history of the class alone, the class statement,
   observed: does the class differ from alone because of a registry collision *)
Definition case := (list event * list event * list cdef * bool)%type.

Section WithOrigs.
  Variable origs : list (N * bool).
  Definition model_beh (h : list event) (stmt : list cdef) : behT :=
    beh eff_ck std_an origs (run registry_key eff_ck std_an h g0) stmt.
  Definition predicted_differs (c : case) : bool :=
    let '(h, href, stmt, obs) := c in
    if behT_eq_dec (model_beh h stmt) (model_beh href stmt) then false else true.
  Definition mismatch (c : case) : bool :=
    let '(h, href, stmt, obs) := c in xorb (predicted_differs c) obs.
  (* the hypotheses of C15_independent *)
  Definition hyps (c : case) : bool :=
    let '(h, href, stmt, obs) := c in
    consistent_b (cdefs_of h) && no_collision_b registry_key (utypes_of h) &&
    kind_safe_for DepClassAndFlags eff_ck && defines_b h stmt && no_config_b h stmt &&
    (if list_eq_dec bool_dec (dview origs (run registry_key eff_ck std_an h g0)) (dview origs g0) then true else false).
End WithOrigs.

(* what the generated layer says today *)
Definition registry_safe : bool := registry_kind_injective registry_key.
Definition caches_safe : bool := match unsafe_caches caches with [] => true | _ => false end.
Definition counter_safe : bool := match sref_counter_use with OnlyInlineClassName => true | _ => false end.
