(* Case type and boolean checks for the differential validation of the GENERATED layer of C08
   (harness/c08_src.py): for a declaration f of the field AST, realised as a real typedpy Field object o,
     * view_mismatch: the Python-level view of the declaration that Schema/SchemaSrcProofs.v uses
       ([field_obj f]) is the object o, reified (class name + the attributes the mappers read);
     * src_mismatch: the GENERATED translation of convert_to_schema (Gen/SchemaSrc.v), run on the reified real
       object, returns exactly what the real convert_to_schema returned (same keys, same order, same values),
       and raises when it raised.
   Together with the theorems of SchemaSrcProofs.v this closes the triangle source / translation / hand model. *)
From Coq Require Import ZArith NArith String List Bool. Import ListNotations.
From TP Require Export Base.PyVal Base.PyEq Base.PyOps Base.PyOps2 Base.PyOpsSchema Fields.FieldAst
     Schema.Draft4 Schema.ToSchema Gen.SchemaSrc Schema.SchemaSrcProofs.

Definition vptable := list (N * pystr).
Definition vpat_text (t : vptable) (p : N) : pystr :=
  match find (fun e => N.eqb (fst e) p) t with Some e => snd e | None => [] end.

Definition veinfo_of (l : list (pystr * eopts)) : einfo_t :=
  fun cn => match alist_get l cn with Some o => o | None => no_einfo cn end.

Record vcase := { vc_pats : vptable;
                  vc_einfo : list (pystr * eopts);   (* per enum class: mix-in, serialization_by_value of its fields *)
                  vc_field : field;
                  vc_obj : pyval;                 (* the real Field object, reified *)
                  vc_out : option pyval }.        (* what the real convert_to_schema(o, {}) returned; None: it raised *)

(* no class references in these cases: structure_to_schema is never reached *)
Definition no_s2s (c sm : pyval) : res pyval := Raise Unmodelled.
Definition ok_store (k v : pyval) : res unit := Ok tt.
Definition VFUEL : nat := 40.

Definition view_mismatch (c : vcase) : bool :=
  negb (pyval_eqb (field_obj (vpat_text (vc_pats c)) (veinfo_of (vc_einfo c)) (vc_field c)) (vc_obj c)).

Definition src_mismatch (c : vcase) : bool :=
  match convert_to_schema no_s2s ok_store VFUEL (vc_obj c) PNone, vc_out c with
  | Ok j, Some j' => negb (pyval_eqb j j')
  | Raise TypeError, None | Raise NotImplementedError, None => false
  | _, _ => true
  end.

(* the hand model against the same observation, exactly (key order included) *)
Definition model_mismatch (c : vcase) : bool :=
  match vc_out c with
  | Some j' => negb (mappable (veinfo_of (vc_einfo c)) (vc_field c)
                     && pyval_eqb (sch_json (vpat_text (vc_pats c)) (fschema (veinfo_of (vc_einfo c)) (vc_field c))) j')
  | None => mappable (veinfo_of (vc_einfo c)) (vc_field c)
  end.
