(* C04, class-option lattice (harness/c04opts.py): what the harness evaluates in Coq for every setattr probe on a
   constructor-built instance.  The prediction is the GENERATED effect list of Structure.__setattr__
   (Gen/StructNoneFields.v, re-translated from the source on every run) evaluated on the heap of the probe's class
   options (Struct/NoneFieldsProofs.v undef_heap) and executed on the two-component instance state of
   Struct/NoneFields.v (attributes, explicit-None markers).  Executable; no proofs here. *)
From Coq Require Import ZArith NArith String List Bool. Import ListNotations.
From TP Require Import Base.PyVal Base.PyEq Base.PyOps Base.PyObj Fields.FieldAst Struct.Shapes Struct.Instance
  Struct.Mutate Struct.StructGuardProofs Struct.NoneFields Struct.NoneFieldsProofs Gen.StructNoneFields.
From TP Require Export Struct.ImmutableOptions.

Inductive pval := VNone | VSame | VOther | VBad.
Inductive pobs := ORaised | OSilent | OChanged.

Record probe := {
  p_imm : bool;          (* the class is an ImmutableStructure *)
  p_fimm : bool;         (* the field is declared immutable=True *)
  p_eu : bool;           (* _enable_undefined_value *)
  p_ign : bool;          (* _ignore_none *)
  p_ap : bool;           (* _additional_properties (resolved) *)
  p_field : bool;        (* the key is a declared field *)
  p_required : bool;
  p_sunder : bool;
  p_has : bool;          (* the attribute holds a value *)
  p_val : pval;
  p_obs : pobs;
  p_valerr : bool        (* the exception observed was a ValueError *)
}.

Definition probe_key (p : probe) : pystr :=
  if p_field p then s2p "f" else if p_sunder p then s2p "_zz" else s2p "zz".

Definition probe_class (p : probe) : classdef :=
  opt_class (p_imm p) (p_fimm p) (p_ign p) (p_ap p) (p_required p).

Definition probe_state (p : probe) : ustate :=
  {| u_attrs := if p_field p && p_has p then [(s2p "f", PNum (NInt 3))] else []; u_none := [] |}.

Definition probe_value (p : probe) : pyval :=
  match p_val p with
  | VNone => PNone
  | VSame => PNum (NInt 3)
  | VOther => PNum (NInt 4)
  | VBad => PStr (s2p "bad")
  end.

Definition ustate_eqb (a b : ustate) : bool :=
  pyval_eqb (PStruct (s2p "K") (u_attrs a)) (PStruct (s2p "K") (u_attrs b)) &&
  pyval_eqb (PList (map PStr (u_none a))) (PList (map PStr (u_none b))).

(* the model's prediction: None = the generated translation declines (Unmodelled) *)
Definition predict (p : probe) : option pobs :=
  match Structure__setattr_nf (undef_heap (probe_class p) (p_eu p) true (u_attrs (probe_state p))) (PStr (probe_key p)) (probe_value p) with
  | Raise Unmodelled => None
  | d =>
      let r := run_decision (fun _ _ => true) [] (probe_class p) true (probe_state p) (probe_key p) d in
      Some (match snd r with
            | Raised _ => ORaised
            | Done => if ustate_eqb (fst r) (probe_state p) then OSilent else OChanged
            end)
  end.

Definition pobs_eqb (a b : pobs) : bool :=
  match a, b with ORaised, ORaised | OSilent, OSilent | OChanged, OChanged => true | _, _ => false end.

(* the guard prefix itself raises (before any descriptor runs): then the exception class is ValueError *)
Definition prefix_raises (p : probe) : bool :=
  match Structure__setattr_nf (undef_heap (probe_class p) (p_eu p) true (u_attrs (probe_state p))) (PStr (probe_key p)) (probe_value p) with
  | Raise ValueError => true
  | _ => false
  end.

Definition opt_mismatch (p : probe) : bool :=
  match predict p with
  | None => false
  | Some o => negb (pobs_eqb o (p_obs p)) || (prefix_raises p && negb (p_valerr p))
  end.

Definition declined (p : probe) : bool := match predict p with None => true | _ => false end.
