(* C20, caches: what the harness evaluates by vm_compute about the GENERATED cache protocols
   (Gen/CacheAccess.v) and about REAL logged accesses to the caches.  No proofs here. *)
From Coq Require Import List Arith Bool String. Import ListNotations.
From TP Require Export Global.Threads Global.Cache Gen.CacheAccess.

(* classification of every table entry, and the model's witness schedule for the racy ones:
   (writer protocol, steps of the writer, reader protocol, steps of the reader) *)
Definition cache_verdicts : list nat := map (fun e => cverdict_code (centry_verdict e)) cache_access.

Definition witness_flat (w : option (nat * nat * nat * nat)) : list nat :=
  match w with Some (a, b, c, d) => [1; a; b; c; d] | None => [0; 0; 0; 0; 0] end.
Definition cache_witnesses : list nat := flat_map (fun e => witness_flat (centry_witness e)) cache_access.

Definition cache_removal_witnesses : list nat := flat_map (fun e => witness_flat (centry_removal_witness e)) cache_access.

(* the line tag of the placeholder store of the witness's writer *)
Definition placeholder_tag (e : centry) : nat :=
  match centry_witness e with
  | Some (a, _, _, _) =>
      match find_placeholder [] (nth a (centry_progs e) []) with Some (_, tag, _) => tag | None => 0 end
  | None => 0
  end.
Definition cache_placeholder_tags : list nat := map placeholder_tag cache_access.

(* ---- correspondence: one case = the accesses ONE real call of a table function made to the cache ---- *)
Inductive cev :=
| EvHit                     (* one-step lookup (get) that found the key *)
| EvMiss
| EvStore (final : bool)    (* final: the stored object IS the object the call returned, and was not changed in between *)
| EvClear
| EvCheck (found : bool)    (* membership test *)
| EvRead (found : bool).    (* subscript read *)

Record cachecase := { cc_entry : nat; cc_prog : nat; cc_evs : list cev }.

Definition cev_matches (a : cact) (e : cev) : bool :=
  match a, e with
  | CLookup, EvHit => true
  | CLookup, EvMiss => true
  | CStore CFinal, EvStore true => true
  | CStore (COther _), EvStore _ => true      (* the generator may be pessimistic, never optimistic *)
  | CClear, EvClear => true
  | CCheck, EvCheck _ => true
  | CRead, EvRead _ => true
  | _, _ => false
  end.

(* the logged accesses are, in order, accesses of the generated protocol (guards such as `if cachable`
   may skip some); a hit ends the call *)
Fixpoint ctrace_lax (p : cprog) (evs : list cev) {struct p} : bool :=
  match evs with
  | [] => true
  | e :: r =>
      match p with
      | [] => false
      | a :: p' =>
          if cev_matches a e
          then match e with
               | EvHit | EvRead _ => match r with [] => true | _ => false end
               | _ => ctrace_lax p' r
               end
          else ctrace_lax p' evs
      end
  end.

Definition prog_of (c : cachecase) : cprog :=
  nth (cc_prog c) (centry_progs (nth (cc_entry c) cache_access
                                     {| ce_name := "?"; ce_kind := ""; ce_file := ""; ce_progs := [] |})) [].

Definition cache_mismatch (c : cachecase) : bool := negb (ctrace_lax (prog_of c) (cc_evs c)).

(* the property's clause on the observed accesses: a value that is not the returned one became visible *)
Definition stores_nonfinal (c : cachecase) : bool :=
  existsb (fun e => match e with EvStore false => true | _ => false end) (cc_evs c).

Fixpoint cidx_where {A} (f : A -> bool) (l : list A) (i : nat) : list nat :=
  match l with
  | [] => []
  | x :: t => if f x then i :: cidx_where f t (S i) else cidx_where f t (S i)
  end.
