(* Case types and boolean functions evaluated by the C05/C06 harness (harness/props/c05.py, c06.py). *)
From Coq Require Import ZArith NArith String List Bool. Import ListNotations.
From TP Require Export Base.PyVal Base.PyEq Fields.FieldAst Fields.SetChain Fields.Doc Struct.Instance
  Ser.Json Ser.Serialize Ser.Deserialize Check.Fieldchk.

Definition FUEL : nat := 8.

(* ---- serialization: an instance, the compact flag, what Serializer(x).serialize(compact=..) did *)
Record scase := { sc_tbl : table; sc_env : env; sc_ens : enums; sc_compact : bool; sc_inst : pyval;
                  sc_obs : res pyval }.

Definition smodel (c : scase) : res pyval :=
  serialize (tbl_match (sc_tbl c)) (sc_env c) (sc_ens c) FUEL (sc_compact c) (sc_inst c).

Definition declines {A} (r : res A) : bool :=
  match r with Raise x => model_exn x | _ => false end.

Definition sunmodelled (c : scase) : bool := declines (smodel c).
Definition smismatch (c : scase) : bool := negb (sunmodelled c) && negb (res_val_equiv (smodel c) (sc_obs c)).
(* C05, first clause, on the observed output *)
Definition simpure (c : scase) : bool := match sc_obs c with Ok j => negb (json_pure j) | Raise _ => true end.

(* ---- deserialization: class, document, flags, what Deserializer(cls).deserialize(doc, keep_undefined=ku) did *)
Record dcase := { dc_tbl : table; dc_env : env; dc_ens : enums; dc_flags : dflags; dc_ku : option bool;
                  dc_cls : pystr; dc_doc : pyval; dc_obs : res pyval }.

Definition dmodel (c : dcase) : res pyval :=
  deserialize (tbl_match (dc_tbl c)) (dc_env c) (dc_ens c) (dc_flags c) FUEL (dc_ku c) (dc_cls c) (dc_doc c).

Definition dunmodelled (c : dcase) : bool := declines (dmodel c).
Definition dmismatch (c : dcase) : bool := negb (dunmodelled c) && negb (res_val_equiv (dmodel c) (dc_obs c)).
(* C06 error class on the observation *)
Definition dbadexn (c : dcase) : bool := match dc_obs c with Raise x => negb (is_te_ve x) | Ok _ => false end.

(* ---- C06: the documented reading (Ser/DocReading.v) against the observation *)
From TP Require Export Ser.DocReading.

Definition dspec (c : dcase) : res pyval :=
  match dc_ku c with
  | Some b => spec_deser (tbl_match (dc_tbl c)) (dc_env c) (dc_ens c) (dc_flags c) FUEL b (dc_cls c) (dc_doc c)
  | None => Raise Unmodelled
  end.

Definition dspec_declines (c : dcase) : bool := declines (dspec c).
(* accepted exactly when documented, equal results, rejections are TypeError/ValueError *)
Definition dspec_fail (c : dcase) : bool := negb (dspec_declines c) && negb (res_equiv_tv (dspec c) (dc_obs c)).
(* the two models against each other (what C06_agree is about), for the evidence *)
Definition dmodels_differ (c : dcase) : bool :=
  negb (dspec_declines c) && negb (dunmodelled c) && negb (res_equiv_tv (dspec c) (dmodel c)).
