(* Case type and comparison functions for the class-definition correspondence (C12 / C14):
   a case is a little program of class statements / derivations together with what the real typedpy
   produced for each step (the observable facts of the class object, or the exception class). *)
From Coq Require Import ZArith NArith String List Bool. Import ListNotations.
From TP Require Export Base.PyVal Base.PyEq Fields.FieldAst Fields.SetChain Struct.Define Struct.Derive Struct.Faults.
From TP Require Import Check.Fieldchk.

Inductive action :=
| ADef (s : classstmt)
| AMixin (name : pystr)
| ADerive (src : pystr) (o : op) (cname : option pystr).

Record obs_class := {
  oc_name : pystr;
  oc_fields : list pystr;                         (* get_all_fields_by_name().keys() *)
  oc_required : list pystr;                       (* _required *)
  oc_sig_req : list pystr;                        (* __signature__ *)
  oc_sig_opt : list pystr;
  oc_kwargs : bool;
  oc_consts : list (pystr * pyval);               (* _constants *)
  oc_mro : list pystr;                            (* __mro__ names, without UniqueMixin/object *)
  oc_defaults : list (pystr * option defval);     (* _default of every Field member *)
  oc_ignore_none : bool;                          (* getattr(cls, '_ignore_none', False) *)
  oc_immutable : bool }.                          (* getattr(cls, '_immutable', False) *)

Record dcase := { dc_tbl : table; dc_guards : guards; dc_prog : list (action * res obs_class) }.

Definition step (tbl : table) (gd : guards) (g : genv) (a : action) : res klass :=
  match a with
  | ADef s => define (tbl_match tbl) [] gd g s
  | AMixin n => Ok (mixin n)
  | ADerive src o cn =>
      match find_klass g src with
      | Some k => derive (tbl_match tbl) [] gd g k o cn
      | None => Raise Unmodelled
      end
  end.

Fixpoint list_eqb {A} (f : A -> A -> bool) (a b : list A) : bool :=
  match a, b with
  | [], [] => true
  | x :: a', y :: b' => f x y && list_eqb f a' b'
  | _, _ => false
  end.

Definition defval_eqb (a b : option defval) : bool :=
  match a, b with
  | None, None => true
  | Some (DLit x), Some (DLit y) => pyval_eqb x y
  | Some (DFactory x), Some (DFactory y) => pyval_eqb x y
  | _, _ => false
  end.

Definition consts_sub (a b : list (pystr * pyval)) : bool :=
  forallb (fun p => existsb (fun q => pystr_eqb (fst p) (fst q) && pyval_eqb (snd p) (snd q)) b) a.

Definition member_default (m : member) : option defval :=
  match m with MField f => fo_default f | MConst _ => None end.

Definition klass_matches (g : genv) (k : klass) (oc : obs_class) : bool :=
  pystr_eqb (k_name k) (oc_name oc) &&
  seteq_str (field_names k) (oc_fields oc) &&
  seteq_str (k_required k) (oc_required oc) &&
  seteq_str (k_sig_req k) (oc_sig_req oc) &&
  seteq_str (k_sig_opt k) (oc_sig_opt oc) &&
  Bool.eqb (k_sig_kwargs k) (oc_kwargs oc) &&
  consts_sub (k_constants k) (oc_consts oc) && consts_sub (oc_consts oc) (k_constants k) &&
  list_eqb pystr_eqb (k_mro k) (oc_mro oc) &&
  forallb (fun nd => match alist_get (k_all k) (fst nd) with
                     | Some (MField f) => defval_eqb (fo_default f) (snd nd)
                     | _ => false
                     end) (oc_defaults oc) &&
  Nat.eqb (length (filter (fun nm => negb (is_const (snd nm))) (k_all k))) (length (oc_defaults oc)) &&
  Bool.eqb (resolve_ignore_none g (k_mro k)) (oc_ignore_none oc) &&
  Bool.eqb (is_immutable_class k) (oc_immutable oc).

(* indices of the steps on which model and implementation disagree *)
Fixpoint run_prog (tbl : table) (gd : guards) (g : genv) (prog : list (action * res obs_class)) (i : nat)
  : list nat :=
  match prog with
  | [] => []
  | (a, o) :: t =>
      match step tbl gd g a, o with
      | Raise Unmodelled, _ => []
      | Ok k, Ok oc => (if klass_matches (k :: g) k oc then [] else [i]) ++ run_prog tbl gd (k :: g) t (S i)
      | Raise x, Raise y => (if exn_equiv x y then [] else [i]) ++ run_prog tbl gd g t (S i)
      | Ok _, Raise _ => [i]
      | Raise _, Ok _ => [i]
      end
  end.

Fixpoint prog_unmodelled (tbl : table) (gd : guards) (g : genv) (prog : list (action * res obs_class)) : bool :=
  match prog with
  | [] => false
  | (a, o) :: t =>
      match step tbl gd g a with
      | Raise Unmodelled => true
      | Ok k => prog_unmodelled tbl gd (k :: g) t
      | Raise _ => prog_unmodelled tbl gd g t
      end
  end.

Definition dmismatch (c : dcase) : bool :=
  match run_prog (dc_tbl c) (dc_guards c) genv0 (dc_prog c) 0 with [] => false | _ => true end.
Definition dmismatch_steps (c : dcase) : list nat := run_prog (dc_tbl c) (dc_guards c) genv0 (dc_prog c) 0.
Definition dunmodelled (c : dcase) : bool := prog_unmodelled (dc_tbl c) (dc_guards c) genv0 (dc_prog c).

(* what the model itself produces for the last step (diagnostics) *)
Fixpoint model_last (tbl : table) (gd : guards) (g : genv) (prog : list (action * res obs_class)) : res klass :=
  match prog with
  | [] => Raise Unmodelled
  | [(a, _)] => step tbl gd g a
  | (a, _) :: t => match step tbl gd g a with Ok k => model_last tbl gd (k :: g) t | Raise _ => model_last tbl gd g t end
  end.

(* ------------------------------------------------------------------ spec clauses on OBSERVED classes *)

Fixpoint find_obs (seen : list obs_class) (n : pystr) : option obs_class :=
  match seen with
  | [] => None
  | o :: t => if pystr_eqb (oc_name o) n then Some o else find_obs t n
  end.

(* the members of an observed class, as far as the documented sets need them *)
Definition obs_members (o : obs_class) : members :=
  map (fun n => (n, match alist_get (oc_consts o) n with
                    | Some v => MConst v
                    | None => MField {| fo_field := FAnything; fo_immutable := false;
                                        fo_default := match alist_get (oc_defaults o) n with Some d => d | None => None end |}
                    end)) (oc_fields o).

Definition obs_default (o : obs_class) (n : pystr) : option defval :=
  match alist_get (oc_defaults o) n with Some d => d | None => None end.

(* C12 on one derivation: failing clause numbers
   1 field set, 2 required set, 3 subclass of the source, 4 a default changed,
   5 bad name not a TypeError/ValueError, 6 documented class not produced, 7 _ignore_none differs *)
Definition c12_clauses (os : obs_class) (o : op) (od : res obs_class) : list nat :=
  let src := obs_members os in
  match doc_fields o src, od with
  | Raise _, Raise x => if is_te_ve x then [] else [5%nat]
  | Raise _, Ok _ => [5%nat]
  | Ok _, Raise _ => [6%nat]
  | Ok ms, Ok d =>
      (if seteq_str (oc_fields d) (map fst ms) then [] else [1%nat]) ++
      (if seteq_str (oc_required d) (doc_required o src (oc_required os)) then [] else [2%nat]) ++
      (if str_in (oc_name os) (oc_mro d) then [3%nat] else []) ++
      (if forallb (fun n => negb (alist_has (oc_defaults d) n) ||
                            defval_eqb (obs_default d n) (obs_default os n)) (oc_fields d) then [] else [4%nat]) ++
      (if Bool.eqb (oc_ignore_none d) (oc_ignore_none os) then [] else [7%nat])
  end.

Fixpoint c12_spec (seen : list obs_class) (prog : list (action * res obs_class)) (i : nat) : list (nat * nat) :=
  match prog with
  | [] => []
  | (a, o) :: t =>
      (match a with
       | ADerive src op _ =>
           match find_obs seen src with
           | Some os => map (fun c => (i, c)) (c12_clauses os op o)
           | None => []
           end
       | _ => []
       end) ++
      c12_spec (match o with Ok oc => oc :: seen | Raise _ => seen end) t (S i)
  end.

Definition c12_spec_fail (c : dcase) : list (nat * nat) := c12_spec [] (dc_prog c) 0.
Definition has_spec_fail (f : dcase -> list (nat * nat)) (c : dcase) : bool :=
  match f c with [] => false | _ => true end.

(* hypotheses of C12_required / C12_compose hold for the observed source *)
Definition obs_req_wf (o : obs_class) : bool := req_wfb (obs_members o) (oc_required o).

(* ------------------------------------------------------------------ C14 on observed classes *)

Definition is_builtin_name (n : pystr) : bool :=
  pystr_eqb n n_Structure || pystr_eqb n n_Immutable || pystr_eqb n n_Final || pystr_eqb n n_Abstract.

(* clause numbers: 1 a base's field is missing, 2 a non-constant field required by a base is not
   required, 3 an inherited (not redeclared) field lost/changed its default *)
Definition c14_clauses (seen : list obs_class) (s : classstmt) (d : obs_class) : list nat :=
  flat_map (fun b =>
    match find_obs seen b with
    | None => []
    | Some ob =>
        (if subset_str (oc_fields ob) (oc_fields d) then [] else [1%nat]) ++
        (if forallb (fun n => negb (str_in n (oc_fields ob)) || alist_has (oc_consts ob) n ||
                              str_in n (oc_required d)) (oc_required ob) then [] else [2%nat]) ++
        (match s_bases s with
         | [_] =>
             if forallb (fun n => alist_has (s_members s) n || negb (alist_has (oc_defaults ob) n) ||
                                  defval_eqb (obs_default d n) (obs_default ob n)) (oc_fields ob)
             then [] else [3%nat]
         | _ => []
         end)
    end) (s_bases s).

Fixpoint c14_spec (seen : list obs_class) (prog : list (action * res obs_class)) (i : nat) : list (nat * nat) :=
  match prog with
  | [] => []
  | (a, o) :: t =>
      (match a, o with
       | ADef s, Ok d => map (fun c => (i, c)) (c14_clauses seen s d)
       | _, _ => []
       end) ++
      c14_spec (match o with Ok oc => oc :: seen | Raise _ => seen end) t (S i)
  end.

Definition c14_spec_fail (c : dcase) : list (nat * nat) := c14_spec [] (dc_prog c) 0.

(* clause 4x: a class statement with one of the listed faults (Struct/Faults.v, evaluated in the model's
   environment) was nevertheless accepted by the implementation; x says which fault:
   41 falsy invalid default=, 42 truthy invalid default=, 43 invalid `= value`, 44 mutable literal default,
   45 Constant type, 46 field name, 47 _optional over required, 48 Immutable/Final base, 49 unknown attribute,
   50 non-typedpy type *)
Definition fault_codes (rm : N -> pystr -> bool) (gd : guards) (g : genv) (s : classstmt) : list nat :=
  (if any_member (fault_kw_default rm []) s && negb (any_member (fault_kw_default_truthy rm []) s) then [41%nat] else []) ++
  (if any_member (fault_kw_default_truthy rm []) s then [42%nat] else []) ++
  (if any_member (fault_eq_default rm []) s then [43%nat] else []) ++
  (if any_member fault_mutable_default s then [44%nat] else []) ++
  (if any_member fault_bad_const s then [45%nat] else []) ++
  (if fault_name s then [46%nat] else []) ++
  (if fault_optional rm [] gd g s then [47%nat] else []) ++
  (if fault_final_base g s then [48%nat] else []) ++
  (if fault_unknown_attr gd s then [49%nat] else []) ++
  (if fault_non_typedpy gd s then [50%nat] else []).

Fixpoint c14_faults (tbl : table) (gd : guards) (g : genv) (prog : list (action * res obs_class)) (i : nat)
  : list (nat * nat) :=
  match prog with
  | [] => []
  | (a, o) :: t =>
      (match a, o with
       | ADef s, Ok _ => map (fun c => (i, c)) (fault_codes (tbl_match tbl) gd g s)
       | _, _ => []
       end) ++
      match step tbl gd g a with
      | Ok k => c14_faults tbl gd (k :: g) t (S i)
      | Raise _ => c14_faults tbl gd g t (S i)
      end
  end.

Definition c14_fault_fail (c : dcase) : list (nat * nat) := c14_faults (dc_tbl c) (dc_guards c) genv0 (dc_prog c) 0.
Definition c14_all_fail (c : dcase) : list (nat * nat) := c14_spec_fail c ++ c14_fault_fail c.
