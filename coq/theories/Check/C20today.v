(* What the model decides about TODAY's generated access lists (Gen/SharedAccess.v), one Example per
   validator, by vm_compute.  Not imported by Props/C20.v: a fix of typedpy that makes a racy entry
   safe breaks only the corresponding Example here (the harness reports which). *)
From Coq Require Import List Arith Bool Lia. Import ListNotations.
From TP Require Import Global.Threads Global.ThreadsProofs Global.SharedName Global.SharedNameProofs
     Gen.SharedAccess Props.C20.

(* racy today: the shared item field's name is rewritten per element (F15) *)
Example today_Array_Each_racy : classify sa_Array_Each = Racy. Proof. vm_compute. reflexivity. Qed.
Example today_Deque_Each_racy : classify sa_Deque_Each = Racy. Proof. vm_compute. reflexivity. Qed.
Example today_Tuple_Uniform_racy : classify sa_Tuple_Uniform = Racy. Proof. vm_compute. reflexivity. Qed.
(* safe today: every cell receives one constant, written before it is read *)
Example today_Array_Positional_safe : classify sa_Array_Positional = SafeIdempotent. Proof. vm_compute. reflexivity. Qed.
Example today_Deque_Positional_safe : classify sa_Deque_Positional = SafeIdempotent. Proof. vm_compute. reflexivity. Qed.
Example today_Tuple_Positional_safe : classify sa_Tuple_Positional = SafeIdempotent. Proof. vm_compute. reflexivity. Qed.
Example today_Set_safe : classify sa_Set = SafeIdempotent. Proof. vm_compute. reflexivity. Qed.
Example today_ImmutableSet_safe : classify sa_ImmutableSet = SafeIdempotent. Proof. vm_compute. reflexivity. Qed.
Example today_Map_safe : classify sa_Map = SafeIdempotent. Proof. vm_compute. reflexivity. Qed.
Example today_AllOf_safe : classify sa_AllOf = SafeIdempotent. Proof. vm_compute. reflexivity. Qed.
Example today_AnyOf_safe : classify sa_AnyOf = SafeIdempotent. Proof. vm_compute. reflexivity. Qed.
Example today_OneOf_safe : classify sa_OneOf = SafeIdempotent. Proof. vm_compute. reflexivity. Qed.
Example today_NotField_safe : classify sa_NotField = SafeIdempotent. Proof. vm_compute. reflexivity. Qed.
(* lazily installed serializers: closures over the declaration only *)
Example today_Array_serialize_const : classify sa_Array_serialize = CacheConst. Proof. vm_compute. reflexivity. Qed.
Example today_Tuple_serialize_const : classify sa_Tuple_serialize = CacheConst. Proof. vm_compute. reflexivity. Qed.
Example today_Set_serialize_const : classify sa_Set_serialize = CacheConst. Proof. vm_compute. reflexivity. Qed.

(* consequently: Map's threads are safe under every schedule ... *)
Example today_Map_all_schedules : forall m0 tr i,
    interleave (sample_threads sa_Map) tr -> i < 3 ->
    obs_in m0 tr i = obs_seq m0 (nth i (sample_threads sa_Map) []).
Proof. intros. apply C20_classified_safe; [right; exact today_Map_safe | assumption | assumption]. Qed.

(* ... and the full statement is refuted by Array.Each (F15): the constructed schedule *)
Theorem C20_statement_refuted_today : ~ C20_statement.
Proof.
  intro H.
  destruct (C20_classified_racy sa_Array_Each today_Array_Each_racy) as [tr [Hil Hne]].
  (* the two-thread witness, followed by the third sample thread *)
  set (t2 := nth 2 (sample_threads sa_Array_Each) []).
  pose proof (interleave_extend t2 tr _ _ Hil) as Hil3.
  change [nth 0 (sample_threads sa_Array_Each) []; nth 1 (sample_threads sa_Array_Each) []; t2]
    with (sample_threads sa_Array_Each) in Hil3.
  specialize (H sa_Array_Each (or_introl eq_refl) (fun _ => []) (tr ++ tag 2 t2) 0 Hil3 (Nat.lt_0_succ _)).
  apply (Hne (fun _ => []) (fun _ => [])).
  rewrite <- H. symmetry. apply obs_in_extend. discriminate.
Qed.
Print Assumptions C20_statement_refuted_today.

(* caches, today: the aggregated-mapper cache only ever holds the returned mapper *)
From TP Require Import Global.Cache Global.CacheProofs Gen.CacheAccess.
Example today_mapper_cache_safe :
  centry_verdict ca_serialization_mappers_aggregated_mapper_by_class = CacheSafe.
Proof. vm_compute. reflexivity. Qed.
