(* Case type and comparison functions for the field-level correspondence (C01/C02). *)
From Coq Require Import ZArith NArith String List Bool. Import ListNotations.
From TP Require Export Base.PyVal Base.PyEq Fields.FieldAst Fields.SetChain Fields.Doc Fields.Domain.

Definition table := list (N * list pystr).
Definition tbl_match (t : table) (p : N) (s : pystr) : bool :=
  existsb (fun e => N.eqb (fst e) p && existsb (pystr_eqb s) (snd e)) t.

(* the statement's domain for C02 (Fields/Domain.v) and no non-finite float anywhere *)
Fixpoint has_nonfinite (v : pyval) : bool :=
  match v with
  | POther t _ => pystr_eqb t (s2p "float")
  | PList l | PTuple l | PDeque l | PSet _ l => existsb has_nonfinite l
  | PDict kv => existsb (fun p => has_nonfinite (fst p) || has_nonfinite (snd p)) kv
  | _ => false
  end.

Definition in_domain (f : field) (v : pyval) : bool := dom f v && negb (has_nonfinite v).

Record fcase := { fc_tbl : table; fc_env : env; fc_field : field; fc_value : pyval; fc_obs : res pyval }.

Definition fmodel (c : fcase) : res pyval := vset (tbl_match (fc_tbl c)) (fc_env c) (fc_field c) (fc_value c).

Definition funmodelled (c : fcase) : bool :=
  match fmodel c with Raise Unmodelled => true | _ => false end.

(* correspondence: the code-shaped model predicts the observed outcome *)
Definition fmismatch (c : fcase) : bool :=
  negb (funmodelled c) && negb (has_nonfinite (fc_value c)) &&
  negb (res_val_equiv (fmodel c) (fc_obs c)).

(* C02 spec on observed behaviour: accept exactly when documented, documented normal form,
   rejections are TypeError/ValueError *)
Definition fspec_fail (c : fcase) : bool :=
  in_domain (fc_field c) (fc_value c) &&
  negb match docb (tbl_match (fc_tbl c)) (fc_env c) (fc_field c) (fc_value c), fc_obs c with
       | Some nf, Ok x => pyval_eqb nf x
       | None, Raise x => is_te_ve x
       | _, _ => false
       end.

Definition fin_domain (c : fcase) : bool := in_domain (fc_field c) (fc_value c).
Definition faccepted (c : fcase) : bool := match fc_obs c with Ok _ => true | _ => false end.
