(* Case type and boolean checks evaluated by the C20 correspondence harness on REAL traces:
   every case is one run of 2-3 real typedpy operations under one harness-driven schedule, with the
   logged accesses to the `_name` of the shared Field objects of the field under test. *)
From Coq Require Import List Arith Bool String. Import ListNotations.
From TP Require Export Global.Threads Global.SharedName Gen.SharedAccess.

Inductive ev := EW (tid : nat) (c : cell) (v : val) | ER (tid : nat) (c : cell) (v : val).

(* thread status: 0 completed; 1 raised because the name it read back was not in its scratch
   (AttributeError / KeyError); 2 raised anything else (its own input was invalid) *)
Record ccase := {
  c_entry : nat;                 (* index into the generated table shared_access *)
  c_f : nat;                     (* code of the field name *)
  c_iters : list nat;            (* per thread: loop iterations (elements / options tried) *)
  c_status : list nat;
  c_init : list (cell * val);    (* the cells' contents when the run started *)
  c_evs : list ev;               (* global order *)
  c_obs : list (option (list (nat * nat)));  (* per thread: which (iteration, slot) of ITS OWN input each result member is *)
  c_unordered : bool }.

Definition entry_of (c : ccase) : ventry :=
  nth (c_entry c) shared_access {| v_name := "?"; v_file := ""; v_acc := [AUnrecognised 0] |}.

Fixpoint init_mem (l : list (cell * val)) : mem :=
  match l with [] => fun _ => [] | (c, v) :: l' => upd (init_mem l') c v end.

(* 1. the log is an execution of the shared memory: every read returns the last value written *)
Fixpoint mem_consistent (m : mem) (evs : list ev) : bool :=
  match evs with
  | [] => true
  | EW _ c v :: r => mem_consistent (upd m c v) r
  | ER _ c v :: r => val_eqb (m c) v && mem_consistent m r
  end.

(* 2. each thread's logged accesses are (a prefix of) the program instantiated from the generated list *)
Definition ev_tid (e : ev) : nat := match e with EW t _ _ | ER t _ _ => t end.
Definition proj (t : nat) (evs : list ev) : list ev := filter (fun e => Nat.eqb (ev_tid e) t) evs.

Fixpoint prog_match (full : bool) (p : thread) (evs : list ev) : bool :=
  match p, evs with
  | _, [] => match p with [] => true | _ => negb full end
  | [], _ :: _ => false
  | W c (WConst v) :: p', EW _ c' v' :: r => Nat.eqb c c' && val_eqb v v' && prog_match full p' r
  | R c :: p', ER _ c' _ :: r => Nat.eqb c c' && prog_match full p' r
  | _, _ => false
  end.

(* a thread whose own input is invalid: a rejected element raises before it is stored, so modelled
   reads may be missing; what did happen must still be in program order *)
Definition ev_match (a : action) (e : ev) : bool :=
  match a, e with
  | W c (WConst v), EW _ c' v' => Nat.eqb c c' && val_eqb v v'
  | R c, ER _ c' _ => Nat.eqb c c'
  | _, _ => false
  end.
Fixpoint prog_lax (p : thread) (evs : list ev) : bool :=
  match p with
  | [] => match evs with [] => true | _ => false end
  | a :: p' => match evs with
               | [] => true
               | e :: r => if ev_match a e then prog_lax p' r
                           else match a with R _ => prog_lax p' evs | _ => false end
               end
  end.

Definition reads_of (evs : list ev) : list val :=
  flat_map (fun e => match e with ER _ _ v => [v] | _ => [] end) evs.

Definition pair_eqb (a b : nat * nat) : bool := Nat.eqb (fst a) (fst b) && Nat.eqb (snd a) (snd b).
Fixpoint list_eqb (a b : list (nat * nat)) : bool :=
  match a, b with
  | [], [] => true
  | x :: a', y :: b' => pair_eqb x y && list_eqb a' b'
  | _, _ => false
  end.
Definition incl_b (a b : list (nat * nat)) : bool := forallb (fun x => existsb (pair_eqb x) b) a.
Definition out_eqb (unordered : bool) (a b : option (list (nat * nat))) : bool :=
  match a, b with
  | None, None => true
  | Some x, Some y => if unordered then incl_b x y && incl_b y x else list_eqb x y
  | _, _ => false
  end.

(* the outcome function is only meaningful for validators that read values back from a scratch
   structure under a shared name; a validator working on private copies has no such accesses *)
Definition models_outcome (e : ventry) : bool :=
  existsb (fun a => match a with AReadBack _ _ _ _ => true | _ => false end) (v_acc e).

Definition thread_ok (c : ccase) (t : nat) : bool :=
  let e := entry_of c in
  let n := nth t (c_iters c) 0 in
  let st := nth t (c_status c) 2 in
  let evs := proj t (c_evs c) in
  (if Nat.eqb st 2 then prog_lax (strip_self (instantiate e (c_f c) n)) evs
   else prog_match (Nat.eqb st 0) (strip_self (instantiate e (c_f c) n)) evs)
  && (if Nat.eqb st 2 || negb (models_outcome e) then true
      else out_eqb (c_unordered c) (model_outcome e n (reads_of evs)) (nth t (c_obs c) None)).

Definition threads (c : ccase) : list nat := seq 0 (List.length (c_iters c)).

Definition mismatch (c : ccase) : bool :=
  negb (mem_consistent (init_mem (c_init c)) (c_evs c) && forallb (thread_ok c) (threads c)).

(* the property's clause on the observed behaviour: some thread that did not fail on its own input
   returned something else than it returns alone *)
Definition deviates (c : ccase) : bool :=
  models_outcome (entry_of c) &&
  existsb (fun t => negb (Nat.eqb (nth t (c_status c) 2) 2)
                    && negb (out_eqb (c_unordered c) (nth t (c_obs c) None)
                                     (seq_outcome (entry_of c) (c_f c) (nth t (c_iters c) 0))))
          (threads c).

(* a deviation on a validator the model classifies safe contradicts the theorems *)
Definition unpredicted (c : ccase) : bool :=
  deviates c && verdict_safe (classify (entry_of c)).

(* classification of the generated table, and of nested declarations *)
Definition table_verdicts : list (string * nat) :=
  map (fun e => (v_name e, verdict_code (classify e))) shared_access.
Definition racy_nodes (t : ftree) : list nat := tree_racy shared_access true t.

Fixpoint idx_where {A} (f : A -> bool) (l : list A) (i : nat) : list nat :=
  match l with
  | [] => []
  | x :: t => if f x then i :: idx_where f t (S i) else idx_where f t (S i)
  end.
