(* Property C05 — serialize then deserialize returns an equal instance; the output is pure JSON.
   Only the property theorems; model in Ser/Json.v, Ser/Serialize.v, Ser/Deserialize.v, proofs in
   Ser/RoundTripProofs.v.

   Fragment proved here ([frag], [class_frag], [canon]): Number/Integer/Float/String/Boolean with any
   constraints, Enum over literals, Enum over an enum class by name and by value (members of falsy value included),
   Array/Deque/Set of the fragment, Tuple (positional, or homogeneous of any length) of the fragment, Map from plain scalars to
   the fragment, nested structures to any depth,
   AnyOf/Optional over ARBITRARY options holding a value of an option of the fragment that distinguishes the
   options (every earlier option rejects the value on the way out and its document on the way in, with whatever
   exception), classes with and without _ignore_none / _additional_properties / defaults / __validate__ hooks,
   compact single-field wrappers; instances whose attributes are declared fields listed in declaration order
   (instance.__dict__ order is not observable).
   Outside [frag] (ImmutableSet, positional Array items, Anything, DecimalNumber, date/time
   fields) the executable model
   and/or the differential on the implementation apply, and the full statement is in fact FALSE there
   (C05_refuted_required_none, and the defects listed in known_findings.json). *)
From Coq Require Import ZArith NArith String List Bool.
Import ListNotations.
From TP Require Import Base.PyVal Base.PyEq Fields.FieldAst Fields.SetChain Fields.Doc Struct.Instance
  Ser.Json Ser.Serialize Ser.Deserialize Ser.RoundTripProofs Ser.SerOps Gen.SerSites Ser.SerTieProofs.
From TP Require Import Base.PyOps2 Gen.EnumGuards Ser.EnumGuardProofs.
Local Open Scope string_scope.

Section C05.
  Variable re_match : N -> pystr -> bool.     (* oracle: re.match *)
  Variable e : env.                           (* class environment *)
  Variable ens : enums.                       (* enum classes: members, by name / by value *)
  Variable fl : dflags.                       (* process-wide deserialization defaults: any *)

  (* Serializer(x).serialize() of a canonical valid instance of a fragment class does not raise and
     is built from dict/list/str/int/float/bool/None only, with scalar keys. *)
  Theorem C05_pure : forall n c a,
      canon re_match e ens fl n (PStruct c a) ->
      exists j, serialize re_match e ens n false (PStruct c a) = Ok j /\ json_pure j = true.
  Proof. exact (c05_pure re_match e ens fl). Qed.

  (* ... and Deserializer(type(x)).deserialize of that value, whatever keep_undefined and the global
     defaults, returns x itself. *)
  Theorem C05_roundtrip : forall n c a,
      canon re_match e ens fl n (PStruct c a) ->
      exists j, serialize re_match e ens n false (PStruct c a) = Ok j /\
                forall ku, deserialize re_match e ens fl n ku c j = Ok (PStruct c a).
  Proof. exact (c05_roundtrip re_match e ens fl). Qed.

  (* the value-level statement the instance-level one is built from: every stored value of a fragment
     declaration — in particular every falsy one: 0, 0.0, "", False, [], {}, deque([]) — serializes to a
     pure JSON value that is not None and deserializes back to itself *)
  Theorem C05_falsy : forall (canon' : pyval -> Prop) recS recD,
      (forall c a, canon' (PStruct c a) ->
         exists kv, recS (PStruct c a) = Ok (PDict kv) /\ json_pure (PDict kv) = true /\
                    forall ku, recD ku c (PDict kv) = Ok (PStruct c a)) ->
      forall f v, frag f = true -> wfv re_match e ens canon' recS recD f v -> py_truthy v = false ->
      exists j, ser_val re_match e ens recS f v = Ok j /\ json_pure j = true /\ j <> PNone /\
                forall ku ign, deser_val re_match e ens recD ku ign f j = Ok v.
  Proof. exact (c05_falsy re_match e ens). Qed.

  (* AnyOf (Optional included): a value of an option g of the fragment that every option listed before g rejects — on
     the way out (its _validate or serializer raises) and on the way in (its deserializer raises on the serialized
     value), with ANY exception class — is serialized as g serializes it and is read back as itself, whatever
     follows g in the list. *)
  Theorem C05_anyof : forall (canon' : pyval -> Prop) recS recD,
      (forall c a, canon' (PStruct c a) ->
         exists kv, recS (PStruct c a) = Ok (PDict kv) /\ json_pure (PDict kv) = true /\
                    forall ku, recD ku c (PDict kv) = Ok (PStruct c a)) ->
      forall pre g post v,
        frag g = true -> wfv re_match e ens canon' recS recD g v -> validate_weak re_match e g v = Ok tt ->
        Forall (fun gk => skips_ser re_match e ens recS gk v) pre ->
        (forall j, ser_val re_match e ens recS g v = Ok j -> Forall (fun gk => skips_deser re_match e ens recD gk j) pre) ->
        exists j, ser_val re_match e ens recS g v = Ok j /\
                  ser_val re_match e ens recS (FAnyOf (pre ++ g :: post)) v = Ok j /\ json_pure j = true /\
                  forall ku ign, deser_val re_match e ens recD ku ign (FAnyOf (pre ++ g :: post)) j = Ok v.
  Proof. exact (c05_anyof re_match e ens). Qed.

  (* a member of an enum declared with serialization_by_value=True is serialized as its VALUE — also when the
     value is falsy (0, "", False, 0.0) — never as its name, and is read back as the member *)
  Theorem C05_enum_by_value : forall recS recD cls members n x,
      enum_by_value ens cls = true -> enum_wf ens cls members (PEnum cls n x) ->
      ser_val re_match e ens recS (FEnumCls cls members) (PEnum cls n x) = Ok x /\
      forall ku ign, deser_val re_match e ens recD ku ign (FEnumCls cls members) x = Ok (PEnum cls n x).
  Proof. exact (enum_by_value_rt re_match e ens). Qed.

  (* compact single-field wrappers: serialize(x, compact=True) is the bare serialized field, and with compact
     deserialization switched on it is read back as x — provided the serialized field is not a JSON object *)
  Theorem C05_compact : forall n cn a c fd,
      canon re_match e ens fl (S n) (PStruct cn a) -> find_class e cn = Some c -> compact_eligible c = Some fd ->
      exists v j,
        a = [(fd_name fd, v)] /\
        ser_val re_match e ens (ser_struct re_match e ens n) (fd_field fd) v = Ok j /\
        serialize re_match e ens (S n) true (PStruct cn a) = Ok j /\ json_pure j = true /\ j <> PNone /\
        (df_compact fl = true -> (forall kv, j <> PDict kv) ->
         forall ku, deserialize re_match e ens fl (S n) ku cn j = Ok (PStruct cn a)).
  Proof. exact (rt_compact re_match e ens fl). Qed.
End C05.

(* ---- ties to the source text (Gen/SerSites.v is regenerated from /repo on every run) *)

(* the `except` clauses of deserialize_multifield_wrapper / serialize_multifield_wrapper swallow every exception: this
   is what "an earlier option rejects, with whatever exception" in C05_anyof rests on *)
Theorem C05_src_option_dispatch_catches_everything :
  forall x, catches h_deser_multifield x = true /\ catches h_ser_multifield x = true.
Proof. exact src_option_dispatch_catches_everything. Qed.

(* the item loops of deserialize_list_like and the field loop of construct_fields_map catch TypeError/ValueError only *)
Theorem C05_src_item_errors_are_te_ve :
  forall x, named_exn x = true -> model_exn x = false ->
    catches h_list_like_item_0 x = is_te_ve x /\ catches h_list_like_item_1 x = is_te_ve x /\
    catches h_fields_map x = is_te_ve x.
Proof. exact src_item_errors_are_te_ve. Qed.

(* Enum.serialize as written in enum.py IS the model's ser_enum_member, on every member, by name and by value *)
Theorem C05_src_enum_serialize :
  forall by_value cls n x, Enum_serialize true by_value (PEnum cls n x) = ser_enum_member by_value (PEnum cls n x).
Proof. exact src_enum_serialize_member. Qed.

Theorem C05_src_enum_serialize_falsy :
  forall cls n x, json_value_ok x = true -> py_truthy x = false -> Enum_serialize true true (PEnum cls n x) = Ok x.
Proof. exact src_enum_serialize_falsy. Qed.

(* the whole of Enum.serialize / Enum.deserialize as translated from enum.py on every run (Gen/EnumGuards.v) IS the model's
   pair ser_enum_member / deser_enum_cls: for every enum class, every declared subset of its members, by name and by
   value, and every document -- an edit of either method (which lookup, which truthiness test, which exception) breaks
   one of these *)
Theorem C05_src_enum_serialize_member : forall re_match cls members all bv c n x,
    Enum__serialize re_match (enumcls_self cls members all bv) (PEnum c n x) = ser_enum_member bv (PEnum c n x).
Proof. exact generated_enum_serialize_member. Qed.

Theorem C05_src_enum_deserialize : forall re_match e ens d cls members v,
    find_enum ens cls = Some d -> members_of_class members (en_members d) ->
    Enum__deserialize re_match (enumcls_self cls members (en_members d) (en_by_value d)) v
    = deser_enum_cls re_match e ens (FEnumCls cls members) cls members v.
Proof. exact generated_enum_deserialize_cls. Qed.

Theorem C05_src_enum_deserialize_literal : forall re_match e values v,
    Enum__deserialize re_match (enumlit_self values) v = (_ <- validate_weak re_match e (FEnumLit values) v ;; Ok v).
Proof. exact generated_enum_deserialize_lit. Qed.

(* the full statement (every valid instance of every class over the property's vocabulary) is false of the faithful
   model: F17, a required field whose declaration admits None and that holds None *)
Theorem C05_refuted_required_none : ~ C05_statement.
Proof. exact c05_refuted_required_none. Qed.

Print Assumptions C05_pure.
Print Assumptions C05_roundtrip.
Print Assumptions C05_falsy.
Print Assumptions C05_anyof.
Print Assumptions C05_enum_by_value.
Print Assumptions C05_compact.
Print Assumptions C05_refuted_required_none.
Print Assumptions C05_src_option_dispatch_catches_everything.
Print Assumptions C05_src_item_errors_are_te_ve.
Print Assumptions C05_src_enum_serialize.
Print Assumptions C05_src_enum_serialize_falsy.
Print Assumptions C05_src_enum_serialize_member.
Print Assumptions C05_src_enum_deserialize.
Print Assumptions C05_src_enum_deserialize_literal.

(* ---- non-vacuity: a nested instance with falsy values at every position satisfies [canon], and the
   theorem's conclusion computes *)
Definition ex_fl : dflags := {| df_ignore_invalid := true; df_compact := true |}.
Definition ex_ens : enums :=
  [ {| en_name := s2p "ColorV"; en_by_value := true;
       en_members := [(s2p "RED", PNum (NInt 1)); (s2p "GREEN", PNum (NInt 2)); (s2p "BLUE", PStr (s2p "b"))] |};
    {| en_name := s2p "PrioV"; en_by_value := true;
       en_members := [(s2p "NONE", PNum (NInt 0)); (s2p "LOW", PNum (NInt 1))] |} ].
Definition colorv : field := FEnumCls (s2p "ColorV") [(s2p "RED", PNum (NInt 1)); (s2p "BLUE", PStr (s2p "b"))].
Definition priov : field := FEnumCls (s2p "PrioV") [(s2p "NONE", PNum (NInt 0)); (s2p "LOW", PNum (NInt 1))].
Definition int_ : field := FNumber KInteger SAny no_numc.
(* an option that rejects a shorter list (ValueError: fewer elements than positional items), then the option of the value *)
Definition tup_or_arr : field := FAnyOf [FTuple [int_; FBoolean] false; FSeqEach SeqList int_ no_sizec false; FNone].
Definition fdecl_ (n : string) (f : field) (d : option pyval) : fdecl :=
  {| fd_name := s2p n; fd_field := f; fd_immutable := false; fd_default := d |}.
Definition cls_Inner : classdef :=
  {| c_name := s2p "Inner"; c_ancestors := [];
     c_fields := [fdecl_ "i" (FNumber KInteger SNonNegative no_numc) None; fdecl_ "s" (FString no_strc) None];
     c_required := [s2p "i"]; c_additional := false; c_ignore_none := true; c_immutable := false; c_hook := HookNone |}.
Definition cls_Outer : classdef :=
  {| c_name := s2p "Outer"; c_ancestors := [];
     c_fields := [fdecl_ "n" (FClassRef (s2p "Inner")) None;
                  fdecl_ "xs" (FSeqEach SeqList (FNumber KFloat SAny no_numc) no_sizec false) None;
                  fdecl_ "m" (FMapKV (FString no_strc) (FSeqEach SeqDeque FBoolean no_sizec false) no_sizec) None;
                  fdecl_ "c" colorv None;
                  fdecl_ "p" priov None;
                  fdecl_ "t" tup_or_arr None;
                  fdecl_ "st" (FSet false (Some int_) no_sizec) None;
                  fdecl_ "tp" (FTuple [int_; FString no_strc] false) None;
                  fdecl_ "te" (FTuple [colorv; FSeqEach SeqDeque int_ no_sizec false] false) None;
                  fdecl_ "th" (FTuple [priov] false) None;
                  fdecl_ "b" FBoolean (Some (PBool false))];
     c_required := [s2p "n"; s2p "c"]; c_additional := true; c_ignore_none := false; c_immutable := false;
     c_hook := HookNeverNone (s2p "xs") |}.
Definition cls_Wrap : classdef :=
  {| c_name := s2p "Wrap"; c_ancestors := []; c_fields := [fdecl_ "p" priov None];
     c_required := [s2p "p"]; c_additional := false; c_ignore_none := false; c_immutable := false; c_hook := HookNone |}.
Definition ex_env : env := [cls_Inner; cls_Outer; cls_Wrap].
Definition ex_x : pyval :=
  PStruct (s2p "Outer")
    [ (s2p "n", PStruct (s2p "Inner") [(s2p "i", PNum (NInt 0)); (s2p "s", PStr [])]);
      (s2p "xs", PList [PNum (NFlt 0 0)]);
      (s2p "m", PDict [(PStr [], PDeque []); (PStr (s2p "k"), PDeque [PBool false])]);
      (s2p "c", PEnum (s2p "ColorV") (s2p "BLUE") (PStr (s2p "b")));
      (s2p "p", PEnum (s2p "PrioV") (s2p "NONE") (PNum (NInt 0)));
      (s2p "t", PList [PNum (NInt 0)]);
      (s2p "st", PSet false [PNum (NInt 0); PNum (NInt 1)]);
      (s2p "tp", PTuple [PNum (NInt 0); PStr []]);
      (s2p "te", PTuple [PEnum (s2p "ColorV") (s2p "BLUE") (PStr (s2p "b")); PDeque [PNum (NInt 0)]]);
      (s2p "th", PTuple [PEnum (s2p "PrioV") (s2p "NONE") (PNum (NInt 0)); PEnum (s2p "PrioV") (s2p "LOW") (PNum (NInt 1))]);
      (s2p "b", PBool false) ].
Definition ex_w : pyval := PStruct (s2p "Wrap") [(s2p "p", PEnum (s2p "PrioV") (s2p "NONE") (PNum (NInt 0)))].

Example C05_nonvacuous :
  (match ex_x with PStruct c a => canon (fun _ _ => true) ex_env ex_ens ex_fl 2 (PStruct c a) | _ => False end) /\
  serialize (fun _ _ => true) ex_env ex_ens 2 false ex_x =
    Ok (PDict [ (PStr (s2p "n"), PDict [(PStr (s2p "i"), PNum (NInt 0)); (PStr (s2p "s"), PStr [])]);
                (PStr (s2p "xs"), PList [PNum (NFlt 0 0)]);
                (PStr (s2p "m"), PDict [(PStr [], PList []); (PStr (s2p "k"), PList [PBool false])]);
                (PStr (s2p "c"), PStr (s2p "b"));
                (PStr (s2p "p"), PNum (NInt 0));
                (PStr (s2p "t"), PList [PNum (NInt 0)]);
                (PStr (s2p "st"), PList [PNum (NInt 0); PNum (NInt 1)]);
                (PStr (s2p "tp"), PList [PNum (NInt 0); PStr []]);
                (PStr (s2p "te"), PList [PStr (s2p "b"); PList [PNum (NInt 0)]]);
                (PStr (s2p "th"), PList [PNum (NInt 0); PNum (NInt 1)]);
                (PStr (s2p "b"), PBool false) ]) /\
  (forall j, serialize (fun _ _ => true) ex_env ex_ens 2 false ex_x = Ok j ->
             deserialize (fun _ _ => true) ex_env ex_ens ex_fl 2 None (s2p "Outer") j = Ok ex_x) /\
  (* the earlier option of field t rejects the document [0]: shorter than its positional items (ValueError; it was
     the IndexError of value[1] before F9 was repaired) *)
  deser_val (fun _ _ => true) ex_env ex_ens (deser_struct (fun _ _ => true) ex_env ex_ens ex_fl 1) true false
            (FTuple [int_; FBoolean] false) (PList [PNum (NInt 0)]) = Raise ValueError.
Proof.
  split; [|split; [|split]].
  - cbn [ex_x]. unfold canon. exists cls_Outer.
    repeat (split; [vm_compute; reflexivity|]).
    repeat constructor.
    + exists (fdecl_ "n" (FClassRef (s2p "Inner")) None). split; [reflexivity|]. split; [|reflexivity].
      cbn [wfv fd_field fdecl_ snd]. split; [eexists; reflexivity|].
      exists cls_Inner. repeat (split; [vm_compute; reflexivity|]).
      repeat constructor.
      * eexists. split; [reflexivity|]. split; [|reflexivity].
        cbn [wfv fd_field fdecl_ snd]. repeat split; try (vm_compute; reflexivity); discriminate.
      * eexists. split; [reflexivity|]. split; [|reflexivity].
        cbn [wfv fd_field fdecl_ snd]. repeat split; try (vm_compute; reflexivity); discriminate.
    + eexists. split; [reflexivity|]. split; [|reflexivity].
      cbn [wfv fd_field fdecl_ snd]. exists [PNum (NFlt 0 0)]. split; [reflexivity|].
      repeat constructor; try (vm_compute; reflexivity); discriminate.
    + eexists. split; [reflexivity|]. split; [|reflexivity].
      cbn [wfv fd_field fdecl_ snd]. eexists. split; [reflexivity|]. split; [|vm_compute; reflexivity].
      repeat constructor; cbn [fst snd]; try (vm_compute; reflexivity); try discriminate.
      * exists []. split; [reflexivity|constructor].
      * exists [PBool false]. split; [reflexivity|].
        repeat constructor; try (vm_compute; reflexivity); discriminate.
    + eexists. split; [reflexivity|]. split; [|reflexivity].
      cbn [wfv fd_field fdecl_ snd colorv]. exists (s2p "BLUE"), (PStr (s2p "b")).
      repeat split; vm_compute; reflexivity.
    + eexists. split; [reflexivity|]. split; [|reflexivity].
      cbn [wfv fd_field fdecl_ snd priov]. exists (s2p "NONE"), (PNum (NInt 0)).
      repeat split; vm_compute; reflexivity.
    + (* the AnyOf field: option 1 (Array[Integer]) holds [0]; option 0 (a positional Tuple) rejects it both ways *)
      eexists. split; [reflexivity|]. split; [|reflexivity].
      cbn [wfv fd_field fdecl_ snd tup_or_arr]. split; [discriminate|]. exists 1%nat. split.
      * cbn [nth_sat]. split; [reflexivity|]. split.
        { cbn [wfv int_]. exists [PNum (NInt 0)]. split; [reflexivity|].
          repeat constructor; try (vm_compute; reflexivity); discriminate. }
        split; [vm_compute; reflexivity|].
        intros j Hj. vm_compute in Hj. inversion Hj; subst j. cbn [firstn]. apply Forall_cons; [|apply Forall_nil].
        intro ku. exists ValueError. split; [destruct ku; vm_compute; reflexivity | reflexivity].
      * cbn [firstn]. apply Forall_cons; [|apply Forall_nil]. exists TypeError. split; vm_compute; reflexivity.
    + (* Set[Integer] holding {0, 1} *)
      eexists. split; [reflexivity|]. split; [|reflexivity].
      cbn [wfv fd_field fdecl_ snd int_]. exists [PNum (NInt 0); PNum (NInt 1)]. split; [reflexivity|].
      split; [|split; vm_compute; reflexivity].
      repeat constructor; try (vm_compute; reflexivity); discriminate.
    + (* Tuple[Integer, String] holding (0, "") *)
      eexists. split; [reflexivity|]. split; [|reflexivity].
      cbn [wfv fd_field fdecl_ snd int_]. exists [PNum (NInt 0); PStr []]. split; [reflexivity|].
      cbn [tuple_wf tuple_pos_wf wfv]. repeat split; try (vm_compute; reflexivity); try discriminate. constructor.
    + (* Tuple[Enum[ColorV], Deque[Integer]] holding (BLUE, deque([0])): the elements are serialized by their item fields *)
      eexists. split; [reflexivity|]. split; [|reflexivity].
      cbn [wfv fd_field fdecl_ snd colorv int_]. eexists. split; [reflexivity|].
      cbn [tuple_wf tuple_pos_wf wfv]. split; [|split; [|constructor]].
      * exists (s2p "BLUE"), (PStr (s2p "b")). repeat split; vm_compute; reflexivity.
      * exists [PNum (NInt 0)]. split; [reflexivity|].
        repeat constructor; try (vm_compute; reflexivity); discriminate.
    + (* Tuple[Enum[PrioV]] (homogeneous) holding (NONE, LOW) *)
      eexists. split; [reflexivity|]. split; [|reflexivity].
      cbn [wfv fd_field fdecl_ snd priov]. eexists. split; [reflexivity|].
      cbn [tuple_wf]. repeat constructor.
      * exists (s2p "NONE"), (PNum (NInt 0)). repeat split; vm_compute; reflexivity.
      * exists (s2p "LOW"), (PNum (NInt 1)). repeat split; vm_compute; reflexivity.
    + eexists. split; [reflexivity|]. split; [|reflexivity].
      cbn [wfv fd_field fdecl_ snd]. repeat split; try (vm_compute; reflexivity); discriminate.
  - vm_compute. reflexivity.
  - intros j Hj. vm_compute in Hj. inversion Hj; subst j. vm_compute. reflexivity.
  - vm_compute. reflexivity.
Qed.

(* the compact form of a wrapper around a by-value enum whose member has the falsy value 0 *)
Example C05_compact_nonvacuous :
  (match ex_w with PStruct c a => canon (fun _ _ => true) ex_env ex_ens ex_fl 1 (PStruct c a) | _ => False end) /\
  compact_eligible cls_Wrap = Some (fdecl_ "p" priov None) /\
  serialize (fun _ _ => true) ex_env ex_ens 1 true ex_w = Ok (PNum (NInt 0)) /\
  deserialize (fun _ _ => true) ex_env ex_ens ex_fl 1 None (s2p "Wrap") (PNum (NInt 0)) = Ok ex_w.
Proof.
  split; [|split; [|split]]; [|vm_compute; reflexivity ..].
  cbn [ex_w]. unfold canon. exists cls_Wrap.
  repeat (split; [vm_compute; reflexivity|]).
  repeat constructor.
  eexists. split; [reflexivity|]. split; [|reflexivity].
  cbn [wfv fd_field fdecl_ snd priov]. exists (s2p "NONE"), (PNum (NInt 0)).
  repeat split; vm_compute; reflexivity.
Qed.

(* ---- the tie to the source of the serialization dispatch, re-checked by the kernel on every run --------------
   Gen/SerializeSrc.v is re-generated from typedpy/serialization/serialization.py (harness/genmods/py2v_serialize.py):
   serialize_val, serialize_multifield_wrapper, serialize_field, serialize_internal, serialize (mutually recursive,
   tied by a fuelled knot).  [refines r m]: the translation's own fuel ran out, or the model declines, or r = m.
   For EVERY class environment, field, value and instance (as Python has it, internal entries included) in the
   stated configuration (mapper off, camel_case_convert off) the source computes NOW what Ser/Serialize.v computes. *)
From TP Require Import Base.PyObj Base.PyOpsSerialize Gen.SerializeSrc Ser.SerializeSrcProofs.

Theorem C05_src_serialize_val :
  forall (re_match : N -> pystr -> bool) (e : env) (ens : enums) (extra : list field)
           (repr : pyval -> pystr),
         env_ok e = true ->
         defaults_ok e = true ->
         forall (k n : nat) (f : field) (p : list N) (nm m v : pyval),
         at_ e extra p = Some f ->
         mapper_off m = true ->
         val_ok v = true ->
         refines
           (r_serialize_val (src_knot k (ser_world re_match e ens extra repr)) 
              (iref p) nm v m (PBool false) PNone)
           (ser_val re_match e ens (ser_struct re_match e ens n) f v).
Proof. exact src_serialize_val_refines. Qed.

Theorem C05_src_serialize_any :
  forall (re_match : N -> pystr -> bool) (e : env) (ens : enums) (extra : list field)
           (repr : pyval -> pystr),
         env_ok e = true ->
         defaults_ok e = true ->
         forall (k n : nat) (fd nm m v : pyval),
         fd = PNone \/ fd = ref (s2p "Anything") ->
         mapper_off m = true ->
         val_ok v = true ->
         refines
           (r_serialize_val (src_knot k (ser_world re_match e ens extra repr)) fd nm v m
              (PBool false) PNone) (ser_any (ser_struct re_match e ens n) v).
Proof. exact src_serialize_any_refines. Qed.

(* which exceptions move on to the next option *)
Theorem C05_src_multifield :
  forall (re_match : N -> pystr -> bool) (e : env) (ens : enums) (extra : list field)
           (repr : pyval -> pystr),
         env_ok e = true ->
         defaults_ok e = true ->
         forall (k n : nat) (p : list N) (gs : list field) (nm m v : pyval),
         (forall (i : nat) (g : field),
          nth_error gs i = Some g -> at_ e extra (p ++ [N.of_nat i]) = Some g) ->
         mapper_off m = true ->
         val_ok v = true ->
         refines
           (r_serialize_multifield_wrapper (src_knot k (ser_world re_match e ens extra repr))
              (PList (irefs p (Datatypes.length gs))) nm v m (PBool false))
           (mfw_model (ser_val re_match e ens (ser_struct re_match e ens n))
              (validate_weak re_match e) v gs).
Proof. exact src_multifield_refines. Qed.

(* attribute loop: skip-list, None skipping, compact form *)
Theorem C05_src_serialize_internal :
  forall (re_match : N -> pystr -> bool) (e : env) (ens : enums) (extra : list field)
           (repr : pyval -> pystr),
         env_ok e = true ->
         defaults_ok e = true ->
         forall (k n : nat) (cn : pystr) (d : list (pystr * pyval)) (m rm : pyval) (compact : bool),
         mapper_off m = true ->
         rm_ok e cn rm ->
         pyinst_ok d = true ->
         refines
           (r_serialize_internal (src_knot (S k) (ser_world re_match e ens extra repr))
              (PStruct cn d) m rm (PBool compact) (PBool false))
           (internal_model re_match e ens (ser_struct re_match e ens n) compact cn d).
Proof. exact src_serialize_internal_refines. Qed.

Theorem C05_src_ser_struct :
  forall (re_match : N -> pystr -> bool) (e : env) (ens : enums) (extra : list field)
           (repr : pyval -> pystr),
         env_ok e = true ->
         defaults_ok e = true ->
         forall (k n : nat) (cn : pystr) (a : list (pystr * pyval)) (m rm : pyval),
         mapper_off m = true ->
         rm_ok e cn rm ->
         val_ok (PStruct cn a) = true ->
         refines
           (r_serialize_internal (src_knot k (ser_world re_match e ens extra repr)) 
              (PStruct cn a) m rm (PBool false) (PBool false))
           (ser_struct re_match e ens n (PStruct cn a)).
Proof. exact src_ser_struct_refines. Qed.

Theorem C05_src_serialize :
  forall (re_match : N -> pystr -> bool) (e : env) (ens : enums) (extra : list field)
           (repr : pyval -> pystr),
         env_ok e = true ->
         defaults_ok e = true ->
         forall (k n : nat) (cn : pystr) (a : list (pystr * pyval)) (m : pyval) (compact : bool),
         mapper_off m = true ->
         val_ok (PStruct cn a) = true ->
         refines
           (r_serialize (src_knot k (ser_world re_match e ens extra repr)) 
              (PStruct cn a) m (PBool compact) (PBool false))
           (serialize re_match e ens n compact (PStruct cn a)).
Proof. exact src_serialize_refines. Qed.

(* the form that combines with C05_pure *)
Theorem C05_src_serialize_ok :
  forall (re_match : N -> pystr -> bool) (e : env) (ens : enums) (extra : list field)
           (repr : pyval -> pystr),
         env_ok e = true ->
         defaults_ok e = true ->
         forall (k n : nat) (cn : pystr) (a : list (pystr * pyval)) (m : pyval) 
           (compact : bool) (j : pyval),
         mapper_off m = true ->
         val_ok (PStruct cn a) = true ->
         serialize re_match e ens n compact (PStruct cn a) = Ok j ->
         r_serialize (src_knot k (ser_world re_match e ens extra repr)) (PStruct cn a) m
           (PBool compact) (PBool false) = Raise OutOfFuel \/
         r_serialize (src_knot k (ser_world re_match e ens extra repr)) (PStruct cn a) m
           (PBool compact) (PBool false) = Ok j.
Proof. exact src_serialize_ok. Qed.

Print Assumptions C05_src_serialize_val.
Print Assumptions C05_src_serialize_any.
Print Assumptions C05_src_multifield.
Print Assumptions C05_src_serialize_internal.
Print Assumptions C05_src_ser_struct.
Print Assumptions C05_src_serialize.
Print Assumptions C05_src_serialize_ok.
