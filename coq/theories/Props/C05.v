(* Property C05 — serialize then deserialize returns an equal instance; the output is pure JSON.
   Only the property theorems; model in Ser/Json.v, Ser/Serialize.v, Ser/Deserialize.v, proofs in
   Ser/RoundTripProofs.v.

   Fragment proved here ([frag], [class_frag], [canon]): Number/Integer/Float/String/Boolean with any
   constraints, Enum over literals, Enum over an enum class by name and by value, Array/Deque of the
   fragment, Map from plain scalars to the fragment, nested structures to any depth, classes with and
   without _ignore_none / _additional_properties / defaults / __validate__ hooks; instances whose
   attributes are declared fields listed in declaration order (instance.__dict__ order is not observable).
   Outside [frag] (AnyOf, Set, Tuple, positional items, Anything, date/time fields) the executable model
   and the differential correspondence apply, and the full statement is in fact FALSE there
   (C05_refuted_required_none, and the defects listed in known_findings.json). *)
From Coq Require Import ZArith NArith String List Bool.
Import ListNotations.
From TP Require Import Base.PyVal Base.PyEq Fields.FieldAst Fields.SetChain Fields.Doc Struct.Instance
  Ser.Json Ser.Serialize Ser.Deserialize Ser.RoundTripProofs.
Local Open Scope string_scope.

Section C05.
  Variable re_match : N -> pystr -> bool.     (* oracle: re.match *)
  Variable e : env.                           (* class environment *)
  Variable ens : enums.                       (* enum classes: members, by name / by value *)
  Variable fl : dflags.                       (* process-wide deserialization defaults: any *)

  (* Serializer(x).serialize() of a canonical valid instance of a fragment class does not raise and
     is built from dict/list/str/int/float/bool/None only, with scalar keys. *)
  Theorem C05_pure : forall n c a,
      canon re_match e ens n (PStruct c a) ->
      exists j, serialize re_match e ens n false (PStruct c a) = Ok j /\ json_pure j = true.
  Proof.
    intros n c a H. destruct (rt_struct re_match e ens fl n _ H) as (kv & H1 & H2 & _).
    exists (PDict kv). split; [|exact H2].
    unfold serialize. destruct n; [destruct H|]. destruct H as (cd & Hf & _). rewrite Hf. exact H1.
  Qed.

  (* ... and Deserializer(type(x)).deserialize of that value, whatever keep_undefined and the global
     defaults, returns x itself. *)
  Theorem C05_roundtrip : forall n c a,
      canon re_match e ens n (PStruct c a) ->
      exists j, serialize re_match e ens n false (PStruct c a) = Ok j /\
                forall ku, deserialize re_match e ens fl n ku c j = Ok (PStruct c a).
  Proof.
    intros n c a H. destruct (rt_struct re_match e ens fl n _ H) as (kv & H1 & _ & H3).
    exists (PDict kv). destruct n; [destruct H|]. pose proof H as H'. destruct H' as (cd & Hf & _). split.
    - unfold serialize. rewrite Hf. exact H1.
    - intro ku. unfold deserialize. rewrite Hf. exact (H3 c a eq_refl _).
  Qed.

  (* the value-level statement the instance-level one is built from: every stored value of a fragment
     declaration — in particular every falsy one: 0, 0.0, "", False, [], {}, deque([]) — serializes to a
     pure JSON value that is not None and deserializes back to itself *)
  Theorem C05_falsy : forall (canon' : pyval -> Prop) recS recD,
      (forall c a, canon' (PStruct c a) ->
         exists kv, recS (PStruct c a) = Ok (PDict kv) /\ json_pure (PDict kv) = true /\
                    forall ku, recD ku c (PDict kv) = Ok (PStruct c a)) ->
      forall f v, frag f = true -> wfv re_match e ens canon' f v -> py_truthy v = false ->
      exists j, ser_val re_match e ens recS f v = Ok j /\ json_pure j = true /\ j <> PNone /\
                forall ku ign, deser_val re_match e ens recD ku ign f j = Ok v.
  Proof. intros canon' recS recD Hrec f v Hf Hw _. exact (rt_val re_match e ens canon' recS recD Hrec f Hf v Hw). Qed.
End C05.

Print Assumptions C05_pure.
Print Assumptions C05_roundtrip.
Print Assumptions C05_falsy.

(* ---- the full statement (every valid instance of every class over the property's field vocabulary)
   is false of the faithful model: F17 *)
Definition C05_statement : Prop :=
  forall re_match e ens fl n c a cd,
    find_class e c = Some cd -> struct_ok re_match e cd a = true ->
    exists j, serialize re_match e ens n false (PStruct c a) = Ok j /\ json_pure j = true /\
              exists x', deserialize re_match e ens fl n None c j = Ok x' /\ py_eq (PStruct c a) x' = true.

Definition opt_str : field := FAnyOf [FString no_strc; FNone].
Definition cls_A : classdef :=
  {| c_name := s2p "A"; c_ancestors := []; c_fields := [ {| fd_name := s2p "a"; fd_field := opt_str; fd_immutable := false; fd_default := None |} ];
     c_required := [s2p "a"]; c_additional := true; c_ignore_none := false; c_immutable := false; c_hook := HookNone |}.

Theorem C05_refuted_required_none : ~ C05_statement.
Proof.
  intro H.
  destruct (H (fun _ _ => true) [cls_A] [] {| df_ignore_invalid := true; df_compact := false |} 3%nat
              (s2p "A") [(s2p "a", PNone)] cls_A eq_refl eq_refl) as (j & Hs & _ & x' & Hd & _).
  vm_compute in Hs. inversion Hs; subst j. vm_compute in Hd. discriminate.
Qed.
Print Assumptions C05_refuted_required_none.

(* ---- non-vacuity: a nested instance with falsy values at every position satisfies [canon], and the
   theorem's conclusion computes *)
Definition ex_ens : enums :=
  [ {| en_name := s2p "ColorV"; en_by_value := true;
       en_members := [(s2p "RED", PNum (NInt 1)); (s2p "GREEN", PNum (NInt 2)); (s2p "BLUE", PStr (s2p "b"))] |} ].
Definition colorv : field := FEnumCls (s2p "ColorV") [(s2p "RED", PNum (NInt 1)); (s2p "BLUE", PStr (s2p "b"))].
Definition fdecl_ (n : string) (f : field) (d : option pyval) : fdecl :=
  {| fd_name := s2p n; fd_field := f; fd_immutable := false; fd_default := d |}.
Definition cls_Inner : classdef :=
  {| c_name := s2p "Inner"; c_ancestors := [];
     c_fields := [fdecl_ "i" (FNumber KInteger SNonNegative no_numc) None; fdecl_ "s" (FString no_strc) None];
     c_required := [s2p "i"]; c_additional := false; c_ignore_none := true; c_immutable := false; c_hook := HookNone |}.
Definition cls_Outer : classdef :=
  {| c_name := s2p "Outer"; c_ancestors := [];
     c_fields := [fdecl_ "n" (FClassRef (s2p "Inner")) None;
                  fdecl_ "xs" (FSeqEach SeqList (FNumber KFloat SAny no_numc) no_sizec false) None;
                  fdecl_ "m" (FMapKV (FString no_strc) (FSeqEach SeqDeque FBoolean no_sizec false) no_sizec) None;
                  fdecl_ "c" colorv None;
                  fdecl_ "b" FBoolean (Some (PBool false))];
     c_required := [s2p "n"; s2p "c"]; c_additional := true; c_ignore_none := false; c_immutable := false;
     c_hook := HookNeverNone (s2p "xs") |}.
Definition ex_env : env := [cls_Inner; cls_Outer].
Definition ex_x : pyval :=
  PStruct (s2p "Outer")
    [ (s2p "n", PStruct (s2p "Inner") [(s2p "i", PNum (NInt 0)); (s2p "s", PStr [])]);
      (s2p "xs", PList [PNum (NFlt 0 0)]);
      (s2p "m", PDict [(PStr [], PDeque []); (PStr (s2p "k"), PDeque [PBool false])]);
      (s2p "c", PEnum (s2p "ColorV") (s2p "BLUE") (PStr (s2p "b")));
      (s2p "b", PBool false) ].

Example C05_nonvacuous :
  (match ex_x with PStruct c a => canon (fun _ _ => true) ex_env ex_ens 2 (PStruct c a) | _ => False end) /\
  serialize (fun _ _ => true) ex_env ex_ens 2 false ex_x =
    Ok (PDict [ (PStr (s2p "n"), PDict [(PStr (s2p "i"), PNum (NInt 0)); (PStr (s2p "s"), PStr [])]);
                (PStr (s2p "xs"), PList [PNum (NFlt 0 0)]);
                (PStr (s2p "m"), PDict [(PStr [], PList []); (PStr (s2p "k"), PList [PBool false])]);
                (PStr (s2p "c"), PStr (s2p "b"));
                (PStr (s2p "b"), PBool false) ]) /\
  (forall j, serialize (fun _ _ => true) ex_env ex_ens 2 false ex_x = Ok j ->
             deserialize (fun _ _ => true) ex_env ex_ens {| df_ignore_invalid := true; df_compact := false |} 2 None
                         (s2p "Outer") j = Ok ex_x).
Proof.
  split; [|split].
  - cbn [ex_x]. unfold canon. exists cls_Outer.
    repeat (split; [vm_compute; reflexivity|]).
    repeat constructor.
    + exists (fdecl_ "n" (FClassRef (s2p "Inner")) None). split; [reflexivity|]. split; [|reflexivity].
      cbn [wfv fd_field fdecl_ snd]. split; [eexists; reflexivity|].
      exists cls_Inner. repeat (split; [vm_compute; reflexivity|]).
      repeat constructor.
      * eexists. split; [reflexivity|]. split; [|reflexivity].
        cbn [wfv fd_field fdecl_ snd]. repeat split; try (vm_compute; reflexivity); discriminate.
      * eexists. split; [reflexivity|]. split; [|reflexivity].
        cbn [wfv fd_field fdecl_ snd]. repeat split; try (vm_compute; reflexivity); discriminate.
    + eexists. split; [reflexivity|]. split; [|reflexivity].
      cbn [wfv fd_field fdecl_ snd]. exists [PNum (NFlt 0 0)]. split; [reflexivity|].
      repeat constructor; try (vm_compute; reflexivity); discriminate.
    + eexists. split; [reflexivity|]. split; [|reflexivity].
      cbn [wfv fd_field fdecl_ snd]. eexists. split; [reflexivity|]. split; [|vm_compute; reflexivity].
      repeat constructor; cbn [fst snd]; try (vm_compute; reflexivity); try discriminate.
      * exists []. split; [reflexivity|constructor].
      * exists [PBool false]. split; [reflexivity|].
        repeat constructor; try (vm_compute; reflexivity); discriminate.
    + eexists. split; [reflexivity|]. split; [|reflexivity].
      cbn [wfv fd_field fdecl_ snd colorv]. exists (s2p "BLUE"), (PStr (s2p "b")).
      repeat split; vm_compute; reflexivity.
    + eexists. split; [reflexivity|]. split; [|reflexivity].
      cbn [wfv fd_field fdecl_ snd]. repeat split; try (vm_compute; reflexivity); discriminate.
  - vm_compute. reflexivity.
  - intros j Hj. vm_compute in Hj. inversion Hj; subst j. vm_compute. reflexivity.
Qed.
