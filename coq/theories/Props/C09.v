(* Property C09 — schema-to-code output always executes and is equivalent to the schema.
   Lexical layer: for every quoting discipline found at an emission site of the generator, the set
   of strings it emits correctly is characterised exactly (both directions, all strings); the
   GENERATED table Gen/EmitSites.v says which discipline each schema parameter goes through today.
   Only the property theorems here; each is closed by [exact] of a lemma of Schema/PyLiteralProofs.v
   or Schema/CodeGenProofs.v. *)
From Coq Require Import NArith List Bool String.
Import ListNotations.
From TP Require Import Base.PyVal Schema.PyLiteral Schema.PyLiteralProofs Schema.CodeGen
     Schema.CodeGenProofs Gen.EmitSites Schema.ModuleGen Schema.ModuleGenProofs Gen.ModuleLayout
     Schema.ModuleLayoutProofs Schema.BackRequired Schema.BackRequiredProofs.
From Coq Require Import Permutation.
Local Open Scope N_scope.

(* The full statement (lexical part): whatever the schema, the generator produces source, and that
   source is read back by Python as exactly the strings of the schema.  FALSE of the faithful model
   (names are still pasted as identifiers: a reserved word does not lex as a NAME; see the refutation
   below); kept visible.  Every string-literal site goes through repr() (C09_literal_sites_repr). *)
Definition C09_statement : Prop :=
  forall (printable : N -> bool) (c : jclass),
    forallb valid_str (c_name c :: map fst (c_props c)) = true ->
    exists toks, class_toks c = Some toks /\
                 relex py_keywords emit_sites (map shape_of toks) (render printable emit_sites toks)
                 = Some (leaves toks).

Section C09.
  Variable printable : N -> bool.       (* str.isprintable of the running CPython *)
  Variable kw : list pystr.             (* its reserved words *)

  (* every string the characterisation accepts is read back unchanged ... *)
  Theorem C09_lex_roundtrip : forall q s,
      valid_str s = true -> quote_ok kw q s = true ->
      lex_tok kw q (emit printable q s) = Some (s, []).
  Proof. exact (lex_roundtrip printable kw). Qed.

  (* ... and every other string is not *)
  Theorem C09_lex_break : forall q s,
      quote_ok kw q s = false ->
      lex_tok kw q (emit printable q s) <> Some (s, []).
  Proof. exact (lex_break printable kw). Qed.

  (* repr() round-trips every string, also in front of any following text that is not a quote *)
  Theorem C09_repr_total : forall s rest,
      valid_str s = true -> no_quote_next rest ->
      lex_lit (emit printable Repr s ++ rest) = Some (s, rest).
  Proof. exact (lex_repr printable). Qed.

  (* the unsafe character set of the raw single-quote disciplines (wrap_val, inline f-string),
     spelled out: quote, newline, CR, NUL, a trailing backslash, a backslash before an escape
     character; everything made of plain characters is safe *)
  Theorem C09_raw_quote : forall s, In SQ s -> quote_ok kw WrapVal s = false.
  Proof. intros s H. exact (okb_short_quote SQ [SQ] s H). Qed.

  Theorem C09_raw_bad_char : forall s c,
      In c s -> c <> BS -> raw_id false c = false -> quote_ok kw WrapVal s = false.
  Proof. intros s c. exact (okb_bad_char false SQ [SQ] s c). Qed.

  Theorem C09_raw_backslash_end : forall a, quote_ok kw WrapVal (a ++ [BS]) = false.
  Proof. exact (okb_bs_end false SQ [SQ]). Qed.

  Theorem C09_raw_backslash_escape : forall a e b,
      keeps e = false -> quote_ok kw WrapVal (a ++ BS :: e :: b) = false.
  Proof. exact (okb_bs_escape false SQ [SQ]). Qed.

  Theorem C09_raw_plain_safe : forall s,
      forallb plain_char s = true ->
      quote_ok kw WrapVal s = true /\ quote_ok kw RawFString s = true /\ quote_ok kw TripleQuoted s = true.
  Proof.
    intros s H. repeat split.
    - exact (okb_plain false SQ [SQ] s (or_introl eq_refl) H).
    - exact (okb_plain false SQ [SQ] s (or_introl eq_refl) H).
    - exact (okb_plain true DQ [DQ; DQ; DQ] s (or_intror eq_refl) H).
  Qed.

  (* a docstring pasted between triple quotes: three quotes inside, or a quote at the end *)
  Theorem C09_triple_inside : forall a b, quote_ok kw TripleQuoted (a ++ DQ :: DQ :: DQ :: b) = false.
  Proof. exact okb_triple_inside. Qed.

  Theorem C09_triple_backslash : forall a e b,
      keeps e = false -> quote_ok kw TripleQuoted (a ++ BS :: e :: b) = false.
  Proof. exact (okb_bs_escape true DQ [DQ; DQ; DQ]). Qed.

  (* the GENERATED table: a site whose discipline is repr is safe for all strings;
     every other site has a computable witness that it emits wrongly *)
  Theorem C09_sites : forall site q,
      In (site, q) emit_sites -> discipline_total q = true ->
      forall s, valid_str s = true -> lex_tok kw q (emit printable q s) = Some (s, []).
  Proof. exact (sites_total_safe printable kw emit_sites). Qed.

  Theorem C09_sites_witness : forall site q,
      In (site, q) emit_sites -> discipline_total q = false ->
      lex_tok kw q (emit printable q (witness q)) <> Some (witness q, []).
  Proof. exact (sites_witness printable kw emit_sites). Qed.

  (* composition: when every schema string of a generated token list is within its site's safe set,
     the whole rendered source is read back as exactly the schema's strings (any site table) *)
  Theorem C09_relex : forall tbl toks,
      all_sites_ok kw tbl toks = true -> well_sep toks = true ->
      relex kw tbl (map shape_of toks) (render printable tbl toks) = Some (leaves toks).
  Proof. exact (relex_render printable kw). Qed.
End C09.

Print Assumptions C09_lex_roundtrip.
Print Assumptions C09_lex_break.
Print Assumptions C09_repr_total.
Print Assumptions C09_raw_quote.
Print Assumptions C09_raw_bad_char.
Print Assumptions C09_raw_backslash_end.
Print Assumptions C09_raw_backslash_escape.
Print Assumptions C09_raw_plain_safe.
Print Assumptions C09_triple_inside.
Print Assumptions C09_triple_backslash.
Print Assumptions C09_sites.
Print Assumptions C09_sites_witness.
Print Assumptions C09_relex.

(* the GENERATED table today: every site of a class statement that writes a schema string as a string
   LITERAL (docstring, pattern, scalar and container defaults, enum values, both required lists) goes
   through repr(), so C09_sites applies to it for every string; what is left are the sites that paste a
   NAME.  (Fails to compile when a literal site falls back to a raw discipline.) *)
Theorem C09_literal_sites_repr :
  forallb (fun site => quoting_eqb (site_disc emit_sites site) Repr) literal_sites = true /\
  forallb (fun site => quoting_eqb (site_disc emit_sites site) Identifier) name_sites = true.
Proof. split; vm_compute; reflexivity. Qed.

(* hence a schema string at a literal site is read back unchanged, whatever it contains *)
Theorem C09_literal_sites_total : forall printable site s,
    In site literal_sites -> valid_str s = true ->
    lex_tok py_keywords (site_disc emit_sites site) (emit printable (site_disc emit_sites site) s) = Some (s, []).
Proof.
  intros printable site s Hin Hv.
  assert (E : site_disc emit_sites site = Repr).
  { destruct C09_literal_sites_repr as [H _]. rewrite forallb_forall in H. specialize (H site Hin).
    destruct (site_disc emit_sites site); try discriminate. reflexivity. }
  rewrite E. apply (lex_roundtrip printable py_keywords); [exact Hv | reflexivity].
Qed.

(* ... and the only strings of a generated text that can be read back wrongly are its NAMES: a token list
   over these sites whose names are identifiers (not reserved) is read back as exactly the schema's
   strings, with NO condition on the strings at the literal sites *)
Theorem C09_names_only : forall printable toks,
    names_only py_keywords literal_sites name_sites toks = true -> well_sep toks = true ->
    relex py_keywords emit_sites (map shape_of toks) (render printable emit_sites toks) = Some (leaves toks).
Proof.
  intros printable toks H Hs. apply (relex_render printable py_keywords); [|exact Hs].
  destruct C09_literal_sites_repr as [Hl Hn].
  exact (names_only_sites_ok py_keywords emit_sites literal_sites name_sites toks Hl Hn H).
Qed.

Print Assumptions C09_literal_sites_repr.
Print Assumptions C09_literal_sites_total.
Print Assumptions C09_names_only.

(* ------------------------------------------------------------------ whole modules
   (schema_definitions_to_code, write_code_from_schema): the output must not only lex, it must EXECUTE:
   every reference to a definition is a bare name looked up when the class statement holding it runs. *)

(* The full statement (name-resolution part): every well-formed schema + definitions (every $ref names
   a definition, definition names distinct) gives a module that executes.  FALSE of the faithful model
   (definitions are written in declaration order; see the refutations below); kept visible. *)
Definition C09_module_statement : Prop :=
  forall (defs : list jclass) (main : jclass),
    refs_defined [] (defs ++ [main]) = true -> NoDup (map c_name (defs ++ [main])) ->
    module_names_ok [] module_layout defs main = true.

(* exact characterisation of the modules that execute: every reference of the i-th class statement is
   to the base namespace or to a class statement strictly before it *)
Theorem C09_module_names_char : forall base cs, names_ok base cs = true <-> backward base cs.
Proof. exact names_ok_backward. Qed.

(* definitions that execute on their own + a main class referring only to them: the module executes *)
Theorem C09_module_ordered : forall base defs main,
    names_ok base defs = true ->
    forallb (fun r => str_in r base || str_in r (map c_name defs)) (class_refs main) = true ->
    names_ok base (defs ++ [main]) = true.
Proof. exact ordered_module_ok. Qed.

(* which definitions may be left out of a module that executes: exactly the selections closed under
   reference, references counted in EVERY position (items lists, allOf/anyOf/oneOf/not, nested objects,
   map values) of the main class and of every kept definition *)
Theorem C09_module_prune : forall keep base defs main,
    names_ok base (defs ++ [main]) = true ->
    names_ok base (filter (keep_class keep) defs ++ [main])
    = refs_closed keep base (filter (keep_class keep) defs ++ [main]).
Proof. exact prune_ok_iff. Qed.

Theorem C09_module_dropped_reference : forall keep base defs main,
    refs_closed keep base (filter (keep_class keep) defs ++ [main]) = false ->
    names_ok base (filter (keep_class keep) defs ++ [main]) = false.
Proof. exact dropped_reference_fails. Qed.

(* a recursive definition raises NameError in every order of the class statements *)
Theorem C09_module_self_reference : forall base c cs,
    In c cs -> In (c_name c) (class_refs c) -> str_in (c_name c) base = false ->
    NoDup (map c_name cs) -> names_ok base cs = false.
Proof. exact self_reference_never_executes. Qed.

Theorem C09_module_no_cycle : forall base cs i j a b,
    names_ok base cs = true -> NoDup (map c_name cs) ->
    nth_error cs i = Some a -> nth_error cs j = Some b ->
    ~ In (c_name a) base -> ~ In (c_name b) base ->
    In (c_name b) (class_refs a) -> In (c_name a) (class_refs b) -> False.
Proof. exact executes_no_two_cycle. Qed.

(* the lexical theorem for a whole module, any recognised layout and joiner *)
Theorem C09_module_relex : forall printable kw tbl lay joiner defs main toks,
    module_toks lay joiner defs main = Some toks ->
    forallb (class_sites_ok kw tbl) (defs ++ [main]) = true ->
    well_sep toks = true ->
    relex kw tbl (map shape_of toks) (render printable tbl toks) = Some (leaves toks).
Proof. exact module_relex. Qed.

(* the GENERATED layout of write_code_from_schema: a class statement for every definition, in
   declaration order, then the main class; hence ordered definitions execute *)
Theorem C09_module_layout : forall defs main, module_classes module_layout defs main = defs ++ [main].
Proof. exact layout_classes_complete. Qed.

Theorem C09_module_executes : forall base defs main,
    names_ok base defs = true ->
    forallb (fun r => str_in r base || str_in r (map c_name defs)) (class_refs main) = true ->
    module_names_ok base module_layout defs main = true.
Proof. exact generated_module_executes. Qed.

Theorem C09_module_total : forall defs main dt mt,
    defs_toks defs_joiner defs = Some dt -> class_toks main = Some mt ->
    exists toks, module_toks module_layout defs_joiner defs main = Some toks.
Proof. exact generated_module_total. Qed.

Theorem C09_module_always : forall defs main,
    exists toks, module_toks module_layout defs_joiner defs main = Some toks.
Proof. exact generated_module_always. Qed.

Print Assumptions C09_module_names_char.
Print Assumptions C09_module_ordered.
Print Assumptions C09_module_prune.
Print Assumptions C09_module_dropped_reference.
Print Assumptions C09_module_self_reference.
Print Assumptions C09_module_no_cycle.
Print Assumptions C09_module_relex.
Print Assumptions C09_module_layout.
Print Assumptions C09_module_executes.
Print Assumptions C09_module_total.
Print Assumptions C09_module_always.

(* ------------------------------------------------------------------ the required list, there and back
   (the statement's "up to ... required-list order"): the generator takes defaulted properties out of
   _required, structure_to_schema appends them again *)
Theorem C09_required_roundtrip : forall req props,
    NoDup req -> (forall x, In x (defaulted props) -> In x req) ->
    exists r, final_required (Some req) props = Some (Some r) /\
              Permutation (back_required r props) req.
Proof. exact required_roundtrip. Qed.

Theorem C09_required_roundtrip_only_if : forall req props r x,
    NoDup req -> final_required (Some req) props = Some (Some r) ->
    In x (defaulted props) -> ~ In x req ->
    In x (back_required r props) /\ ~ Permutation (back_required r props) req.
Proof. exact required_roundtrip_only_if. Qed.

Theorem C09_no_required_all_required : forall props,
    final_required None props = Some None /\ back_required (map fst props) props = map fst props.
Proof. exact no_required_all_required. Qed.

(* the generator produces a class statement for every class description (a property with a default in a
   schema without a required list included) *)
Theorem C09_generator_total : forall c, exists toks, class_toks c = Some toks.
Proof. exact class_toks_total. Qed.

Print Assumptions C09_required_roundtrip.
Print Assumptions C09_required_roundtrip_only_if.
Print Assumptions C09_no_required_all_required.
Print Assumptions C09_generator_total.

(* ------------------------------------------------------------------ refutations of the full statement *)

Definition all_printable (c : N) : bool := true.

Definition one_prop_class (f : jfield) (req : option (list pystr)) : jclass :=
  {| c_name := s2p "K"; c_description := None; c_closed := false; c_required := req;
     c_props := [(s2p "p", f)] |}.

(* a reserved word as a property name *)
Theorem C09_refuted_keyword_name :
    lex_tok py_keywords Identifier (emit all_printable Identifier (s2p "from")) <> Some (s2p "from", []).
Proof. apply lex_break. reflexivity. Qed.

Theorem C09_statement_refuted : ~ C09_statement.
Proof.
  intro H.
  destruct (H all_printable
              {| c_name := s2p "K"; c_description := None; c_closed := false; c_required := None;
                 c_props := [(s2p "from", FNumeric (s2p "Integer") [] None)] |}
              eq_refl) as [toks [E R]].
  vm_compute in E. injection E as <-. vm_compute in R. discriminate.
Qed.

Print Assumptions C09_refuted_keyword_name.
Print Assumptions C09_statement_refuted.

(* the strings that refuted the statement through the raw disciplines (a quote in a default, a backslash
   in a pattern or in the description) are read back unchanged under the generated table *)
Example C09_former_witnesses_hold :
  forall c, In c [ one_prop_class (FString [] None (Some (DScalar (LStr (s2p "a'b"))))) None;
                   one_prop_class (FString [] (Some (s2p "a\b'")) None) (Some [s2p "p"]);
                   {| c_name := s2p "K"; c_description := Some (s2p "C:\new """""" end"); c_closed := false;
                      c_required := None; c_props := [(s2p "p", FBoolean None)] |} ] ->
  exists toks, class_toks c = Some toks /\
               relex py_keywords emit_sites (map shape_of toks) (render all_printable emit_sites toks)
               = Some (leaves toks).
Proof.
  intros c [<-|[<-|[<-|[]]]]; (eexists; split; [reflexivity|vm_compute; reflexivity]).
Qed.

(* ------------------------------------------------------------------ non-vacuity *)

Definition ex_class : jclass :=
  {| c_name := s2p "Example";
     c_description := Some (s2p "a 'quoted' word and a ""double"" one");
     c_closed := true;
     c_required := Some [s2p "name"; s2p "kind"; s2p "tags"];
     c_props :=
       [ (s2p "name", FString [(s2p "maxLength", s2p "8")] (Some (s2p "[A-Za-z]+$")) None);
         (s2p "kind", FEnum [LStr (s2p "it's"); LStr (s2p "back\slash"); LRaw (s2p "3")] None);
         (s2p "tags", FArray [(s2p "uniqueItems", s2p "True")] IOne [FString [] None None]
                             (Some (DList [LStr (s2p "a""b")])));
         (s2p "sub", FObject false (Some [s2p "n"]) [(s2p "n", FNumeric (s2p "Integer") [] None)] None) ] |}.

Example C09_nonvacuous :
  exists toks, class_toks ex_class = Some toks /\
    all_sites_ok py_keywords emit_sites toks = true /\ well_sep toks = true /\
    relex py_keywords emit_sites (map shape_of toks) (render all_printable emit_sites toks)
    = Some (leaves toks) /\
    names_only py_keywords literal_sites name_sites toks = true /\
    List.length (leaves toks) = 14%nat.
Proof. eexists. split; [reflexivity|]. vm_compute. repeat split; reflexivity. Qed.

(* ------------------------------------------------------------------ modules: refutations and non-vacuity *)

Definition int_field : jfield := FNumeric (s2p "Integer") [] None.
Definition str_field : jfield := FString [] None None.

Definition mk_class (name : string) (props : list (pystr * jfield)) : jclass :=
  {| c_name := s2p name; c_description := None; c_closed := false;
     c_required := Some (map fst props); c_props := props |}.

Definition def_A : jclass := mk_class "A" [(s2p "n", int_field)].
(* B mentions A only inside an anyOf list; Main mentions B only inside a positional items list *)
Definition def_B : jclass :=
  mk_class "B" [(s2p "x", FMulti (s2p "AnyOf") IMany [FRef (s2p "A"); str_field] None)].
Definition main_M : jclass :=
  mk_class "M" [(s2p "p", FArray [(s2p "additionalItems", s2p "False")] IMany [str_field; FRef (s2p "B")] None)].
Definition def_T : jclass := mk_class "T" [(s2p "v", int_field); (s2p "next", FRef (s2p "T"))].

(* a definition declared before the one it refers to: well formed, does not execute *)
Theorem C09_module_refuted_forward_reference :
  refs_defined [] ([def_B; def_A] ++ [main_M]) = true /\
  module_names_ok [] module_layout [def_B; def_A] main_M = false /\
  first_unbound [] (module_classes module_layout [def_B; def_A] main_M) = Some (s2p "A").
Proof. vm_compute. repeat split; reflexivity. Qed.

(* a recursive definition *)
Theorem C09_module_refuted_recursive :
  refs_defined [] ([def_T] ++ [mk_class "M" [(s2p "t", FRef (s2p "T"))]]) = true /\
  module_names_ok [] module_layout [def_T] (mk_class "M" [(s2p "t", FRef (s2p "T"))]) = false.
Proof. vm_compute. split; reflexivity. Qed.

Theorem C09_module_statement_refuted : ~ C09_module_statement.
Proof.
  intro H. specialize (H [def_B; def_A] main_M eq_refl).
  assert (Hnd : NoDup (map c_name ([def_B; def_A] ++ [main_M]))).
  { cbn. repeat constructor; cbn; intuition discriminate. }
  specialize (H Hnd). vm_compute in H. discriminate.
Qed.

Print Assumptions C09_module_refuted_forward_reference.
Print Assumptions C09_module_refuted_recursive.
Print Assumptions C09_module_statement_refuted.

Definition keep_only (names : list pystr) (n : pystr) : bool := str_in n names.

Example C09_module_nonvacuous :
  exists toks, module_toks module_layout defs_joiner [def_A; def_B] main_M = Some toks /\
    module_names_ok [] module_layout [def_A; def_B] main_M = true /\
    forallb (class_sites_ok py_keywords emit_sites) ([def_A; def_B] ++ [main_M]) = true /\
    well_sep toks = true /\
    relex py_keywords emit_sites (map shape_of toks) (render all_printable emit_sites toks) = Some (leaves toks) /\
    (* hypotheses and both outcomes of C09_module_prune are inhabited: keeping {A, B} is closed, keeping
       {B} alone (A is referred to only from inside B's anyOf list) or {A} alone is not *)
    refs_closed (keep_only [s2p "A"; s2p "B"]) []
                (filter (keep_class (keep_only [s2p "A"; s2p "B"])) [def_A; def_B] ++ [main_M]) = true /\
    refs_closed (keep_only [s2p "B"]) [] (filter (keep_class (keep_only [s2p "B"])) [def_A; def_B] ++ [main_M]) = false /\
    names_ok [] (filter (keep_class (keep_only [s2p "B"])) [def_A; def_B] ++ [main_M]) = false /\
    names_ok [] (filter (keep_class (keep_only [s2p "A"])) [def_A; def_B] ++ [main_M]) = false.
Proof. eexists. split; [reflexivity|]. vm_compute. repeat split; reflexivity. Qed.

Example C09_required_nonvacuous :
  let props := [(s2p "a", FString [] None (Some (DScalar (LStr (s2p "x"))))); (s2p "b", FBoolean None);
                (s2p "c", FNumeric (s2p "Integer") [] (Some (DScalar (LRaw (s2p "3")))))] in
  defaulted props = [s2p "a"; s2p "c"] /\
  final_required (Some [s2p "c"; s2p "b"; s2p "a"]) props = Some (Some [s2p "b"]) /\
  back_required [s2p "b"] props = [s2p "b"; s2p "a"; s2p "c"] /\
  (* a defaulted property that is not listed comes back listed *)
  final_required (Some [s2p "b"]) props = Some (Some [s2p "b"]).
Proof. vm_compute. repeat split; reflexivity. Qed.

(* ------------------------------------------------------------------------------------------------
   The generator's own source.  Gen/CodegenSrc.v is the translation, GENERATED on every run by
   harness/genmods/py2v_codegen.py, of convert_to_field_code, _convert_field_to_schema_code_internal,
   _handle_schema_default_to_code, schema_to_struct_code, schema_definitions_to_code and every
   *Mapper.get_paramlist_from_schema of typedpy/json_schema/json_schema_mapping.py.  For every schema
   document of the model's fragment (Schema/CodegenBridge.v: field_of / class_of / classes_of answer
   Some) it returns exactly the text of the model's token list under the generated site table, so the
   theorems above about class_toks / defs_toks are about what the source emits now. *)
From TP Require Import Base.PyOpsCodegen Gen.CodegenSrc Schema.CodegenBridge Schema.CodegenSrcProofs.

Theorem C09_src_struct_code : forall O n name sch c toks,
    class_of O n name sch = Some c -> class_toks c = Some toks ->
    schema_to_struct_code O (2 * n + 1) (PStr name) sch (PList []) = Ok (PStr (rt O toks)).
Proof. exact schema_to_struct_code_bridge. Qed.

Theorem C09_src_field_code : forall O n sch f,
    field_of O n sch = Some f ->
    convert_to_field_code O (2 * n + 1) sch (PList []) = Ok (PStr (rt O (field_toks f))).
Proof. exact convert_to_field_code_bridge. Qed.

Theorem C09_src_definitions_code : forall O n defs cs toks,
    classes_of O n defs = Some cs -> defs_toks joiner_v1 cs = Some toks ->
    schema_definitions_to_code O (2 * n + 1) defs (PList []) = Ok (PStr (rt O toks)).
Proof. exact schema_definitions_to_code_bridge. Qed.

Theorem C09_src_default : forall O rec ps kv d,
    default_of O kv = Some d ->
    exists dps, handle_schema_default_to_code O rec (PList ps) (PDict kv) = Ok (PTuple [PList (ps ++ dps)])
                /\ ptexts O dps = Ok (map (rt O) (default_param d)).
Proof. exact handle_default_ok. Qed.

Theorem C09_src_paramlist_String : forall O rec kv nums pat,
    nums_of O kv string_keys = Some nums -> pat_of kv = Some pat ->
    exists ps, StringMapper__get_paramlist_from_schema O rec (PDict kv) = Ok (PList ps)
               /\ ptexts O ps = Ok (map (rt O) (model_params (FString nums pat None))).
Proof. exact StringMapper_paramlist. Qed.

Theorem C09_src_paramlist_Number : forall O rec kv nums ctor,
    nums_of O kv number_keys = Some nums ->
    exists ps, NumberMapper__get_paramlist_from_schema O rec (PDict kv) = Ok (PList ps)
               /\ ptexts O ps = Ok (map (rt O) (model_params (FNumeric ctor nums None))).
Proof. exact NumberMapper_paramlist. Qed.

Theorem C09_src_paramlist_Boolean : forall O rec kv,
    exists ps, BooleanMapper__get_paramlist_from_schema O rec (PDict kv) = Ok (PList ps)
               /\ ptexts O ps = Ok (map (rt O) (model_params (FBoolean None))).
Proof. exact BooleanMapper_paramlist. Qed.

Theorem C09_src_paramlist_Enum : forall O rec kv l ls,
    dict_get kv (PStr (s2p "enum")) = Some (PList l) -> mapO (lit_of O) l = Some ls ->
    exists ps, EnumMapper__get_paramlist_from_schema O rec (PDict kv) = Ok (PList ps)
               /\ ptexts O ps = Ok (map (rt O) (model_params (FEnum ls None))).
Proof. exact EnumMapper_paramlist. Qed.

Theorem C09_src_paramlist_Array : forall O n rec kv flags k fs,
    rec_spec O n rec ->
    nums_of O kv array_keys = Some flags -> items_of (field_of O n) (getdef kv (s2p "items") PNone) = Some (k, fs) ->
    exists ps, ArrayMapper__get_paramlist_from_schema O rec (PDict kv) = Ok (PList ps)
               /\ ptexts O ps = Ok (map (rt O) (model_params (FArray flags k fs None))).
Proof. exact ArrayMapper_paramlist. Qed.

Theorem C09_src_paramlist_MultiField : forall O n rec k0 v0 kv' k fs ctor,
    rec_spec O n rec -> items_of (field_of O n) v0 = Some (k, fs) ->
    exists ps, MultiFieldMapper__get_paramlist_from_schema O rec (PDict ((k0, v0) :: kv')) = Ok (PList ps)
               /\ ptexts O ps = Ok (map (rt O) (model_params (FMulti ctor k fs None))).
Proof. exact MultiFieldMapper_paramlist. Qed.

Theorem C09_src_paramlist_StructureReference : forall O n rec kv pkv req props,
    rec_spec O n rec ->
    dict_get kv (PStr (s2p "properties")) = Some (PDict pkv) ->
    required_of (dict_get kv (PStr (s2p "required"))) = Some req ->
    mapO (prop_of (field_of O n)) pkv = Some props ->
    exists ps, StructureReferenceMapper__get_paramlist_from_schema O rec (PDict kv) = Ok (PList ps)
               /\ ptexts O ps = Ok (map (rt O) (model_params (FObject (closed_of kv) req props None))).
Proof. exact StructureReferenceMapper_paramlist. Qed.

Theorem C09_src_paramlist_Map : forall O n rec kv value,
    rec_spec O n rec ->
    py_truthy (getdef kv (s2p "patternProperties") PNone) = false ->
    map_value_of (field_of O n) kv = Some value ->
    exists ps, MapMapper__get_paramlist_from_schema O rec (PDict kv) = Ok (PList ps)
               /\ ptexts O ps = Ok (map (rt O) (model_params (FMap value None))).
Proof. exact MapMapper_paramlist. Qed.

Print Assumptions C09_src_struct_code.
Print Assumptions C09_src_field_code.
Print Assumptions C09_src_definitions_code.
Print Assumptions C09_src_default.
Print Assumptions C09_src_paramlist_String.
Print Assumptions C09_src_paramlist_Number.
Print Assumptions C09_src_paramlist_Boolean.
Print Assumptions C09_src_paramlist_Enum.
Print Assumptions C09_src_paramlist_Array.
Print Assumptions C09_src_paramlist_MultiField.
Print Assumptions C09_src_paramlist_StructureReference.
Print Assumptions C09_src_paramlist_Map.

(* the fragment is inhabited, and on this document the generated function computes typedpy's own output *)
Example C09_src_nonvacuous :
  exists c toks, class_of O_sample 3 (s2p "A") sample_schema = Some c /\ class_toks c = Some toks
                 /\ rt O_sample toks = sample_text.
Proof. exact fragment_inhabited. Qed.

(* ------------------------------------------------------------------------------------------------
   Composition: the token model only uses sites of the generated table (Schema/CodegenSitesProofs.v), so for every
   schema document of the fragment the generator's own (translated) source emits a text in which every schema string
   at a literal site went through repr() and is read back exactly, whatever it contains; the whole text is read back
   as exactly the schema's strings as soon as its NAMES are identifiers. *)
From TP Require Import Schema.CodegenSitesProofs Schema.CodegenEdgeProofs.

Theorem C09_field_toks_sites : forall f, sites_ok (field_toks f) = true.
Proof. exact field_toks_sites. Qed.

Theorem C09_class_toks_sites : forall c toks, class_toks c = Some toks -> sites_ok toks = true.
Proof. exact class_toks_sites. Qed.

Theorem C09_src_literals_roundtrip : forall O n name sch c toks,
    class_of O n name sch = Some c -> class_toks c = Some toks ->
    schema_to_struct_code O (2 * n + 1) (PStr name) sch (PList []) = Ok (PStr (render (co_printable O) emit_sites toks))
    /\ (forall site s, In (TStr site s) toks ->
          known_site site = true
          /\ (str_in site name_sites = false ->
              str_in site literal_sites = true /\ site_disc emit_sites site = Repr
              /\ (valid_str s = true ->
                  lex_tok py_keywords (site_disc emit_sites site)
                          (render_tok (co_printable O) emit_sites (TStr site s)) = Some (s, []))))
    /\ (names_fine py_keywords toks = true -> well_sep toks = true ->
        relex py_keywords emit_sites (map shape_of toks) (render (co_printable O) emit_sites toks) = Some (leaves toks)).
Proof. exact src_literals_roundtrip. Qed.

(* the two inputs the token model cannot express, stated about the generated functions themselves *)
Theorem C09_src_ref_ignores_siblings : forall O rec kv r,
    dict_get kv (PStr (s2p "$ref")) = Some (PStr r) ->
    convert_to_field_code_body O rec (PDict kv) (PList []) = Ok (PStr (skipn 14 r)).
Proof. exact ref_ignores_siblings. Qed.

Theorem C09_src_ref_default_drops_required : forall O name p r dv,
    schema_to_struct_code O 1 (PStr name) (PDict (ref_default_schema p r dv)) (PList [])
    = Ok (PStr (rt O (join [nl] [[raw "class "; TStr (s2p "struct_name") name; raw "(Structure):"];
                                 [raw "    "; TStr (s2p "property_name") p; raw ": "; TStr (s2p "ref") (skipn 14 r)];
                                 [];
                                 raw "    _required = " :: list_toks (s2p "required") []]))).
Proof. exact ref_default_drops_required. Qed.

Theorem C09_src_map_items_emitted : forall O n rec kv v nums,
    rec_spec O n rec ->
    py_truthy (getdef kv (s2p "patternProperties") PNone) = false ->
    py_truthy (getdef kv (s2p "additionalProperties") PNone) = true ->
    field_of O n (getdef kv (s2p "additionalProperties") PNone) = Some v ->
    nums_of O kv map_size_keys = Some nums ->
    exists ps, MapMapper__get_paramlist_from_schema O rec (PDict kv) = Ok (PList ps)
               /\ ptexts O ps = Ok (map (rt O) (model_params (FMap (Some v) None) ++ num_params nums)).
Proof. exact map_items_emitted. Qed.

Print Assumptions C09_field_toks_sites.
Print Assumptions C09_class_toks_sites.
Print Assumptions C09_src_literals_roundtrip.
Print Assumptions C09_src_ref_ignores_siblings.
Print Assumptions C09_src_ref_default_drops_required.
Print Assumptions C09_src_map_items_emitted.

(* the hypotheses of the round trip hold of the sample document (names are identifiers, strings are followed by a
   separator) *)
Example C09_src_literals_nonvacuous :
  exists c toks, class_of O_sample 3 (s2p "A") sample_schema = Some c /\ class_toks c = Some toks
                 /\ names_fine py_keywords toks = true /\ well_sep toks = true.
Proof. eexists. eexists. split; [vm_compute; reflexivity|]. split; [vm_compute; reflexivity|]. split; vm_compute; reflexivity. Qed.
