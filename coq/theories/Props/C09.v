(* Property C09 — schema-to-code output always executes and is equivalent to the schema.
   Lexical layer: for every quoting discipline found at an emission site of the generator, the set
   of strings it emits correctly is characterised exactly (both directions, all strings); the
   GENERATED table Gen/EmitSites.v says which discipline each schema parameter goes through today.
   Only the property theorems here; each is closed by [exact] of a lemma of Schema/PyLiteralProofs.v
   or Schema/CodeGenProofs.v. *)
From Coq Require Import NArith List Bool String.
Import ListNotations.
From TP Require Import Base.PyVal Schema.PyLiteral Schema.PyLiteralProofs Schema.CodeGen
     Schema.CodeGenProofs Gen.EmitSites.
Local Open Scope N_scope.

(* The full statement (lexical part): whatever the schema, the generator produces source, and that
   source is read back by Python as exactly the strings of the schema.  FALSE of the faithful model
   on the pinned tree (see the refutations below); kept visible. *)
Definition C09_statement : Prop :=
  forall (printable : N -> bool) (c : jclass),
    forallb valid_str (c_name c :: map fst (c_props c)) = true ->
    exists toks, class_toks c = Some toks /\
                 relex py_keywords emit_sites (map shape_of toks) (render printable emit_sites toks)
                 = Some (leaves toks).

Section C09.
  Variable printable : N -> bool.       (* str.isprintable of the running CPython *)
  Variable kw : list pystr.             (* its reserved words *)

  (* every string the characterisation accepts is read back unchanged ... *)
  Theorem C09_lex_roundtrip : forall q s,
      valid_str s = true -> quote_ok kw q s = true ->
      lex_tok kw q (emit printable q s) = Some (s, []).
  Proof. exact (lex_roundtrip printable kw). Qed.

  (* ... and every other string is not *)
  Theorem C09_lex_break : forall q s,
      quote_ok kw q s = false ->
      lex_tok kw q (emit printable q s) <> Some (s, []).
  Proof. exact (lex_break printable kw). Qed.

  (* repr() round-trips every string, also in front of any following text that is not a quote *)
  Theorem C09_repr_total : forall s rest,
      valid_str s = true -> no_quote_next rest ->
      lex_lit (emit printable Repr s ++ rest) = Some (s, rest).
  Proof. exact (lex_repr printable). Qed.

  (* the unsafe character set of the raw single-quote disciplines (wrap_val, inline f-string),
     spelled out: quote, newline, CR, NUL, a trailing backslash, a backslash before an escape
     character; everything made of plain characters is safe *)
  Theorem C09_raw_quote : forall s, In SQ s -> quote_ok kw WrapVal s = false.
  Proof. intros s H. exact (okb_short_quote SQ [SQ] s H). Qed.

  Theorem C09_raw_bad_char : forall s c,
      In c s -> c <> BS -> raw_id false c = false -> quote_ok kw WrapVal s = false.
  Proof. intros s c. exact (okb_bad_char false SQ [SQ] s c). Qed.

  Theorem C09_raw_backslash_end : forall a, quote_ok kw WrapVal (a ++ [BS]) = false.
  Proof. exact (okb_bs_end false SQ [SQ]). Qed.

  Theorem C09_raw_backslash_escape : forall a e b,
      keeps e = false -> quote_ok kw WrapVal (a ++ BS :: e :: b) = false.
  Proof. exact (okb_bs_escape false SQ [SQ]). Qed.

  Theorem C09_raw_plain_safe : forall s,
      forallb plain_char s = true ->
      quote_ok kw WrapVal s = true /\ quote_ok kw RawFString s = true /\ quote_ok kw TripleQuoted s = true.
  Proof.
    intros s H. repeat split.
    - exact (okb_plain false SQ [SQ] s (or_introl eq_refl) H).
    - exact (okb_plain false SQ [SQ] s (or_introl eq_refl) H).
    - exact (okb_plain true DQ [DQ; DQ; DQ] s (or_intror eq_refl) H).
  Qed.

  (* a docstring pasted between triple quotes: three quotes inside, or a quote at the end *)
  Theorem C09_triple_inside : forall a b, quote_ok kw TripleQuoted (a ++ DQ :: DQ :: DQ :: b) = false.
  Proof. exact okb_triple_inside. Qed.

  Theorem C09_triple_backslash : forall a e b,
      keeps e = false -> quote_ok kw TripleQuoted (a ++ BS :: e :: b) = false.
  Proof. exact (okb_bs_escape true DQ [DQ; DQ; DQ]). Qed.

  (* the GENERATED table: a site whose discipline is repr is safe for all strings;
     every other site has a computable witness that it emits wrongly *)
  Theorem C09_sites : forall site q,
      In (site, q) emit_sites -> discipline_total q = true ->
      forall s, valid_str s = true -> lex_tok kw q (emit printable q s) = Some (s, []).
  Proof. exact (sites_total_safe printable kw emit_sites). Qed.

  Theorem C09_sites_witness : forall site q,
      In (site, q) emit_sites -> discipline_total q = false ->
      lex_tok kw q (emit printable q (witness q)) <> Some (witness q, []).
  Proof. exact (sites_witness printable kw emit_sites). Qed.

  (* composition: when every schema string of a generated token list is within its site's safe set,
     the whole rendered source is read back as exactly the schema's strings (any site table) *)
  Theorem C09_relex : forall tbl toks,
      all_sites_ok kw tbl toks = true -> well_sep toks = true ->
      relex kw tbl (map shape_of toks) (render printable tbl toks) = Some (leaves toks).
  Proof. exact (relex_render printable kw). Qed.
End C09.

Print Assumptions C09_lex_roundtrip.
Print Assumptions C09_lex_break.
Print Assumptions C09_repr_total.
Print Assumptions C09_raw_quote.
Print Assumptions C09_raw_bad_char.
Print Assumptions C09_raw_backslash_end.
Print Assumptions C09_raw_backslash_escape.
Print Assumptions C09_raw_plain_safe.
Print Assumptions C09_triple_inside.
Print Assumptions C09_triple_backslash.
Print Assumptions C09_sites.
Print Assumptions C09_sites_witness.
Print Assumptions C09_relex.

(* ------------------------------------------------------------------ refutations of the full statement *)

Definition all_printable (c : N) : bool := true.

Definition one_prop_class (f : jfield) (req : option (list pystr)) : jclass :=
  {| c_name := s2p "K"; c_description := None; c_closed := false; c_required := req;
     c_props := [(s2p "p", f)] |}.

(* a property with a default in a schema without a required list: the generator raises *)
Theorem C09_refuted_crash : exists c, class_toks c = None.
Proof.
  exists (one_prop_class (FString [] None (Some (DScalar (LStr (s2p "x"))))) None). reflexivity.
Qed.

(* the raw disciplines, whatever site uses them *)
Theorem C09_refuted_WrapVal : exists s,
    valid_str s = true /\ lex_tok py_keywords WrapVal (emit all_printable WrapVal s) <> Some (s, []).
Proof. exists (s2p "a'b"). split; [reflexivity|]. apply lex_break. reflexivity. Qed.

Theorem C09_refuted_TripleQuoted : exists s,
    valid_str s = true /\
    lex_tok py_keywords TripleQuoted (emit all_printable TripleQuoted s) <> Some (s, []).
Proof. exists (s2p "C:\new"). split; [reflexivity|]. apply lex_break. reflexivity. Qed.

(* a reserved word as a property name *)
Theorem C09_refuted_keyword_name :
    lex_tok py_keywords Identifier (emit all_printable Identifier (s2p "from")) <> Some (s2p "from", []).
Proof. apply lex_break. reflexivity. Qed.

Theorem C09_statement_refuted : ~ C09_statement.
Proof.
  intro H.
  destruct (H all_printable (one_prop_class (FString [] None (Some (DScalar (LStr (s2p "x"))))) None)
              eq_refl) as [toks [E _]].
  discriminate.
Qed.

Print Assumptions C09_refuted_crash.
Print Assumptions C09_refuted_WrapVal.
Print Assumptions C09_refuted_TripleQuoted.
Print Assumptions C09_refuted_keyword_name.
Print Assumptions C09_statement_refuted.

(* ------------------------------------------------------------------ non-vacuity *)

Definition ex_class : jclass :=
  {| c_name := s2p "Example";
     c_description := Some (s2p "a 'quoted' word and a ""double"" one");
     c_closed := true;
     c_required := Some [s2p "name"; s2p "kind"; s2p "tags"];
     c_props :=
       [ (s2p "name", FString [(s2p "maxLength", s2p "8")] (Some (s2p "[A-Za-z]+$")) None);
         (s2p "kind", FEnum [LStr (s2p "it's"); LStr (s2p "back\slash"); LRaw (s2p "3")] None);
         (s2p "tags", FArray [(s2p "uniqueItems", s2p "True")] IOne [FString [] None None]
                             (Some (DList [LStr (s2p "a""b")])));
         (s2p "sub", FObject false (Some [s2p "n"]) [(s2p "n", FNumeric (s2p "Integer") [] None)] None) ] |}.

Example C09_nonvacuous :
  exists toks, class_toks ex_class = Some toks /\
    all_sites_ok py_keywords emit_sites toks = true /\ well_sep toks = true /\
    relex py_keywords emit_sites (map shape_of toks) (render all_printable emit_sites toks)
    = Some (leaves toks) /\
    List.length (leaves toks) = 14%nat.
Proof. eexists. split; [reflexivity|]. vm_compute. repeat split; reflexivity. Qed.
