(* Property C02 — accept/reject decision, stored normal form and error class match the docs.
   Only the property theorems; proofs are in Fields/SetChainProofs.v. *)
From Coq Require Import ZArith NArith String List.
Import ListNotations.
From TP Require Import Base.PyVal Base.PyOps Fields.FieldAst Fields.SetChain Fields.Doc Fields.Domain Fields.SetChainProofs.
From TP Require Import Gen.Guards Fields.GuardProofs.
From TP Require Import Base.PyOps2 Gen.EnumGuards Ser.EnumGuardProofs.
Local Open Scope string_scope.

Section C02.
  Variable re_match : N -> pystr -> bool.     (* oracle: re.match *)
  Variable e : env.                           (* class environment (for class references) *)

  (* For every declaration f (any nesting) and every candidate value v in the statement's domain:
     the code accepts v and stores nf  <->  the documented rules accept v with normal form nf. *)
  Theorem C02_decision : forall f v nf,
      dom f v = true ->
      (vset re_match e f v = Ok nf <-> docb re_match e f v = Some nf).
  Proof. exact (vset_decision re_match e). Qed.

  (* ... and every rejection is a TypeError or a ValueError. *)
  Theorem C02_error_class : forall f v x,
      dom f v = true -> vset re_match e f v = Raise x -> is_te_ve x = true.
  Proof. exact (vset_error_class re_match e). Qed.

  (* the two in one: outcome of the code and documented verdict coincide *)
  Theorem C02_agree : forall f v, dom f v = true -> agree (vset re_match e f v) (docb re_match e f v).
  Proof. exact (vset_agrees_with_doc re_match e). Qed.

  (* ---- the tie to the source, re-checked by the kernel on every run --------------------------------
     Gen/Guards.v is re-generated from typedpy/fields/*.py (harness/genmods/py2v.py); the guard functions
     the code contains NOW coincide, for every declaration and every value, with the ones the model of
     the __set__ chains ([vset], about which the theorems above speak) is built from. *)
  Theorem C02_src_number : forall c v, Number__validate_static re_match (numc_self c) v = number_static c v.
  Proof. exact (generated_number_static re_match). Qed.
  Theorem C02_src_positive : forall self v, Positive__set re_match self v = (_ <- sign_check SPositive v ;; Ok v).
  Proof. exact (generated_positive re_match). Qed.
  Theorem C02_src_negative : forall self v, Negative__set re_match self v = (_ <- sign_check SNegative v ;; Ok v).
  Proof. exact (generated_negative re_match). Qed.
  Theorem C02_src_nonpositive : forall self v, NonPositive__set re_match self v = (_ <- sign_check SNonPositive v ;; Ok v).
  Proof. exact (generated_nonpositive re_match). Qed.
  Theorem C02_src_nonnegative : forall self v, NonNegative__set re_match self v = (_ <- sign_check SNonNegative v ;; Ok v).
  Proof. exact (generated_nonnegative re_match). Qed.
  Theorem C02_src_string : forall c v,
      (_ <- String__validate_static re_match (strc_self c) v ;; Ok v) = string_chain re_match c v.
  Proof. exact (generated_string_static re_match). Qed.
  Theorem C02_src_boolean : forall v,
      (v' <- Boolean__set re_match no_self v ;; _ <- Boolean__validate re_match no_self v' ;; Ok v') = boolean_chain v.
  Proof. exact (generated_boolean re_match). Qed.
  Theorem C02_src_size : forall sz items n,
      py_len items = Ok (zint n) ->
      SizedCollection_validate_size re_match (sizec_self sz) items = size_check sz n.
  Proof. exact (generated_validate_size_len re_match). Qed.
  Theorem C02_src_unique_list : forall u v,
      verify_type_and_uniqueness_list re_match no_self v (PBool u) =
      match v with PList l => uniq_check u l | _ => Raise TypeError end.
  Proof. exact (generated_verify_list re_match). Qed.
  Theorem C02_src_unique_deque : forall u v,
      verify_type_and_uniqueness_deque re_match no_self v (PBool u) =
      match v with PDeque l => uniq_check u l | _ => Raise TypeError end.
  Proof. exact (generated_verify_deque re_match). Qed.
  Theorem C02_src_unique_tuple : forall u v,
      verify_type_and_uniqueness_tuple re_match no_self v (PBool u) =
      match v with PTuple l => uniq_check u l | _ => Raise TypeError end.
  Proof. exact (generated_verify_tuple re_match). Qed.
  Theorem C02_src_array_positional : forall (items : list field) additional l,
      Array_positional_len_bad re_match (pos_self items additional) (PList l) = Ok (pos_len_bad items additional l).
  Proof. exact (generated_array_positional re_match). Qed.
  Theorem C02_src_deque_positional : forall (items : list field) additional l,
      Deque_positional_len_bad re_match (pos_self items additional) (PDeque l) = Ok (pos_len_bad items additional l).
  Proof. exact (generated_deque_positional re_match). Qed.
  Theorem C02_src_tuple_len : forall (items : list field) l,
      Tuple_len_bad re_match (pos_self items None) (PTuple l) = Ok (andb (negb (lenZ items =? lenZ l)%Z) (1 <? lenZ items)%Z).
  Proof. exact (generated_tuple_len re_match). Qed.

  (* Gen/EnumGuards.v is re-generated from typedpy/fields/enum.py (harness/genmods/py2v_enum.py): what
     Enum.__set__ (with the Enum._validate it calls) does NOW on an Enum over a class E restricted to
     ANY declared subset of its members, resp. over literal values, is the model's vset, for every value. *)
  Theorem C02_src_enum_cls : forall cls members all by_value v,
      members_of_class members all ->
      Enum__set re_match (enumcls_self cls members all by_value) v = vset re_match e (FEnumCls cls members) v.
  Proof. exact (generated_enum_set_cls re_match e). Qed.
  Theorem C02_src_enum_lit : forall values v,
      Enum__set re_match (enumlit_self values) v = vset re_match e (FEnumLit values) v.
  Proof. exact (generated_enum_set_lit re_match e). Qed.
End C02.

Print Assumptions C02_src_number.
Print Assumptions C02_src_positive.
Print Assumptions C02_src_negative.
Print Assumptions C02_src_nonpositive.
Print Assumptions C02_src_nonnegative.
Print Assumptions C02_src_string.
Print Assumptions C02_src_boolean.
Print Assumptions C02_src_size.
Print Assumptions C02_src_unique_list.
Print Assumptions C02_src_unique_deque.
Print Assumptions C02_src_unique_tuple.
Print Assumptions C02_src_array_positional.
Print Assumptions C02_src_deque_positional.
Print Assumptions C02_src_tuple_len.
Print Assumptions C02_src_enum_cls.
Print Assumptions C02_src_enum_lit.
Print Assumptions C02_decision.
Print Assumptions C02_error_class.
Print Assumptions C02_agree.

(* non-vacuity: a nested declaration and a value in the domain, accepted with a normal form that
   differs from the input (int -> float, enum name -> member, 'True' -> True) *)
Definition ex_field : field :=
  FSeqPos SeqList
    [ FNumber KFloat SPositive {| multiplesOf := None; minimum := Some (NInt 1); maximum := Some (NInt 5); exclusiveMaximum := true |};
      FEnumCls (s2p "Color") [(s2p "RED", PNum (NInt 1)); (s2p "GREEN", PNum (NInt 2))];
      FAnyOf [FNumber KInteger SAny no_numc; FBoolean] ]
    no_sizec false (Some false).
Definition ex_value : pyval := PList [PNum (NInt 4); PStr (s2p "GREEN"); PStr (s2p "True")].

Example C02_nonvacuous :
  dom ex_field ex_value = true /\
  vset (fun _ _ => true) [] ex_field ex_value =
    Ok (PList [PNum (NFlt 1 2); PEnum (s2p "Color") (s2p "GREEN") (PNum (NInt 2)); PBool true]) /\
  (* at the exclusive maximum: rejected with ValueError *)
  vset (fun _ _ => true) [] ex_field (PList [PNum (NInt 5); PStr (s2p "GREEN"); PStr (s2p "True")]) = Raise ValueError /\
  (* over-long for additionalItems=False *)
  vset (fun _ _ => true) [] ex_field (PList [PNum (NInt 4); PStr (s2p "GREEN"); PBool true; PNone]) = Raise ValueError.
Proof. repeat split; vm_compute; reflexivity. Qed.

(* the hypothesis of C02_src_enum_cls is met by a proper subset of a class, and the generated
   Enum.__set__ then rejects the NAME of an excluded member while converting the name of a declared one *)
Example C02_src_enum_nonvacuous :
  let all := [(s2p "RED", PNum (NInt 1)); (s2p "GREEN", PNum (NInt 2)); (s2p "BLUE", PNum (NInt 3))] in
  let members := [(s2p "RED", PNum (NInt 1)); (s2p "BLUE", PNum (NInt 3))] in
  members_of_class members all /\
  Enum__set (fun _ _ => true) (enumcls_self (s2p "Color") members all false) (PStr (s2p "GREEN")) = Raise ValueError /\
  Enum__set (fun _ _ => true) (enumcls_self (s2p "Color") members all false) (PStr (s2p "BLUE"))
    = Ok (PEnum (s2p "Color") (s2p "BLUE") (PNum (NInt 3))).
Proof.
  cbv zeta. split; [|split; vm_compute; reflexivity].
  intros n x. cbn [alist_get].
  destruct (pystr_eqb (s2p "RED") n) eqn:H1; [intros H; exact H|].
  destruct (pystr_eqb (s2p "BLUE") n) eqn:H2; [|discriminate].
  intros H. destruct (pystr_eqb (s2p "GREEN") n) eqn:H3; [|exact H].
  apply pystr_eqb_spec in H2. apply pystr_eqb_spec in H3. subst n. discriminate H3.
Qed.
