(* Property C02 — accept/reject decision, stored normal form and error class match the docs.
   Only the property theorems; proofs are in Fields/SetChainProofs.v. *)
From Coq Require Import ZArith NArith String List.
Import ListNotations.
From TP Require Import Base.PyVal Fields.FieldAst Fields.SetChain Fields.Doc Fields.Domain Fields.SetChainProofs.
Local Open Scope string_scope.

Section C02.
  Variable re_match : N -> pystr -> bool.     (* oracle: re.match *)
  Variable e : env.                           (* class environment (for class references) *)

  (* For every declaration f (any nesting) and every candidate value v in the statement's domain:
     the code accepts v and stores nf  <->  the documented rules accept v with normal form nf. *)
  Theorem C02_decision : forall f v nf,
      dom f v = true ->
      (vset re_match e f v = Ok nf <-> docb re_match e f v = Some nf).
  Proof. exact (vset_decision re_match e). Qed.

  (* ... and every rejection is a TypeError or a ValueError. *)
  Theorem C02_error_class : forall f v x,
      dom f v = true -> vset re_match e f v = Raise x -> is_te_ve x = true.
  Proof. exact (vset_error_class re_match e). Qed.

  (* the two in one: outcome of the code and documented verdict coincide *)
  Theorem C02_agree : forall f v, dom f v = true -> agree (vset re_match e f v) (docb re_match e f v).
  Proof. exact (vset_agrees_with_doc re_match e). Qed.
End C02.

Print Assumptions C02_decision.
Print Assumptions C02_error_class.
Print Assumptions C02_agree.

(* non-vacuity: a nested declaration and a value in the domain, accepted with a normal form that
   differs from the input (int -> float, enum name -> member, 'True' -> True) *)
Definition ex_field : field :=
  FSeqPos SeqList
    [ FNumber KFloat SPositive {| multiplesOf := None; minimum := Some (NInt 1); maximum := Some (NInt 5); exclusiveMaximum := true |};
      FEnumCls (s2p "Color") [(s2p "RED", PNum (NInt 1)); (s2p "GREEN", PNum (NInt 2))];
      FAnyOf [FNumber KInteger SAny no_numc; FBoolean] ]
    no_sizec false (Some false).
Definition ex_value : pyval := PList [PNum (NInt 4); PStr (s2p "GREEN"); PStr (s2p "True")].

Example C02_nonvacuous :
  dom ex_field ex_value = true /\
  vset (fun _ _ => true) [] ex_field ex_value =
    Ok (PList [PNum (NFlt 1 2); PEnum (s2p "Color") (s2p "GREEN") (PNum (NInt 2)); PBool true]) /\
  (* at the exclusive maximum: rejected with ValueError *)
  vset (fun _ _ => true) [] ex_field (PList [PNum (NInt 5); PStr (s2p "GREEN"); PStr (s2p "True")]) = Raise ValueError /\
  (* over-long for additionalItems=False *)
  vset (fun _ _ => true) [] ex_field (PList [PNum (NInt 4); PStr (s2p "GREEN"); PBool true; PNone]) = Raise ValueError.
Proof. repeat split; vm_compute; reflexivity. Qed.
