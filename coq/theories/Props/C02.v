(* Property C02 — accept/reject decision, stored normal form and error class match the docs.
   Only the property theorems; proofs are in Fields/SetChainProofs.v. *)
From Coq Require Import ZArith NArith String List.
Import ListNotations.
From TP Require Import Base.PyVal Base.PyOps Fields.FieldAst Fields.SetChain Fields.Doc Fields.Domain Fields.SetChainProofs.
From TP Require Import Gen.Guards Fields.GuardProofs.
From TP Require Import Base.PyOps2 Gen.EnumGuards Ser.EnumGuardProofs.
Local Open Scope string_scope.

Section C02.
  Variable re_match : N -> pystr -> bool.     (* oracle: re.match *)
  Variable e : env.                           (* class environment (for class references) *)

  (* For every declaration f (any nesting) and every candidate value v in the statement's domain:
     the code accepts v and stores nf  <->  the documented rules accept v with normal form nf. *)
  Theorem C02_decision : forall f v nf,
      dom f v = true ->
      (vset re_match e f v = Ok nf <-> docb re_match e f v = Some nf).
  Proof. exact (vset_decision re_match e). Qed.

  (* ... and every rejection is a TypeError or a ValueError. *)
  Theorem C02_error_class : forall f v x,
      dom f v = true -> vset re_match e f v = Raise x -> is_te_ve x = true.
  Proof. exact (vset_error_class re_match e). Qed.

  (* the two in one: outcome of the code and documented verdict coincide *)
  Theorem C02_agree : forall f v, dom f v = true -> agree (vset re_match e f v) (docb re_match e f v).
  Proof. exact (vset_agrees_with_doc re_match e). Qed.

  (* ---- the tie to the source, re-checked by the kernel on every run --------------------------------
     Gen/Guards.v is re-generated from typedpy/fields/*.py (harness/genmods/py2v.py); the guard functions
     the code contains NOW coincide, for every declaration and every value, with the ones the model of
     the __set__ chains ([vset], about which the theorems above speak) is built from. *)
  Theorem C02_src_number : forall c v, Number__validate_static re_match (numc_self c) v = number_static c v.
  Proof. exact (generated_number_static re_match). Qed.
  Theorem C02_src_positive : forall self v, Positive__set re_match self v = (_ <- sign_check SPositive v ;; Ok v).
  Proof. exact (generated_positive re_match). Qed.
  Theorem C02_src_negative : forall self v, Negative__set re_match self v = (_ <- sign_check SNegative v ;; Ok v).
  Proof. exact (generated_negative re_match). Qed.
  Theorem C02_src_nonpositive : forall self v, NonPositive__set re_match self v = (_ <- sign_check SNonPositive v ;; Ok v).
  Proof. exact (generated_nonpositive re_match). Qed.
  Theorem C02_src_nonnegative : forall self v, NonNegative__set re_match self v = (_ <- sign_check SNonNegative v ;; Ok v).
  Proof. exact (generated_nonnegative re_match). Qed.
  Theorem C02_src_string : forall c v,
      (_ <- String__validate_static re_match (strc_self c) v ;; Ok v) = string_chain re_match c v.
  Proof. exact (generated_string_static re_match). Qed.
  Theorem C02_src_boolean : forall v,
      (v' <- Boolean__set re_match no_self v ;; _ <- Boolean__validate re_match no_self v' ;; Ok v') = boolean_chain v.
  Proof. exact (generated_boolean re_match). Qed.
  Theorem C02_src_size : forall sz items n,
      py_len items = Ok (zint n) ->
      SizedCollection_validate_size re_match (sizec_self sz) items = size_check sz n.
  Proof. exact (generated_validate_size_len re_match). Qed.
  Theorem C02_src_unique_list : forall u v,
      verify_type_and_uniqueness_list re_match no_self v (PBool u) =
      match v with PList l => uniq_check u l | _ => Raise TypeError end.
  Proof. exact (generated_verify_list re_match). Qed.
  Theorem C02_src_unique_deque : forall u v,
      verify_type_and_uniqueness_deque re_match no_self v (PBool u) =
      match v with PDeque l => uniq_check u l | _ => Raise TypeError end.
  Proof. exact (generated_verify_deque re_match). Qed.
  Theorem C02_src_unique_tuple : forall u v,
      verify_type_and_uniqueness_tuple re_match no_self v (PBool u) =
      match v with PTuple l => uniq_check u l | _ => Raise TypeError end.
  Proof. exact (generated_verify_tuple re_match). Qed.
  Theorem C02_src_array_positional : forall (items : list field) additional l,
      Array_positional_len_bad re_match (pos_self items additional) (PList l) = Ok (pos_len_bad items additional l).
  Proof. exact (generated_array_positional re_match). Qed.
  Theorem C02_src_deque_positional : forall (items : list field) additional l,
      Deque_positional_len_bad re_match (pos_self items additional) (PDeque l) = Ok (pos_len_bad items additional l).
  Proof. exact (generated_deque_positional re_match). Qed.
  Theorem C02_src_tuple_len : forall (items : list field) l,
      Tuple_len_bad re_match (pos_self items None) (PTuple l) = Ok (andb (negb (lenZ items =? lenZ l)%Z) (1 <? lenZ items)%Z).
  Proof. exact (generated_tuple_len re_match). Qed.

  (* Gen/EnumGuards.v is re-generated from typedpy/fields/enum.py (harness/genmods/py2v_enum.py): what
     Enum.__set__ (with the Enum._validate it calls) does NOW on an Enum over a class E restricted to
     ANY declared subset of its members, resp. over literal values, is the model's vset, for every value. *)
  Theorem C02_src_enum_cls : forall cls members all by_value v,
      members_of_class members all ->
      Enum__set re_match (enumcls_self cls members all by_value) v = vset re_match e (FEnumCls cls members) v.
  Proof. exact (generated_enum_set_cls re_match e). Qed.
  Theorem C02_src_enum_lit : forall values v,
      Enum__set re_match (enumlit_self values) v = vset re_match e (FEnumLit values) v.
  Proof. exact (generated_enum_set_lit re_match e). Qed.
End C02.

Print Assumptions C02_src_number.
Print Assumptions C02_src_positive.
Print Assumptions C02_src_negative.
Print Assumptions C02_src_nonpositive.
Print Assumptions C02_src_nonnegative.
Print Assumptions C02_src_string.
Print Assumptions C02_src_boolean.
Print Assumptions C02_src_size.
Print Assumptions C02_src_unique_list.
Print Assumptions C02_src_unique_deque.
Print Assumptions C02_src_unique_tuple.
Print Assumptions C02_src_array_positional.
Print Assumptions C02_src_deque_positional.
Print Assumptions C02_src_tuple_len.
Print Assumptions C02_src_enum_cls.
Print Assumptions C02_src_enum_lit.
Print Assumptions C02_decision.
Print Assumptions C02_error_class.
Print Assumptions C02_agree.

(* non-vacuity: a nested declaration and a value in the domain, accepted with a normal form that
   differs from the input (int -> float, enum name -> member, 'True' -> True) *)
Definition ex_field : field :=
  FSeqPos SeqList
    [ FNumber KFloat SPositive {| multiplesOf := None; minimum := Some (NInt 1); maximum := Some (NInt 5); exclusiveMaximum := true |};
      FEnumCls (s2p "Color") [(s2p "RED", PNum (NInt 1)); (s2p "GREEN", PNum (NInt 2))];
      FAnyOf [FNumber KInteger SAny no_numc; FBoolean] ]
    no_sizec false (Some false).
Definition ex_value : pyval := PList [PNum (NInt 4); PStr (s2p "GREEN"); PStr (s2p "True")].

Example C02_nonvacuous :
  dom ex_field ex_value = true /\
  vset (fun _ _ => true) [] ex_field ex_value =
    Ok (PList [PNum (NFlt 1 2); PEnum (s2p "Color") (s2p "GREEN") (PNum (NInt 2)); PBool true]) /\
  (* at the exclusive maximum: rejected with ValueError *)
  vset (fun _ _ => true) [] ex_field (PList [PNum (NInt 5); PStr (s2p "GREEN"); PStr (s2p "True")]) = Raise ValueError /\
  (* over-long for additionalItems=False *)
  vset (fun _ _ => true) [] ex_field (PList [PNum (NInt 4); PStr (s2p "GREEN"); PBool true; PNone]) = Raise ValueError.
Proof. repeat split; vm_compute; reflexivity. Qed.

(* the hypothesis of C02_src_enum_cls is met by a proper subset of a class, and the generated
   Enum.__set__ then rejects the NAME of an excluded member while converting the name of a declared one *)
Example C02_src_enum_nonvacuous :
  let all := [(s2p "RED", PNum (NInt 1)); (s2p "GREEN", PNum (NInt 2)); (s2p "BLUE", PNum (NInt 3))] in
  let members := [(s2p "RED", PNum (NInt 1)); (s2p "BLUE", PNum (NInt 3))] in
  members_of_class members all /\
  Enum__set (fun _ _ => true) (enumcls_self (s2p "Color") members all false) (PStr (s2p "GREEN")) = Raise ValueError /\
  Enum__set (fun _ _ => true) (enumcls_self (s2p "Color") members all false) (PStr (s2p "BLUE"))
    = Ok (PEnum (s2p "Color") (s2p "BLUE") (PNum (NInt 3))).
Proof.
  cbv zeta. split; [|split; vm_compute; reflexivity].
  intros n x. cbn [alist_get].
  destruct (pystr_eqb (s2p "RED") n) eqn:H1; [intros H; exact H|].
  destruct (pystr_eqb (s2p "BLUE") n) eqn:H2; [|discriminate].
  intros H. destruct (pystr_eqb (s2p "GREEN") n) eqn:H3; [|exact H].
  apply pystr_eqb_spec in H2. apply pystr_eqb_spec in H3. subst n. discriminate H3.
Qed.

(* ---- the tie to the source of the ELEMENT LOOPS, re-checked by the kernel on every run -------------------
   Gen/CollectionsSrc.v is re-generated from typedpy/fields/array.py, deque_field.py, tuple_field.py, set_field.py,
   map_field.py, multified_wrappers.py (harness/genmods/py2v_collections.py): the __set__ methods of Array / Deque /
   Tuple / Set / ImmutableSet / Map and of AllOf / AnyOf / OneOf / NotField, parametric in the item fields' own chains
   (rec_of ... i = vset of the i-th item field, exactly as vset recurses).  For EVERY declaration and value what
   the source does NOW (validate each element on a scratch structure, read the converted element back, rebuild and
   wrap the container; positional vs single item field; the option loops with their exception handling) is the
   corresponding case of the model's vset, on which C02_decision is proved. *)
From TP Require Import Base.PyObj Base.PyOpsCollections Gen.CollectionsSrc Fields.CollectionsSrcProofs.

Theorem C02_src_array_each :
  forall (re_match : N -> pystr -> bool) (e : env) (item : field) 
           (sz : sizec) (u : bool) (a : option bool) (im : bool) (name : pystr) 
           (nm : names) (iattrs : list (pystr * cobj)) (v : pyval),
         name_ok name = true ->
         validating iattrs = true ->
         set_result
           (Src_Array_set re_match (rec_of re_match e [item]) nm (coll_self name (OFld 0) sz u a im)
              (OObj KInst iattrs) (OVal v)) = vset re_match e (FSeqEach SeqList item sz u) v.
Proof. exact generated_array_each. Qed.

Theorem C02_src_array_any :
  forall (re_match : N -> pystr -> bool) (e : env) (rec : nat -> pyval -> res pyval)
           (sz : sizec) (u : bool) (a : option bool) (im : bool) (name : pystr) 
           (nm : names) (iattrs : list (pystr * cobj)) (v : pyval),
         validating iattrs = true ->
         set_result
           (Src_Array_set re_match rec nm (coll_self name (OVal PNone) sz u a im) 
              (OObj KInst iattrs) (OVal v)) = vset re_match e (FSeqAny SeqList sz u) v.
Proof. exact generated_array_any. Qed.

Theorem C02_src_array_pos :
  forall (re_match : N -> pystr -> bool) (e : env) (items : list field) 
           (sz : sizec) (u : bool) (additional : option bool) (im : bool) 
           (name : pystr) (nm : names) (iattrs : list (pystr * cobj)) (v : pyval),
         name_ok name = true ->
         validating iattrs = true ->
         set_result
           (Src_Array_set re_match (rec_of re_match e items) nm
              (coll_self name (OFlds (fids items)) sz u additional im) (OObj KInst iattrs) 
              (OVal v)) = vset re_match e (FSeqPos SeqList items sz u additional) v.
Proof. exact generated_array_pos. Qed.

Theorem C02_src_deque_each :
  forall (re_match : N -> pystr -> bool) (e : env) (item : field) 
           (sz : sizec) (u : bool) (a : option bool) (im : bool) (name : pystr) 
           (nm : names) (iattrs : list (pystr * cobj)) (v : pyval),
         name_ok name = true ->
         set_result
           (Src_Deque_set re_match (rec_of re_match e [item]) nm (coll_self name (OFld 0) sz u a im)
              (OObj KInst iattrs) (OVal v)) = vset re_match e (FSeqEach SeqDeque item sz u) v.
Proof. exact generated_deque_each. Qed.

Theorem C02_src_deque_any :
  forall (re_match : N -> pystr -> bool) (e : env) (rec : nat -> pyval -> res pyval)
           (sz : sizec) (u : bool) (a : option bool) (im : bool) (name : pystr) 
           (nm : names) (iattrs : list (pystr * cobj)) (v : pyval),
         set_result
           (Src_Deque_set re_match rec nm (coll_self name (OVal PNone) sz u a im) 
              (OObj KInst iattrs) (OVal v)) = vset re_match e (FSeqAny SeqDeque sz u) v.
Proof. exact generated_deque_any. Qed.

Theorem C02_src_deque_pos :
  forall (re_match : N -> pystr -> bool) (e : env) (items : list field) 
           (sz : sizec) (u : bool) (additional : option bool) (im : bool) 
           (name : pystr) (nm : names) (iattrs : list (pystr * cobj)) (v : pyval),
         name_ok name = true ->
         validating iattrs = true ->
         set_result
           (Src_Deque_set re_match (rec_of re_match e items) nm
              (coll_self name (OFlds (fids items)) sz u additional im) (OObj KInst iattrs) 
              (OVal v)) = vset re_match e (FSeqPos SeqDeque items sz u additional) v.
Proof. exact generated_deque_pos. Qed.

Theorem C02_src_tuple :
  forall (re_match : N -> pystr -> bool) (e : env) (items : list field) 
           (u : bool) (sz : sizec) (a : option bool) (im : bool) (name : pystr) 
           (nm : names) (iattrs : list (pystr * cobj)) (v : pyval),
         name_ok name = true ->
         tuple_declared items = true ->
         set_result
           (Src_Tuple_set re_match (rec_of re_match e items) nm
              (coll_self name (OFlds (fids items)) sz u a im) (OObj KInst iattrs) 
              (OVal v)) = vset re_match e (FTuple items u) v.
Proof. exact generated_tuple. Qed.

Theorem C02_src_set_items_py :
  forall (re_match : N -> pystr -> bool) (e : env) (g : field) (sz : sizec) 
           (u : bool) (a : option bool) (im : bool) (name : pystr) (nm : names)
           (iattrs : list (pystr * cobj)) (v : pyval),
         validating iattrs = true ->
         py_container_ok v = true ->
         set_result
           (Src_Set_set re_match (rec_of re_match e [g]) nm (coll_self name (OFld 0) sz u a im)
              (OObj KInst iattrs) (OVal v)) = vset re_match e (FSet false (Some g) sz) v.
Proof. exact generated_set_items_py. Qed.

Theorem C02_src_set_plain :
  forall (re_match : N -> pystr -> bool) (e : env) (rec : nat -> pyval -> res pyval)
           (sz : sizec) (u : bool) (a : option bool) (im : bool) (name : pystr) 
           (nm : names) (iattrs : list (pystr * cobj)) (v : pyval),
         validating iattrs = true ->
         set_result
           (Src_Set_set re_match rec nm (coll_self name (OVal PNone) sz u a im) 
              (OObj KInst iattrs) (OVal v)) = vset re_match e (FSet false None sz) v.
Proof. exact generated_set_plain. Qed.

Theorem C02_src_immutableset_items :
  forall (re_match : N -> pystr -> bool) (e : env) (g : field) (sz : sizec) 
           (u : bool) (a : option bool) (im : bool) (name : pystr) (nm : names)
           (iattrs : list (pystr * cobj)) (v : pyval),
         name_ok name = true ->
         validating iattrs = true ->
         iset_first_ok re_match e g v = true ->
         match vset re_match e (FSet true (Some g) sz) v with
         | Ok nf => set_elems_hashable re_match e g nf
         | Raise _ => true
         end = true ->
         set_result
           (Src_ImmutableSet_set re_match (rec_of re_match e [g]) nm
              (coll_self name (OFld 0) sz u a im) (OObj KInst iattrs) (OVal v)) =
         nf <- vset re_match e (FSet true (Some g) sz) v;; vset re_match e (FSet true (Some g) sz) nf.
Proof. exact generated_immutableset_items. Qed.

Theorem C02_src_immutableset_items_fix :
  forall (re_match : N -> pystr -> bool) (e : env) (g : field) (sz : sizec) 
           (u : bool) (a : option bool) (im : bool) (name : pystr) (nm : names)
           (iattrs : list (pystr * cobj)) (v : pyval),
         name_ok name = true ->
         validating iattrs = true ->
         iset_first_ok re_match e g v = true ->
         match vset re_match e (FSet true (Some g) sz) v with
         | Ok nf => set_elems_hashable re_match e g nf
         | Raise _ => true
         end = true ->
         (forall nf : pyval,
          vset re_match e (FSet true (Some g) sz) v = Ok nf ->
          vset re_match e (FSet true (Some g) sz) nf = Ok nf) ->
         set_result
           (Src_ImmutableSet_set re_match (rec_of re_match e [g]) nm
              (coll_self name (OFld 0) sz u a im) (OObj KInst iattrs) (OVal v)) =
         vset re_match e (FSet true (Some g) sz) v.
Proof. exact generated_immutableset_items_fix. Qed.

Theorem C02_src_immutableset_plain :
  forall (re_match : N -> pystr -> bool) (e : env) (rec : nat -> pyval -> res pyval)
           (sz : sizec) (u : bool) (a : option bool) (im : bool) (name : pystr) 
           (nm : names) (iattrs : list (pystr * cobj)) (v : pyval),
         validating iattrs = true ->
         set_result
           (Src_ImmutableSet_set re_match rec nm (coll_self name (OVal PNone) sz u a im)
              (OObj KInst iattrs) (OVal v)) = vset re_match e (FSet true None sz) v.
Proof. exact generated_immutableset_plain. Qed.

Theorem C02_src_map_kv_py :
  forall (re_match : N -> pystr -> bool) (e : env) (kf vf : field) 
           (sz : sizec) (u : bool) (a : option bool) (im : bool) (name : pystr) 
           (nm : names) (iattrs : list (pystr * cobj)) (v : pyval),
         name_ok name = true ->
         py_container_ok v = true ->
         set_result
           (Src_Map_set re_match (rec_of re_match e [kf; vf]) nm
              (coll_self name (OFlds [0; 1]) sz u a im) (OObj KInst iattrs) 
              (OVal v)) = vset re_match e (FMapKV kf vf sz) v.
Proof. exact generated_map_kv_py. Qed.

Theorem C02_src_map_any :
  forall (re_match : N -> pystr -> bool) (e : env) (rec : nat -> pyval -> res pyval)
           (sz : sizec) (u : bool) (a : option bool) (im : bool) (name : pystr) 
           (nm : names) (iattrs : list (pystr * cobj)) (v : pyval),
         set_result
           (Src_Map_set re_match rec nm (coll_self name (OVal PNone) sz u a im) 
              (OObj KInst iattrs) (OVal v)) = vset re_match e (FMapAny sz) v.
Proof. exact generated_map_any. Qed.

Theorem C02_src_allof :
  forall (re_match : N -> pystr -> bool) (e : env) (fs : list field) 
           (name : pystr) (nm : names) (iattrs : list (pystr * cobj)) (v : pyval),
         validating iattrs = true ->
         set_result
           (Src_AllOf_set re_match (rec_of re_match e fs) nm (multi_self name (Datatypes.length fs))
              (OObj KInst iattrs) (OVal v)) = vset re_match e (FAllOf fs) v.
Proof. exact generated_allof. Qed.

Theorem C02_src_anyof :
  forall (re_match : N -> pystr -> bool) (e : env) (fs : list field) 
           (name : pystr) (nm : names) (iattrs : list (pystr * cobj)) (v : pyval),
         validating iattrs = true ->
         set_result
           (Src_AnyOf_set re_match (rec_of re_match e fs) nm (multi_self name (Datatypes.length fs))
              (OObj KInst iattrs) (OVal v)) = vset re_match e (FAnyOf fs) v.
Proof. exact generated_anyof. Qed.

Theorem C02_src_oneof :
  forall (re_match : N -> pystr -> bool) (e : env) (fs : list field) 
           (name : pystr) (nm : names) (iattrs : list (pystr * cobj)) (v : pyval),
         validating iattrs = true ->
         set_result
           (Src_OneOf_set re_match (rec_of re_match e fs) nm (multi_self name (Datatypes.length fs))
              (OObj KInst iattrs) (OVal v)) = vset re_match e (FOneOf fs) v.
Proof. exact generated_oneof. Qed.

Theorem C02_src_notfield :
  forall (re_match : N -> pystr -> bool) (e : env) (fs : list field) 
           (name : pystr) (nm : names) (iattrs : list (pystr * cobj)) (v : pyval),
         validating iattrs = true ->
         set_result
           (Src_NotField_set re_match (rec_of re_match e fs) nm
              (multi_self name (Datatypes.length fs)) (OObj KInst iattrs) 
              (OVal v)) = vset re_match e (FNot fs) v.
Proof. exact generated_notfield. Qed.

Print Assumptions C02_src_array_each.
Print Assumptions C02_src_array_any.
Print Assumptions C02_src_array_pos.
Print Assumptions C02_src_deque_each.
Print Assumptions C02_src_deque_any.
Print Assumptions C02_src_deque_pos.
Print Assumptions C02_src_tuple.
Print Assumptions C02_src_set_items_py.
Print Assumptions C02_src_set_plain.
Print Assumptions C02_src_immutableset_items.
Print Assumptions C02_src_immutableset_items_fix.
Print Assumptions C02_src_immutableset_plain.
Print Assumptions C02_src_map_kv_py.
Print Assumptions C02_src_map_any.
Print Assumptions C02_src_allof.
Print Assumptions C02_src_anyof.
Print Assumptions C02_src_oneof.
Print Assumptions C02_src_notfield.

(* ---- Enum fields over enum classes WITH A MIX-IN TYPE (class Tone(str, enum.Enum), enum.IntEnum) ----------------
   In the universe above an enum member is never a str / an int.  Fields/EnumMixin.v is the universe in which the
   mix-in is visible (isinstance, ==, hash, lookup by name), with the code-shaped model mx_set of Enum.__set__, the
   documented rule mx_doc (accepted: a declared member OBJECT, or a plain str naming a declared member; stored: the
   member).  For EVERY class, mix-in, declared subset of its members and candidate the code decides as documented and
   every rejection is a TypeError/ValueError.  (Until Enum._validate was repaired -- membership of a member by identity,
   a str looked up among the declared names only when it is not itself a member -- this held only on the domain free
   of the == confusion and of the name confusion, findings C02-mixin-eq-confusion / C02-mixin-name-confusion; the
   three former refutation witnesses are now instances decided as documented.)  Gen/EnumMixinSrc.v is re-generated
   from typedpy/fields/enum.py on every run (harness/genmods/py2v_enum_mixin.py): what Enum.__set__ does NOW over that
   universe is mx_set, so a return of the == / hash membership test stops C02_src_enum_mixin from compiling. *)
From TP Require Import Fields.EnumMixin Fields.EnumMixinProofs Gen.EnumMixinSrc Fields.EnumMixinSrcProofs.

Theorem C02_enum_mixin_agree : forall E decl x,
    is_cand x = true -> decl_in_class E decl = true ->
    mx_agree (mx_set E decl x) (mx_doc E decl x) = true.
Proof. exact mx_agree_doc. Qed.

Theorem C02_enum_mixin_error_class : forall E decl x e,
    is_cand x = true -> decl_in_class E decl = true ->
    mx_set E decl x = Raise e -> is_te_ve e = true.
Proof. exact mx_error_class. Qed.

Theorem C02_src_enum_mixin : forall re E decl x,
    is_cand x = true -> Enum__set_mx re (enum_self E decl) x = mx_set E decl x.
Proof. exact generated_enum_set_mx. Qed.

(* the raw value of a member ('low' == Tone.LOW) is rejected, although == finds it among the members *)
Theorem C02_enum_mixin_value_string_rejected :
  x_in_members Tone (XPlain (PStr (s2p "low"))) (ec_members Tone) = true /\
  mx_set Tone (ec_members Tone) (XPlain (PStr (s2p "low"))) = Raise ValueError /\
  mx_doc Tone (ec_members Tone) (XPlain (PStr (s2p "low"))) = None.
Proof. exact mx_value_string_rejected. Qed.

(* an undeclared member whose value is the name of a declared member is rejected *)
Theorem C02_enum_mixin_undeclared_member_rejected :
  let decl := [(s2p "LOW", PStr (s2p "low")); (s2p "MID", PStr (s2p "mid"))] in
  let high := XMem (s2p "Tone") MxStr (s2p "HIGH") (PStr (s2p "LOW")) in
  x_in_names high (decl_names decl) = true /\
  mx_set Tone decl high = Raise ValueError /\ mx_doc Tone decl high = None.
Proof. exact mx_undeclared_member_rejected. Qed.

(* the raw int of a member of an int mix-in class (1 == Level.A) is rejected *)
Theorem C02_enum_mixin_raw_int_rejected :
  x_in_members Level (XPlain (PNum (NInt 1))) (ec_members Level) = true /\
  mx_set Level (ec_members Level) (XPlain (PNum (NInt 1))) = Raise ValueError /\
  mx_doc Level (ec_members Level) (XPlain (PNum (NInt 1))) = None.
Proof. exact mx_raw_int_rejected. Qed.

Print Assumptions C02_enum_mixin_agree.
Print Assumptions C02_enum_mixin_error_class.
Print Assumptions C02_src_enum_mixin.
Print Assumptions C02_enum_mixin_value_string_rejected.
Print Assumptions C02_enum_mixin_undeclared_member_rejected.
Print Assumptions C02_enum_mixin_raw_int_rejected.

Example C02_enum_mixin_nonvacuous :
  let decl := [(s2p "LOW", PStr (s2p "low")); (s2p "MID", PStr (s2p "mid"))] in
  decl_in_class Tone decl = true /\
  mx_set Tone decl (XMem (s2p "Tone") MxStr (s2p "MID") (PStr (s2p "mid")))
    = Ok (XMem (s2p "Tone") MxStr (s2p "MID") (PStr (s2p "mid"))) /\
  mx_set Tone decl (XPlain (PStr (s2p "MID"))) = Ok (XMem (s2p "Tone") MxStr (s2p "MID") (PStr (s2p "mid"))) /\
  mx_set Tone decl (XPlain (PStr (s2p "HIGH"))) = Raise ValueError.
Proof. exact mx_nonvacuous. Qed.

(* ---- fields over ARBITRARY classes: Field[Foo], Array[Foo], Map[String, Foo], AnyOf[Integer, Foo] --------------------
   FieldMeta.__getitem__ caches the implicit wrapper of a class in a process-wide registry, so what a declaration
   gets depends on the HISTORY of earlier declarations.  Fields/ClassField.v models registry, wrapper and history with
   the registry key as a parameter; by induction over the history (invariant: every cached wrapper wraps the class
   its entry was created for) a declaration accepts exactly the instances of ITS class, stores the value given and
   rejects with TypeError -- for every history, class and value, provided the key separates class objects.  The key
   the source uses NOW is generated (Gen/RegistryKey.v, harness/genmods/registry_key.py); a key computed from the
   qualified name and the class object under a metaclass with __eq__/__hash__ are refuted by constructed histories. *)
From TP Require Import Fields.ClassField Fields.ClassFieldProofs Gen.RegistryKey Fields.ClassFieldToday.

Theorem C02_classfield_agree : forall rk hist c v,
    rk_safe rk (c :: hist) = true -> cf_agree (cf_set rk hist c v) (cf_doc c v) = true.
Proof. exact cf_agree_safe. Qed.

Theorem C02_classfield_own_wrapper : forall rk hist c,
    rk_safe rk (c :: hist) = true -> k_id (snd (reg_getitem rk (declare_all rk [] hist) c)) = k_id c.
Proof. exact cf_wrapper_of_own_class. Qed.

Theorem C02_src_classfield_today : forall hist c v,
    no_meta_eq (c :: hist) = true -> cf_agree (cf_set registry_key hist c v) (cf_doc c v) = true.
Proof. exact cf_agree_today. Qed.

Theorem C02_src_classfield_wrapper_facts :
  wrapper_ty_is_declared_class = true /\ wrapper_validates_isinstance = true.
Proof. exact wrapper_facts_today. Qed.

Theorem C02_classfield_refuted_qualname_key :
  let rk := RK_attrs [s2p "__module__"; s2p "__qualname__"] in
  cf_set rk [V2] V3 (CInst V3 0) = Raise TypeError /\ cf_doc V3 (CInst V3 0) = Some (CInst V3 0) /\
  cf_set rk [V2] V3 (CInst V2 0) = Ok (CInst V2 0) /\ cf_doc V3 (CInst V2 0) = None.
Proof. exact cf_refuted_qualname_key. Qed.

Theorem C02_classfield_refuted_metaclass_eq :
  cf_set RK_object [M1] M2 (CInst M2 0) = Raise TypeError /\ cf_doc M2 (CInst M2 0) = Some (CInst M2 0).
Proof. exact cf_refuted_metaclass_eq. Qed.

Print Assumptions C02_classfield_agree.
Print Assumptions C02_classfield_own_wrapper.
Print Assumptions C02_src_classfield_today.
Print Assumptions C02_src_classfield_wrapper_facts.
Print Assumptions C02_classfield_refuted_qualname_key.
Print Assumptions C02_classfield_refuted_metaclass_eq.

Example C02_classfield_nonvacuous :
  rk_safe RK_object [V3; V2] = true /\
  cf_set RK_object [V2] V3 (CInst V3 0) = Ok (CInst V3 0) /\
  cf_set RK_object [V2] V3 (CInst V2 0) = Raise TypeError /\
  cf_set RK_object [V2; V3] V2 (CInst V2 5) = Ok (CInst V2 5).
Proof. exact cf_safe_nonvacuous. Qed.

(* ---- uniqueItems is decided by EQUALITY, never by hash ---------------------------------------------------------------
   The uniqueItems check of Array / Deque / Tuple in the model (uniq_check, on which C02_decision is proved and which
   C02_src_unique_list/_deque/_tuple tie to verify_type_and_uniqueness) accepts a collection exactly when no element
   is == to an earlier one: elements that are equal but hash or print differently (Structure instances with equal
   content, 1 / 1.0 / True) are duplicates, unequal elements with equal hashes are not. *)
From TP Require Import Fields.UniqueProofs.

Theorem C02_unique_by_equality : forall l,
  (uniq_check true l = Ok tt <-> pairwise_ne l) /\
  (uniq_check true l = Raise ValueError <-> ~ pairwise_ne l) /\
  uniq_check false l = Ok tt.
Proof. exact uniq_check_by_equality. Qed.

Print Assumptions C02_unique_by_equality.

Example C02_unique_by_equality_nonvacuous :
  py_unique [PStruct (s2p "Meas") [(s2p "x", PNum (NInt 1))]; PStruct (s2p "Meas") [(s2p "x", PNum (NFlt 1 0))]] = false /\
  py_unique [PNum (NInt 1); PBool true] = false /\
  py_unique [PNum (NInt (-1)); PNum (NInt (-2))] = true.
Proof. exact unique_examples. Qed.
