(* C18 — rejections name the offending field; collect-all mode reports all invalid ones.
   Model: Errors/Render.v (how a message is assembled from a GENERATED template, Gen/Templates.v),
   Errors/Parse.v (typedpy/errors.py: the regular expressions as parsers), Errors/Collect.v
   (Structure.__init__ / construct_fields_map: fail-fast vs collect-all).  Proofs: Errors/ErrorsProofs.v. *)
From Coq Require Import ZArith NArith List String Bool. Import ListNotations.
From TP Require Import Base.PyVal Base.PyOps Errors.Template Errors.Render Errors.Parse Errors.TemplateOk Errors.Collect
  Errors.ErrorsProofs Errors.Guard Errors.GuardProofs Errors.GuardSchema Errors.GuardTableProofs Gen.Templates Gen.GuardProgs.
From TP Require Import Errors.Switch Errors.SwitchProofs Errors.SwitchTableProofs Gen.SwitchSites.
Local Open Scope list_scope.

(* The generated table, today: every template of a covered (scalar / collection-of-scalar)
   validation site has the accepted shape.  Re-checked by the kernel on every run. *)
Lemma all_templates_ok : forallb template_ok templates = true.
Proof. vm_compute. reflexivity. Qed.

(* For EVERY template of the generated table that belongs to the validation code of a scalar field
   or of a collection of scalars, for ALL class names and field names that are identifiers, ALL
   element suffixes, ALL value texts and parameter texts without a newline: the rendered message,
   with or without the class-name prefix, is parsed into an ErrorInfo whose field is a path naming
   that top-level field, with a non-empty problem. *)
Theorem C18_template_ok :
  forall t, In t templates -> scalar_kind t = true ->
  forall cls name sfx a msg,
    identb cls = true -> identb name = true -> args_nonl a = true ->
    r_path a = field_path name sfx ->
    render t a = Some msg ->
    parsed_ok cls name msg /\ parsed_ok cls name (with_class cls msg).
Proof.
  intros t Hin Hk cls name sfx a msg Hc Hn Ha Hp Hr.
  assert (H := all_templates_ok). rewrite forallb_forall in H. specialize (H t Hin).
  unfold template_ok in H. rewrite Hk in H. cbn [negb orb] in H.
  exact (tmpl_ok_parse (t_segs t) a msg cls name sfx H Ha Hc Hn Hp Hr).
Qed.

(* the theorem above is not vacuous for any covered site: each still has raise sites in the table *)
Theorem C18_templates_cover : forallb (site_present templates) covered_sites = true.
Proof. vm_compute. reflexivity. Qed.

(* the class-name prefix of fail-fast construction is still  f"{cls_name}.{e}"  in Structure.__init__ *)
Theorem C18_prefix_site :
  existsb (fun t => pystr_eqb (t_cls t) (s2p "Structure") && pystr_eqb (t_fn t) (s2p "__init__") &&
                    match t_segs t with
                    | [Param _; Lit [46%N]; Param _] => true
                    | _ => false
                    end) templates = true.
Proof. vm_compute. reflexivity. Qed.

(* collect-all construction: one ErrorInfo per invalid bound argument, in order, each naming it
   (hence: no error reported twice, none swallowed, reported set = invalid set) *)
Theorem C18_collect_all :
  forall dumps cls args x,
    identb cls = true -> wf_args args ->
    construct dumps false cls args = Some x ->
    Forall2 (reports true cls) (errors_of args) (helper false x).
Proof. exact construct_all_reports. Qed.

(* the collect-all loop with exceptions other than TypeError / ValueError (which it does not catch) is
   the model the harness compares with the code; it is [construct] whenever every error is caught *)
Theorem C18_construct_model_agrees :
  forall dumps ff cls args,
    all_caught args = true -> construct_u dumps ff cls args = construct dumps ff cls (map forget args).
Proof. exact construct_u_caught. Qed.

Theorem C18_accepts_iff_no_invalid :
  forall dumps ff cls args, construct dumps ff cls args = None <-> errors_of args = [].
Proof. exact construct_accepts_iff. Qed.

(* fail-fast construction: exactly one ErrorInfo, naming the first invalid bound argument *)
Theorem C18_fail_fast_member :
  forall dumps cls args x,
    identb cls = true -> wf_args args ->
    construct dumps true cls args = Some x ->
    exists n m, In (n, Some m) args /\ hd_error (errors_of args) = Some (n, m) /\
                exists ei, helper true x = [ei] /\ reports false cls (n, m) ei.
Proof. exact construct_ff_reports. Qed.

(* the helper is total and loses nothing: it returns one ErrorInfo per message, and an ErrorInfo
   without a field carries the whole message as its problem (any text: nested structures too) *)
Theorem C18_helper_total :
  forall ff x,
    List.length (helper ff x) =
      (if ff then 1%nat else match x_json x with Some l => List.length l | None => 1%nat end) /\
    forall collect m, ei_field (parse_msg collect m) = None ->
      parse_msg collect m = {| ei_field := None; ei_value := None; ei_problem := PText m |}.
Proof. intros ff x. split; [apply helper_length|intros; apply parse_fallback; assumption]. Qed.

(* deserialization in collect-all mode: the full statement is FALSE of the faithful model (F19):
   kept as a definition, characterised, and refuted. *)
Definition C18_deser_collect_all_full := deser_collect_all_full.

Theorem C18_deser_collect_all_safe :
  forall dumps cls ds,
    identb cls = true -> wf_dargs ds ->
    (errors_of (pre_args ds) = [] \/ forallb (fun d => negb (ctor_only d)) ds = true) ->
    forall d, In d ds -> d_invalid d = true ->
    exists x, deserialize_all dumps cls ds = Some x /\ reported_d cls d (helper false x).
Proof. exact deser_collect_all_safe. Qed.

Definition f19_cls : pystr := s2p "Foo".
Definition f19_ds : list darg :=
  [ {| d_name := s2p "i"; d_pre := None; d_ctor := Some (s2p "i: Got 0; Expected a positive number"); d_falsy := true; d_caught := true |};
    {| d_name := s2p "s"; d_pre := Some (s2p "s: Got 'abcd'; Expected a maximum length of 3"); d_ctor := None; d_falsy := false; d_caught := true |} ].

Lemma f19_wf : wf_dargs f19_ds.
Proof.
  intros d [H|[H|[]]]; subst d; cbn [d_name d_pre d_ctor]; (split; [reflexivity|]); split; intros m Hm;
    try discriminate; inversion Hm; subst m.
  - exists SNone, (s2p "Got 0; Expected a positive number"). split; reflexivity.
  - exists SNone, (s2p "Got 'abcd'; Expected a maximum length of 3"). split; reflexivity.
Qed.

Theorem C18_deser_collect_all_refuted : forall dumps, ~ C18_deser_collect_all_full dumps.
Proof.
  intros dumps H.
  destruct (H f19_cls f19_ds eq_refl f19_wf (nth 0 f19_ds (nth 1 f19_ds (nth 0 f19_ds (nth 1 f19_ds
             {| d_name := []; d_pre := None; d_ctor := None; d_falsy := false; d_caught := true |})))) (or_introl eq_refl) eq_refl)
    as (x & Hx & ei & p & Hin & Hf & Hp).
  vm_compute in Hx. inversion Hx; subst x. clear Hx.
  cbn [helper x_json map] in Hin. destruct Hin as [Hin|[]]. subst ei.
  vm_compute in Hf. inversion Hf; subst p. vm_compute in Hp. discriminate.
Qed.

(* ------------------------------------------------------------------ who raises: the validation chains
   Model: Errors/Guard.v (the guard fragment of Python, deep embedding + class analysis), programs
   regenerated from the source along the real MRO (Gen/GuardProgs.v), schemas and domains
   (Errors/GuardSchema.v).  Proofs: Errors/GuardProofs.v, Errors/GuardTableProofs.v. *)

(* The analysis is sound for EVERY program of the guard language, every field object and every tuple of
   values the abstract environment describes: an accepted program never ends in an exception raised by
   one of its guard expressions. *)
Theorem C18_guard_analysis_sound :
  forall re self p env vals,
    env_ok env self vals = true -> gsafe env p = true -> forall e, run re self vals p <> Bare e.
Proof. exact gsafe_sound. Qed.

Theorem C18_guard_sites :
  forall re self p vals tid x, run re self vals p = Named tid x -> In (tid, x) (sites p).
Proof. exact run_sites. Qed.

(* today's chains pass, each on its stated domain *)
Theorem C18_kinds_ok : forallb kind_ok kinds = true.
Proof. exact all_kinds_ok. Qed.

(* A scalar field, or the size / type-and-uniqueness check of a collection, rejects a value only by one
   of typedpy's own raise statements, and that statement's template is a per-field message of the
   accepted shape - for ALL field objects fitting the schema and ALL values of the kind's domain, which
   for the kinds of [kinds_all_values] is every value there is. *)
Theorem C18_rejection_is_templated :
  forall k, In k kinds -> forall g, entry_of (k_entry k) = Some g ->
  forall re self vals, env_ok (init_env k) self vals = true ->
    match run re self vals (g_prog g) with
    | Bare _ => False
    | Named tid _ => exists t, In t templates /\ t_id t = tid /\ tmpl_ok (t_segs t) = true
    | Pass _ => True
    end.
Proof. exact rejection_is_templated. Qed.

(* ... hence its message, with or without the class prefix, is parsed back to a path naming the field *)
Theorem C18_rejection_names_field :
  forall k, In k kinds -> forall g, entry_of (k_entry k) = Some g ->
  forall re self vals tid x, env_ok (init_env k) self vals = true ->
    run re self vals (g_prog g) = Named tid x ->
    exists t, In t templates /\ t_id t = tid /\
      forall cls name sfx a msg,
        identb cls = true -> identb name = true -> args_nonl a = true ->
        r_path a = field_path name sfx -> render t a = Some msg ->
        parsed_ok cls name msg /\ parsed_ok cls name (with_class cls msg).
Proof. exact rejection_names_field. Qed.

(* For EVERY scalar field class (Number, Integer, Float, each under every sign mix-in, String, Boolean,
   Enum over values and over a class) and the type-and-uniqueness helper: ALL field objects fitting the
   schema and ALL values whatsoever - no domain restriction.  (Before the "fix:" commits for C18-F22a/b/c
   and C18-F24 the sign mix-ins, Boolean, Enum over a class and the Float family were provable on
   restricted domains only.) *)
Theorem C18_rejection_is_templated_all_values :
  forall k, In k kinds_all_values -> forall g, entry_of (k_entry k) = Some g ->
  forall re self vals, List.length vals = g_nparams g -> attrs_ok (k_schema k) self = true ->
    match run re self vals (g_prog g) with
    | Bare _ => False
    | Named tid _ => exists t, In t templates /\ t_id t = tid /\ tmpl_ok (t_segs t) = true
    | Pass _ => True
    end.
Proof. exact rejection_is_templated_all_values. Qed.

(* every scalar field class is among them: nothing is left to a restricted domain but the size helper
   that collection fields call after their own type check *)
Theorem C18_scalar_kinds_unrestricted :
  forallb (fun l => existsb (fun k => pystr_eqb (k_label k) (s2p l)) kinds_all_values)
    ["Number"; "Positive"; "Negative"; "NonPositive"; "NonNegative";
     "Integer"; "PositiveInt"; "NegativeInt"; "NonPositiveInt"; "NonNegativeInt";
     "Float"; "PositiveFloat"; "NegativeFloat"; "NonPositiveFloat"; "NonNegativeFloat";
     "String"; "Boolean"; "Enum[values]"; "Enum[cls]"]%string = true /\
  map k_label kinds_restricted = [s2p "validate_size"].
Proof. vm_compute. split; reflexivity. Qed.

(* The analysis is not satisfied by a chain that orders, hashes or converts the value before checking
   its class - the shapes the sign mix-ins (F22a), Boolean / Enum over a class (F22b/c) and Float (F24)
   had before their repair, on hand-written programs of those shapes: each is rejected on "every value"
   and really ends in a nameless exception on a witness.  Should a chain return to such a shape,
   C18_kinds_ok above fails. *)
Definition sign_first : gprog :=
  PIf (CCmp OLe (GVar 0) (GConst (PNum (NInt 0%Z)))) (PRaise 0%N ValueError)
      (PIf (CNot (CIsInst (GVar 0) [K_int; K_float; K_Decimal])) (PRaise 1%N TypeError) (PDone 0)).
Definition hash_first : gprog :=
  PIf (CNot (CIn (GVar 0) (KHashed true [PStr (s2p "True"); PStr (s2p "False")]))) (PRaise 0%N TypeError) (PDone 0).
Definition convert_first : gprog :=
  PLet (CIsInst (GVar 0) [K_int]) (GToFloat (GVar 0)) (GVar 0)
       (PIf (CNot (CIsInst (GVar 1) [K_float])) (PRaise 0%N TypeError) (PDone 1)).
Definition no_attrs (_ : pystr) : pyval := PNone.
Definition all_values : aenv := {| a_vars := [None]; a_attrs := [] |}.

Theorem C18_unguarded_shapes_rejected :
  (gsafe all_values sign_first = false /\
   run (fun _ => false) no_attrs [PStr (s2p "7")] sign_first = Bare TypeError) /\
  (gsafe all_values hash_first = false /\
   run (fun _ => false) no_attrs [PList [PNum (NInt 1%Z)]] hash_first = Bare TypeError) /\
  (gsafe all_values convert_first = false /\
   run (fun _ => false) no_attrs [PNum (NInt (2 ^ 1024)%Z)] convert_first = Bare OverflowError).
Proof. vm_compute. repeat split. Qed.

(* the same three shapes pass on restricted domains (numbers / hashable values / no int beyond the float range) *)
Theorem C18_restricted_domains_suffice :
  gsafe {| a_vars := [numbers]; a_attrs := [] |} sign_first = true /\
  gsafe {| a_vars := [hashables]; a_attrs := [] |} hash_first = true /\
  gsafe {| a_vars := [no_big_int]; a_attrs := [] |} convert_first = true.
Proof. vm_compute. repeat split. Qed.

(* ------------------------------------------------------------------ the switch itself
   Model: Errors/Switch.v (cells that are one per process or one per thread; histories of set_fail_fast /
   failing_fast calls by any threads); the cells the two functions use are regenerated from the source
   (Gen/SwitchSites.v). *)

(* a switch written to and read from one process-wide cell is the documented switch under EVERY
   interleaving of calls from any number of threads *)
Theorem C18_switch_process_wide :
  forall w r init cur evs,
    process_wide w r = true -> alist_get init (the_cell w) = Some cur ->
    run_switch w r (init_store init) evs = spec_switch cur evs.
Proof. exact process_wide_sound. Qed.

(* ... and that is what today's set_fail_fast / failing_fast are (kernel re-check on every run) *)
Theorem C18_switch_today :
  forall evs, run_switch switch_write switch_read (init_store switch_init) evs = spec_switch true evs.
Proof. exact switch_is_process_wide. Qed.

(* kept per thread (with a process-wide fallback) it is not: collect-all chosen in one thread is not seen in another *)
Theorem C18_switch_thread_local_refuted :
  forall x y,
    run_switch (WCell (CLocal x)) (RCells [CLocal x; CGlobal y]) (init_store [(y, true)]) [ESet 0 false; EGet 1]
    <> spec_switch true [ESet 0 false; EGet 1].
Proof. exact thread_local_refuted. Qed.

Print Assumptions all_templates_ok.
Print Assumptions f19_wf.
Print Assumptions C18_template_ok.
Print Assumptions C18_templates_cover.
Print Assumptions C18_prefix_site.
Print Assumptions C18_collect_all.
Print Assumptions C18_construct_model_agrees.
Print Assumptions C18_accepts_iff_no_invalid.
Print Assumptions C18_fail_fast_member.
Print Assumptions C18_helper_total.
Print Assumptions C18_deser_collect_all_safe.
Print Assumptions C18_deser_collect_all_refuted.
Print Assumptions C18_switch_process_wide.
Print Assumptions C18_switch_today.
Print Assumptions C18_switch_thread_local_refuted.
Print Assumptions C18_guard_analysis_sound.
Print Assumptions C18_guard_sites.
Print Assumptions C18_kinds_ok.
Print Assumptions C18_rejection_is_templated.
Print Assumptions C18_rejection_names_field.
Print Assumptions C18_rejection_is_templated_all_values.
Print Assumptions C18_scalar_kinds_unrestricted.
Print Assumptions C18_unguarded_shapes_rejected.
Print Assumptions C18_restricted_domains_suffice.

(* Non-vacuity: a covered template exists, renders, and the hypotheses are satisfiable;
   collect-all over two invalid and one valid argument reports exactly the two. *)
Definition nv_args : rargs :=
  {| r_path := field_path (s2p "age") (SIndex 12); r_got := s2p "x;y"; r_got_is_str := true; r_params := [] |}.

Example C18_nonvacuous_template :
  existsb (fun t =>
    scalar_kind t && pystr_eqb (t_cls t) (s2p "Positive") && args_nonl nv_args &&
    match render t nv_args with
    | Some msg =>
        let ei := parse_msg false (with_class (s2p "Person") msg) in
        match ei_field ei with
        | Some p => pystr_eqb p (s2p "Person.age_12") && path_names (s2p "Person") (s2p "age") p
        | None => false
        end && problem_nonempty (ei_problem ei)
    | None => false
    end) templates = true.
Proof. vm_compute. reflexivity. Qed.

Example C18_nonvacuous_collect :
  let args := [ (s2p "a", Some (s2p "a_1: Expected <class 'int'>; Got 'x'"));
                (s2p "b", None);
                (s2p "c", Some (s2p "c: Got -1; Expected a positive number")) ] in
  match construct (fun _ => []) false (s2p "Foo") args with
  | Some x => reported_paths (helper false x) = [s2p "Foo.a_1"; s2p "Foo.c"]
  | None => False
  end.
Proof. vm_compute. reflexivity. Qed.

(* Non-vacuity of the chain theorems: the kind "PositiveInt" exists, its chain is in today's table, a
   field object with bounds fits its schema, and on three values the chain accepts, rejects at a raise
   statement, rejects a string at a raise statement (no bare TypeError: the class test comes first). *)
Example C18_nonvacuous_chain :
  match kind_by_label (s2p "PositiveInt") with
  | Some k =>
      match entry_of (k_entry k) with
      | Some g =>
          let self := fun a => if pystr_eqb a (s2p "maximum") then PNum (NInt 10%Z) else PNone in
          let out v := run (fun _ => false) self [v] (g_prog g) in
          env_ok (init_env k) self [PStr (s2p "7")] &&
          match out (PNum (NInt 4%Z)), out (PNum (NInt 50%Z)), out (PStr (s2p "7")), out (PList []) with
          | Pass _, Named _ ValueError, Named _ TypeError, Named _ TypeError => true
          | _, _, _, _ => false
          end
      | None => false
      end
  | None => false
  end = true.
Proof. vm_compute. reflexivity. Qed.

(* The repaired chains on the values that used to end in a nameless exception: a sign mix-in given a
   str / a list, the Float family given an int beyond the float range, Boolean given a list - each now
   ends in a raise statement of typedpy (and accepts what it accepted). *)
Definition chain_out (label : string) (v : pyval) : option outcome :=
  match kind_by_label (s2p label) with
  | Some k => match entry_of (k_entry k) with
              | Some g => Some (run (fun _ => false) (fun _ => PNone) [v] (g_prog g))
              | None => None
              end
  | None => None
  end.

Example C18_nonvacuous_repaired_chains :
  match chain_out "Positive" (PStr (s2p "7")), chain_out "NonNegative" (PList [PNum (NInt 1%Z)]),
        chain_out "Positive" (PNum (NInt 0%Z)), chain_out "Positive" (PNum (NInt 3%Z)),
        chain_out "Float" (PNum (NInt (2 ^ 1024)%Z)), chain_out "NegativeFloat" (PNum (NInt (- 2 ^ 1024)%Z)),
        chain_out "Float" (PNum (NInt 3%Z)),
        chain_out "Boolean" (PList [PNum (NInt 1%Z)]), chain_out "Boolean" (PStr (s2p "True")) with
  | Some (Named _ TypeError), Some (Named _ TypeError), Some (Named _ ValueError), Some (Pass _),
    Some (Named _ ValueError), Some (Named _ ValueError), Some (Pass _),
    Some (Named _ TypeError), Some (Pass (PBool true)) => True
  | _, _, _, _, _, _, _, _, _ => False
  end.
Proof. vm_compute. exact I. Qed.

(* ---- the tie to the source of the message parsers, re-checked by the kernel on every run ------------
   Gen/ErrorPatterns.v is re-generated from typedpy/errors.py (harness/genmods/regex_src.py): the TEXT of
   the four regular expressions, parsed into the regex AST of Errors/Regex.v (a backtracking matcher
   with Python's re.match semantics, validated against CPython by harness/regexcorr.py).  For EVERY
   message string, what the regexes of the source match NOW, with which groups, is what the hand-written
   parsers of Errors/Parse.v (on which the theorems above are proved) compute. *)
From TP Require Import Errors.Regex Gen.ErrorPatterns Errors.RegexProofs.

Theorem C18_src_pattern1 : forall m,
  re_match pat_validation_1 m =
  match take_field m with
  | Some (f, r) => match p1 r with
                   | Some (v, p) => RxMatch [Some f; Some v; Some p]
                   | None => RxNoMatch
                   end
  | None => RxNoMatch
  end.
Proof. exact regex_pattern1. Qed.

Theorem C18_src_pattern2 : forall m,
  re_match pat_validation_2 m =
  match take_field m with
  | Some (f, r) => match p2 r with
                   | Some (p, v) => RxMatch [Some f; Some p; Some v]
                   | None => RxNoMatch
                   end
  | None => RxNoMatch
  end.
Proof. exact regex_pattern2. Qed.

Theorem C18_src_pattern3 : forall m,
  re_match pat_validation_3 m =
  match take_field m with
  | Some (f, r) => match p3 r with
                   | Some p => RxMatch [Some f; Some p]
                   | None => RxNoMatch
                   end
  | None => RxNoMatch
  end.
Proof. exact regex_pattern3. Qed.

Theorem C18_src_expected_class : forall p,
  re_match pat_expected_class p =
  match class_of_expected p with Some cn => RxMatch [Some cn] | None => RxNoMatch end.
Proof. exact regex_expected_class. Qed.

Theorem C18_src_display_table : display_type_by_type_src = display_type_by_type.
Proof. exact regex_display_table. Qed.

(* errors.py written through the four re_match calls and the generated table IS the model's parse_msg *)
Theorem C18_src_parse_msg : forall collect m, parse_msg_re collect m = parse_msg collect m.
Proof. exact regex_parse_msg. Qed.

Print Assumptions C18_src_pattern1.
Print Assumptions C18_src_pattern2.
Print Assumptions C18_src_pattern3.
Print Assumptions C18_src_expected_class.
Print Assumptions C18_src_display_table.
Print Assumptions C18_src_parse_msg.

(* ------------------------------------------------------------------ tie of the constructor's reporting to the source
   Structure.__init__ and commons.raise_errs_if_needed are translated to Gallina on every run (Gen/InitSrc.v).  In a
   world where what setattr(self, n, v) raises is a function [oracle] of (n, v), the translation of today's source
   reports exactly what [construct_u] - the model of the theorems above - says, for every class name and every list
   of bound arguments: collect-all gathers EVERY TypeError / ValueError in order (one InvalidStructureErr whose
   text is json.dumps of the "<Cls>."-prefixed texts, for every rendering [dumps]), any other class leaves the loop
   as it is; fail-fast re-raises the first failure as the same class, "<Cls>."-prefixed. *)
From TP Require Import Base.PyOpsInit Gen.InitSrc Struct.Instance Struct.InitModel Struct.InitReportsProofs.

Theorem C18_src_init_collect_all :
  forall (repr_str : pystr -> pystr) (dumps : list pystr -> pystr)
         (oracle : pystr -> pyval -> option pyexc) (cls : pystr) (bound : kwargs),
    msg_names bound = true ->
    match construct_u dumps false cls (uargs repr_str dumps oracle bound) with
    | Some t =>
        exists (s : istate) (x : pyexc),
          Structure__init (BH cls false) (OW repr_str dumps oracle bound) (PTuple []) (kw_dict bound) [] = (s, inr x) /\
          exc_str (OW repr_str dumps oracle bound) x = x_raw t /\
          match x_json t with
          | Some msgs => x_cls x = InvalidStructureErr /\ x_raw t = dumps msgs
          | None => catches te_ve x = false /\ (exists p : pystr * pyval, In p bound /\ oracle (fst p) (snd p) = Some x)
          end
    | None =>
        exists s : istate,
          Structure__init (BH cls false) (OW repr_str dumps oracle bound) (PTuple []) (kw_dict bound) [] = (s, inl tt)
    end.
Proof. exact generated_init_collect_all. Qed.

Theorem C18_src_init_fail_fast :
  forall (repr_str : pystr -> pystr) (dumps : list pystr -> pystr)
         (oracle : pystr -> pyval -> option pyexc) (cls : pystr) (bound : kwargs),
    msg_names bound = true -> ff_dom oracle bound = true ->
    match construct_u dumps true cls (uargs repr_str dumps oracle bound) with
    | Some t =>
        exists (s : istate) (x y : pyexc),
          Structure__init (BH cls true) (OW repr_str dumps oracle bound) (PTuple []) (kw_dict bound) [] = (s, inr x) /\
          x_arg x = x_raw t /\ x_json t = None /\
          x_cls x = x_cls y /\ (exists p : pystr * pyval, In p bound /\ oracle (fst p) (snd p) = Some y)
    | None =>
        exists s : istate,
          Structure__init (BH cls true) (OW repr_str dumps oracle bound) (PTuple []) (kw_dict bound) [] = (s, inl tt)
    end.
Proof. exact generated_init_fail_fast_reports. Qed.

(* non-vacuity: three bound arguments, the first and third rejected (ValueError, TypeError): both modes *)
Definition ex_oracle (n : pystr) (v : pyval) : option pyexc :=
  match v with
  | PNum (NInt z) => if (z <? 0)%Z then Some (mk_exc ValueError (s2p "neg")) else None
  | PStr _ => Some (mk_exc TypeError (s2p "str"))
  | _ => None
  end.
Definition ex_bound : kwargs := [(s2p "a", PNum (NInt (-1)%Z)); (s2p "b", PNum (NInt 2%Z)); (s2p "c", PStr (s2p "x"))].

Example C18_src_init_nonvacuous :
  msg_names ex_bound = true /\ ff_dom ex_oracle ex_bound = true /\
  snd (Structure__init (BH (s2p "Foo") false) (OW (fun x => x) (fun l => List.concat l) ex_oracle ex_bound) (PTuple []) (kw_dict ex_bound) []) =
    inr (mk_exc InvalidStructureErr (s2p "Foo.negFoo.str")) /\
  snd (Structure__init (BH (s2p "Foo") true) (OW (fun x => x) (fun l => List.concat l) ex_oracle ex_bound) (PTuple []) (kw_dict ex_bound) []) =
    inr (mk_exc ValueError (s2p "Foo.neg")).
Proof. repeat split; vm_compute; reflexivity. Qed.

Print Assumptions C18_src_init_collect_all.
Print Assumptions C18_src_init_fail_fast.
Print Assumptions C18_src_init_nonvacuous.
