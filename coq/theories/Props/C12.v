(* Property C12 -- Partial / Omit / Pick / Extend / AllFieldsRequired keep exact field sets and
   constraints.  Only the property theorems; the model is Struct/Define.v + Struct/Derive.v (each
   operator builds a class dict that goes through the same [define] as every class statement), the
   proofs are in Struct/DeriveProofs.v. *)
From Coq Require Import ZArith NArith String List Bool.
Import ListNotations.
From TP Require Import Base.PyVal Fields.FieldAst Fields.SetChain Struct.Define Struct.DefineProofs
     Struct.Derive Struct.DeriveProofs Struct.DeriveNone Struct.DeriveNoneProofs.
Local Open Scope string_scope.

Section C12.
  Variable re_match : N -> pystr -> bool.     (* oracle: re.match *)
  Variable e : env.                           (* classes referenced from field declarations *)
  Variable gd : guards.                       (* TypedPyDefaults / Structure guards, any setting *)

  Notation derive := (derive re_match e gd).
  Notation derive_chain := (derive_chain re_match e gd).

  (* Field set of the derived class: exactly the documented one (doc_fields: all / complement /
     selection), for every source class, operator and name list. *)
  Theorem C12_fields : forall g k o cn k',
      base_ok g -> derive g k o cn = Ok k' ->
      doc_fields o (k_all k) = Ok (k_all k') /\
      forall n, In n (field_names k') <-> In n (field_names k) /\ retained o n = true.
  Proof.
    intros g k o cn k' Hb H. destruct (derive_spec re_match e gd g k o cn k' Hb H) as [ms [Hdoc [Hall _]]].
    subst ms. split; [exact Hdoc|]. intro n. apply (doc_fields_names o _ _ n Hdoc).
  Qed.

  (* Required set, no hypothesis on the source: the documented names (Partial: none;
     AllFieldsRequired: every field without default; Extend: the source's; Omit/Pick: the source's
     restricted), minus those whose retained field carries a default. *)
  Theorem C12_required_general : forall g k o cn k' n,
      base_ok g -> derive g k o cn = Ok k' ->
      (In n (k_required k') <->
       In n (doc_required o (k_all k) (k_required k)) /\ member_has_default (k_all k') n = false).
  Proof.
    intros g k o cn k' n Hb H.
    destruct (derive_spec re_match e gd g k o cn k' Hb H) as [ms [_ [Hall [_ [_ [Hreq _]]]]]].
    rewrite Hreq, filter_In, In_dedup_str, negb_true_iff, Hall. tauto.
  Qed.

  (* Required set from a source whose _required is duplicate-free and names no defaulted field:
     literally the documented list; and the derived class is again such a source. *)
  Theorem C12_required : forall g k o cn k',
      base_ok g -> NoDup (field_names k) -> req_wfb (k_all k) (k_required k) = true ->
      derive g k o cn = Ok k' ->
      k_required k' = doc_required o (k_all k) (k_required k) /\
      NoDup (field_names k') /\ req_wfb (k_all k') (k_required k') = true.
  Proof.
    intros g k o cn k' Hb Hnd Hwf H. apply req_wfb_spec in Hwf.
    destruct (derive_documented re_match e gd g k o cn k' Hb Hnd Hwf H) as [Hs [Hnd' Hwf']].
    unfold doc_step in Hs. cbn [fst snd] in Hs. destruct (doc_fields o (k_all k)); [|discriminate].
    cbn [bind] in Hs. injection Hs as H1 H2. split; [symmetry; exact H2|].
    split; [exact Hnd' | apply req_wfb_spec; exact Hwf'].
  Qed.

  (* The derived class is not a subclass of its source. *)
  Theorem C12_not_subclass : forall g k o cn k',
      base_ok g -> derive g k o cn = Ok k' ->
      derived_name o cn k <> k_name k -> k_name k <> n_Structure ->
      is_subclass k' k = false.
  Proof. exact (derive_not_subclass re_match e gd). Qed.

  (* ... and with the default class name the first hypothesis always holds *)
  Theorem C12_not_subclass_default_name : forall g k o k',
      base_ok g -> derive g k o None = Ok k' -> k_name k <> n_Structure -> is_subclass k' k = false.
  Proof.
    intros g k o k' Hb H Hs. eapply (derive_not_subclass re_match e gd); eauto. apply default_name_fresh.
  Qed.

  (* Every retained field IS the source's field object: same declaration (hence the same
     accept / reject / normal form for every value), same immutability, same default. *)
  Theorem C12_field_behaviour : forall g k o cn k' n,
      base_ok g -> derive g k o cn = Ok k' ->
      alist_get (k_all k') n = (if retained o n then alist_get (k_all k) n else None) /\
      forall fo, alist_get (k_all k') n = Some (MField fo) ->
                 exists fo0, alist_get (k_all k) n = Some (MField fo0) /\
                             fo_default fo = fo_default fo0 /\ fo_immutable fo = fo_immutable fo0 /\
                             forall env' v, vset re_match env' (fo_field fo) v = vset re_match env' (fo_field fo0) v.
  Proof.
    intros g k o cn k' n Hb H. destruct (derive_spec re_match e gd g k o cn k' Hb H) as [ms [Hdoc [Hall _]]].
    subst ms. pose proof (doc_fields_get o _ _ n Hdoc) as Hg. split; [exact Hg|].
    intros fo Hfo. rewrite Hg in Hfo. destruct (retained o n); [|discriminate].
    exists fo. repeat split; auto.
  Qed.

  (* _ignore_none as the source sees it -- set by its own class body, or else inherited from its bases --
     is set in the derived class *)
  Theorem C12_ignore_none : forall g k o cn k',
      base_ok g -> derive g k o cn = Ok k' ->
      k_ignore_none k' = effective_ignore_none (bases_ignore_none g k) k.
  Proof.
    intros g k o cn k' Hb H. destruct (derive_spec re_match e gd g k o cn k' Hb H) as [ms [_ [_ [_ [_ [_ [_ [_ Hi]]]]]]]].
    exact Hi.
  Qed.

  (* ... hence getattr(Derived, '_ignore_none', False) = getattr(Source, '_ignore_none', False): the derived
     class ignores None for optional fields exactly when the source does *)
  Theorem C12_ignore_none_effective : forall g k o cn k',
      base_ok g -> resolve_ignore_none g [n_Structure] = false ->
      find_klass g (k_name k) = Some k -> k_mro k = k_name k :: tl_str (k_mro k) ->
      derived_name o cn k <> n_Structure ->
      derive g k o cn = Ok k' ->
      resolve_ignore_none (k' :: g) (k_mro k') = resolve_ignore_none g (k_mro k).
  Proof. exact (derive_ignore_none_effective re_match e gd). Qed.

  (* Compositions of ANY length: the field list and the required list of the last class are the fold
     of the documented set operations over the operator list (induction over the list). *)
  Theorem C12_compose : forall ops g k k',
      base_ok g -> names_ok ops -> NoDup (field_names k) -> req_wfb (k_all k) (k_required k) = true ->
      derive_chain g k ops = Ok k' ->
      doc_chain (map fst ops) (k_all k, k_required k) = Ok (k_all k', k_required k').
  Proof.
    intros ops g k k' Hb Hn Hnd Hwf H. apply req_wfb_spec in Hwf.
    exact (derive_chain_documented re_match e gd ops g k k' Hb Hn Hnd Hwf H).
  Qed.

  (* Naming a field the source does not have: TypeError (no class). *)
  Theorem C12_bad_name : forall g k ns cn n,
      In n ns -> ~ In n (field_names k) ->
      derive g k (OpOmit ns) cn = Raise TypeError /\ derive g k (OpPick ns) cn = Raise TypeError.
  Proof. exact (derive_bad_name re_match e gd). Qed.

  (* Deriving adds one class to the environment and leaves every other entry -- the source in
     particular -- as it was (class objects are values of the model: nothing else can change). *)
  Theorem C12_source_unchanged : forall g k o cn k',
      base_ok g -> derive g k o cn = Ok k' -> derived_name o cn k <> k_name k ->
      forall n, n <> derived_name o cn k -> find_klass (k' :: g) n = find_klass g n.
  Proof. exact (derive_source_unchanged re_match e gd). Qed.

  (* Every operator yields a class whenever the documented field set exists and the class dict it builds
     is an acceptable class body: no operator / source combination fails on its own (a source with a
     Constant member included: AllFieldsRequired lists the constant in _required, as the source does). *)
  Theorem C12_operators_total : forall g k o cn,
      is_ok (doc_fields o (k_all k)) = true ->
      (forall s, derive_stmt (bases_ignore_none g k) k o cn = Ok s -> is_ok (define re_match e gd g s) = true) ->
      is_ok (derive g k o cn) = true.
  Proof. exact (derive_total re_match e gd). Qed.

  (* The derived class SEES the `_ignore_none` attribute exactly as its source does: absent, False or True (three
     values, not two: an explicit False is not "nothing") ... *)
  Theorem C12_seen_ignore_none : forall g k o cn k',
      base_ok g -> inherited_ignore_none g [n_Structure] = None ->
      find_klass g (k_name k) = Some k -> k_mro k = k_name k :: tl_str (k_mro k) ->
      derived_name o cn k <> n_Structure ->
      derive g k o cn = Ok k' ->
      seen_ignore_none (k' :: g) k' = seen_ignore_none g k.
  Proof. exact (derive_seen_ignore_none re_match e gd). Qed.

  (* ... hence Structure.__setattr__'s decision getattr(self, '_ignore_none', TypedPyDefaults.allow_none_for_optionals)
     is the same for the derived class and for its source under EVERY value of the process-wide default -- the value
     is a parameter of the decision, read when the instance is assigned to, so also after it was switched *)
  Theorem C12_none_decision : forall g k o cn k',
      base_ok g -> inherited_ignore_none g [n_Structure] = None ->
      find_klass g (k_name k) = Some k -> k_mro k = k_name k :: tl_str (k_mro k) ->
      derived_name o cn k <> n_Structure ->
      derive g k o cn = Ok k' ->
      forall allow_none_default : bool,
        none_decision (k' :: g) allow_none_default (k_mro k') = none_decision g allow_none_default (k_mro k).
  Proof. exact (derive_none_decision re_match e gd). Qed.
End C12.

Print Assumptions C12_fields.
Print Assumptions C12_required_general.
Print Assumptions C12_required.
Print Assumptions C12_not_subclass.
Print Assumptions C12_not_subclass_default_name.
Print Assumptions C12_field_behaviour.
Print Assumptions C12_ignore_none.
Print Assumptions C12_ignore_none_effective.
Print Assumptions C12_compose.
Print Assumptions C12_bad_name.
Print Assumptions C12_source_unchanged.
Print Assumptions C12_operators_total.
Print Assumptions C12_seen_ignore_none.
Print Assumptions C12_none_decision.

(* ------------------------------------------------------------------ non-vacuity *)

Definition nm := s2p.
Definition f_int : field := FNumber KInteger SAny no_numc.
Definition f_int_min3 : field :=
  FNumber KInteger SAny {| multiplesOf := None; minimum := Some (NInt 3); maximum := None; exclusiveMaximum := false |}.
Definition f_str : field := FString no_strc.

(* class Foo(Structure): a: Integer(minimum=3); b: String = "x"; c: Integer; _required = ['a']; _ignore_none = True *)
Definition ex_foo : classstmt :=
  {| s_name := nm "Foo"; s_bases := [n_Structure];
     s_members := [(nm "a", SDecl f_int_min3 false None None);
                   (nm "b", SDecl f_str false None (Some (DLit (PStr (nm "x")))));
                   (nm "c", SDecl f_int false None None)];
     s_required := Some [nm "a"]; s_optional := None; s_additional := None; s_ignore_none := Some true;
     s_attrs := []; s_keys_of := [] |}.

Definition ex_run :=
  match define (fun _ _ => true) [] default_guards genv0 ex_foo with
  | Ok foo =>
      match derive_chain (fun _ _ => true) [] default_guards (foo :: genv0) foo
                         [(OpAllRequired, None); (OpOmit [nm "c"], None); (OpPartial, Some (nm "P"))] with
      | Ok k' => Some (field_names foo, k_required foo, field_names k', k_required k', k_mro k',
                       req_wfb (k_all foo) (k_required foo))
      | Raise _ => None
      end
  | Raise _ => None
  end.

Example C12_nonvacuous :
  ex_run = Some ([nm "a"; nm "b"; nm "c"], [nm "a"], [nm "a"; nm "b"], [], [nm "P"; n_Structure], true) /\
  (* intermediate: AllFieldsRequired requires a and c but not the defaulted b; Omit then drops c *)
  (match define (fun _ _ => true) [] default_guards genv0 ex_foo with
   | Ok foo => match derive_chain (fun _ _ => true) [] default_guards (foo :: genv0) foo
                                  [(OpAllRequired, None); (OpOmit [nm "c"], None)] with
               | Ok k' => Some (k_required k', k_name k')
               | Raise _ => None end
   | Raise _ => None end) = Some ([nm "a"], nm "OmitAllFieldsRequiredFoo") /\
  (* a bad name *)
  (match define (fun _ _ => true) [] default_guards genv0 ex_foo with
   | Ok foo => derive (fun _ _ => true) [] default_guards (foo :: genv0) foo (OpPick [nm "zz"]) None
   | Raise x => Raise x end) = Raise TypeError.
Proof. repeat split; vm_compute; reflexivity. Qed.

(* a source with a Constant member, and an _ignore_none setting that is only inherited *)
Definition ex_base : classstmt :=
  {| s_name := nm "B"; s_bases := [n_Structure];
     s_members := [(nm "x", SDecl f_int false None None)];
     s_required := None; s_optional := None; s_additional := None; s_ignore_none := Some true;
     s_attrs := []; s_keys_of := [] |}.

Definition ex_const : classstmt :=
  {| s_name := nm "K"; s_bases := [nm "B"];
     s_members := [(nm "a", SDecl f_int false None None); (nm "k", SConst (PNum (NInt 5)))];
     s_required := None; s_optional := None; s_additional := None; s_ignore_none := None;
     s_attrs := []; s_keys_of := [] |}.

Definition ex_env : option (klass * genv) :=
  match define (fun _ _ => true) [] default_guards genv0 ex_base with
  | Ok b => match define (fun _ _ => true) [] default_guards (b :: genv0) ex_const with
            | Ok k => Some (k, k :: b :: genv0)
            | Raise _ => None
            end
  | Raise _ => None
  end.

Example C12_constant_and_inherited_ignore_none :
  match ex_env with
  | Some (k, g) =>
      k_ignore_none k = None /\ resolve_ignore_none g (k_mro k) = true /\
      match derive (fun _ _ => true) [] default_guards g k OpAllRequired None with
      | Ok k' => seteq_str (k_required k') [nm "x"; nm "a"; nm "k"] = true /\ k_ignore_none k' = Some true /\
                 resolve_ignore_none (k' :: g) (k_mro k') = true
      | Raise _ => False
      end /\
      match derive (fun _ _ => true) [] default_guards g k OpPartial None with
      | Ok k' => k_required k' = [] /\ resolve_ignore_none (k' :: g) (k_mro k') = true
      | Raise _ => False
      end
  | None => False
  end.
Proof. vm_compute. repeat split; reflexivity. Qed.

(* a source that opts OUT (explicit False, overriding a base that says True) under the process-wide default True:
   the hypotheses of C12_none_decision hold and both classes reject None, although the default alone would drop it *)
Definition ex_strict : classstmt :=
  {| s_name := nm "Strict"; s_bases := [nm "B"];
     s_members := [(nm "note", SDecl f_str false None None)];
     s_required := Some []; s_optional := None; s_additional := None; s_ignore_none := Some false;
     s_attrs := []; s_keys_of := [] |}.

Example C12_none_decision_nonvacuous :
  match define (fun _ _ => true) [] default_guards genv0 ex_base with
  | Ok b =>
      match define (fun _ _ => true) [] default_guards (b :: genv0) ex_strict with
      | Ok k =>
          let g := k :: b :: genv0 in
          inherited_ignore_none g [n_Structure] = None /\ find_klass g (k_name k) = Some k /\
          k_mro k = k_name k :: tl_str (k_mro k) /\
          seen_ignore_none g k = Some false /\ none_decision g true (k_mro k) = false /\
          match derive (fun _ _ => true) [] default_guards g k OpPartial None with
          | Ok k' => seen_ignore_none (k' :: g) k' = Some false /\ none_decision (k' :: g) true (k_mro k') = false /\
                     none_decision (k' :: g) true [n_Structure] = true
          | Raise _ => False
          end
      | Raise _ => False
      end
  | Raise _ => False
  end.
Proof. vm_compute. repeat split; reflexivity. Qed.

(* ---- the tie to the source, re-checked by the kernel on every run -------------------------------------
   Gen/DeriveSrc.v is re-generated from typedpy/structures/structures_reuse.py and structures.py
   (harness/genmods/py2v_derive.py): the class-dict construction of Partial / AllFieldsRequired / Omit / Pick /
   Extend, Structure.omit / pick, _init_class_dict.  For EVERY source class description (seen as a class object
   in the heap, with arbitrary other __dict__ entries) and argument list, the type(name, bases, dict) request
   the source builds NOW decodes to the class statement of the hand-written model Struct/Derive.v. *)
From TP Require Import Base.PyOps Base.PyOps2 Base.PyObj Base.PyOpsDerive Gen.DeriveSrc Struct.DeriveSrcView Struct.DeriveSrcProofs.

Theorem C12_src_partial :
  forall (k : klass) (inh eu : option bool) (pre post : list (pystr * pyval)),
         others_ok pre = true ->
         others_ok post = true ->
         src_ok k = true ->
         forall cname : option pystr,
         x <- PartialMeta_getitem (klass_heap k inh eu pre post) (op_class OpPartial) (class_arg cname);;
         decode_newclass k x = derive_stmt_eu inh eu k OpPartial cname.
Proof. exact Partial_src_is_model. Qed.

Theorem C12_src_extend :
  forall (k : klass) (inh eu : option bool) (pre post : list (pystr * pyval)),
         others_ok pre = true ->
         others_ok post = true ->
         src_ok k = true ->
         forall cname : option pystr,
         x <- ExtendMeta_getitem (klass_heap k inh eu pre post) (op_class OpExtend) (class_arg cname);;
         decode_newclass k x = derive_stmt_eu inh eu k OpExtend cname.
Proof. exact Extend_src_is_model. Qed.

Theorem C12_src_allrequired :
  forall (k : klass) (inh eu : option bool) (pre post : list (pystr * pyval)),
         others_ok pre = true ->
         others_ok post = true ->
         src_ok k = true ->
         defaults_normal k = true ->
         forall cname : option pystr,
         x <-
         AllFieldsRequiredMeta_getitem (klass_heap k inh eu pre post) (op_class OpAllRequired)
           (class_arg cname);; decode_newclass k x = derive_stmt_eu inh eu k OpAllRequired cname.
Proof. exact AllFieldsRequired_src_is_model. Qed.

Theorem C12_src_omit :
  forall (k : klass) (inh eu : option bool) (pre post : list (pystr * pyval)),
         others_ok pre = true ->
         others_ok post = true ->
         src_ok k = true ->
         forall (b : bool) (ns : list pystr) (cname : option pystr),
         name_given cname = true ->
         x <- OmitMeta_getitem (klass_heap k inh eu pre post) (op_class (OpOmit ns)) (sel_arg b ns cname);;
         decode_newclass k x = derive_stmt_eu inh eu k (OpOmit ns) cname.
Proof. exact Omit_src_is_model. Qed.

Theorem C12_src_pick :
  forall (k : klass) (inh eu : option bool) (pre post : list (pystr * pyval)),
         others_ok pre = true ->
         others_ok post = true ->
         src_ok k = true ->
         forall (b : bool) (ns : list pystr) (cname : option pystr),
         name_given cname = true ->
         x <- PickMeta_getitem (klass_heap k inh eu pre post) (op_class (OpPick ns)) (sel_arg b ns cname);;
         decode_newclass k x = derive_stmt_eu inh eu k (OpPick ns) cname.
Proof. exact Pick_src_is_model. Qed.

Theorem C12_src_structure_omit :
  forall (k : klass) (inh eu : option bool) (pre post : list (pystr * pyval)),
         others_ok pre = true ->
         others_ok post = true ->
         src_ok k = true ->
         forall (ns : list pystr) (cname : option pystr),
         name_given cname = true ->
         x <-
         Structure_omit (klass_heap k inh eu pre post) (ref o_clazz) (PTuple (map PStr ns))
           (class_name_kw cname);; decode_newclass k x = derive_stmt_eu inh eu k (OpOmit ns) cname.
Proof. exact Structure_omit_src_is_model. Qed.

Theorem C12_src_structure_pick :
  forall (k : klass) (inh eu : option bool) (pre post : list (pystr * pyval)),
         others_ok pre = true ->
         others_ok post = true ->
         src_ok k = true ->
         forall (ns : list pystr) (cname : option pystr),
         name_given cname = true ->
         x <-
         Structure_pick (klass_heap k inh eu pre post) (ref o_clazz) (PTuple (map PStr ns))
           (class_name_kw cname);; decode_newclass k x = derive_stmt_eu inh eu k (OpPick ns) cname.
Proof. exact Structure_pick_src_is_model. Qed.

(* all five operators in one statement *)
Theorem C12_src_operators :
  forall (k : klass) (inh eu : option bool) (pre post : list (pystr * pyval)) (o : op) (as_list : bool)
           (cname : option pystr),
         others_ok pre = true ->
         others_ok post = true ->
         src_ok k = true ->
         op_ok k o cname = true ->
         x <- run_operator (klass_heap k inh eu pre post) o as_list cname;; decode_newclass k x =
         derive_stmt_eu inh eu k o cname.
Proof. exact operators_src_is_model. Qed.

(* the model's derive = the source's operator, decoded, followed by the ordinary class definition *)
Theorem C12_src_derive_factors :
  forall (re_match : N -> pystr -> bool) (e : env) (gd : guards) (g : genv) 
           (k : klass) (eu : option bool) (pre post : list (pystr * pyval)) (o : op) (as_list : bool)
           (cname : option pystr),
         others_ok pre = true ->
         others_ok post = true ->
         src_ok k = true ->
         op_ok k o cname = true ->
         derive re_match e gd g k o cname =
         x <- run_operator (klass_heap k (bases_ignore_none g k) eu pre post) o as_list cname;;
         s <- decode_newclass k x;; define re_match e gd g s.
Proof. exact derive_is_source_then_define. Qed.

(* a source that is not a Structure class: TypeError from every operator *)
Theorem C12_src_not_structure :
  forall (k : klass) (inh eu : option bool) (pre post : list (pystr * pyval)),
         k_is_struct k = false ->
         forall (b : bool) (ns : list pystr) (cname : option pystr),
         PartialMeta_getitem (klass_heap k inh eu pre post) (op_class OpPartial) (class_arg cname) =
         Raise TypeError /\
         AllFieldsRequiredMeta_getitem (klass_heap k inh eu pre post) (op_class OpAllRequired)
           (class_arg cname) = Raise TypeError /\
         ExtendMeta_getitem (klass_heap k inh eu pre post) (op_class OpExtend) (class_arg cname) =
         Raise TypeError /\
         OmitMeta_getitem (klass_heap k inh eu pre post) (op_class (OpOmit ns)) (sel_arg b ns cname) =
         Raise TypeError /\
         PickMeta_getitem (klass_heap k inh eu pre post) (op_class (OpPick ns)) (sel_arg b ns cname) =
         Raise TypeError.
Proof. exact operators_src_not_structure. Qed.

(* _init_class_dict as the source has it NOW: the copied own keys, then `_ignore_none` and
   `_enable_undefined_value` exactly as the source class SEES them -- own or inherited, True or False, absent when
   no class of its MRO has the attribute.  (Both decide how a field of the class treats None; before the repair
   of C12-enable-undefined-not-carried only `_ignore_none` was copied.) *)
Theorem C12_src_init_class_dict_carries_none_options :
  forall (k : klass) (inh eu : option bool) (pre post : list (pystr * pyval)),
         others_ok pre = true ->
         others_ok post = true ->
         init_class_dict (klass_heap k inh eu pre post) (ref o_clazz) =
         Ok (dict_of (init_core k (effective_ignore_none inh k) eu)).
Proof. exact init_class_dict_src. Qed.

(* the carried attribute is a known bool class attribute: StructMeta.__new__ builds the same class with and
   without it (the model's [klass] is about fields, required names, the signature) *)
Theorem C12_define_with_undefined :
  forall (re_match : N -> pystr -> bool) (e : env) (gd : guards) (g : genv) (eu : option bool) (s : classstmt),
         define re_match e gd g (with_undefined eu s) = define re_match e gd g s.
Proof. exact define_with_undefined. Qed.

Print Assumptions C12_src_init_class_dict_carries_none_options.
Print Assumptions C12_define_with_undefined.
Print Assumptions C12_src_partial.
Print Assumptions C12_src_extend.
Print Assumptions C12_src_allrequired.
Print Assumptions C12_src_omit.
Print Assumptions C12_src_pick.
Print Assumptions C12_src_structure_omit.
Print Assumptions C12_src_structure_pick.
Print Assumptions C12_src_operators.
Print Assumptions C12_src_derive_factors.
Print Assumptions C12_src_not_structure.
