(* Property C20 — concurrent use of a class from several threads equals some sequential order.
   PARTIAL: the atomicity grain of the model is the action (in the harness: the source line);
   CPython may pre-empt between bytecodes, which can only add schedules.

   Model: Global/Threads.v (threads = lists of atomic actions over shared cells + private history;
   `interleave` = the shuffle relation over any number of threads, any number of pre-emptions).
   Only the property theorems are here, each closed by [exact] of a lemma of
   Global/ThreadsProofs.v / Global/SharedNameProofs.v. *)
From Coq Require Import List Arith Bool Lia.
Import ListNotations.
From TP Require Import Global.Threads Global.ThreadsProofs Global.SharedName Global.SharedNameProofs
     Gen.SharedAccess Global.Cache Global.CacheProofs Global.Compose Global.ComposeProofs
     Global.ClassModel Global.ClassModelProofs Global.Toggle Global.ToggleProofs.

(* The full statement, for the validators of the generated table: whatever the schedule, every
   thread validating the same field of the same class reads - hence returns - what it does alone.
   It is FALSE of today's typedpy (Check/C20today.v: C20_statement_refuted_today); what holds is the
   characterisation below. *)
Definition C20_statement : Prop :=
  forall e, In e shared_access ->
  forall m0 tr i, interleave (sample_threads e) tr -> i < 3 ->
                  obs_in m0 tr i = obs_seq m0 (nth i (sample_threads e) []).

(* no cell written by one thread is accessed by another  ==>  for EVERY interleaving each
   thread observes (hence computes) exactly what it does running alone *)
Theorem C20_private_safe : forall ts m0 tr i,
    private_b ts = true -> interleave ts tr -> i < length ts ->
    obs_in m0 tr i = obs_seq m0 (nth i ts []).
Proof. exact private_all_schedules. Qed.

(* what the boolean hypothesis says *)
Theorem C20_private_b_meaning : forall ts,
    private_b ts = true ->
    forall i j c, i < length ts -> j <> i ->
                  writes_b c (nth j ts []) = true -> accesses_b c (nth i ts []) = false.
Proof. exact private_b_spec. Qed.

(* concurrent writes of one constant to a cell that every thread writes before reading commute
   observationally (Map/Set/multi-field wrappers writing a constant name) *)
Theorem C20_idempotent_write_safe : forall ts m0 tr i,
    idempotent_b ts = true -> interleave ts tr -> i < length ts ->
    obs_in m0 tr i = obs_seq m0 (nth i ts []).
Proof. exact idempotent_all_schedules. Qed.

(* the two combined, cell by cell and thread by thread *)
Theorem C20_safe_all_schedules : forall ts m0 tr i,
    safe_b ts = true -> interleave ts tr -> i < length ts ->
    obs_in m0 tr i = obs_seq m0 (nth i ts []).
Proof. exact safe_all_schedules. Qed.

(* W c v1 ... R c in one thread, W c v2 (v2 <> v1) in another: the constructed schedule is an
   interleaving under which thread 0 observes what it observes in NO interference-free run,
   whatever memory that run starts from (in particular in neither sequential order) *)
Theorem C20_witness : forall s o,
    no_write_to (s_c s) (s_mid s) = true ->
    o_v o <> s_v s ->
    interleave [thread1_of s; thread2_of (s_c s) o] (witness_trace s o) /\
    forall m0 m, obs_in m0 (witness_trace s o) 0 <> obs_seq m (thread1_of s).
Proof. exact race_witness. Qed.

(* the decidable search for that shape is sound *)
Theorem C20_find_race_sound : forall t1 t2 s o,
    find_race [] t1 t2 = Some (s, o) ->
    interleave [t1; t2] (witness_trace s o) /\
    forall m0 m, obs_in m0 (witness_trace s o) 0 <> obs_seq m t1.
Proof. exact find_race_witness. Qed.

Theorem C20_safe_excludes_race : forall t1 t2 s o,
    safe_b [t1; t2] = true -> find_race [] t1 t2 = Some (s, o) -> False.
Proof. exact safe_excludes_race. Qed.

(* applied to ANY generated access list, by the vm_compute-decided classification *)
Theorem C20_classified_safe : forall e m0 tr i,
    (classify e = SafePrivate \/ classify e = SafeIdempotent) ->
    interleave (sample_threads e) tr -> i < 3 ->
    obs_in m0 tr i = obs_seq m0 (nth i (sample_threads e) []).
Proof. exact classified_safe_all_schedules. Qed.

Theorem C20_classified_racy : forall e,
    classify e = Racy ->
    exists tr, interleave [nth 0 (sample_threads e) []; nth 1 (sample_threads e) []] tr /\
               forall m0 m, obs_in m0 tr 0 <> obs_seq m (nth 0 (sample_threads e) []).
Proof. exact classified_racy_witness. Qed.

(* ---- several fields / nested classes: safety composes over disjoint cells (Global/Compose.v) ---- *)

(* two thread families on disjoint cells, each safe: the family whose threads run their program of the
   first followed by their program of the second is safe *)
Theorem C20_compose_safe : forall a b,
    length a = length b -> safe_b a = true -> safe_b b = true -> disjoint_b a b = true ->
    safe_b (zip_app a b) = true.
Proof. exact safe_zip_app. Qed.

(* safety does not depend on WHICH Field objects a validator works on (renaming of cells) *)
Theorem C20_shift_invariant : forall k ts, safe_b (shift_family k ts) = safe_b ts.
Proof. exact safe_b_shift. Qed.

(* any number of fields: every interleaving of operations that each validate all the fields *)
Theorem C20_composed_all_schedules : forall n fams m0 tr i,
    Forall (fun f => length f = n) fams ->
    forallb safe_b fams = true ->
    pairwise_disjoint_b n fams = true ->
    interleave (compose_all n fams) tr -> i < n ->
    obs_in m0 tr i = obs_seq m0 (nth i (compose_all n fams) []).
Proof. exact composed_all_schedules. Qed.

(* a class whose fields' validators (ANY generated access lists) are all classified safe *)
Theorem C20_class_safe_all_schedules : forall es m0 tr i,
    class_safe_b es = true -> interleave (class_threads es) tr -> i < 3 ->
    obs_in m0 tr i = obs_seq m0 (nth i (class_threads es) []).
Proof. exact class_safe_all_schedules. Qed.

(* ---- save; write; use; restore on a shared name (a non-atomic toggle, Global/Toggle.v) ---- *)

(* FIFO overlap of two such threads (two pre-emptions: the thread that entered first leaves first): the schedule
   is an interleaving, the second thread USES the value the cell had before either of them, and whenever that
   differs from the value it installed, this is what it uses in NO run alone, from any memory *)
Theorem C20_toggle_fifo_witness : forall c v m0,
    interleave [toggle c v; toggle c v] (fifo_trace c v) /\
    used (obs_in m0 (fifo_trace c v) 1) = m0 c /\
    (m0 c <> v -> forall m, used (obs_in m0 (fifo_trace c v) 1) <> used (obs_seq m (toggle c v))).
Proof. exact toggle_fifo_witness. Qed.

(* the nested (LIFO) overlap, also two pre-emptions, is harmless: why single pre-emptions never show it *)
Theorem C20_toggle_lifo_harmless : forall c v m0,
    used (obs_in m0 (lifo_trace c v) 0) = v /\ used (obs_in m0 (lifo_trace c v) 1) = v.
Proof. exact toggle_lifo_harmless. Qed.

(* ---- caches shared by all threads (Global/Cache.v; protocols generated into Gen/CacheAccess.v) ---- *)

(* lookups that are ONE atomic step (dict.get, lru_cache, getattr with default); removals allowed: if every
   store of every protocol operating on a cache slot stores the completely computed value (a function of the
   key alone), then under EVERY schedule - any number of threads, any number of pre-emptions, each thread
   running any of the protocols - every thread that returns, returns the computed value, and none raises *)
Theorem C20_cache_final_safe : forall ps sched s i r,
    forallb stores_final ps = true -> forallb no_read ps = true -> slot_ok s ->
    cresult (crun sched s (cstart ps)) i = Some r -> r = CFinal.
Proof. exact cache_final_safe. Qed.

(* check-then-read (`if key in cache: return cache[key]`: a membership test and a subscript read, two steps) is
   safe as long as NOTHING is ever removed: with no removal site in any protocol no thread ever raises KeyError
   and every thread that returns, returns the computed value - any schedule, any number of threads *)
Theorem C20_cache_insert_only_safe : forall ps sched s i,
    forallb stores_final ps = true -> forallb no_clear ps = true -> forallb guarded ps = true -> slot_ok s ->
    cfailed (crun sched s (cstart ps)) i = false /\
    forall r, cresult (crun sched s (cstart ps)) i = Some r -> r = CFinal.
Proof. exact cache_insert_only_safe. Qed.

(* ... and ONLY then: next to a removal site (cache.clear(), pop, del - in a thread working on ANY key) the
   constructed schedule - reader up to and including its membership test, the other thread up to and including
   its removal, the reader's read - makes the reader raise, although the key was there when it tested *)
Theorem C20_cache_removal_witness : forall loc rest pre post v,
    only_local loc = true -> only_local pre = true ->
    cfailed (crun (removal_sched loc pre) (Some v)
                  (cstart [loc ++ CCheck :: CRead :: rest; pre ++ CClear :: post])) 0 = true.
Proof. exact cache_removal_witness. Qed.

(* the two safe modes together (what the classifier accepts), and the sequential reference: the protocol
   running alone returns the computed value and leaves the slot empty or filled with it *)
Theorem C20_cache_protocols_safe : forall ps sched s i,
    protocols_safe ps = true -> slot_ok s ->
    cfailed (crun sched s (cstart ps)) i = false /\
    forall r, cresult (crun sched s (cstart ps)) i = Some r -> r = CFinal.
Proof. exact cache_protocols_safe. Qed.

Theorem C20_cache_final_alone : forall p s,
    protocols_safe [p] = true -> slot_ok s ->
    snd (calone s p) = Some CFinal /\ slot_ok (fst (calone s p)).
Proof. exact cache_final_alone. Qed.

(* total correctness: whatever the other threads do, a thread that is scheduled often enough (the length of
   its protocol + 1 times) HAS returned, and has returned the completely computed value *)
Theorem C20_cache_final_complete : forall ps sched s i p,
    protocols_safe ps = true -> slot_ok s ->
    nth_error ps i = Some p ->
    S (length p) <= count_occ Nat.eq_dec sched i ->
    cresult (crun sched s (cstart ps)) i = Some CFinal.
Proof. exact cache_final_complete. Qed.

(* the cache is a DICTIONARY of slots and every thread works on the slot of its own key: seen from any key,
   the run of the whole dictionary under any schedule IS the single-slot run of that key's threads ... *)
Theorem C20_cache_keys_independent : forall sched m ts k,
    crun sched (m k) (kproj k ts)
    = (fst (krun sched m ts) k, kproj k (snd (krun sched m ts))).
Proof. exact krun_project. Qed.

(* ... hence the single-slot theorem holds for the whole cache: any keys, any threads, any schedule *)
Theorem C20_cache_keyed_final_safe : forall kps sched m i r,
    forallb (fun kp : nat * cprog => stores_final (snd kp)) kps = true ->
    forallb (fun kp : nat * cprog => no_read (snd kp)) kps = true ->
    (forall k, slot_ok (m k)) ->
    kresult (krun sched m (kstart kps)) i = Some r -> r = CFinal.
Proof. exact cache_keyed_final_safe. Qed.

(* `calone` is the small-step semantics with only that thread scheduled *)
Theorem C20_cache_alone_is_run : forall p s,
    crun (repeat 0 (S (length p))) s [Running p] = (fst (calone s p), [tstate_of (snd (calone s p))]).
Proof. exact calone_is_crun. Qed.

(* a protocol whose first store puts anything else into the slot (a placeholder, a partially built
   value): under the constructed schedule a second thread that looks the slot up RETURNS that value
   (atomic lookup / membership test followed by a read) *)
Theorem C20_cache_placeholder_witness : forall pre tag post loc rest,
    no_store pre = true -> plain pre = true -> only_local loc = true ->
    cresult (crun (placeholder_sched pre loc) None
                  (cstart [pre ++ CStore (COther tag) :: post; loc ++ CLookup :: rest])) 1
    = Some (COther tag).
Proof. exact cache_placeholder_witness. Qed.

Theorem C20_cache_placeholder_witness_cr : forall pre tag post loc rest,
    no_store pre = true -> plain pre = true -> only_local loc = true ->
    cresult (crun (repeat 0 (S (length pre)) ++ repeat 1 (S (S (length loc)))) None
                  (cstart [pre ++ CStore (COther tag) :: post; loc ++ CCheck :: CRead :: rest])) 1
    = Some (COther tag).
Proof. exact cache_placeholder_witness_cr. Qed.

(* applied to ANY generated table entry through the vm_compute-decided classification *)
Theorem C20_cache_classified_safe : forall ps sched s i,
    cache_classify ps = CacheSafe -> slot_ok s ->
    cfailed (crun sched s (cstart ps)) i = false /\
    forall r, cresult (crun sched s (cstart ps)) i = Some r -> r = CFinal.
Proof. exact cache_classified_safe. Qed.

Theorem C20_cache_classified_racy : forall ps,
    cache_classify ps = CacheRacy ->
    (exists p q, In p ps /\ In q ps /\ cache_classify2 p q = CacheRacy) \/
    (exists p q, In p ps /\ In q ps /\
                 forall v, exists sched, cfailed (crun sched (Some v) (cstart [p; foreign_view q])) 0 = true).
Proof. exact cache_classified_racy. Qed.

Theorem C20_cache_placeholder_racy : forall p q,
    cache_classify2 p q = CacheRacy -> placeholder_ready p = true ->
    exists sched tag, cresult (crun sched None (cstart [p; q])) 1 = Some (COther tag).
Proof. exact cache_classify2_racy. Qed.

Theorem C20_cache_safe_excludes_witness : forall ps sched i tag,
    cache_classify ps = CacheSafe ->
    cresult (crun sched None (cstart ps)) i = Some (COther tag) -> False.
Proof. exact cache_safe_excludes_witness. Qed.

Print Assumptions C20_private_safe.
Print Assumptions C20_private_b_meaning.
Print Assumptions C20_idempotent_write_safe.
Print Assumptions C20_safe_all_schedules.
Print Assumptions C20_witness.
Print Assumptions C20_find_race_sound.
Print Assumptions C20_safe_excludes_race.
Print Assumptions C20_classified_safe.
Print Assumptions C20_classified_racy.
Print Assumptions C20_compose_safe.
Print Assumptions C20_shift_invariant.
Print Assumptions C20_composed_all_schedules.
Print Assumptions C20_class_safe_all_schedules.
Print Assumptions C20_toggle_fifo_witness.
Print Assumptions C20_toggle_lifo_harmless.
Print Assumptions C20_cache_final_safe.
Print Assumptions C20_cache_insert_only_safe.
Print Assumptions C20_cache_removal_witness.
Print Assumptions C20_cache_protocols_safe.
Print Assumptions C20_cache_final_alone.
Print Assumptions C20_cache_final_complete.
Print Assumptions C20_cache_keys_independent.
Print Assumptions C20_cache_keyed_final_safe.
Print Assumptions C20_cache_alone_is_run.
Print Assumptions C20_cache_placeholder_witness.
Print Assumptions C20_cache_placeholder_witness_cr.
Print Assumptions C20_cache_classified_safe.
Print Assumptions C20_cache_classified_racy.
Print Assumptions C20_cache_placeholder_racy.
Print Assumptions C20_cache_safe_excludes_witness.

(* non-vacuity: three threads; cell 1 is written by all with the same constant before being read,
   cell 2 is private to thread 0, cell 3 is only read; the hypothesis holds, and a fully
   interleaved schedule (a pre-emption after every action) is an interleaving *)
Definition ex_ts : list thread :=
  [ [W 1 (WConst [7]); W 2 (WFun (fun h => 9 :: concat h)); R 1; R 2; R 3];
    [W 1 (WConst [7]); R 1; R 3];
    [R 3; W 1 (WConst [7]); R 1] ].
Definition ex_tr : trace :=
  [ (0, W 1 (WConst [7])); (1, W 1 (WConst [7])); (2, R 3); (0, W 2 (WFun (fun h => 9 :: concat h)));
    (1, R 1); (2, W 1 (WConst [7])); (0, R 1); (1, R 3); (2, R 1); (0, R 2); (0, R 3) ].

Example C20_nonvacuous :
  safe_b ex_ts = true /\ private_b ex_ts = false /\ idempotent_b ex_ts = false /\
  obs_in (fun c => [c]) ex_tr 0 = [[7]; [9]; [3]] /\
  obs_seq (fun c => [c]) (nth 0 ex_ts []) = [[7]; [9]; [3]].
Proof. vm_compute. repeat split; reflexivity. Qed.

Example C20_nonvacuous_interleaving : interleave ex_ts ex_tr.
Proof. unfold ex_ts, ex_tr. repeat (eapply il_step; [reflexivity | cbn [set_nth]]). apply il_done. repeat constructor. Qed.

(* the racy shape is satisfiable: two validations of Array[Integer]-like programs *)
Example C20_witness_nonvacuous :
  exists s o, find_race [] [W 1 (WConst [7;0]); R 1; R 1; W 1 (WConst [7;1]); R 1; R 1]
                           [W 1 (WConst [7;0]); R 1; R 1] = Some (s, o).
Proof. eexists. eexists. vm_compute. reflexivity. Qed.

(* caches, non-vacuity: the protocol of today's aggregated-mapper cache (lookup, compute, store the
   returned value) satisfies the hypothesis, and three threads fully interleaved all return the computed
   value; the same protocol with a placeholder reserved first is classified racy and the constructed
   schedule makes the second thread return the placeholder *)
Example C20_cache_nonvacuous :
  let p := [CCheck; CRead; CLocal; CStore CFinal] in
  protocols_safe [p] = true /\ cache_classify [p] = CacheSafe /\
  crun [0; 1; 2; 0; 1; 2; 0; 1; 2; 0; 1; 2; 0; 1; 2] None (cstart [p; p; p])
  = (Some CFinal, [Done CFinal; Done CFinal; Done CFinal]).
Proof. vm_compute. repeat split; reflexivity. Qed.

Example C20_cache_witness_nonvacuous :
  let p := [CLookup; CStore (COther 263); CLocal; CStore CFinal] in
  cache_classify [p] = CacheRacy /\ snd (calone None p) = Some CFinal /\
  cresult (crun (placeholder_sched [CLookup] []) None (cstart [p; p])) 1 = Some (COther 263).
Proof. vm_compute. repeat split; reflexivity. Qed.

(* removal, non-vacuity: the aggregated-mapper protocol with a bounded cache (`cache.clear()` before the store):
   classified racy, it returns the computed value alone, and under the constructed schedule the reader raises *)
Example C20_cache_removal_nonvacuous :
  let p := [CCheck; CRead; CLocal; CClear; CStore CFinal] in
  cache_classify [p] = CacheRacy /\ removal_witness [p] = Some (0, 1, 0, 4) /\
  snd (calone (Some CFinal) p) = Some CFinal /\ snd (calone None p) = Some CFinal /\
  cfailed (crun (removal_sched [] [CLocal; CLocal; CLocal]) (Some CFinal) (cstart [p; foreign_view p])) 0 = true.
Proof. vm_compute. repeat split; reflexivity. Qed.

(* many keys, non-vacuity: two threads on key 1 (one of them reserving a placeholder) and one thread on key 2:
   the placeholder reaches the second thread of key 1 and never the thread of key 2 *)
Example C20_cache_keys_nonvacuous :
  let p := [CLookup; CLocal; CStore CFinal] in
  let bad := [CLookup; CStore (COther 9); CStore CFinal] in
  kresult (krun [0; 0; 2; 1; 2; 2; 2] (fun _ => None) (kstart [(1, bad); (1, p); (2, p)])) 1 = Some (COther 9) /\
  kresult (krun [0; 0; 2; 1; 2; 2; 2] (fun _ => None) (kstart [(1, bad); (1, p); (2, p)])) 2 = Some CFinal.
Proof. vm_compute. split; reflexivity. Qed.

(* composition, non-vacuity: a class with a Set-like field (one shared item name, constant) and a Map-like field
   (two constant names), as literal access lists: the class is safe, its three sample operations have 21/15/27
   actions, and the cells of the two fields are disjoint after renaming *)
From Coq Require Import String.
Definition ex_set : ventry :=
  {| v_name := "set"%string; v_file := ""%string;
     v_acc := [AWrite TShared VSelf Once 1; ACallSet TShared ScrPerIter PerIter 2; AReadBack TShared ScrPerIter PerIter 3] |}.
Definition ex_map : ventry :=
  {| v_name := "map"%string; v_file := ""%string;
     v_acc := [AWrite (TFixed 0) (VSelfSuffix 0) Once 1; AWrite (TFixed 1) (VSelfSuffix 1) Once 2;
               ACallSet (TFixed 0) ScrPerIter PerIter 3; ACallSet (TFixed 1) ScrPerIter PerIter 4;
               AReadBack (TFixed 1) ScrPerIter PerIter 5; AReadBack (TFixed 0) ScrPerIter PerIter 5] |}.
Example C20_class_nonvacuous :
  class_safe_b [ex_set; ex_map] = true /\
  map (@List.length action) (class_threads [ex_set; ex_map]) = [21; 15; 27] /\
  pairwise_disjoint_b 3 (class_families [ex_set; ex_map]) = true.
Proof. vm_compute. repeat split; reflexivity. Qed.
