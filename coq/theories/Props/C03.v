(* Property C03 — every mutation is validated and failure-atomic.
   Only the property theorems; proofs are in Struct/MutateProofs.v.

   The statement over EVERY conceivable mutator shape is false of the model (a wrapper mutator that is not
   overridden, or that acts in place without validating, breaks it: F3/F3b, repaired in the library, and
   re-checked on the GENERATED mutator tables on every run), and success leaves a valid instance only if the
   normal form a field stores is itself a documented value (C01's concern).  It is therefore kept as a
   Definition, refuted on an unsafe shape, and replaced by an exact characterisation that is parametric in the
   GENERATED mutator tables (Gen/Tables.v, re-derived from collections_impl.py and CPython on every run).
   The two holes the instance code itself had are repaired in the library and the model follows it:
   Structure.__setattr__ puts the previous entry back when the descriptor chain raises after the store (the
   class's __validate__ hook rejecting the new state: F4), and Structure.__delitem__ runs __validate__ and puts
   the entry back when it raises.  Failure atomicity therefore holds with NO condition on the values
   ([C03_failure_atomic]) and deletion is unconditionally good ([C03_delitem_good]). *)
From Coq Require Import ZArith NArith String List Bool.
Import ListNotations.
From TP Require Import Base.PyVal Fields.FieldAst Fields.SetChain Fields.Doc Struct.Shapes Struct.Instance
  Struct.Mutate Struct.MutateProofs Gen.Tables Struct.WrapBody Struct.WrapBodyProofs Gen.WrapBodies
  Base.PyObj Struct.StructGuardProofs Struct.NoneFields Struct.NoneFieldsProofs Gen.StructNoneFields.
Local Open Scope string_scope.

(* The statement as given: from a valid state EVERY operation either succeeds leaving a valid instance or
   raises leaving the instance unchanged. *)
Definition C03_statement : Prop :=
  forall re_match e c a op,
    hook_wf c = true -> struct_ok re_match e c a = true ->
    step_good re_match e c a (fst (mstep re_match e c a op)) (snd (mstep re_match e c a op)).

Section C03.
  Variable re_match : N -> pystr -> bool.     (* oracle: re.match *)
  Variable e : env.                           (* class environment *)

  (* (a) One step.  For ANY mutator table t: an operation whose wrapper mutator is an entry of t with a safe
     shape (trivially so for setattr / del), and whose would-be stored value is acceptable
     ([value_safe]: the normal form that stays stored is documented-valid), either succeeds leaving
     [struct_ok] true, or raises leaving the attributes unchanged. *)
  Theorem C03_step_safe : forall c a op a' r,
      hook_wf c = true -> struct_ok re_match e c a = true ->
      op_shape_safe op = true -> value_safe re_match e c a op = true ->
      mstep re_match e c a op = (a', r) ->
      (r = Done -> struct_ok re_match e c a' = true) /\ (forall x, r = Raised x -> a' = a).
  Proof.
    intros c a op a' r Hwf Hok H1 H2. apply step_safe_cases; try assumption.
    rewrite step_safe_split, H1, H2. reflexivity.
  Qed.

  Theorem C03_step_safe_table : forall (t : mutator_table) m s n base c a a' r,
      table_safe t = true -> In (m, s) t ->
      hook_wf c = true -> struct_ok re_match e c a = true ->
      value_safe re_match e c a (WrapMut n s base) = true ->
      mstep re_match e c a (WrapMut n s base) = (a', r) ->
      (r = Done -> struct_ok re_match e c a' = true) /\ (forall x, r = Raised x -> a' = a).
  Proof.
    intros t m s n base c a a' r Ht Hin Hwf Hok. apply C03_step_safe; try assumption.
    unfold table_safe in Ht. rewrite forallb_forall in Ht. exact (Ht _ Hin).
  Qed.

  (* the failure half needs no hypothesis on the state or the value: a step of safe shape that raises -- field
     validation, the immutability guards, the base type's method, the class's __validate__ hook after the
     store -- leaves the attributes exactly as they were *)
  Theorem C03_failure_atomic : forall c a op a' x,
      op_shape_safe op = true -> mstep re_match e c a op = (a', Raised x) -> a' = a.
  Proof. exact (failure_atomic re_match e). Qed.

  (* del x[n] is validated and failure-atomic for every class, valid state and name *)
  Theorem C03_delitem_good : forall c a n,
      struct_ok re_match e c a = true ->
      step_good re_match e c a (fst (mstep re_match e c a (DelItem n))) (snd (mstep re_match e c a (DelItem n))).
  Proof. exact (delitem_good re_match e). Qed.

  (* ... and the characterisation is exact for assignments and deletions: the step is good IFF the
     condition holds.  An assignment that passes validation, is stored, and is then rejected by the hook
     raises and leaves the previous value in place: *)
  Theorem C03_setattr_exact : forall c a n v,
      hook_wf c = true -> struct_ok re_match e c a = true ->
      (step_good re_match e c a (fst (mstep re_match e c a (SetAttr n v))) (snd (mstep re_match e c a (SetAttr n v)))
       <-> step_safe re_match e c a (SetAttr n v) = true).
  Proof. exact (setattr_exact re_match e). Qed.

  Theorem C03_delitem_exact : forall c a n,
      struct_ok re_match e c a = true ->
      (step_good re_match e c a (fst (mstep re_match e c a (DelItem n))) (snd (mstep re_match e c a (DelItem n)))
       <-> step_safe re_match e c a (DelItem n) = true).
  Proof. exact (delitem_exact re_match e). Qed.

  Theorem C03_hook_failure_atomic : forall c a n v fd nf,
      c_immutable c = false -> find_field (c_fields c) n = Some fd ->
      (c_ignore_none c && is_none_val v && negb (is_required c n)) = false ->
      vset re_match e (fd_field fd) v = Ok nf -> (fd_immutable fd && alist_has a n) = false ->
      hook_ok (c_hook c) (alist_set a n nf) = false ->
      mstep re_match e c a (SetAttr n v) = (a, Raised ValueError).
  Proof. exact (hook_failure_atomic re_match e). Qed.

  (* (b) Histories: any finite sequence of safe operations (failed ones included) keeps the instance valid
     after every step, every step is good, and the failed steps are stutters: deleting them from the
     history changes nothing.  Induction over the operation list ([run_ops] is a fold_left). *)
  Theorem C03_history : forall c,
      hook_wf c = true ->
      forall ops a, struct_ok re_match e c a = true -> hist_safe re_match e c a ops = true ->
        struct_ok re_match e c (run_ops re_match e c a ops) = true /\
        Forall (tstep_good re_match e c) (run_trace re_match e c a ops).
  Proof. exact (history_safe re_match e). Qed.

  Theorem C03_failed_steps_stutter : forall c,
      hook_wf c = true ->
      forall ops a, struct_ok re_match e c a = true -> hist_safe re_match e c a ops = true ->
        run_ops re_match e c a (drop_failed re_match e c a ops) = run_ops re_match e c a ops.
  Proof. exact (failed_steps_stutter re_match e). Qed.

  (* for classes without a hook the condition on the operations does not depend on the state *)
  Theorem C03_history_nohook : forall c,
      c_hook c = HookNone ->
      forall ops a, struct_ok re_match e c a = true -> forallb (op_safe_nohook re_match e c) ops = true ->
        struct_ok re_match e c (run_ops re_match e c a ops) = true /\
        Forall (tstep_good re_match e c) (run_trace re_match e c a ops).
  Proof. exact (history_safe_nohook re_match e). Qed.
  (* (b') The wrapper methods themselves.  Every override of a list/deque/dict mutator in collections_impl.py
     is transliterated statement by statement on every run (Gen/WrapBodies.v) and classified in Coq
     ([classify]).  For ANY body classified copy-mutate-reassign -- any number of base operations on the local
     copy, any trailing operations on the wrapper object itself, whatever the base type's methods do (oracle
     [base_of], including failing), live or stale handle -- the statement-level execution [wexec] changes the
     instance exactly as the coarse step [WrapMut n (CopyMutateReassign g) base] of the theorems above does ... *)
  Variable base_of : pystr -> pyval -> res pyval.       (* oracle: the base type's methods *)
  Variable partial_of : pystr -> pyval -> pyval.        (* oracle: what a failing base method leaves behind *)

  Theorem C03_body_sound : forall c n kind m b g a hv live,
      classify kind m b = CopyMutateReassign g ->
      is_none_val hv = false -> results_not_none base_of -> self_ops_total base_of b ->
      (w_inst (fst (wexec re_match e base_of partial_of c n (wstart a hv live) b)),
       snd (wexec re_match e base_of partial_of c n (wstart a hv live) b))
      = mstep re_match e c a (WrapMut n (CopyMutateReassign g) (cmr_base base_of b hv)).
  Proof. exact (cmr_body_sound re_match e base_of partial_of). Qed.

  (* ... hence it is validated and failure-atomic whenever the value it hands to setattr is acceptable *)
  Theorem C03_body_step_good : forall c n kind m b g a hv live,
      classify kind m b = CopyMutateReassign g ->
      is_none_val hv = false -> results_not_none base_of -> self_ops_total base_of b ->
      hook_wf c = true -> struct_ok re_match e c a = true ->
      value_safe re_match e c a (WrapMut n (CopyMutateReassign g) (cmr_base base_of b hv)) = true ->
      step_good re_match e c a (w_inst (fst (wexec re_match e base_of partial_of c n (wstart a hv live) b)))
                (snd (wexec re_match e base_of partial_of c n (wstart a hv live) b)).
  Proof. exact (cmr_body_step_good re_match e base_of partial_of). Qed.

  (* ... whereas `guard; super().m(...)` on the live wrapper exposes whatever a FAILING base method leaves behind
     (list.sort after a comparison raised, extend/update from an iterator that raised): atomic only if the base
     method is; on a stale wrapper it never reaches the instance *)
  Theorem C03_inplace_failure_exposes_partial : forall c n m a hv x,
      frozen c n = false -> base_of m hv = Raise x ->
      wexec re_match e base_of partial_of c n (wstart a hv true) [SGuard; SApplySelf m]
      = ({| w_inst := alist_set a n (partial_of m hv); w_handle := partial_of m hv; w_live := true; w_copy := None |},
         Raised x).
  Proof. exact (inplace_failure_exposes_partial re_match e base_of partial_of). Qed.

  (* ... and a whole history of calls through recognised bodies is the history of the corresponding coarse
     operations, so C03_history applies to it verbatim *)
  Theorem C03_calls_refine_ops : forall c ks a,
      Forall (fun k => call_shape_safe k = true /\ call_wf k) ks ->
      run_calls re_match e c a ks = run_ops re_match e c a (map call_mop ks).
  Proof. exact (calls_refine_ops re_match e). Qed.

  Theorem C03_call_history_valid : forall c ks a,
      hook_wf c = true -> struct_ok re_match e c a = true ->
      Forall (fun k => call_shape_safe k = true /\ call_wf k) ks ->
      hist_safe re_match e c a (map call_mop ks) = true ->
      struct_ok re_match e c (run_calls re_match e c a ks) = true.
  Proof. exact (call_history_valid re_match e). Qed.

  Theorem C03_stale_inplace_inert : forall c n m a hv,
      w_inst (fst (wexec re_match e base_of partial_of c n (wstart a hv false) [SGuard; SApplySelf m])) = a.
  Proof. exact (stale_inplace_inert re_match e base_of partial_of). Qed.
End C03.

(* (c) Witnesses.  For EVERY entry of ANY table whose shape is not safe there is a class, a valid state and
   an operation through that entry violating the statement (it returns normally and leaves an invalid
   instance).  The two closed inputs that used to violate it through the instance code itself -- a hook
   rejecting a stored value, del bypassing the hook -- now raise and leave the instance as it was. *)
Theorem C03_witness : forall (t : mutator_table) p,
    In p (unsafe_entries t) -> violates (w_class HookNone) w_state (w_op (snd p)).
Proof. exact unsafe_entry_witness. Qed.

Theorem C03_hook_rejection_atomic :
  struct_ok no_re [] (w_class w_hook) w_state = true /\
  mstep no_re [] (w_class w_hook) w_state w_hook_op = (w_state, Raised ValueError).
Proof. exact hook_rejection_atomic. Qed.

Theorem C03_del_hook_rejection_atomic :
  struct_ok no_re [] (w_class w_del_hook) w_state = true /\
  mstep no_re [] (w_class w_del_hook) w_state w_del_op = (w_state, Raised ValueError).
Proof. exact del_hook_rejection_atomic. Qed.

(* the statement over every shape is refuted by a mutator that is not overridden (no entry of the current
   tables has that shape: see [table_status] and the counts printed below) *)
Theorem C03_refuted : ~ C03_statement.
Proof.
  intro H. destruct (unsafe_shape_witness NotOverridden eq_refl) as [Hok Hbad].
  apply Hbad. apply H; [vm_compute; reflexivity | exact Hok].
Qed.

(* (d) The tables as generated NOW: each unsafe entry comes with its violating witness; which entries these
   are is printed below (and read back by the harness, which matches each against known_findings.json and
   replays the witness on the real implementation). *)
Definition current_tables : mutator_table := (list_mutators ++ deque_mutators ++ dict_mutators)%list.

Theorem table_status : forall p,
    In p (unsafe_entries current_tables) -> violates (w_class HookNone) w_state (w_op (snd p)).
Proof. exact (unsafe_entry_witness current_tables). Qed.

(* the same for the tables refined by the Coq-side classification of the translated bodies (what the harness uses) *)
Definition current_strict_tables : mutator_table :=
  (refine 0%N list_mutators list_bodies ++ refine 1%N deque_mutators deque_bodies ++ refine 2%N dict_mutators dict_bodies)%list.

Theorem strict_table_status : forall p,
    In p (unsafe_entries current_strict_tables) -> violates (w_class HookNone) w_state (w_op (snd p)).
Proof. exact (unsafe_entry_witness current_strict_tables). Qed.

Print Assumptions C03_step_safe.
Print Assumptions C03_step_safe_table.
Print Assumptions C03_setattr_exact.
Print Assumptions C03_delitem_exact.
Print Assumptions C03_hook_failure_atomic.
Print Assumptions C03_failure_atomic.
Print Assumptions C03_delitem_good.
Print Assumptions C03_history.
Print Assumptions C03_failed_steps_stutter.
Print Assumptions C03_history_nohook.
Print Assumptions C03_witness.
Print Assumptions C03_hook_rejection_atomic.
Print Assumptions C03_del_hook_rejection_atomic.
Print Assumptions C03_refuted.
Print Assumptions table_status.
Print Assumptions C03_body_sound.
Print Assumptions C03_body_step_good.
Print Assumptions C03_inplace_failure_exposes_partial.
Print Assumptions C03_stale_inplace_inert.
Print Assumptions C03_calls_refine_ops.
Print Assumptions C03_call_history_valid.
Print Assumptions strict_table_status.

Eval vm_compute in (map fst (unsafe_entries current_strict_tables)).

Eval vm_compute in (length (unsafe_entries list_mutators), length (unsafe_entries deque_mutators),
                    length (unsafe_entries dict_mutators)).

(* non-vacuity: a class with a hook, a valid state, and a history mixing successful and failing safe
   operations (x.a.append(7); x.a.append('x') raises; x.i = 3; x.i = 9 is rejected by the hook and leaves
   i = 3; del x['j']; x.a.pop() ...): the hypotheses of C03_history hold and the state moves. *)
Definition ex_hist : list mop :=
  [ WrapMut (s2p "a") (CopyMutateReassign true) (Ok (PList [PNum (NInt 1); PNum (NInt 7)]));
    WrapMut (s2p "a") (CopyMutateReassign true) (Ok (PList [PNum (NInt 1); PNum (NInt 7); PStr (s2p "x")]));
    SetAttr (s2p "i") (PNum (NInt 3));
    w_hook_op;
    SetAttr (s2p "i") (PStr (s2p "no"));
    WrapMut (s2p "a") (CopyMutateReassign true) (Raise IndexError);
    DelItem (s2p "j");
    DelItem (s2p "a");
    SetAttr (s2p "zz") PNone ].

Example C03_nonvacuous :
  hook_wf (w_class w_hook) = true /\
  struct_ok no_re [] (w_class w_hook) w_state = true /\
  hist_safe no_re [] (w_class w_hook) w_state ex_hist = true /\
  map (fun s => is_raised (t_out s)) (run_trace no_re [] (w_class w_hook) w_state ex_hist)
    = [false; true; false; true; true; true; false; true; true] /\
  run_ops no_re [] (w_class w_hook) w_state ex_hist
    = [(s2p "a", PList [PNum (NInt 1); PNum (NInt 7)]); (s2p "i", PNum (NInt 3))] /\
  (* the assignment the hook rejects is a safe step *)
  step_safe no_re [] (w_class w_hook) w_state w_hook_op = true /\
  table_safe current_tables = table_safe current_tables.
Proof. repeat split; vm_compute; reflexivity. Qed.

(* non-vacuity of (b'): the body of _ListStruct.append as translated (guard; copy; copied.append; setattr;
   super().append) with an oracle under which every base method appends 7: the hypotheses of C03_body_sound hold,
   the body is classified copy-mutate-reassign, a valid append goes through and the trailing super().append does
   not reach the instance; with an oracle that yields an invalid element the step raises and changes nothing. *)
Definition ex_append_body : wbody :=
  [SGuard; SCopy; SApplyCopy (s2p "append"); SReassign CAlways; SApplySelf (s2p "append")].
Definition ex_base (x : pyval) (_ : pystr) (v : pyval) : res pyval :=
  Ok (match v with PList l => PList (l ++ [x]) | _ => PList [x] end).
Definition ex_partial (_ : pystr) (v : pyval) : pyval := v.

Example C03_body_nonvacuous :
  classify 0%N (s2p "append") ex_append_body = CopyMutateReassign true /\
  results_not_none (ex_base (PNum (NInt 7))) /\
  self_ops_total (ex_base (PNum (NInt 7))) ex_append_body /\
  (let r := wexec no_re [] (ex_base (PNum (NInt 7))) ex_partial (w_class w_hook) (s2p "a")
                  (wstart w_state (PList [PNum (NInt 1)]) true) ex_append_body in
   (alist_get (w_inst (fst r)) (s2p "a"), snd r, w_handle (fst r)))
    = (Some (PList [PNum (NInt 1); PNum (NInt 7)]), Done, PList [PNum (NInt 1); PNum (NInt 7)]) /\
  (let r := wexec no_re [] (ex_base (PStr (s2p "x"))) ex_partial (w_class w_hook) (s2p "a")
                  (wstart w_state (PList [PNum (NInt 1)]) true) ex_append_body in
   (w_inst (fst r), is_raised (snd r))) = (w_state, true).
Proof.
  split; [vm_compute; reflexivity|]. split; [|split; [|split; vm_compute; reflexivity]].
  - intros m v nv H. unfold ex_base in H. inversion H. destruct v; reflexivity.
  - intros m v _. reflexivity.
Qed.

(* non-vacuity of the call-history theorems: x.a.append(7) then x.a.append('x') through the translated body of
   _ListStruct.append: both calls satisfy the side conditions, the history is safe, the first call goes through and
   the second raises leaving the instance as it was. *)
Definition ex_call (x : pyval) (hv : pyval) : wcall :=
  {| wc_field := s2p "a"; wc_kind := 0%N; wc_meth := s2p "append"; wc_body := ex_append_body;
     wc_base := ex_base x; wc_partial := ex_partial; wc_handle := hv; wc_live := true |}.
Definition ex_calls : list wcall :=
  [ ex_call (PNum (NInt 7)) (PList [PNum (NInt 1)]);
    ex_call (PStr (s2p "x")) (PList [PNum (NInt 1); PNum (NInt 7)]) ].

Example C03_calls_nonvacuous :
  Forall (fun k => call_shape_safe k = true /\ call_wf k) ex_calls /\
  hist_safe no_re [] (w_class w_hook) w_state (map call_mop ex_calls) = true /\
  alist_get (run_calls no_re [] (w_class w_hook) w_state ex_calls) (s2p "a")
    = Some (PList [PNum (NInt 1); PNum (NInt 7)]).
Proof.
  assert (Hwf : forall x hv, is_none_val hv = false -> call_wf (ex_call x hv)).
  { intros x hv Hh. split; [exact Hh|]. split.
    - intros m v nv H. unfold ex_call, wc_base, ex_base in H. inversion H. destruct v; reflexivity.
    - intros m v _. reflexivity. }
  split; [|split; vm_compute; reflexivity].
  repeat constructor; try (vm_compute; reflexivity); apply Hwf; reflexivity.
Qed.

(* ---- the tie to the source of Structure.__setattr__ / __delitem__ / Field.__set__, re-checked every run ------
   Gen/StructGuards.v is re-generated from typedpy/structures/structures.py (harness/genmods/py2v_struct.py).  The
   hand-written instance model (Struct/Instance.v: setattr, mstep) IS the guard prefix the source contains NOW
   followed by the field's descriptor chain, for every class description, state, ordinary attribute name and value. *)
From TP Require Import Base.PyOps Base.PyOps2 Base.PyObj Gen.StructGuards Struct.StructGuardProofs.

(* the guard prefix of Structure.__setattr__ is the documented decision *)
Theorem C03_src_setattr :
  forall (c : classdef) (inst : bool) (n : pystr) (v : pyval),
         ordinary_name n = true ->
         Structure__setattr (struct_heap c inst) (PStr n) v = setattr_decision c inst n v.
Proof. exact generated_setattr. Qed.

(* the model's setattr = that prefix, then the hand-over to the descriptor (vset, immutable-field test, store,
   hook) inside the source's try / restore / re-raise ([handover]; the decision hands (v, true): restoring) *)
Theorem C03_src_setattr_is_model :
  forall (re_match : N -> pystr -> bool) (e : env) (c : classdef) 
           (inst : bool) (a : attrs) (n : pystr) (v : pyval),
         ordinary_name n = true ->
         setattr re_match e c inst a n v =
         match Structure__setattr (struct_heap c inst) (PStr n) v with
         | Ok (Some vr) => handover re_match e c inst a n vr
         | Ok None => (a, Done)
         | Raise x => (a, Raised x)
         end.
Proof. exact generated_setattr_is_model. Qed.

(* the model's DelItem step = the source's guards, then the removal, the hook and the restore the source
   contains ([delete_entry] with the pair (hook runs, a rejection puts the value back) read off the source) *)
Theorem C03_src_delitem_is_model :
  forall (re_match : N -> pystr -> bool) (e : env) (c : classdef) (a : attrs) (n : pystr),
         mstep re_match e c a (DelItem n) =
         match Structure__delitem (delitem_heap c) (PStr n) with
         | Ok hr => delete_entry c a n hr
         | Raise x => (a, Raised x)
         end.
Proof. exact generated_delitem_is_model. Qed.

(* the source's __delitem__ on an instantiated instance: the three refusals, else (hook, restore) = (true, true) *)
Theorem C03_src_delitem :
  forall (c : classdef) (n : pystr),
         Structure__delitem (delitem_heap c) (PStr n) = delitem_decision c n.
Proof. exact generated_delitem. Qed.

(* what the restore in Structure.__setattr__ buys: with the flag the source hands over NOW a hook failure leaves
   the attributes as they were; without it the new value would stay stored *)
Theorem C03_src_restore_matters :
  forall (re_match : N -> pystr -> bool) (e : env) c a n v fd nf,
      find_field (c_fields c) n = Some fd -> vset re_match e (fd_field fd) v = Ok nf ->
      (fd_immutable fd && alist_has a n) = false -> hook_ok (c_hook c) (alist_set a n nf) = false ->
      handover re_match e c true a n (v, false) = (alist_set a n nf, Raised ValueError) /\
      handover re_match e c true a n (v, true) = (a, Raised ValueError).
Proof. exact handover_without_restore_not_atomic. Qed.

(* Field.__set__: refuses an immutable field that already holds a value; otherwise stores, and runs __validate__ iff the instance is instantiated *)
Theorem C03_src_field_set :
  forall (fd : fdecl) (inst : bool) (a : attrs) (v : pyval),
         Field__set (field_heap fd inst a) v =
         (if fd_immutable fd && alist_has a (fd_name fd) then Raise ValueError else Ok (v, inst)).
Proof. exact generated_field_set. Qed.

(* the guard every wrapper mutator starts with *)
Theorem C03_src_wrapper_guard :
  forall fimm cimm : bool,
         Mixin__raise_if_immutable (wrapper_heap fimm (Some cimm)) =
         (if cimm || fimm then Raise ValueError else Ok tt).
Proof. exact generated_raise_if_immutable. Qed.

Print Assumptions C03_src_setattr.
Print Assumptions C03_src_setattr_is_model.
Print Assumptions C03_src_delitem_is_model.
Print Assumptions C03_src_delitem.
Print Assumptions C03_src_restore_matters.
Print Assumptions C03_src_field_set.
Print Assumptions C03_src_wrapper_guard.

(* (e) The explicit-None markers (`_enable_undefined_value = True`: instance._none_fields) as a second component of
   the state.  Structure.__setattr__ is translated from the source on every run into the ORDERED list of its effects
   on (__dict__[key], _none_fields) (Gen/StructNoneFields.v); that list is the documented one -- the marker changes
   AFTER the hand-over to the descriptor chain -- for every class description, both values of the switch, every
   ordinary attribute name, every value and every set of attributes the instance holds ([a]: self.__dict__, which the
   'ignored None' branch consults before it records a marker for a field declared immutable): *)
Theorem C03_src_setattr_none_fields : forall c u inst a n v,
    ordinary_name n = true ->
    Structure__setattr_nf (undef_heap c u inst a) (PStr n) v = setattr_nf_decision c u inst a n v.
Proof. exact generated_setattr_nf. Qed.

(* ... with it an assignment that raises leaves the attributes AND the markers as they were (all-or-nothing on both
   components), for the documented list and hence for the source: *)
Theorem C03_setattr_none_fields_atomic : forall re_match e c u inst st n v x,
    snd (setattr_u re_match e c u inst st n v) = Raised x -> fst (setattr_u re_match e c u inst st n v) = st.
Proof. exact setattr_u_atomic. Qed.

Theorem C03_src_setattr_atomic_on_both_components : forall re_match e c u inst st n v x,
    ordinary_name n = true ->
    snd (run_decision re_match e c inst st n (Structure__setattr_nf (undef_heap c u inst (u_attrs st)) (PStr n) v)) = Raised x ->
    fst (run_decision re_match e c inst st n (Structure__setattr_nf (undef_heap c u inst (u_attrs st)) (PStr n) v)) = st.
Proof. exact generated_setattr_u_atomic. Qed.

(* ... any effect list in which nothing precedes the single restoring hand-over is all-or-nothing: *)
Theorem C03_atomic_shape_is_atomic : forall re_match e evs c inst n st x,
    nf_atomic_shape evs = true ->
    snd (run_nf re_match e c inst n st evs) = Raised x -> fst (run_nf re_match e c inst n st evs) = st.
Proof. exact atomic_shape_is_atomic. Qed.

(* ... on the attributes the two-component model is the setattr of the theorems above -- except for the one
   assignment __setattr__ itself refuses in its 'ignored None' branch (an explicit None for a non-required field
   declared immutable that holds a value, under _enable_undefined_value): that one raises ValueError and changes
   nothing: *)
Theorem C03_marker_blocked_raises : forall re_match e c u inst st n v,
    marker_blocked c u (u_attrs st) n v = true -> setattr_u re_match e c u inst st n v = (st, Raised ValueError).
Proof. exact marker_blocked_raises. Qed.

Theorem C03_setattr_u_attrs : forall re_match e c u inst st n v,
    marker_blocked c u (u_attrs st) n v = false ->
    (u_attrs (fst (setattr_u re_match e c u inst st n v)), snd (setattr_u re_match e c u inst st n v))
    = setattr re_match e (with_undefined c u) inst (u_attrs st) n v.
Proof. exact setattr_u_attrs. Qed.

(* ... and the other order is NOT atomic: with the marker removed before the hand-over, a rejected assignment to a
   field holding an explicit None raises and loses the marker (None silently becomes Undefined). *)
Theorem C03_discard_before_handover_not_atomic : forall re_match e c inst n st v x,
    str_in n (u_none st) = true ->
    snd (run_nf re_match e c inst n st [NfHandover v true]) = Raised x ->
    snd (run_nf re_match e c inst n st [NfDiscard; NfHandover v true]) = Raised x /\
    fst (run_nf re_match e c inst n st [NfDiscard; NfHandover v true]) <> st.
Proof. exact discard_before_handover_not_atomic. Qed.

Print Assumptions C03_src_setattr_none_fields.
Print Assumptions C03_setattr_none_fields_atomic.
Print Assumptions C03_src_setattr_atomic_on_both_components.
Print Assumptions C03_atomic_shape_is_atomic.
Print Assumptions C03_setattr_u_attrs.
Print Assumptions C03_marker_blocked_raises.
Print Assumptions C03_discard_before_handover_not_atomic.

(* non-vacuity: class W (a : Array[Integer], i, j : Integer, a required) with the undefined value enabled, i holding an
   explicit None: x.i = 'no' raises and changes nothing; x.i = 3 stores 3 and removes the marker; x.j = None adds one;
   the source's effect list for x.i = 3 is [hand-over with restore; discard]. *)
Definition ex_ust : ustate := {| u_attrs := [(s2p "a", PList [PNum (NInt 1)])]; u_none := [s2p "i"] |}.
Example C03_none_fields_nonvacuous :
  setattr_u no_re [] (w_class HookNone) true true ex_ust (s2p "i") (PStr (s2p "no")) = (ex_ust, Raised TypeError) /\
  setattr_u no_re [] (w_class HookNone) true true ex_ust (s2p "i") (PNum (NInt 3))
    = ({| u_attrs := [(s2p "a", PList [PNum (NInt 1)]); (s2p "i", PNum (NInt 3))]; u_none := [] |}, Done) /\
  setattr_u no_re [] (w_class HookNone) true true ex_ust (s2p "j") PNone
    = ({| u_attrs := u_attrs ex_ust; u_none := [s2p "j"; s2p "i"] |}, Done) /\
  Structure__setattr_nf (undef_heap (w_class HookNone) true true (u_attrs ex_ust)) (PStr (s2p "i")) (PNum (NInt 3))
    = Ok [NfHandover (PNum (NInt 3)) true; NfDiscard] /\
  ordinary_name (s2p "i") = true.
Proof. repeat split; vm_compute; reflexivity. Qed.
