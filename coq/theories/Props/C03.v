(* Property C03 — every mutation is validated and failure-atomic.
   Only the property theorems; proofs are in Struct/MutateProofs.v.

   The full statement is FALSE of the faithful model (and of the pinned code): wrappers leave several
   inherited mutators un-overridden (F3) or unvalidated (F3b), Field.__set__ stores before running the
   __validate__ hook (F4) and Structure.__delitem__ never runs it.  It is therefore kept as a
   Definition, refuted, and replaced by an exact characterisation that is parametric in the GENERATED
   mutator tables (Gen/Tables.v, re-derived from collections_impl.py and CPython on every run). *)
From Coq Require Import ZArith NArith String List Bool.
Import ListNotations.
From TP Require Import Base.PyVal Fields.FieldAst Fields.SetChain Fields.Doc Struct.Shapes Struct.Instance
  Struct.Mutate Struct.MutateProofs Gen.Tables.
Local Open Scope string_scope.

(* The statement as given: from a valid state EVERY operation either succeeds leaving a valid instance or
   raises leaving the instance unchanged. *)
Definition C03_statement : Prop :=
  forall re_match e c a op,
    hook_wf c = true -> struct_ok re_match e c a = true ->
    step_good re_match e c a (fst (mstep re_match e c a op)) (snd (mstep re_match e c a op)).

Section C03.
  Variable re_match : N -> pystr -> bool.     (* oracle: re.match *)
  Variable e : env.                           (* class environment *)

  (* (a) One step.  For ANY mutator table t: an operation whose wrapper mutator is an entry of t with a safe
     shape (trivially so for setattr / del), and whose would-be stored value is acceptable
     ([value_safe]: the stored normal form is documented-valid and the __validate__ hook accepts the new
     state), either succeeds leaving [struct_ok] true, or raises leaving the attributes unchanged. *)
  Theorem C03_step_safe : forall c a op a' r,
      hook_wf c = true -> struct_ok re_match e c a = true ->
      op_shape_safe op = true -> value_safe re_match e c a op = true ->
      mstep re_match e c a op = (a', r) ->
      (r = Done -> struct_ok re_match e c a' = true) /\ (forall x, r = Raised x -> a' = a).
  Proof.
    intros c a op a' r Hwf Hok H1 H2. apply step_safe_cases; try assumption.
    rewrite step_safe_split, H1, H2. reflexivity.
  Qed.

  Theorem C03_step_safe_table : forall (t : mutator_table) m s n base c a a' r,
      table_safe t = true -> In (m, s) t ->
      hook_wf c = true -> struct_ok re_match e c a = true ->
      value_safe re_match e c a (WrapMut n s base) = true ->
      mstep re_match e c a (WrapMut n s base) = (a', r) ->
      (r = Done -> struct_ok re_match e c a' = true) /\ (forall x, r = Raised x -> a' = a).
  Proof.
    intros t m s n base c a a' r Ht Hin Hwf Hok. apply C03_step_safe; try assumption.
    unfold table_safe in Ht. rewrite forallb_forall in Ht. exact (Ht _ Hin).
  Qed.

  (* ... and the characterisation is exact for assignments and deletions: the step is good IFF the
     condition holds.  In particular an assignment that passes validation, is stored, and is then
     rejected by the hook is NOT atomic: *)
  Theorem C03_setattr_exact : forall c a n v,
      hook_wf c = true -> struct_ok re_match e c a = true ->
      (step_good re_match e c a (fst (mstep re_match e c a (SetAttr n v))) (snd (mstep re_match e c a (SetAttr n v)))
       <-> step_safe re_match e c a (SetAttr n v) = true).
  Proof. exact (setattr_exact re_match e). Qed.

  Theorem C03_delitem_exact : forall c a n,
      struct_ok re_match e c a = true ->
      (step_good re_match e c a (fst (mstep re_match e c a (DelItem n))) (snd (mstep re_match e c a (DelItem n)))
       <-> step_safe re_match e c a (DelItem n) = true).
  Proof. exact (delitem_exact re_match e). Qed.

  Theorem C03_hook_failure_not_atomic : forall c a n v fd nf,
      c_immutable c = false -> find_field (c_fields c) n = Some fd ->
      (c_ignore_none c && is_none_val v && negb (is_required c n)) = false ->
      vset re_match e (fd_field fd) v = Ok nf -> (fd_immutable fd && alist_has a n) = false ->
      hook_ok (c_hook c) (alist_set a n nf) = false ->
      mstep re_match e c a (SetAttr n v) = (alist_set a n nf, Raised ValueError).
  Proof. exact (hook_failure_not_atomic re_match e). Qed.

  (* (b) Histories: any finite sequence of safe operations (failed ones included) keeps the instance valid
     after every step, every step is good, and the failed steps are stutters: deleting them from the
     history changes nothing.  Induction over the operation list ([run_ops] is a fold_left). *)
  Theorem C03_history : forall c,
      hook_wf c = true ->
      forall ops a, struct_ok re_match e c a = true -> hist_safe re_match e c a ops = true ->
        struct_ok re_match e c (run_ops re_match e c a ops) = true /\
        Forall (tstep_good re_match e c) (run_trace re_match e c a ops).
  Proof. exact (history_safe re_match e). Qed.

  Theorem C03_failed_steps_stutter : forall c,
      hook_wf c = true ->
      forall ops a, struct_ok re_match e c a = true -> hist_safe re_match e c a ops = true ->
        run_ops re_match e c a (drop_failed re_match e c a ops) = run_ops re_match e c a ops.
  Proof. exact (failed_steps_stutter re_match e). Qed.

  (* for classes without a hook the condition on the operations does not depend on the state *)
  Theorem C03_history_nohook : forall c,
      c_hook c = HookNone ->
      forall ops a, struct_ok re_match e c a = true -> forallb (op_safe_nohook re_match e c) ops = true ->
        struct_ok re_match e c (run_ops re_match e c a ops) = true /\
        Forall (tstep_good re_match e c) (run_trace re_match e c a ops).
  Proof. exact (history_safe_nohook re_match e). Qed.
End C03.

(* (c) Witnesses.  For EVERY entry of ANY table whose shape is not safe there is a class, a valid state and
   an operation through that entry violating the statement (it returns normally and leaves an invalid
   instance); likewise for a hook failing after the store, and for del bypassing the hook. *)
Theorem C03_witness : forall (t : mutator_table) p,
    In p (unsafe_entries t) -> violates (w_class HookNone) w_state (w_op (snd p)).
Proof. exact unsafe_entry_witness. Qed.

Theorem C03_witness_hook : violates (w_class w_hook) w_state w_hook_op.
Proof. exact hook_witness. Qed.

Theorem C03_witness_del_hook : violates (w_class w_del_hook) w_state w_del_op.
Proof. exact del_hook_witness. Qed.

Theorem C03_refuted : ~ C03_statement.
Proof.
  intro H. destruct hook_witness as [Hok Hbad]. apply Hbad. apply H; [vm_compute; reflexivity | exact Hok].
Qed.

(* (d) The tables as generated NOW: each unsafe entry comes with its violating witness; which entries these
   are is printed below (and read back by the harness, which matches each against known_findings.json and
   replays the witness on the real implementation). *)
Definition current_tables : mutator_table := (list_mutators ++ deque_mutators ++ dict_mutators)%list.

Theorem table_status : forall p,
    In p (unsafe_entries current_tables) -> violates (w_class HookNone) w_state (w_op (snd p)).
Proof. exact (unsafe_entry_witness current_tables). Qed.

Print Assumptions C03_step_safe.
Print Assumptions C03_step_safe_table.
Print Assumptions C03_setattr_exact.
Print Assumptions C03_delitem_exact.
Print Assumptions C03_hook_failure_not_atomic.
Print Assumptions C03_history.
Print Assumptions C03_failed_steps_stutter.
Print Assumptions C03_history_nohook.
Print Assumptions C03_witness.
Print Assumptions C03_witness_hook.
Print Assumptions C03_witness_del_hook.
Print Assumptions C03_refuted.
Print Assumptions table_status.

Eval vm_compute in (length (unsafe_entries list_mutators), length (unsafe_entries deque_mutators),
                    length (unsafe_entries dict_mutators)).

(* non-vacuity: a class with a hook, a valid state, and a history mixing successful and failing safe
   operations (x.a.append(7); x.a.append('x') raises; x.i = 9 would break the hook so it is NOT safe and is
   left out; x.i = 3; del x['j']; x.a.pop() ...): the hypotheses of C03_history hold and the state moves. *)
Definition ex_hist : list mop :=
  [ WrapMut (s2p "a") (CopyMutateReassign true) (Ok (PList [PNum (NInt 1); PNum (NInt 7)]));
    WrapMut (s2p "a") (CopyMutateReassign true) (Ok (PList [PNum (NInt 1); PNum (NInt 7); PStr (s2p "x")]));
    SetAttr (s2p "i") (PNum (NInt 3));
    SetAttr (s2p "i") (PStr (s2p "no"));
    WrapMut (s2p "a") (CopyMutateReassign true) (Raise IndexError);
    DelItem (s2p "j");
    DelItem (s2p "a");
    SetAttr (s2p "zz") PNone ].

Example C03_nonvacuous :
  hook_wf (w_class w_hook) = true /\
  struct_ok no_re [] (w_class w_hook) w_state = true /\
  hist_safe no_re [] (w_class w_hook) w_state ex_hist = true /\
  map (fun s => is_raised (t_out s)) (run_trace no_re [] (w_class w_hook) w_state ex_hist)
    = [false; true; false; true; true; false; true; true] /\
  run_ops no_re [] (w_class w_hook) w_state ex_hist
    = [(s2p "a", PList [PNum (NInt 1); PNum (NInt 7)]); (s2p "i", PNum (NInt 3))] /\
  (* the unsafe assignment is recognised as such *)
  step_safe no_re [] (w_class w_hook) w_state w_hook_op = false /\
  table_safe current_tables = table_safe current_tables.
Proof. repeat split; vm_compute; reflexivity. Qed.
