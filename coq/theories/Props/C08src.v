(* Property C08 — the tie of the hand-written model Schema/ToSchema.v (fschema, mappable), on which the C08
   theorems are proved, to the CURRENT text of typedpy/json_schema/json_schema_mapping.py.
   Gen/SchemaSrc.v is the translation of get_mapper / convert_to_schema / _map_class_reference / every
   *Mapper.to_schema, re-generated from the source on every run (harness/genmods/py2v_schema.py); these theorems
   (proved in Schema/SchemaSrcProofs.v) say that it computes the hand model, for EVERY declaration.
   This block is meant to be appended to Props/C08.v as it is. *)
From Coq Require Import ZArith NArith String List.
Import ListNotations.
From TP Require Import Base.PyVal Base.PyOps Base.PyOps2 Base.PyOpsSchema Fields.FieldAst
     Schema.Draft4 Schema.ToSchema Gen.SchemaSrc Schema.SchemaSrcProofs.

Section C08_src.
  Variable pat_text : N -> pystr.                         (* the text of a pattern id *)
  Variable s2s : pyval -> pyval -> res pyval.             (* structure_to_schema(cls, definitions, sm) *)
  Variable defs_store : pyval -> pyval -> res unit.       (* definitions[k] = v *)
  Hypothesis defs_store_ok : forall k v, defs_store k v = Ok tt.

  (* convert_to_schema, as the source is written now, on the object of a declaration the hand model calls mappable:
     returns exactly the rendering of fschema (same keys, same order, same values) *)
  Theorem C08_src_to_schema : forall f,
      mappable f = true -> keys_text_ok pat_text f = true -> refs_ok s2s f ->
      forall fuel sm, (cfuel f <= fuel)%nat ->
      convert_to_schema s2s defs_store fuel (field_obj pat_text f) sm = Ok (sch_json pat_text (fschema f)).
  Proof. exact (generated_convert_to_schema pat_text s2s defs_store defs_store_ok). Qed.

  (* ... and on one it calls unmappable: raises TypeError / NotImplementedError *)
  Theorem C08_src_unmappable_raises : forall f,
      mappable f = false -> lits_plain f = true -> keys_text_ok pat_text f = true -> refs_ok s2s f ->
      forall fuel sm, (cfuel f <= fuel)%nat ->
      exists e, convert_to_schema s2s defs_store fuel (field_obj pat_text f) sm = Raise e /\ schema_exn e = true.
  Proof. exact (generated_convert_to_schema_raises pat_text s2s defs_store defs_store_ok). Qed.

  (* get_mapper: the mapper class of every field class (none for Deque, NoneField, Anything) *)
  Theorem C08_src_get_mapper : forall f,
      get_mapper (cls_val (field_class f))
      = match mapper_of f with Some m => Ok (cls_val m) | None => Raise NotImplementedError end.
  Proof. exact generated_get_mapper. Qed.

  (* the per-mapper statements (rec = convert_to_schema; mc = whatever class the mapper object has) *)
  Theorem C08_src_NumberMapper : forall rec mc k s c sm,
      NumberMapper__to_schema s2s defs_store rec (mapper_obj mc (field_obj pat_text (FNumber k s c))) sm
      = Ok (jkws pat_text (KType TNumber :: tl (num_kws k s c))).
  Proof. exact (generated_NumberMapper_to_schema pat_text s2s defs_store). Qed.

  Theorem C08_src_IntegerMapper : forall rec mc s c sm,
      IntegerMapper__to_schema s2s defs_store rec (mapper_obj mc (field_obj pat_text (FNumber KInteger s c))) sm
      = Ok (jschema pat_text (FNumber KInteger s c)).
  Proof. exact (generated_IntegerMapper_to_schema pat_text s2s defs_store). Qed.

  Theorem C08_src_StringMapper : forall rec mc c sm,
      StringMapper__to_schema s2s defs_store rec (mapper_obj mc (field_obj pat_text (FString c))) sm
      = Ok (jschema pat_text (FString c)).
  Proof. exact (generated_StringMapper_to_schema pat_text s2s defs_store). Qed.

  Theorem C08_src_BooleanMapper : forall rec self sm,
      BooleanMapper__to_schema s2s defs_store rec self sm = Ok (jschema pat_text FBoolean).
  Proof. exact (generated_BooleanMapper_to_schema pat_text s2s defs_store). Qed.

  Theorem C08_src_ArrayMapper_seq : forall rec mc k items sz u add sm,
      ArrayMapper__to_schema s2s defs_store rec (mapper_obj mc (PStruct (seq_class k) (seq_attrs items sz u add))) sm
      = (J <- rec items sm ;;
         Ok (PDict (map (kw_json pat_text) ([KType TArray] ++ uniq_kws u ++ optl add KAddItems ++ size_kws sz)
                    ++ items_entry J))).
  Proof. exact (generated_ArrayMapper_to_schema_seq pat_text s2s defs_store). Qed.

  Theorem C08_src_ArrayMapper_tuple : forall rec mc items u sm,
      ArrayMapper__to_schema s2s defs_store rec
        (mapper_obj mc (PStruct (s2p "Tuple") [(s2p "items", items); (s2p "uniqueItems", otrue u)])) sm
      = (J <- rec items sm ;;
         Ok (PDict (map (kw_json pat_text) ([KType TArray] ++ uniq_kws u ++ [KAddItems false]) ++ items_entry J))).
  Proof. exact (generated_ArrayMapper_to_schema_tuple pat_text s2s defs_store). Qed.

  Theorem C08_src_ArrayMapper_set : forall rec mc imm items sz sm,
      ArrayMapper__to_schema s2s defs_store rec
        (mapper_obj mc (PStruct (set_class imm) ((s2p "items", items) :: size_attrs sz))) sm
      = (J <- rec items sm ;;
         Ok (PDict (map (kw_json pat_text) ([KType TArray; KUnique true] ++ size_kws sz) ++ items_entry J))).
  Proof. exact (generated_ArrayMapper_to_schema_set pat_text s2s defs_store). Qed.

  Theorem C08_src_MapMapper_any : forall rec mc sz sm,
      MapMapper__to_schema s2s defs_store rec (mapper_obj mc (map_obj PNone sz)) sm = Ok (jschema pat_text (FMapAny sz)).
  Proof. exact (generated_MapMapper_to_schema_any pat_text s2s defs_store). Qed.

  Theorem C08_src_MapMapper_kv : forall rec mc c V sz sm,
      key_text_ok pat_text c = true ->
      (forall J, rec V sm = Ok J -> exists d D, J = PDict (d :: D)) ->
      MapMapper__to_schema s2s defs_store rec
        (mapper_obj mc (map_obj (PList [field_obj pat_text (FString c); V]) sz)) sm
      = (J <- rec V sm ;;
         Ok (PDict ([kw_json pat_text (KType TObject)]
                    ++ [(PStr (s2p (if key_constrained c then "patternProperties" else "additionalProperties")), J)]
                    ++ map (kw_json pat_text) (size_kws sz)))).
  Proof. exact (generated_MapMapper_to_schema_kv pat_text s2s defs_store). Qed.

  Theorem C08_src_MapMapper_badkey : forall rec mc kf V sz sm,
      match kf with FString _ => false | _ => true end = true ->
      MapMapper__to_schema s2s defs_store rec (mapper_obj mc (map_obj (PList [field_obj pat_text kf; V]) sz)) sm
      = Raise TypeError.
  Proof. exact (generated_MapMapper_to_schema_badkey pat_text s2s defs_store). Qed.

  Theorem C08_src_EnumMapper_lit : forall rec mc vs sm,
      forallb plain_lit vs = true ->
      EnumMapper__to_schema s2s defs_store rec (mapper_obj mc (field_obj pat_text (FEnumLit vs))) sm
      = if forallb enum_lit_ok vs then Ok (jschema pat_text (FEnumLit vs)) else Raise TypeError.
  Proof. exact (generated_EnumMapper_to_schema_lit pat_text s2s defs_store). Qed.

  Theorem C08_src_EnumMapper_cls : forall rec mc cls ms sm,
      EnumMapper__to_schema s2s defs_store rec (mapper_obj mc (field_obj pat_text (FEnumCls cls ms))) sm
      = Ok (jschema pat_text (FEnumCls cls ms)).
  Proof. exact (generated_EnumMapper_to_schema_cls pat_text s2s defs_store). Qed.

  Theorem C08_src_AllOfMapper : forall rec mc cls fs sm,
      AllOfMapper__to_schema s2s defs_store rec (mapper_obj mc (fields_obj cls fs)) sm
      = (J <- rec fs sm ;; Ok (PDict [(PStr (s2p "allOf"), J)])).
  Proof. exact (generated_AllOfMapper_to_schema s2s defs_store). Qed.

  Theorem C08_src_OneOfMapper : forall rec mc cls fs sm,
      OneOfMapper__to_schema s2s defs_store rec (mapper_obj mc (fields_obj cls fs)) sm
      = (J <- rec fs sm ;; Ok (PDict [(PStr (s2p "oneOf"), J)])).
  Proof. exact (generated_OneOfMapper_to_schema s2s defs_store). Qed.

  Theorem C08_src_NotFieldMapper : forall rec mc cls fs sm,
      NotFieldMapper__to_schema s2s defs_store rec (mapper_obj mc (fields_obj cls fs)) sm
      = (J <- rec fs sm ;; Ok (PDict [(PStr (s2p "not"), J)])).
  Proof. exact (generated_NotFieldMapper_to_schema s2s defs_store). Qed.

  Theorem C08_src_AnyOfMapper : forall rec mc fs sm,
      AnyOfMapper__to_schema s2s defs_store rec (mapper_obj mc (field_obj pat_text (FAnyOf fs))) sm
      = match fs with
        | [g; FNone] => rec (field_obj pat_text g) sm
        | _ => (J <- rec (PList (map (field_obj pat_text) fs)) sm ;; Ok (PDict [(PStr (s2p "anyOf"), J)]))
        end.
  Proof. exact (generated_AnyOfMapper_to_schema pat_text s2s defs_store). Qed.

  Theorem C08_src_map_class_reference : forall rec c d x,
      s2s (cls_val c) PNone = Ok (PTuple [d; x]) ->
      defs_store (PStr c) d = Ok tt ->
      map_class_reference s2s defs_store rec (field_obj pat_text (FClassRef c)) = Ok (jschema pat_text (FClassRef c)).
  Proof. exact (generated_map_class_reference pat_text s2s defs_store). Qed.
End C08_src.

Print Assumptions C08_src_to_schema.
Print Assumptions C08_src_unmappable_raises.
Print Assumptions C08_src_get_mapper.
Print Assumptions C08_src_NumberMapper.
Print Assumptions C08_src_IntegerMapper.
Print Assumptions C08_src_StringMapper.
Print Assumptions C08_src_BooleanMapper.
Print Assumptions C08_src_ArrayMapper_seq.
Print Assumptions C08_src_ArrayMapper_tuple.
Print Assumptions C08_src_ArrayMapper_set.
Print Assumptions C08_src_MapMapper_any.
Print Assumptions C08_src_MapMapper_kv.
Print Assumptions C08_src_MapMapper_badkey.
Print Assumptions C08_src_EnumMapper_lit.
Print Assumptions C08_src_EnumMapper_cls.
Print Assumptions C08_src_AllOfMapper.
Print Assumptions C08_src_OneOfMapper.
Print Assumptions C08_src_NotFieldMapper.
Print Assumptions C08_src_AnyOfMapper.
Print Assumptions C08_src_map_class_reference.

(* the hypotheses are satisfiable by a non-trivial declaration (and the disagreement on an empty key pattern) *)
Example C08_src_satisfiable :
  mappable ex_field = true /\ keys_text_ok ex_pat_text ex_field = true /\ refs_ok ex_s2s ex_field /\
  (forall k v, ex_store k v = Ok tt) /\ (cfuel ex_field <= 6)%nat /\
  convert_to_schema ex_s2s ex_store 6 (field_obj ex_pat_text ex_field) PNone
  = Ok (sch_json ex_pat_text (fschema ex_field)).
Proof. exact side_conditions_satisfiable. Qed.
