(* Property C16 — the tie of the hand-written model of the stub generator (Stubs/StubModel.v: type_info,
   ordered_args, stub_init, stub_shallow_clone, stub_from_other_class, stub_from_trusted_data), on which the C16
   theorems are proved, to the CURRENT text of typedpy/stubs/type_info_getter.py (get_all_type_info),
   type_helpers.py (_get_ordered_args) and methods_info_getter.py (get_init, get_additional_structure_methods).
   Gen/StubsSrc.v is the translation of these functions, re-generated from the source on every run
   (harness/genmods/py2v_stubs.py); these theorems (proved in Stubs/StubsSrcProofs.v) say that, for EVERY class
   description, it computes texts whose reading is the hand model.  How a description is seen as Python-level
   arguments, and how a text is read back, is Stubs/StubsSrcView.v.
   This block is meant to be appended to Props/C16.v as it is. *)
From Coq Require Import List Bool NArith String.
Import ListNotations.
From TP Require Import Base.PyVal Base.PyOps Base.PyOps2 Base.PyObj Base.PyOpsDerive Base.PyOpsStubs
     Stubs.Signature Stubs.SignatureProofs Stubs.StubModel Stubs.StubProofs
     Gen.StubsSrc Stubs.StubsSrcView Stubs.StubsSrcProofs.

Section C16_src.
  Variable apd_run : bool.                                  (* the default when the classes were defined *)
  Variable h0 : heap.                                       (* the rest of the heap: arbitrary *)
  Variable fobj : fdecl -> pyval.                           (* the Field object of a declaration: arbitrary *)
  Variable cobj : pystr -> pyval.                           (* the values of cls._constants: arbitrary *)
  Variable ext : pyval -> pyval -> pyval -> res pyval.      (* get_type_info(field, locals_attrs, additional_classes) *)
  Variables la ac : pyval.                                  (* locals_attrs, additional_classes: arbitrary *)
  Notation hp := (cls_heap apd_run h0 fobj cobj).
  Notation ext_ok := (ext_ok fobj ext la ac).
  Notation type_info_text := (type_info_text apd_run fobj ext la ac).
  Notation stub_kws := (stub_kws apd_run fobj ext la ac).

  (* get_all_type_info, as the source is written now: one entry name -> text per non-constant field, in
     get_all_fields_by_name order, wrapped in "Optional[...] = None" iff not in _required and not already
     starting with "Optional[" ... *)
  Theorem C16_src_type_info : forall C : hier,
      ext_ok C = true ->
      get_all_type_info ext (hp C) (ref o_cls) la ac = Ok (sdict (type_info_text C)).
  Proof. exact (get_all_type_info_src_eq apd_run h0 fobj cobj ext la ac). Qed.

  (* ... and what the model keeps of it (name, text ends with "= None") is the model's type_info *)
  Theorem C16_src_type_info_abs : forall C : hier,
      ext_ok C = true -> map abs_entry (type_info_text C) = type_info apd_run C.
  Proof. exact (type_info_text_abs apd_run fobj ext la ac). Qed.

  (* _get_ordered_args on any dict of texts (distinct keys): the entries without "= None" first *)
  Theorem C16_src_ordered_args : forall (h : heap) (l : list (pystr * pystr)),
      nodup_names (map fst l) = true ->
      get_ordered_args h (sdict l) = Ok (sdict (ordered_text l)).
  Proof. exact get_ordered_args_src_eq. Qed.
  Theorem C16_src_ordered_args_abs : forall l, map abs_entry (ordered_text l) = ordered_args (map abs_entry l).
  Proof. exact ordered_text_abs. Qed.

  (* get_init on any dict of texts: the def with "self", one "name: text" per entry, "**kw" iff
     getattr(cls, "_additional_properties", default) *)
  Theorem C16_src_get_init : forall (C : hier) (l : list (pystr * pystr)) (apd_stub : bool),
      get_init (hp C) (ref o_cls) (sdict l) (PBool apd_stub) = Ok (PStr (init_text l (stub_kw apd_stub C))).
  Proof. exact (get_init_src_eq apd_run h0 fobj cobj). Qed.

  (* get_additional_structure_methods on any dict of texts (distinct keys): the three defs, every keyword
     completed with " = None" *)
  Theorem C16_src_additional_methods : forall (C : hier) (l : list (pystr * pystr)) (apd_stub : bool),
      nodup_names (map fst l) = true ->
      get_additional_structure_methods (hp C) (ref o_cls) (sdict l) (PBool apd_stub)
      = Ok (PStr (methods_text (none_text l) (stub_kw apd_stub C))).
  Proof. exact (get_additional_structure_methods_src_eq apd_run h0 fobj cobj). Qed.
  Theorem C16_src_with_none_abs : forall l, map abs_entry (none_text l) = with_none (map abs_entry l).
  Proof. exact none_text_abs. Qed.

  (* the chain get_stubs_of_structures runs for __init__: the text is the rendering of a def whose reading is
     the model's stub_init (fixed parameters, keywords with their has-a-default, ** parameter) *)
  Theorem C16_src_stub_init : forall (apd_stub : bool) (C : hier),
      ext_ok C = true ->
      (ti <- get_all_type_info ext (hp C) (ref o_cls) la ac ;;
       oa <- get_ordered_args (hp C) ti ;;
       get_init (hp C) (ref o_cls) oa (PBool apd_stub))
      = Ok (PStr (def_render init_head self_fixed (stub_kws C) (m_kw (stub_init apd_run apd_stub C))))
      /\ abs_def self_fixed (stub_kws C) (m_kw (stub_init apd_run apd_stub C)) = stub_init apd_run apd_stub C.
  Proof. exact (stub_init_src_eq apd_run h0 fobj cobj ext la ac). Qed.

  (* ... and for shallow_clone_with_overrides / from_other_class / from_trusted_data *)
  Theorem C16_src_stub_methods : forall (apd_stub : bool) (C : hier),
      ext_ok C = true ->
      let kws := none_text (stub_kws C) in
      let kw := stub_kw apd_stub C in
      (ti <- get_all_type_info ext (hp C) (ref o_cls) la ac ;;
       oa <- get_ordered_args (hp C) ti ;;
       get_additional_structure_methods (hp C) (ref o_cls) oa (PBool apd_stub))
      = Ok (PStr (join_strs nl [def_render clone_head self_fixed kws kw;
                                def_render other_head other_fixed kws kw;
                                def_render trusted_head trusted_fixed kws kw]))
      /\ abs_def self_fixed kws kw = stub_shallow_clone apd_run apd_stub C
      /\ abs_def other_fixed kws kw = stub_from_other_class apd_run apd_stub C
      /\ abs_def trusted_fixed kws kw = stub_from_trusted_data apd_run apd_stub C.
  Proof. exact (stub_methods_src_eq apd_run h0 fobj cobj ext la ac). Qed.

  (* consequences for the texts the source renders, through the model's theorems: the keyword names of the
     rendered __init__ are the run-time parameters (no constant, no duplicate), and no keyword without default
     follows one with default *)
  Theorem C16_src_init_keywords : forall C : hier,
      ext_ok C = true ->
      map fst (stub_kws C) = stub_init_names apd_run apd_run C /\
      NoDup (map fst (stub_kws C)) /\
      (forall n, In n (map fst (stub_kws C)) <-> In n (sig_names apd_run C) /\ ~ In n (constants C)) /\
      order_wf false (map abs_entry (stub_kws C)) = true.
  Proof.
    intros C Hok.
    assert (E : map fst (stub_kws C) = stub_init_names apd_run apd_run C).
    { unfold stub_init_names, stub_init. cbn [m_kwparams].
      rewrite <- (stub_kws_abs apd_run fobj ext la ac C Hok), map_map. reflexivity. }
    split; [exact E|]. rewrite E. destruct (params_agree apd_run C) as [Hnd Hn].
    split; [exact Hnd|]. split; [exact Hn|].
    rewrite (stub_kws_abs apd_run fobj ext la ac C Hok). exact (init_order_wf apd_run apd_run C).
  Qed.

  (* outside the model's domain (every Structure class has _required): with _required absent, every field is
     dropped -- `field_name not in required` is evaluated before `required is not None`, the TypeError is
     swallowed by the `except Exception` around it *)
  Theorem C16_src_no_required : forall C : hier,
      ext_total fobj ext la ac C = true ->
      get_all_type_info ext (cls_heap_no_required apd_run h0 fobj cobj C) (ref o_cls) la ac = Ok (PDict []).
  Proof. exact (get_all_type_info_no_required apd_run h0 fobj cobj ext la ac). Qed.
End C16_src.

Print Assumptions C16_src_type_info.
Print Assumptions C16_src_type_info_abs.
Print Assumptions C16_src_ordered_args.
Print Assumptions C16_src_ordered_args_abs.
Print Assumptions C16_src_get_init.
Print Assumptions C16_src_additional_methods.
Print Assumptions C16_src_with_none_abs.
Print Assumptions C16_src_stub_init.
Print Assumptions C16_src_stub_methods.
Print Assumptions C16_src_init_keywords.
Print Assumptions C16_src_no_required.

(* non-vacuity: the side conditions hold of the three-level class of [ex_hier] above with an oracle that reads
   the text off the Field object; the texts are the library's own output for that class *)
Example C16_src_nonvacuous :
  ext_ok ex_fobj ex_ext PNone PNone ex_src_hier = true /\
  nodup_names (map fst (type_info_text true ex_fobj ex_ext PNone PNone ex_src_hier)) = true /\
  m_kwparams (stub_init true true ex_src_hier)
  = [(s2p "name", false); (s2p "val", false); (s2p "i", true); (s2p "opt", true)].
Proof. vm_compute. repeat split; reflexivity. Qed.
