(* Property C11 — equality, hash, copy, deepcopy and pickle are mutually coherent.
   Only the property theorems; the model is Struct/EqHash.v, the proofs are in Struct/EqHashProofs.v.

   The full statement "a == b implies hash(a) == hash(b)" is FALSE of the faithful model (typedpy hashes the
   string form, which shows insertion order and numeric spelling): it is kept as the Definition
   [C11_eq_implies_same_str], characterised by [C11_hash_char] and refuted by the [C11_refuted_*] witnesses.
   Likewise "the pickle round trip returns an equal instance" ([C11_pickle_statement]) is refuted: __getstate__
   keeps declared fields only (undeclared, additional attributes are lost).  The internal state is NOT lost any
   more: the state carries `_none_fields` and __setstate__ sets `_instantiated` (repaired in the library), so
   the unpickled copy of an instance that stores declared fields only is equal to it whatever is None-marked
   ([C11_copy_eq]) and is live again ([C11_unpickled_guard], [C11_unpickled_hook_runs]). *)
From Coq Require Import ZArith NArith String List Bool.
Import ListNotations.
From TP Require Import Base.PyVal Fields.FieldAst Fields.SetChain Struct.Shapes Struct.Instance Struct.EqHash Struct.EqHashProofs.
Local Open Scope string_scope.

(* Python's == on model values is an equivalence; symmetry needs duplicate-free sets / dict keys /
   attribute names ([wf]) because the model compares them by inclusion + length *)
Theorem C11_value_equivalence :
  (forall a, py_eq a a = true) /\
  (forall a, wf a = true -> forall b, py_eq a b = true -> py_eq b a = true) /\
  (forall a b c, py_eq a b = true -> py_eq b c = true -> py_eq a c = true).
Proof. exact (conj py_eq_refl (conj py_eq_sym py_eq_trans)). Qed.

Section C11.
  Variable c : classdef.          (* the class of the instances *)
  Variable undef : bool.          (* it sets _enable_undefined_value *)
  (* oracles: str() of numbers, repr() of str, repr() of enum values, str.__hash__ *)
  Variable num_str : num -> pystr.
  Variable str_repr : pystr -> pystr.
  Variable enum_vrepr : pystr -> pystr -> pystr.
  Variable str_hash : pystr -> Z.

  (* Structure.__eq__ is reflexive, symmetric and transitive on all instances of the model
     (across int / float / bool / Decimal spellings: numbers compare through Q) *)
  Theorem C11_equivalence :
    (forall a, inst_eq c undef a a = true) /\
    (forall a b, wf_class c = true -> wf_inst a = true ->
                 inst_eq c undef a b = true -> inst_eq c undef b a = true) /\
    (forall a b d, inst_eq c undef a b = true -> inst_eq c undef b d = true -> inst_eq c undef a d = true).
  Proof. exact (conj (inst_eq_refl c undef) (conj (inst_eq_sym c undef) (inst_eq_trans c undef))). Qed.

  (* == is field-wise equality of the values read back, for EVERY name (not only the names stored in
     either __dict__), together with agreement of the None-marked names *)
  Theorem C11_eq_fieldwise : forall a b,
      inst_eq c undef a b = true <->
      i_cls a = i_cls b /\
      (forall k, py_eq (getf c undef a k) (getf c undef b k) = true) /\
      nones_ok a b = true.
  Proof. exact (inst_eq_fieldwise c undef). Qed.

  (* characterisation: canonical instances (one spelling per number, no set/dict with >= 2 entries, no
     frozenset, no stored attribute that reads like an absent one) that are equal are printed identically,
     hence have equal hashes whatever str.__hash__ is *)
  Theorem C11_hash_char : forall bools a b,
      icanon c bools a = true -> icanon c bools b = true ->
      inst_eq c undef a b = true ->
      inst_str num_str str_repr enum_vrepr a = inst_str num_str str_repr enum_vrepr b /\
      inst_hash num_str str_repr enum_vrepr str_hash a = inst_hash num_str str_repr enum_vrepr str_hash b.
  Proof.
    intros bools a b Ca Cb E.
    exact (conj (inst_str_canonical num_str str_repr enum_vrepr str_hash c undef bools a b Ca Cb E)
                (inst_hash_canonical num_str str_repr enum_vrepr str_hash c undef bools a b Ca Cb E)).
  Qed.

  (* copy.copy / copy.deepcopy return an instance equal to the original with the same string form (hash);
     the pickle round trip does so when only declared fields are stored *)
  Theorem C11_copy_eq : forall x,
      (inst_eq c undef (copy_inst x) x = true /\
       inst_str num_str str_repr enum_vrepr (copy_inst x) = inst_str num_str str_repr enum_vrepr x) /\
      (inst_eq c undef (deepcopy_inst x) x = true /\
       inst_str num_str str_repr enum_vrepr (deepcopy_inst x) = inst_str num_str str_repr enum_vrepr x) /\
      (pickle_safe c x = true ->
       inst_eq c undef (pickle_rt c x) x = true /\ inst_eq c undef x (pickle_rt c x) = true /\
       inst_str num_str str_repr enum_vrepr (pickle_rt c x) = inst_str num_str str_repr enum_vrepr x).
  Proof.
    intro x.
    exact (conj (copy_eq num_str str_repr enum_vrepr c undef x)
                (conj (deepcopy_eq num_str str_repr enum_vrepr c undef x)
                      (pickle_eq num_str str_repr enum_vrepr c undef x))).
  Qed.
End C11.

Print Assumptions C11_value_equivalence.
Print Assumptions C11_equivalence.
Print Assumptions C11_eq_fieldwise.
Print Assumptions C11_hash_char.
Print Assumptions C11_copy_eq.

(* ------------------------------------------------------------------ the full statements, and their refutation *)

Definition C11_eq_implies_same_str : Prop :=
  forall c undef num_str str_repr enum_vrepr a b,
    wf_class c = true -> wf_inst a = true -> wf_inst b = true ->
    inst_eq c undef a b = true ->
    inst_str num_str str_repr enum_vrepr a = inst_str num_str str_repr enum_vrepr b.

Definition C11_pickle_statement : Prop :=
  forall c undef x, wf_class c = true -> wf_inst x = true -> inst_eq c undef (pickle_rt c x) x = true.

Definition fd (n : string) (f : field) : fdecl :=
  {| fd_name := s2p n; fd_field := f; fd_immutable := false; fd_default := None |}.

Definition cA (additional immutable : bool) : classdef :=
  {| c_name := s2p "A"; c_ancestors := [];
     c_fields := [fd "m" (FMapAny no_sizec); fd "s" (FSet false None no_sizec); fd "n" (FNumber KNumber SAny no_numc);
                  fd "x" FNone];
     c_required := []; c_additional := additional; c_ignore_none := false; c_immutable := immutable;
     c_hook := HookNone |}.

Definition mk (attrs : list (pystr * pyval)) : inst :=
  {| i_cls := s2p "A"; i_attrs := attrs; i_nones := Some []; i_live := true |}.

Definition str_s (s : string) : pyval := PStr (s2p s).

(* F10: Map contents inserted in another order *)
Theorem C11_refuted_order :
  exists a b, wf_inst a = true /\ wf_inst b = true /\ inst_eq (cA false false) false a b = true /\
              forall ns sr ev, inst_str ns sr ev a <> inst_str ns sr ev b.
Proof.
  exists (mk [(s2p "m", PDict [(str_s "a", str_s "p"); (str_s "b", str_s "q")])]),
         (mk [(s2p "m", PDict [(str_s "b", str_s "q"); (str_s "a", str_s "p")])]).
  repeat split; try (vm_compute; reflexivity).
  intros ns sr ev H. vm_compute in H. discriminate H.
Qed.

(* F10: Set members iterated in another order *)
Theorem C11_refuted_set_order :
  exists a b, wf_inst a = true /\ wf_inst b = true /\ inst_eq (cA false false) false a b = true /\
              forall ns sr ev, inst_str ns sr ev a <> inst_str ns sr ev b.
Proof.
  exists (mk [(s2p "s", PSet false [str_s "a"; str_s "b"])]),
         (mk [(s2p "s", PSet false [str_s "b"; str_s "a"])]).
  repeat split; try (vm_compute; reflexivity).
  intros ns sr ev H. vm_compute in H. discriminate H.
Qed.

(* F10: 1 versus 1.0 (whenever str(1) and str(1.0) differ, as they do) *)
Theorem C11_refuted_numeric :
  exists a b, wf_inst a = true /\ wf_inst b = true /\ inst_eq (cA false false) false a b = true /\
              forall ns sr ev, ns (NInt 1) <> ns (NFlt 1 0) -> inst_str ns sr ev a <> inst_str ns sr ev b.
Proof.
  exists (mk [(s2p "n", PNum (NInt 1))]), (mk [(s2p "n", PNum (NFlt 1 0))]).
  repeat split; try (vm_compute; reflexivity).
  intros ns sr ev Hne H. vm_compute in H. inversion H as [H1]. apply app_inv_tail in H1. contradiction.
Qed.

(* an attribute stored as None versus an absent one *)
Theorem C11_refuted_none_vs_absent :
  exists a b, wf_inst a = true /\ wf_inst b = true /\ inst_eq (cA false false) false a b = true /\
              forall ns sr ev, inst_str ns sr ev a <> inst_str ns sr ev b.
Proof.
  exists (mk [(s2p "x", PNone)]), (mk []).
  repeat split; try (vm_compute; reflexivity).
  intros ns sr ev H. vm_compute in H. discriminate H.
Qed.

Theorem C11_eq_implies_same_str_refuted : ~ C11_eq_implies_same_str.
Proof.
  intro S. destruct C11_refuted_order as [a [b [Wa [Wb [E N]]]]].
  apply (N (fun _ => []) (fun s => s) (fun _ _ => [])).
  apply (S (cA false false) false); try assumption. reflexivity.
Qed.

(* pickle: an undeclared (additional) attribute is lost *)
Theorem C11_refuted_pickle :
  exists x, wf_inst x = true /\ inst_eq (cA true false) false (pickle_rt (cA true false) x) x = false.
Proof.
  exists (mk [(s2p "n", PNum (NInt 1)); (s2p "zz", PNum (NInt 2))]). split; vm_compute; reflexivity.
Qed.

Theorem C11_pickle_statement_refuted : ~ C11_pickle_statement.
Proof.
  intro S. destruct C11_refuted_pickle as [x [W E]].
  rewrite (S (cA true false) false x) in E; [discriminate | reflexivity | exact W].
Qed.

(* ... whereas a None-marked name survives: the instance that used to come back unequal (n stored, x None-marked,
   _enable_undefined_value) is equal to its unpickled copy, in both directions, with the same string *)
Theorem C11_pickle_keeps_none_marks :
  let x := {| i_cls := s2p "A"; i_attrs := [(s2p "n", PNum (NInt 1))]; i_nones := Some [s2p "x"]; i_live := true |} in
  wf_inst x = true /\ pickle_safe (cA false false) x = true /\
  inst_eq (cA false false) true (pickle_rt (cA false false) x) x = true /\
  nones_list (pickle_rt (cA false false) x) = [s2p "x"].
Proof. repeat split; vm_compute; reflexivity. Qed.

(* the unpickled copy is live (`_instantiated` is set again) for EVERY class and instance: Structure.__setattr__
   (Struct/Instance.v) on an immutable class refuses the unpickled copy as it refuses the original (F7, repaired) *)
Theorem C11_unpickled_guard : forall re_match e c x n v,
    c_immutable c = true ->
    setattr re_match e c (i_live (pickle_rt c x)) (i_attrs (pickle_rt c x)) n v
    = (i_attrs (pickle_rt c x), Raised ValueError).
Proof.
  intros re_match e c x n v H. unfold setattr. cbn [pickle_rt i_live]. rewrite H. reflexivity.
Qed.

(* ... and an assignment to the unpickled copy that the class's __validate__ hook rejects raises and leaves the
   copy as it was: the hook runs again (it runs iff the instance is `_instantiated`) *)
Theorem C11_unpickled_hook_runs : forall re_match e c x n v fd nf,
    c_immutable c = false -> find_field (c_fields c) n = Some fd ->
    (c_ignore_none c && is_none_val v && negb (is_required c n)) = false ->
    vset re_match e (fd_field fd) v = Ok nf ->
    (fd_immutable fd && alist_has (i_attrs (pickle_rt c x)) n) = false ->
    hook_ok (c_hook c) (alist_set (i_attrs (pickle_rt c x)) n nf) = false ->
    setattr re_match e c (i_live (pickle_rt c x)) (i_attrs (pickle_rt c x)) n v
    = (i_attrs (pickle_rt c x), Raised ValueError).
Proof.
  intros re_match e c x n v fd nf Hi Hf Hn Hv Him Hh. unfold setattr.
  change (i_live (pickle_rt c x)) with true. rewrite Hi, Hf, Hn, Hv, Him, Hh. reflexivity.
Qed.

Print Assumptions C11_refuted_order.
Print Assumptions C11_refuted_set_order.
Print Assumptions C11_refuted_numeric.
Print Assumptions C11_refuted_none_vs_absent.
Print Assumptions C11_eq_implies_same_str_refuted.
Print Assumptions C11_refuted_pickle.
Print Assumptions C11_pickle_statement_refuted.
Print Assumptions C11_pickle_keeps_none_marks.
Print Assumptions C11_unpickled_guard.
Print Assumptions C11_unpickled_hook_runs.

(* ------------------------------------------------------------------ non-vacuity *)

(* two canonical, well-formed instances with nested content, built in different __dict__ order and with a
   nested Structure whose attributes are listed in another order: equal, hence (C11_hash_char) same string *)
Definition nv_a : inst :=
  mk [(s2p "m", PDict [(str_s "k", PList [PNum (NInt 7); PNum (NFlt 5 (-1)); PTuple [str_s "t"; PNone]])]);
      (s2p "s", PSet false [PStruct (s2p "Inner") [(s2p "a", PNum (NInt 3)); (s2p "b", str_s "x")]]);
      (s2p "n", PNum (NInt 12))].
Definition nv_b : inst :=
  mk [(s2p "n", PNum (NInt 12));
      (s2p "s", PSet false [PStruct (s2p "Inner") [(s2p "b", str_s "x"); (s2p "a", PNum (NInt 3))]]);
      (s2p "m", PDict [(str_s "k", PList [PNum (NInt 7); PNum (NFlt 5 (-1)); PTuple [str_s "t"; PNone]])])].

Example C11_nonvacuous :
  wf_class (cA false false) = true /\ wf_inst nv_a = true /\ wf_inst nv_b = true /\
  icanon (cA false false) false nv_a = true /\ icanon (cA false false) false nv_b = true /\
  inst_eq (cA false false) false nv_a nv_b = true /\
  i_attrs nv_a <> i_attrs nv_b /\
  pickle_safe (cA false false) nv_a = true /\
  (* an instance that is NOT canonical: the theorem's hypothesis is a real restriction *)
  icanon (cA false false) false (mk [(s2p "n", PBool true)]) = false.
Proof. repeat split; try (vm_compute; reflexivity). intro H. discriminate H. Qed.

(* ================================================================== copies are independent objects

   The clause "a deep copy or unpickled copy is fully independent: any later mutation of either instance,
   through any field or container method, is applied to that instance only" is about object IDENTITY.  The
   model is Struct/CopyHeap.v (objects at heap locations; deepcopy parametrised by the copy policy that
   harness/genmods/copy_sites.py re-reads from Structure.__deepcopy__ and the wrappers' __deepcopy__ on
   every run, Gen/CopySites.v); the proofs are in Struct/CopyHeapProofs.v. *)
From TP Require Import Struct.CopyHeap Struct.CopyHeapProofs Struct.StatePolicy Struct.StatePolicyProofs Gen.CopySites Struct.CopySitesSafe.

(* A deep copy under a policy that re-uses only values of deeply immutable types: the heap is extended and
   never written, the copy denotes the value of the original, and no mutable object is reachable from both. *)
Theorem C11_deepcopy_separated : forall pol fuel h x h' y,
    policy_safe pol = true -> closedb h = true -> imm_opaqueb h = true -> child_okb (List.length h) x = true ->
    dc pol fuel h x = Some (h', y) ->
    (exists e, h' = (h ++ e)%list) /\ closed h' /\ child_ok (List.length h') y /\
    (forall f, abs f h' y = abs f h x) /\ (forall f, abs f h' x = abs f h x) /\
    separated h' x y.
Proof. exact dc_separated. Qed.

(* Separation is an invariant of EVERY interleaved history of operations of the two holders (allocation of
   new objects, in-place change of any mutable object one can get at, keeping references), and each
   operation leaves the value of the other side's instance unchanged. *)
Theorem C11_separated_frames : forall h a b ops,
    closedb h = true -> child_okb (List.length h) a = true -> child_okb (List.length h) b = true ->
    separated h a b -> valid2 h a b [] [] ops ->
    frames h a b ops /\ separated (run2 h ops) a b.
Proof. exact frame_steps. Qed.

(* The two together, for the policy of the CURRENT source: stops compiling (Struct/CopySitesSafe.v) when an
   edit makes Structure.__deepcopy__ or a wrapper's __deepcopy__ re-use a possibly mutable value. *)
Theorem C11_deepcopy_independent : forall fuel h x h' y ops,
    closedb h = true -> imm_opaqueb h = true -> child_okb (List.length h) x = true ->
    dc copy_sites fuel h x = Some (h', y) ->
    valid2 h' x y [] [] ops ->
    (forall f, abs f h' y = abs f h x) /\ frames h' x y ops /\ separated (run2 h' ops) x y.
Proof. intros fuel h x h' y ops. exact (dc_independent copy_sites fuel h x h' y ops copy_sites_safe). Qed.

(* the pickle round trip rebuilds every object *)
Theorem C11_pickle_independent : forall fuel h x h' y ops,
    closedb h = true -> imm_opaqueb h = true -> child_okb (List.length h) x = true ->
    pickle_heap fuel h x = Some (h', y) ->
    valid2 h' x y [] [] ops ->
    (forall f, abs f h' y = abs f h x) /\ frames h' x y ops /\ separated (run2 h' ops) x y.
Proof. intros fuel h x h' y ops. exact (dc_independent all_deep fuel h x h' y ops eq_refl). Qed.

(* characterisation, other direction: a policy that re-uses values of a type whose instances can hold (or
   be) mutable objects is refuted by a computed witness - the copy shares a mutable object, its holder can
   change it, and the value of the ORIGINAL changes *)
Theorem C11_unsafe_policy_witness : forall pol t k,
    In t (unsafe_types_of (cp_attr pol)) -> kind_of_ty t = Some k ->
    exists h' y,
      dc pol 3 (witness_heap k) (CRef 2) = Some (h', y) /\
      ~ separated h' (CRef 2) y /\
      cop_pre h' y [] witness_op /\
      abs 4 (cop_heap h' witness_op) (CRef 2) <> abs 4 h' (CRef 2).
Proof. exact unsafe_policy_witness. Qed.

(* copy.copy is equal in value but shares every attribute value: outside the independence claim *)
Theorem C11_shallow_copy : 
    (forall h x h' y, closedb h = true -> child_okb (List.length h) x = true -> copy_shallow h x = Some (h', y) ->
                      forall f, abs f h' y = abs f h x /\ abs f h' x = abs f h x) /\
    (exists h x h' y, copy_shallow h x = Some (h', y) /\ ~ separated h' x y /\
                      cop_pre h' y [] witness_op /\ abs 4 (cop_heap h' witness_op) x <> abs 4 h' x).
Proof. exact (conj copy_shallow_value copy_shallow_shares). Qed.

(* the pickle round trip under the __getstate__ / __setstate__ policy read from the CURRENT source
   (Gen/CopySites.v): equal to the original with the same string whenever only declared fields are stored, live
   again and with the same None-marked names; stops compiling when __getstate__ no longer keeps every declared
   name present in __dict__ or `_none_fields`, or __setstate__ no longer sets `_instantiated` *)
Theorem C11_pickle_eq_today : forall c undef num_str str_repr enum_vrepr x,
    pickle_safe c x = true ->
    exists y, pickle_rt_pol state_sites c x = Some y /\
              inst_eq c undef y x = true /\ inst_eq c undef x y = true /\
              inst_str num_str str_repr enum_vrepr y = inst_str num_str str_repr enum_vrepr x.
Proof.
  intros c undef num_str str_repr enum_vrepr x.
  exact (pickle_pol_eq num_str str_repr enum_vrepr state_sites c undef x state_sites_safe).
Qed.

Theorem C11_unpickled_live_today : forall c x y,
    pickle_rt_pol state_sites c x = Some y -> i_live y = true /\ nones_list y = nones_list x.
Proof. intros c x y. exact (safe_restore_live state_sites c x y state_sites_safe). Qed.

(* a state without `_none_fields` loses the None-marked names; rebuilding by the interpreter's default
   (no __setstate__) loses `_instantiated` *)
Theorem C11_state_without_nones_refuted :
  exists x y, pickle_safe gs_class x = true /\
              pickle_rt_pol {| sp_fields := GsAllFields; sp_filter := GsInDict; sp_value := GsFieldValue;
                               sp_internal := GsNoInternal; sp_restore := GsRestoreInstantiated |} gs_class x = Some y /\
              inst_eq gs_class true y x = false.
Proof. exact state_without_nones_refuted. Qed.

Theorem C11_default_restore_not_live :
  forall sp c x y, sp_restore sp = GsRestoreDefault -> pickle_rt_pol sp c x = Some y -> i_live y = false.
Proof. exact default_restore_not_live. Qed.

(* a __getstate__ that keeps only truthy values loses a stored 0 *)
Theorem C11_getstate_truthy_refuted :
    exists x y, pickle_safe gs_class x = true /\
                pickle_rt_pol {| sp_fields := GsAllFields; sp_filter := GsTruthy; sp_value := GsFieldValue;
                                 sp_internal := GsNonesKept; sp_restore := GsRestoreInstantiated |} gs_class x = Some y /\
                inst_eq gs_class true y x = false.
Proof. exact getstate_truthy_refuted. Qed.

(* what the executable check run on observed object graphs reports is real sharing *)
Theorem C11_separation_check_sound : forall fuel h a b l,
    In l (shared_mutable fuel h a b) -> reach h a l /\ reach h b l /\ mutable_at h l = true.
Proof. exact shared_mutable_sound. Qed.

Print Assumptions C11_deepcopy_separated.
Print Assumptions C11_separated_frames.
Print Assumptions C11_deepcopy_independent.
Print Assumptions C11_pickle_independent.
Print Assumptions C11_unsafe_policy_witness.
Print Assumptions C11_shallow_copy.
Print Assumptions C11_pickle_eq_today.
Print Assumptions C11_unpickled_live_today.
Print Assumptions C11_state_without_nones_refuted.
Print Assumptions C11_default_restore_not_live.
Print Assumptions C11_getstate_truthy_refuted.
Print Assumptions C11_separation_check_sound.

(* non-vacuity: a Team-like instance (a Tuple field holding a nested instance, an Array field whose wrapper
   holds another); its deep copy under the current policy; a history in which the holder of the copy renames
   the nested instance inside the tuple, builds a new instance and appends it through the wrapper, and the
   holder of the original changes its nested instance and keeps a reference: every step is admissible *)
Definition nv_heap : heap :=
  [ {| o_kind := KInst (s2p "P") false; o_kids := [(s2p "name", CAtom (str_s "ann"))] |};
    {| o_kind := KTuple; o_kids := [([], CRef 0)] |};
    {| o_kind := KInst (s2p "P") false; o_kids := [(s2p "name", CAtom (str_s "cid"))] |};
    {| o_kind := KWList; o_kids := [([], CRef 2)] |};
    {| o_kind := KInst (s2p "T") false; o_kids := [(s2p "lead", CRef 1); (s2p "members", CRef 3)] |} ].

Definition nv_ops : list (side * cop) :=
  [ (SideB, CSet 5 [(s2p "name", CAtom (str_s "ANN"))]);
    (SideB, CAlloc {| o_kind := KInst (s2p "P") false; o_kids := [(s2p "name", CAtom (str_s "fay"))] |});
    (SideB, CSet 9 [([], CRef 7); ([], CRef 11)]);
    (SideA, CSet 0 [(s2p "name", CAtom (str_s "bob"))]);
    (SideA, CHold 2) ].

Example C11_heap_nonvacuous :
  closedb nv_heap = true /\ imm_opaqueb nv_heap = true /\ policy_safe copy_sites = true /\
  exists h',
    dc copy_sites 5 nv_heap (CRef 4) = Some (h', CRef 10) /\
    valid2 h' (CRef 4) (CRef 10) [] [] nv_ops /\
    abs 5 (run2 h' nv_ops) (CRef 10) <> abs 5 h' (CRef 10) /\
    abs 5 (run2 h' nv_ops) (CRef 4) <> abs 5 h' (CRef 4).
Proof.
  split; [vm_compute; reflexivity |]. split; [vm_compute; reflexivity |]. split; [exact copy_sites_safe |].
  eexists. split; [vm_compute; reflexivity |].
  split; [| split; intro H; vm_compute in H; discriminate H].
  cbn.
  repeat split.
  - left. eapply reach_kid; [reflexivity | left; reflexivity |].
    eapply reach_kid; [reflexivity | left; reflexivity | apply reach_here].
  - intros k m I. destruct I as [I|[]]; discriminate I.
  - intros k m I. destruct I as [I|[]]; discriminate I.
  - left. eapply reach_kid; [reflexivity | right; left; reflexivity | apply reach_here].
  - intros k m [I|[I|[]]]; inversion I; subst.
    + left. eapply reach_kid; [reflexivity | right; left; reflexivity |].
      eapply reach_kid; [reflexivity | left; reflexivity | apply reach_here].
    + right. exists 11. split; [left; reflexivity | apply reach_here].
  - left. eapply reach_kid; [reflexivity | left; reflexivity |].
    eapply reach_kid; [reflexivity | left; reflexivity | apply reach_here].
  - intros k m I. destruct I as [I|[]]; discriminate I.
  - left. eapply reach_kid; [reflexivity | right; left; reflexivity |].
    eapply reach_kid; [reflexivity | left; reflexivity | apply reach_here].
Qed.

(* ---- the tie to the source, re-checked by the kernel on every run -------------------------------------
   Gen/EqHashSrc.v is re-generated from typedpy/structures/structures.py (harness/genmods/py2v_eqhash.py):
   Structure.__eq__, __ne__, __hash__, __str__ (with list_to_str / dict_to_str / to_str), __repr__, __getstate__,
   __deepcopy__, __copy__, Field.__get__, Field.__serialize__, get_all_fields_by_name.  For EVERY instance (seen as
   the Python object whose __dict__ is its public attributes plus typedpy's internal entries) what the source
   computes NOW is what the hand-written model Struct/EqHash.v computes. *)
From TP Require Import Base.PyOps Base.PyOps2 Base.PyObj Base.PyOpsEqHash Gen.EqHashSrc Struct.EqHashSrcProofs.

Theorem C11_src_eq_is_model :
  forall (c : classdef) (undef : bool) (num_str : num -> pystr) (str_repr : pystr -> pystr)
           (enum_vrepr : pystr -> pystr -> pystr) (str_hash : pystr -> Z)
           (mcall : pyval -> pystr -> list pyval -> res pyval) (h : heap) 
           (a b : inst) (ta tb : option pyval),
         class_view h c undef (i_cls a) ->
         c_ok c = true ->
         public_attrs a = true ->
         public_attrs b = true ->
         nodup_by pystr_eqb (nones_list a) = true ->
         nodup_by pystr_eqb (nones_list b) = true ->
         Src_Structure_eq (the_world num_str str_repr enum_vrepr str_hash mcall h) 
           (inst_obj a ta) (inst_obj b tb) = Ok (PBool (inst_eq c undef a b)).
Proof. exact C11_src_eq. Qed.

Theorem C11_src_ne_is_model :
  forall (c : classdef) (undef : bool) (num_str : num -> pystr) (str_repr : pystr -> pystr)
           (enum_vrepr : pystr -> pystr -> pystr) (str_hash : pystr -> Z)
           (mcall : pyval -> pystr -> list pyval -> res pyval) (h : heap) 
           (a b : inst) (ta tb : option pyval),
         class_view h c undef (i_cls a) ->
         c_ok c = true ->
         public_attrs a = true ->
         public_attrs b = true ->
         nodup_by pystr_eqb (nones_list a) = true ->
         nodup_by pystr_eqb (nones_list b) = true ->
         Src_Structure_ne (the_world num_str str_repr enum_vrepr str_hash mcall h) 
           (inst_obj a ta) (inst_obj b tb) = Ok (PBool (negb (inst_eq c undef a b))).
Proof. exact C11_src_ne. Qed.

Theorem C11_src_field_get_is_model :
  forall (c : classdef) (undef : bool) (num_str : num -> pystr) (str_repr : pystr -> pystr)
           (enum_vrepr : pystr -> pystr -> pystr) (str_hash : pystr -> Z)
           (mcall : pyval -> pystr -> list pyval -> res pyval) (h : heap) 
           (x : inst) (t : option pyval) (k : pystr),
         class_view h c undef (i_cls x) ->
         c_ok c = true ->
         public_attrs x = true ->
         is_field c k = true ->
         Src_Field_get (the_world num_str str_repr enum_vrepr str_hash mcall h) 
           (fld_ref k) (inst_obj x t) (ref (i_cls x)) = Ok (getf c undef x k).
Proof. exact C11_src_field_get. Qed.

Theorem C11_src_str_is_model :
  forall (num_str : num -> pystr) (str_repr : pystr -> pystr)
           (enum_vrepr : pystr -> pystr -> pystr) (str_hash : pystr -> Z)
           (mcall : pyval -> pystr -> list pyval -> res pyval) (h : heap) 
           (x : inst) (t : option pyval),
         heap_plain (the_world num_str str_repr enum_vrepr str_hash mcall h) ->
         inst_str_ok x = true ->
         Src_Structure_str (the_world num_str str_repr enum_vrepr str_hash mcall h) (inst_obj x t) =
         Ok (PStr (inst_str num_str str_repr enum_vrepr x)).
Proof. exact C11_src_str. Qed.

Theorem C11_src_repr_is_model :
  forall (num_str : num -> pystr) (str_repr : pystr -> pystr)
           (enum_vrepr : pystr -> pystr -> pystr) (str_hash : pystr -> Z)
           (mcall : pyval -> pystr -> list pyval -> res pyval) (h : heap) 
           (x : inst) (t : option pyval),
         heap_plain (the_world num_str str_repr enum_vrepr str_hash mcall h) ->
         inst_str_ok x = true ->
         Src_Structure_repr (the_world num_str str_repr enum_vrepr str_hash mcall h) (inst_obj x t) =
         Ok (PStr (inst_str num_str str_repr enum_vrepr x)).
Proof. exact C11_src_repr. Qed.

Theorem C11_src_to_str_is_model :
  forall (num_str : num -> pystr) (str_repr : pystr -> pystr)
           (enum_vrepr : pystr -> pystr -> pystr) (str_hash : pystr -> Z)
           (mcall : pyval -> pystr -> list pyval -> res pyval) (h : heap) 
           (v : pyval),
         heap_plain (the_world num_str str_repr enum_vrepr str_hash mcall h) ->
         str_ok v = true ->
         Src_to_str (the_world num_str str_repr enum_vrepr str_hash mcall h) v =
         Ok (PStr (vs num_str str_repr enum_vrepr false v)).
Proof. exact C11_src_to_str. Qed.

Theorem C11_src_hash_is_model :
  forall (num_str : num -> pystr) (str_repr : pystr -> pystr)
           (enum_vrepr : pystr -> pystr -> pystr) (str_hash : pystr -> Z)
           (mcall : pyval -> pystr -> list pyval -> res pyval) (h : heap) 
           (x : inst) (t : option pyval),
         heap_plain (the_world num_str str_repr enum_vrepr str_hash mcall h) ->
         inst_str_ok x = true ->
         Src_Structure_hash (the_world num_str str_repr enum_vrepr str_hash mcall h) (inst_obj x t) =
         Ok (zint (inst_hash num_str str_repr enum_vrepr str_hash x)).
Proof. exact C11_src_hash. Qed.

Theorem C11_src_str_nested_is_model :
  forall (num_str : num -> pystr) (str_repr : pystr -> pystr)
           (enum_vrepr : pystr -> pystr -> pystr) (str_hash : pystr -> Z)
           (mcall : pyval -> pystr -> list pyval -> res pyval) (h : heap) 
           (ni : list (pystr * pyval)) (x : inst) (t : option pyval),
         heap_plain (the_world num_str str_repr enum_vrepr str_hash mcall h) ->
         ni_ok ni = true ->
         inst_str_ok x = true ->
         Src_Structure_str (the_world num_str str_repr enum_vrepr str_hash mcall h)
           (inst_obj_nested ni x t) = Ok (PStr (inst_str num_str str_repr enum_vrepr x)).
Proof. exact C11_src_str_nested. Qed.

Theorem C11_src_hash_nested_is_model :
  forall (num_str : num -> pystr) (str_repr : pystr -> pystr)
           (enum_vrepr : pystr -> pystr -> pystr) (str_hash : pystr -> Z)
           (mcall : pyval -> pystr -> list pyval -> res pyval) (h : heap) 
           (ni : list (pystr * pyval)) (x : inst) (t : option pyval),
         heap_plain (the_world num_str str_repr enum_vrepr str_hash mcall h) ->
         ni_ok ni = true ->
         inst_str_ok x = true ->
         Src_Structure_hash (the_world num_str str_repr enum_vrepr str_hash mcall h)
           (inst_obj_nested ni x t) = Ok (zint (inst_hash num_str str_repr enum_vrepr str_hash x)).
Proof. exact C11_src_hash_nested. Qed.

Theorem C11_src_copy_is_model :
  forall (num_str : num -> pystr) (str_repr : pystr -> pystr)
           (enum_vrepr : pystr -> pystr -> pystr) (str_hash : pystr -> Z)
           (mcall : pyval -> pystr -> list pyval -> res pyval) (h : heap) 
           (x : inst) (t : option pyval),
         keys_ok x = true ->
         Src_Structure_copy (the_world num_str str_repr enum_vrepr str_hash mcall h) (inst_obj x t) =
         Ok (inst_obj (copy_inst x) t).
Proof. exact C11_src_copy. Qed.

Theorem C11_src_deepcopy_is_model :
  forall (num_str : num -> pystr) (str_repr : pystr -> pystr)
           (enum_vrepr : pystr -> pystr -> pystr) (str_hash : pystr -> Z)
           (mcall : pyval -> pystr -> list pyval -> res pyval) (h : heap) 
           (x : inst) (t : option pyval) (memo : pyval),
         keys_ok x = true ->
         alist_has (i_attrs x) n_skip_validation = false ->
         class_field h (i_cls x) n_immutable = None ->
         Src_Structure_deepcopy (the_world num_str str_repr enum_vrepr str_hash mcall h)
           (inst_obj x t) memo = Ok (inst_obj (deepcopy_inst x) t).
Proof. exact C11_src_deepcopy. Qed.

Theorem C11_src_getstate_is_model :
  forall (c : classdef) (undef : bool) (num_str : num -> pystr) (str_repr : pystr -> pystr)
           (enum_vrepr : pystr -> pystr -> pystr) (str_hash : pystr -> Z)
           (mcall : pyval -> pystr -> list pyval -> res pyval) (h : heap) 
           (x : inst) (t : option pyval) (bases : list pystr),
         class_view h c undef (i_cls x) ->
         mro_view (the_world num_str str_repr enum_vrepr str_hash mcall h) c (i_cls x) bases ->
         c_ok c = true ->
         fields_nodup c = true ->
         public_attrs x = true ->
         (forall (n : pystr) (v : pyval),
          is_field c n = true ->
          mcall (fld_ref n) (s2p "__serialize__") [v] =
          Src_Field_serialize (the_world num_str str_repr enum_vrepr str_hash mcall h) (fld_ref n) v) ->
         Src_Structure_getstate (the_world num_str str_repr enum_vrepr str_hash mcall h)
           (inst_obj x t) = Ok (PDict (skeys (full_state c x))) /\
         (forall k : pystr, alist_get (state_of c x) k = alist_get (i_attrs (pickle_rt c x)) k).
Proof. exact C11_src_getstate. Qed.

(* Structure.__setstate__ of the source on a new object, for ANY state with distinct names *)
Theorem C11_src_setstate_is_model :
  forall (num_str : num -> pystr) (str_repr : pystr -> pystr)
           (enum_vrepr : pystr -> pystr -> pystr) (str_hash : pystr -> Z)
           (mcall : pyval -> pystr -> list pyval -> res pyval) (h : heap)
           (cls : pystr) (st : list (pystr * pyval)),
         NoDup (map fst st) ->
         Src_Structure_setstate (the_world num_str str_repr enum_vrepr str_hash mcall h) (PStruct cls []) (PDict (skeys st)) =
         Ok (PStruct cls (alist_set (if alist_has st n_none_fields then st else alist_set st n_none_fields (PSet false []))
                                    n_instantiated (PBool true))).
Proof. exact C11_src_setstate. Qed.

(* the whole round trip: __getstate__, cls.__new__(cls), __setstate__ of the source yield [pickle_rt c x] *)
Theorem C11_src_unpickle_is_model :
  forall (c : classdef) (undef : bool) (num_str : num -> pystr) (str_repr : pystr -> pystr)
           (enum_vrepr : pystr -> pystr -> pystr) (str_hash : pystr -> Z)
           (mcall : pyval -> pystr -> list pyval -> res pyval) (h : heap)
           (x : inst) (t : option pyval) (bases : list pystr),
         class_view h c undef (i_cls x) ->
         mro_view (the_world num_str str_repr enum_vrepr str_hash mcall h) c (i_cls x) bases ->
         c_ok c = true ->
         fields_nodup c = true ->
         public_attrs x = true ->
         (forall (n : pystr) (v : pyval),
          is_field c n = true ->
          mcall (fld_ref n) (s2p "__serialize__") [v] =
          Src_Field_serialize (the_world num_str str_repr enum_vrepr str_hash mcall h) (fld_ref n) v) ->
         unpickle (the_world num_str str_repr enum_vrepr str_hash mcall h) (inst_obj x t) =
           Ok (PStruct (i_cls x) (state_of c x ++ internals (pickle_rt c x) None)) /\
         (forall k : pystr, alist_get (state_of c x ++ internals (pickle_rt c x) None) k =
                            alist_get (inst_dict_of (pickle_rt c x) None) k).
Proof. exact C11_src_unpickle. Qed.

Theorem C11_src_getstate_mro_is_model :
  forall (c : classdef) (undef : bool) (num_str : num -> pystr) (str_repr : pystr -> pystr)
           (enum_vrepr : pystr -> pystr -> pystr) (str_hash : pystr -> Z)
           (mcall : pyval -> pystr -> list pyval -> res pyval) (h : heap) 
           (x : inst) (t : option pyval) (levels : list (pystr * list pystr)),
         class_view h c undef (i_cls x) ->
         mro_levels (the_world num_str str_repr enum_vrepr str_hash mcall h) (i_cls x) levels ->
         mro_merge (the_world num_str str_repr enum_vrepr str_hash mcall h) levels = fields_alist c ->
         c_ok c = true ->
         fields_nodup c = true ->
         public_attrs x = true ->
         (forall (n : pystr) (v : pyval),
          is_field c n = true ->
          mcall (fld_ref n) (s2p "__serialize__") [v] =
          Src_Field_serialize (the_world num_str str_repr enum_vrepr str_hash mcall h) (fld_ref n) v) ->
         Src_Structure_getstate (the_world num_str str_repr enum_vrepr str_hash mcall h)
           (inst_obj x t) = Ok (PDict (skeys (full_state c x))).
Proof. exact C11_src_getstate_mro. Qed.

Print Assumptions C11_src_eq_is_model.
Print Assumptions C11_src_ne_is_model.
Print Assumptions C11_src_field_get_is_model.
Print Assumptions C11_src_str_is_model.
Print Assumptions C11_src_repr_is_model.
Print Assumptions C11_src_to_str_is_model.
Print Assumptions C11_src_hash_is_model.
Print Assumptions C11_src_str_nested_is_model.
Print Assumptions C11_src_hash_nested_is_model.
Print Assumptions C11_src_copy_is_model.
Print Assumptions C11_src_deepcopy_is_model.
Print Assumptions C11_src_getstate_is_model.
Print Assumptions C11_src_setstate_is_model.
Print Assumptions C11_src_unpickle_is_model.
Print Assumptions C11_src_getstate_mro_is_model.

(* ---- generated layer, round 4: the collection wrappers' __deepcopy__ re-translated from the source (Gen/AliasSrc.v) equals the wrapper branch of the hand model's dc (Struct/CopyHeap.v) ---- *)
From TP Require Import Base.PyOpsAlias Gen.AliasSrc Struct.AliasSrcProofs.

Theorem C11_src_list_deepcopy :
  forall (E : aenv) (rec : CopyHeap.heap -> child -> res (CopyHeap.heap * child))
           (fimm : bool) (ib : ibind) (nm : aval) (l : loc) (h : CopyHeap.heap) 
           (o : obj) (m : list (loc * aval)) (ib' : ibind),
         get h l = Some o ->
         o_kind o = KWList ->
         rebind m ib = inst_of ib' ->
         (r <~ Src_ListStruct_deepcopy E rec (wview (AV (CRef l)) fimm ib nm) (AMemo m);;
          a_to_child r) h =
         deepcopy_wrapper_spec KWList rec (simm fimm ib) (simm fimm ib') h (o_kids o).
Proof. exact src_list_deepcopy. Qed.

Theorem C11_src_deque_deepcopy :
  forall (E : aenv) (rec : CopyHeap.heap -> child -> res (CopyHeap.heap * child))
           (fimm : bool) (ib : ibind) (nm : aval) (l : loc) (h : CopyHeap.heap) 
           (o : obj) (m : list (loc * aval)) (ib' : ibind),
         defaults_ok E = true ->
         simm fimm ib = false ->
         get h l = Some o ->
         o_kind o = KWDeque ->
         rebind m ib = inst_of ib' ->
         (r <~ Src_DequeStruct_deepcopy E rec (wview (AV (CRef l)) fimm ib nm) (AMemo m);;
          a_to_child r) h = deepcopy_wrapper_spec KWDeque rec false (simm fimm ib') h (o_kids o).
Proof. exact src_deque_deepcopy. Qed.

Theorem C11_src_dict_deepcopy :
  forall (tb : loc -> wbind) (ia : loc -> pystr -> option pyval) (df : pystr -> option pyval)
           (rec : CopyHeap.heap -> child -> res (CopyHeap.heap * child)) 
           (fimm : bool) (ib : ibind) (nm : aval) (l : loc) (h : CopyHeap.heap) 
           (o : obj) (ps : list (child * child)) (m : list (loc * aval)) 
           (ib' : ibind),
         simm fimm ib = false ->
         simm fimm ib' = false ->
         get h l = Some o ->
         o_kind o = KWDict ->
         kid_pairs (o_kids o) = Some ps ->
         rebind m ib = inst_of ib' ->
         (r <~
          Src_DictStruct_deepcopy (env_of (fun l0 : loc => Some (tb l0)) ia df) rec
            (wview (AV (CRef l)) fimm ib nm) (AMemo m);; a_to_child r) h =
         deepcopy_wrapper_spec KWDict rec false false h (o_kids o).
Proof. exact src_dict_deepcopy. Qed.

(* for every heap, wrapper and recursive copier agreeing with dc at lower fuel *)
Theorem C11_src_wrapper_deepcopy_is_dc :
  forall (pol : copy_policy) (f : nat) (tb : loc -> wbind) (ia : loc -> pystr -> option pyval)
           (df : pystr -> option pyval) (rec : CopyHeap.heap -> child -> res (CopyHeap.heap * child))
           (h : CopyHeap.heap) (l : loc) (o : obj),
         (forall l' : loc, simm (wb_fimm (tb l')) (wb_inst (tb l')) = false) ->
         defaults_ok (env_of (fun l0 : loc => Some (tb l0)) ia df) = true ->
         get h l = Some o ->
         is_wrapper (o_kind o) = true ->
         labels_emptyb (o_kids o) = true ->
         (o_kind o = KWDict -> exists ps : list (child * child), kid_pairs (o_kids o) = Some ps) ->
         cp_wlist pol = Deep ->
         cp_wdeque pol = Deep ->
         cp_wdict pol = Deep ->
         (forall (h0 : CopyHeap.heap) (c : child), ro (rec h0 c) = dc pol f h0 c) ->
         ro (Src_wrapper_deepcopy (env_of (fun l0 : loc => Some (tb l0)) ia df) (AMemo []) rec l h) =
         dc pol (S f) h (CRef l).
Proof. exact src_wrapper_deepcopy_is_dc. Qed.

(* at the copy policy regenerated from today's source *)
Theorem C11_src_wrapper_deepcopy_is_dc_today :
  forall (f : nat) (tb : loc -> wbind) (ia : loc -> pystr -> option pyval)
           (df : pystr -> option pyval) (rec : CopyHeap.heap -> child -> res (CopyHeap.heap * child))
           (h : CopyHeap.heap) (l : loc) (o : obj),
         (forall l' : loc, simm (wb_fimm (tb l')) (wb_inst (tb l')) = false) ->
         defaults_ok (env_of (fun l0 : loc => Some (tb l0)) ia df) = true ->
         get h l = Some o ->
         is_wrapper (o_kind o) = true ->
         labels_emptyb (o_kids o) = true ->
         (o_kind o = KWDict -> exists ps : list (child * child), kid_pairs (o_kids o) = Some ps) ->
         (forall (h0 : CopyHeap.heap) (c : child), ro (rec h0 c) = dc copy_sites f h0 c) ->
         ro (Src_wrapper_deepcopy (env_of (fun l0 : loc => Some (tb l0)) ia df) (AMemo []) rec l h) =
         dc copy_sites (S f) h (CRef l).
Proof. exact src_wrapper_deepcopy_is_dc_today. Qed.

Print Assumptions C11_src_list_deepcopy.
Print Assumptions C11_src_deque_deepcopy.
Print Assumptions C11_src_dict_deepcopy.
Print Assumptions C11_src_wrapper_deepcopy_is_dc.
Print Assumptions C11_src_wrapper_deepcopy_is_dc_today.
