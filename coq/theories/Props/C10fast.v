(* Property C10, second half (fast serialization): the tie to the source of typedpy/serialization/fast_serialization.py,
   re-checked by the kernel on every run.  Ready to be appended to Props/C10.v.
   Gen/FastSrc.v is re-generated from the source (harness/genmods/py2v_fast.py): FastSerializable.__init__ /
   serialize, _get_value, _verify_is_fast_serializable, _get_serialize, _get_constant, create_serializer,
   set_compact_wrapper, the inner functions they define (function values are data) and the subclass table of the
   field classes.  For EVERY class environment, class, instance and fuel the source NOW is the hand-written model of
   Ser/Fast.v (create_serializer, fast_ser) on which the C10 theorems are proved.  Proofs: Ser/FastSrcProofs.v. *)
From Coq Require Import ZArith NArith String List.
Import ListNotations.
From TP Require Import Base.PyVal Base.PyOps Base.PyOps2 Base.PyObj Base.PyOpsFields Base.PyOpsFast
     Fields.FieldAst Ser.Trusted Ser.Fast Gen.FastSrc Ser.TrustedSrcProofs Ser.FastSrcProofs.

(* create_serializer(cls, compact, serialize_none): the model's failure conditions, and the serializer it installs *)
Theorem C10_fast_src_create :
  forall (other_obj : N -> bool -> pyval) (sser ofast : N -> pyval -> res pyval) (e : tenv)
         (agg_chain : tclass -> pyval) (fuel d : nat) (call : callfn) (h : heap) (cn : pystr) (c : tclass)
         (compact sn : bool),
    env_ok other_obj e = true ->
    fits_env other_obj e d = true ->
    heap_inv other_obj e h ->
    find_tclass e cn = Some c ->
    create_serializer e fuel cn <> Raise Unmodelled ->
    create_serializer e fuel cn <> Raise OutOfFuel ->
    match create_serializer e fuel cn with
    | Ok _ =>
        exists h1 : heap,
          heap_inv other_obj e h1 /\
          src_create_serializer fuel d call (fast_ext other_obj sser ofast e agg_chain) h
                                (ref cn) (PBool compact) (PBool sn) PNone =
          Ok (final_heap other_obj h1 cn c (PBool sn) compact, PNone)
    | Raise x =>
        src_create_serializer fuel d call (fast_ext other_obj sser ofast e agg_chain) h
                              (ref cn) (PBool compact) (PBool sn) PNone = Raise x
    end.
Proof. exact src_create_eq. Qed.

(* the same, from the classes as they are before any serializer exists *)
Theorem C10_fast_src_create_fresh :
  forall (other_obj : N -> bool -> pyval) (sser ofast : N -> pyval -> res pyval) (e : tenv)
         (agg_chain : tclass -> pyval) (fuel d : nat) (call : callfn) (cn : pystr) (c : tclass) (compact sn : bool),
    env_ok other_obj e = true ->
    fits_env other_obj e d = true ->
    find_tclass e cn = Some c ->
    create_serializer e fuel cn <> Raise Unmodelled ->
    create_serializer e fuel cn <> Raise OutOfFuel ->
    match create_serializer e fuel cn with
    | Ok _ =>
        exists h1 : heap,
          heap_inv other_obj e h1 /\
          src_create_serializer fuel d call (fast_ext other_obj sser ofast e agg_chain)
                                (fast_heap0 other_obj e) (ref cn) (PBool compact) (PBool sn) PNone =
          Ok (final_heap other_obj h1 cn c (PBool sn) compact, PNone)
    | Raise x =>
        src_create_serializer fuel d call (fast_ext other_obj sser ofast e agg_chain)
                              (fast_heap0 other_obj e) (ref cn) (PBool compact) (PBool sn) PNone = Raise x
    end.
Proof. exact src_create_fresh. Qed.

(* what the class holds afterwards: the serializer as data (per field, which getter) and the marker *)
Theorem C10_fast_src_installed :
  forall (other_obj : N -> bool -> pyval) (h1 : heap) (cn : pystr) (c : tclass) (sn : pyval) (compact : bool),
    final_heap other_obj h1 cn c sn compact cn a_serialize = Some (installed other_obj cn c sn compact) /\
    final_heap other_obj h1 cn c sn compact cn a_created = Some (PBool true) /\
    (forall o a : pystr, pystr_eqb o cn = false -> final_heap other_obj h1 cn c sn compact o a = h1 o a) /\
    (forall a : pystr, pystr_eqb a a_serialize = false -> pystr_eqb a a_created = false ->
                       final_heap other_obj h1 cn c sn compact cn a = h1 cn a).
Proof. exact final_heap_cells. Qed.

(* the installed serializer, called on an instance = fast_ser (compact = False) *)
Theorem C10_fast_src_serializer :
  forall (other_obj : N -> bool -> pyval) (sser ofast : N -> pyval -> res pyval) (e : tenv)
         (agg_chain : tclass -> pyval) (h : heap),
    heap_installed other_obj e h ->
    env_ok other_obj e = true ->
    forall (n : nat) (cn : pystr) (c : tclass) (v : pyval) (sn : bool),
      find_tclass e cn = Some c ->
      t_fast c = true ->
      insts_ok e v = true ->
      fast_ser sser ofast e n sn false cn v <> Raise Unmodelled ->
      src_apply (2 * n) (fast_ext other_obj sser ofast e agg_chain) h (ser_closure other_obj cn c (PBool sn)) [v] =
      fast_ser sser ofast e n sn false cn v.
Proof. exact src_serializer_eq. Qed.

(* the compact wrapper = fast_ser (compact = True) *)
Theorem C10_fast_src_compact :
  forall (other_obj : N -> bool -> pyval) (sser ofast : N -> pyval -> res pyval) (e : tenv)
         (agg_chain : tclass -> pyval) (h : heap),
    heap_installed other_obj e h ->
    env_ok other_obj e = true ->
    forall (n : nat) (cn : pystr) (c : tclass) (a : list (pystr * pyval)) (sn : bool),
      find_tclass e cn = Some c ->
      t_fast c = true ->
      insts_ok e (PStruct cn a) = true ->
      fast_ser sser ofast e n sn true cn (PStruct cn a) <> Raise Unmodelled ->
      src_apply (S (2 * n)) (fast_ext other_obj sser ofast e agg_chain) h
                (compact_closure (ser_closure other_obj cn c (PBool sn))) [PStruct cn a] =
      fast_ser sser ofast e n sn true cn (PStruct cn a).
Proof. exact src_compact_eq. Qed.

(* FastSerializable.__init__: the lazy installation *)
Theorem C10_fast_src_init :
  forall (other_obj : N -> bool -> pyval) (sser ofast : N -> pyval -> res pyval) (e : tenv)
         (agg_chain : tclass -> pyval) (fuel d : nat) (call : callfn) (h : heap) (cn : pystr) (c : tclass)
         (a : list (pystr * pyval)) (args kwargs : pyval),
    env_ok other_obj e = true ->
    fits_env other_obj e d = true ->
    heap_inv other_obj e h ->
    find_tclass e cn = Some c ->
    (h cn a_serialize = None ->
     create_serializer e fuel cn <> Raise Unmodelled /\ create_serializer e fuel cn <> Raise OutOfFuel) ->
    match h cn a_serialize with
    | Some _ =>
        src_FastSerializable__init fuel d call (fast_ext other_obj sser ofast e agg_chain) h (PStruct cn a) args kwargs =
        Ok (h, PNone)
    | None =>
        match create_serializer e fuel cn with
        | Ok _ =>
            exists h1 : heap,
              heap_inv other_obj e h1 /\
              src_FastSerializable__init fuel d call (fast_ext other_obj sser ofast e agg_chain) h (PStruct cn a) args kwargs =
              Ok (final_heap other_obj h1 cn c (PBool false) false, PNone)
        | Raise x =>
            src_FastSerializable__init fuel d call (fast_ext other_obj sser ofast e agg_chain) h (PStruct cn a) args kwargs =
            Raise x
        end
    end.
Proof. exact src_init_eq. Qed.

(* the heaps the theorems speak about exist *)
Theorem C10_fast_src_heap0 :
  forall (other_obj : N -> bool -> pyval) (e : tenv),
    env_ok other_obj e = true -> heap_inv other_obj e (fast_heap0 other_obj e).
Proof. exact heap0_inv. Qed.

Theorem C10_fast_src_heap1 :
  forall (other_obj : N -> bool -> pyval) (e : tenv),
    env_ok other_obj e = true -> heap_installed other_obj e (fast_heap1 other_obj e).
Proof. exact heap1_installed. Qed.

Print Assumptions C10_fast_src_create.
Print Assumptions C10_fast_src_create_fresh.
Print Assumptions C10_fast_src_installed.
Print Assumptions C10_fast_src_serializer.
Print Assumptions C10_fast_src_compact.
Print Assumptions C10_fast_src_init.
Print Assumptions C10_fast_src_heap0.
Print Assumptions C10_fast_src_heap1.
