(* Property C04 — immutable structures and immutable fields never change after construction.
   Only the property theorems; each is closed by [exact] of a lemma of Struct/HandlesProofs.v and
   followed by Print Assumptions.  The model (Struct/Handles.v) is a capability model: the world is
   (internal state of the field, handles held by the client); what an accessor hands out and what a
   mutator does is computed from the GENERATED tables of Gen/Tables.v carried by [cfg]. *)
From Coq Require Import ZArith String List Bool.
Import ListNotations.
From TP Require Import Base.PyVal Struct.Shapes Struct.Handles Struct.HandlesProofs Struct.HandlesToday Gen.Tables Gen.TablesC04.
From TP Require Import Base.PyOps Base.PyOps2 Base.PyObj Fields.FieldAst Struct.Instance Gen.StructGuards Struct.StructGuardProofs.

(* The full statement of C04 over the model: for every class shape of an immutable class / field and
   EVERY finite sequence of client operations, the abstract state never changes.  It is FALSE of the
   faithful model of the pinned tree (see the _refuted theorems): the code has holes. *)
Definition C04_statement (c : cfg) : Prop :=
  c_struct_imm c || c_field_imm c = true ->
  forall d ops, abs (run c ops (world_of c d)) = abs (world_of c d).

(* Characterisation.  If the world is safe (nothing handed out so far is Live; the stored value, when
   Field.__get__ returns it un-copied, protects itself and everything its accessors hand out) and every
   operation's entry point is guard-shaped in the generated tables, then for EVERY finite operation
   sequence (SetAttr / DelAttr / DelItem / Read / any accessor on any handle / any mutator on any handle
   / mutation of constructor arguments / pickle round trip): the abstract state is unchanged, the client
   never holds a Live handle, and the world stays safe. *)
Theorem C04_invariant : forall c w0 ops,
    world_safe c w0 = true -> forallb (op_ok c) ops = true ->
    abs (run c ops w0) = abs w0 /\ has_live (run c ops w0) = false /\ world_safe c (run c ops w0) = true.
Proof. exact invariant. Qed.

(* If every entry of the generated tables is guard-shaped there is no restriction on the operations. *)
Theorem C04_invariant_tables : forall c w0 ops,
    world_safe c w0 = true -> tables_guarded c = true ->
    abs (run c ops w0) = abs w0 /\ has_live (run c ops w0) = false.
Proof. exact invariant_tables. Qed.

(* Witnesses: every table entry that is not guard-shaped really is a hole of the model. *)
Theorem C04_witness_mutator : forall c k m s new,
    wrapper_kind k = true ->
    alist_get (c_muts c k) m = Some s -> shape_guarded s = false ->
    let root := Box k (Wrap true BReal) [Atom 1] in
    read_raw c root = true -> new <> [Atom 1] ->
    abs (run c [ORead; OMut 0 m new] (top_world root)) <> abs (top_world root).
Proof. exact witness_mutator. Qed.

Theorem C04_witness_accessor : forall c k a sh rk m new,
    wrapper_kind k = true ->
    alist_get (c_accs c k) a = Some (sh, rk) -> (sh = ANotOverridden \/ sh = AUnrecognised) ->
    str_in m (c_base_muts c KList) = true ->
    let root := Box k (Wrap true BReal) [Box KList NoWrap [Atom 1]] in
    read_raw c root = true -> new <> [Atom 1] ->
    has_live (run c [ORead; OAcc 0 a 0] (top_world root)) = true /\
    abs (run c [ORead; OAcc 0 a 0; OMut 1 m new] (top_world root)) <> abs (top_world root).
Proof. exact witness_accessor. Qed.

Theorem C04_witness_read : forall c k es m new,
    (match k with KList | KDeque | KDict | KSet => true | _ => false end) = true ->
    read_raw c (Box k NoWrap es) = true ->
    str_in m (c_base_muts c k) = true -> new <> es ->
    abs (run c [ORead; OMut 0 m new] (top_world (Box k NoWrap es))) <> abs (top_world (Box k NoWrap es)).
Proof. exact witness_read. Qed.

Theorem C04_witness_delitem : forall c root,
    c_delitem_guarded c = false ->
    abs (run c [ODelItem] (top_world root)) <> abs (top_world root).
Proof. exact witness_delitem. Qed.

Theorem C04_witness_unpickle : forall c root v,
    c_field_imm c = false -> c_unpickle_keeps c = false -> v <> root ->
    abs (run c [OUnpickle; OSetAttr v] (top_world root)) <> abs (top_world root).
Proof. exact witness_unpickle. Qed.

(* Later mutation of the objects passed to the constructor of an ImmutableStructure is a mutation of
   detached objects (from the deep-copy shape of Structure.__setattr__). *)
Theorem C04_ctor_args : forall c d muts,
    c_struct_imm c = true -> c_copies_setattr c = true -> incoming_passes c d = false ->
    abs (run c (map (fun pn => OCtorArg (fst pn) (snd pn)) muts) (world_of c d)) = abs (world_of c d).
Proof. exact ctor_args_unchanged. Qed.

(* No class statement may have among its bases a user class that extends ImmutableStructure,
   FinalStructure or an ImmutableField class — over all class hierarchies. *)
Theorem C04_no_subclass : forall f bases b,
    final_cfg_ok f = true -> In b bases -> user_sealed b = true -> define_raises f bases = true.
Proof. exact no_subclass. Qed.

Theorem C04_no_subclass_definable : forall f bs b,
    final_cfg_ok f = true -> definable f (User bs) = true -> In b bs -> user_sealed b = false.
Proof. exact definable_bases_not_sealed. Qed.

(* the generated facts about _check_for_final_violations satisfy the hypothesis — re-checked each run *)
Theorem C04_final_check_today : final_cfg_ok today_final = true.
Proof. vm_compute. reflexivity. Qed.

(* ---- the tie to the source of the guards themselves, re-checked by the kernel on every run ----------
   Gen/StructGuards.v is re-generated from typedpy/structures/structures.py (harness/genmods/py2v_struct.py).
   What Structure.__setattr__, ImmutableMixin._raise_if_immutable and Field.__set__ say NOW, for every class
   description, instance state, ordinary attribute name and value: *)

(* assignment to an instantiated instance of an immutable class always raises ValueError *)
Theorem C04_src_setattr_immutable : forall c n v,
    c_immutable c = true -> ordinary_name n = true ->
    Structure__setattr (struct_heap c true) (PStr n) v = Raise ValueError.
Proof. exact generated_setattr_immutable. Qed.

(* in general the prefix of __setattr__ is the documented decision *)
Theorem C04_src_setattr : forall c inst n v,
    ordinary_name n = true ->
    Structure__setattr (struct_heap c inst) (PStr n) v = setattr_decision c inst n v.
Proof. exact generated_setattr. Qed.

(* the guard every wrapper mutator starts with raises exactly when the class or the field is immutable *)
Theorem C04_src_wrapper_guard : forall fimm cimm,
    Mixin__raise_if_immutable (wrapper_heap fimm (Some cimm)) =
    if cimm || fimm then Raise ValueError else Ok tt.
Proof. exact generated_raise_if_immutable. Qed.

(* ... and a wrapper that is bound to NO instance is guarded by the field's flag alone (the root of F5) *)
Theorem C04_src_wrapper_unbound : forall fimm,
    Mixin__is_immutable (wrapper_heap fimm None) = Ok fimm.
Proof. exact generated_is_immutable_unbound. Qed.

(* Field.__set__: an immutable field that already holds a value refuses the assignment *)
Theorem C04_src_field_set : forall fd inst a v,
    Field__set (field_heap fd inst a) v =
    if fd_immutable fd && alist_has a (fd_name fd) then Raise ValueError else Ok (v, inst).
Proof. exact generated_field_set. Qed.

(* Structure.__delitem__ on an instantiated instance: refused on an immutable class, for an immutable field and
   for a required name; only otherwise is the entry removed (and __validate__ run, a rejection restoring it) *)
Theorem C04_src_delitem : forall c n,
    Structure__delitem (delitem_heap c) (PStr n) = delitem_decision c n.
Proof. exact generated_delitem. Qed.

(* in particular del x[n] on an instance of an immutable class, or of an immutable field, always raises ValueError
   before anything is removed (F6-delitem, repaired in the library: this is the statement that fails to build if
   the immutability test disappears from __delitem__) *)
Theorem C04_src_delitem_guarded : forall c n,
    c_immutable c || field_immutable c n = true ->
    Structure__delitem (delitem_heap c) (PStr n) = Raise ValueError.
Proof. exact generated_delitem_guarded. Qed.

Print Assumptions C04_invariant.
Print Assumptions C04_src_setattr_immutable.
Print Assumptions C04_src_setattr.
Print Assumptions C04_src_wrapper_guard.
Print Assumptions C04_src_wrapper_unbound.
Print Assumptions C04_src_field_set.
Print Assumptions C04_src_delitem.
Print Assumptions C04_src_delitem_guarded.
Print Assumptions C04_invariant_tables.
Print Assumptions C04_witness_mutator.
Print Assumptions C04_witness_accessor.
Print Assumptions C04_witness_read.
Print Assumptions C04_witness_delitem.
Print Assumptions C04_witness_unpickle.
Print Assumptions C04_ctor_args.
Print Assumptions C04_no_subclass.
Print Assumptions C04_no_subclass_definable.
Print Assumptions C04_final_check_today.

(* ---- non-vacuity, on TODAY's generated tables ---- *)
(* An ImmutableStructure with a field Map[String, Array... no: Array[Integer] / Map[String, Integer] /
   Tuple[ImmutableSet-like] satisfies world_safe; a history that reads, indexes, iterates, copies,
   calls guarded mutators, assigns, deletes the attribute and mutates the constructor arguments
   satisfies op_ok; so the theorem applies and the state is unchanged. *)
Definition ex_cfg := today true false.
Definition ex_ops : list op :=
  [ ORead; OMut 0 (s2p "append") [Atom 9]; OAcc 0 (s2p "__getitem__") 0; OAcc 0 (s2p "copy") 1;
    OMut 2 (s2p "extend") [Atom 9]; OSetAttr (Atom 3); ODelAttr; OCtorArg [] [Atom 9]; OAcc 0 (s2p "__iter__") 1;
    OMut 0 (s2p "clear") []; OMut 0 (s2p "insert") [Atom 9] ].

Example C04_nonvacuous :
  world_safe ex_cfg (world_of ex_cfg (DArr DAtom)) = true /\
  world_safe ex_cfg (world_of ex_cfg (DMap DAtom)) = true /\
  world_safe ex_cfg (world_of ex_cfg (DTup DISet)) = true /\
  world_safe (today false true) (world_of (today false true) (DDeq DAtom)) = true /\
  forallb (op_ok ex_cfg) ex_ops = true /\
  abs (run ex_cfg ex_ops (world_of ex_cfg (DArr DAtom))) = Some (build ex_cfg 0 (DArr DAtom)).
Proof. vm_compute. repeat split; reflexivity. Qed.

(* with every entry guard-shaped the unconditional form applies *)
Definition fixed_cfg : cfg :=
  {| c_struct_imm := true; c_field_imm := false;
     c_muts := fun k => map (fun e => (fst e, CopyMutateReassign true)) (today_muts k);
     c_inplace := today_inplace; c_accs := today_accs; c_base_accs := today_base_accs; c_base_muts := today_base_muts;
     c_types_get := immutable_types_get; c_copies_get := true;
     c_types_set := immutable_types_set; c_copies_set := true;
     c_types_setattr := immutable_types_setattr; c_copies_setattr := true;
     c_types_mixin := immutable_types_mixin; c_copies_mixin := true;
     c_get_field_flag := true; c_delitem_guarded := true; c_unpickle_keeps := true; c_nested_bound := true;
     c_init_copies := fun _ => true; c_map_custom_deepcopy := false |}.
Example C04_nonvacuous_tables :
  tables_guarded fixed_cfg = true /\ world_safe fixed_cfg (world_of fixed_cfg (DArr (DArr DAtom))) = true.
Proof. vm_compute. split; reflexivity. Qed.

(* ---- del x['f'] and the pickle round trip on TODAY's generated facts: both former holes (F6: __delitem__
   without an immutability test; F7: an unpickled instance without _instantiated) are closed in the library, the
   generated facts say so, and with them the two operations leave the abstract state of an immutable class /
   field unchanged for every value; a configuration in which either fact is false is refuted by
   C04_witness_delitem / C04_witness_unpickle above ---- *)
Theorem C04_delitem_unpickle_today :
  delitem_guarded = true /\ unpickle_keeps_instantiated = true.
Proof. vm_compute. split; reflexivity. Qed.

Theorem C04_delitem_refused : forall c w,
    c_delitem_guarded c = true -> c_struct_imm c || c_field_imm c = true ->
    step c w ODelItem = (w, Handles.Raised).
Proof. intros c w H1 H2. cbn [step]. rewrite H1, H2. reflexivity. Qed.

Theorem C04_delitem_refused_today : forall si fi w,
    si || fi = true -> step (today si fi) w ODelItem = (w, Handles.Raised).
Proof.
  intros si fi w H. apply C04_delitem_refused; [|exact H].
  cbn [today c_delitem_guarded]. exact (proj1 C04_delitem_unpickle_today).
Qed.

Theorem C04_unpickled_still_refuses : forall c w,
    c_unpickle_keeps c = true ->
    setattr_raises c (fst (step c w OUnpickle)) = setattr_raises c w.
Proof.
  intros c w H. cbn [step fst]. unfold setattr_raises. cbn [w_inst w_field]. rewrite H, andb_true_r. reflexivity.
Qed.
Print Assumptions C04_delitem_unpickle_today.
Print Assumptions C04_delitem_refused.
Print Assumptions C04_delitem_refused_today.
Print Assumptions C04_unpickled_still_refuses.

(* the model's prediction of the holes in today's tables (printed; the harness compares them with the
   call sites at which the implementation was seen to change) *)
Eval vm_compute in (map (fun k => length (unguarded_mutators k)) wrapper_kinds).
Eval vm_compute in (map (fun k => length (raw_accessors k)) wrapper_kinds).
Eval vm_compute in (delitem_guarded, unpickle_keeps_instantiated, nested_wrapper_bound, field_get_honours_field_flag).

(* ==== the CLASS OPTIONS Structure.__setattr__ branches on (harness/c04opts.py explores them on the implementation) ====
   The instance state has two components: the attributes and the explicit-None markers (`_none_fields`, visible in
   str / hash / == / the serialization under _enable_undefined_value): Struct/NoneFields.v.  The effect list of one
   assignment is translated from the source on every run (Gen/StructNoneFields.v). *)
From TP Require Import Struct.NoneFields Struct.NoneFieldsProofs Struct.ImmutableOptions Struct.ImmutableOptionsProofs
  Gen.StructNoneFields.

(* what the source says NOW: an instantiated instance of an immutable class refuses every assignment and BOTH state
   components stay as they were — for every class description (any _ignore_none, _additional_properties, _required),
   with or without _enable_undefined_value, every ordinary key and every value (None included) *)
Theorem C04_src_setattr_immutable_options : forall re_match e c u st n v,
    c_immutable c = true -> ordinary_name n = true ->
    run_decision re_match e c true st n (Structure__setattr_nf (undef_heap c u true (u_attrs st)) (PStr n) v)
    = (st, Instance.Raised ValueError).
Proof. exact generated_immutable_options. Qed.

(* every finite history of assignments on such an instance leaves the state as it was, and every step raises *)
Theorem C04_options_history : forall re_match e c u ops st,
    c_immutable c = true ->
    run_sets re_match e c u st ops = st /\ all_raise re_match e c u st ops = true.
Proof. exact immutable_history. Qed.

(* a field declared immutable, holding a value, inside ANY class: EVERY assignment to it leaves both components as
   they were -- also None under _enable_undefined_value, the path on which __setattr__ returns before Field.__set__
   is reached: since the repair of finding F23 that branch tests the field's immutability itself *)
Theorem C04_immutable_field_assignment : forall re_match e c u inst st n v fd,
    find_field (c_fields c) n = Some fd -> fd_immutable fd = true -> alist_has (u_attrs st) n = true ->
    fst (setattr_u re_match e c u inst st n v) = st.
Proof. exact immutable_field_setattr. Qed.

(* the source's own effect list says so (the generated translation of Structure.__setattr__, on the heap that shows
   the instance's __dict__ and the Field objects of the class) *)
Theorem C04_src_immutable_field_assignment : forall re_match e c u inst st n v fd,
    ordinary_name n = true ->
    find_field (c_fields c) n = Some fd -> fd_immutable fd = true -> alist_has (u_attrs st) n = true ->
    fst (run_decision re_match e c inst st n (Structure__setattr_nf (undef_heap c u inst (u_attrs st)) (PStr n) v)) = st.
Proof.
  intros re_match e c u inst st n v fd Hn Hf Hi Hh. rewrite (generated_setattr_nf c u inst (u_attrs st) n v Hn).
  exact (immutable_field_setattr re_match e c u inst st n v fd Hf Hi Hh).
Qed.

(* the refused marker: ValueError, both components as they were *)
Theorem C04_marker_blocked_raises : forall re_match e c u inst st n v,
    marker_blocked c u (u_attrs st) n v = true ->
    setattr_u re_match e c u inst st n v = (st, Instance.Raised ValueError).
Proof. exact marker_blocked_raises. Qed.

(* what remains of the None-marker path: for a field that is not declared immutable, or holds no value yet, the
   marker is added (the documented behaviour of _enable_undefined_value) *)
Theorem C04_none_marker_path_changes : forall re_match e c u inst st n v,
    (c_immutable c && inst) = false -> none_marker_path c u n v = true -> str_in n (u_none st) = false ->
    (alist_has (u_attrs st) n && field_immutable c n) = false ->
    setattr_u re_match e c u inst st n v = ({| u_attrs := u_attrs st; u_none := n :: u_none st |}, Instance.Done).
Proof. exact none_marker_path_changes. Qed.

(* THE STATEMENT, unconditional: every finite history of assignments (any keys, any values) leaves what the client
   sees of an immutable field holding a value -- its attribute and its None marker -- as it was.  (Until the repair
   of F23 this was refuted by x.f = None under _enable_undefined_value.) *)
Definition C04_immutable_field_statement : Prop :=
  forall re_match e c u fd n ops st,
    find_field (c_fields c) n = Some fd -> fd_immutable fd = true -> alist_has (u_attrs st) n = true ->
    field_view (run_sets re_match e c u st ops) n = field_view st n.

Theorem C04_immutable_field_history : C04_immutable_field_statement.
Proof. exact immutable_field_history. Qed.

Definition ex_opt_class := opt_class false true false true false.   (* mutable class, immutable optional field f *)
Definition ex_opt_state : ustate := {| u_attrs := [(s2p "f", PNum (NInt 3))]; u_none := [] |}.

(* non-vacuity: the hypotheses of the history theorems hold for non-trivial inputs (the former counterexample
   x.f = None included), the conclusion is not trivially about an empty state, and the marker is still added for a
   field that is not immutable *)
Example C04_options_nonvacuous :
  c_immutable (opt_class true false true true false) = true /\
  field_view (run_sets (fun _ _ => true) [] ex_opt_class true ex_opt_state
     [(s2p "f", PNum (NInt 4)); (s2p "f", PNone); (s2p "g", PNone); (s2p "f", PStr (s2p "bad")); (s2p "zz", PNum (NInt 1))]) (s2p "f")
  = (Some (PNum (NInt 3)), false) /\
  setattr_u (fun _ _ => true) [] ex_opt_class true true ex_opt_state (s2p "f") PNone = (ex_opt_state, Instance.Raised ValueError) /\
  marker_blocked ex_opt_class true (u_attrs ex_opt_state) (s2p "f") PNone = true /\
  field_view (run_sets (fun _ _ => true) [] (opt_class false false false true false) true ex_opt_state [(s2p "f", PNone)]) (s2p "f")
  = (Some (PNum (NInt 3)), true) /\
  alist_has (u_attrs (run_sets (fun _ _ => true) [] ex_opt_class true ex_opt_state [(s2p "zz", PNum (NInt 1))])) (s2p "zz") = true.
Proof. vm_compute. repeat split; reflexivity. Qed.

Print Assumptions C04_src_setattr_immutable_options.
Print Assumptions C04_options_history.
Print Assumptions C04_immutable_field_assignment.
Print Assumptions C04_src_immutable_field_assignment.
Print Assumptions C04_marker_blocked_raises.
Print Assumptions C04_immutable_field_history.
Print Assumptions C04_none_marker_path_changes.
