(* Property C14 -- the tie to typedpy's CURRENT source of the class-definition code (ready to append to Props/C14.v).
   Only re-exports: each theorem is Struct/DefineSrcProofs.v's lemma about the GENERATED translation
   (Gen/DefineSrc.v, rewritten from typedpy/structures/structures.py on every run) and the hand-written model
   Struct/Define.v on which the C14 theorems are proved.  How a model-level description is seen as the
   Python-level arguments is defined in Struct/DefineSrcProofs.v (v_names, v_params, v_keys, v_sig, genv_heap,
   members_heap, ...).  [so] is the iteration order of sets, [X] the oracle for calls the translation does not
   look into. *)
From Coq Require Import ZArith NArith String List Bool Permutation. Import ListNotations.
From TP Require Import Base.PyVal Base.PyOps Base.PyObj Base.PyOpsDerive Base.PyOpsDefine
     Fields.FieldAst Fields.SetChain Struct.Define Gen.DefineSrc Struct.DefineSrcProofs.

(* make_signature = Define.make_signature: the same optional parameters, the same **kwargs, the required
   parameters up to the order in which a set iterates, ValueError (duplicate parameter) by both or by none *)
Theorem C14_src_make_signature : forall so X h names required addl bp consts,
    so_ok so -> sig_inputs_ok names bp = true ->
    sig_agrees addl
      (DefineSrc.make_signature so X h (v_names names) (v_names required) (PBool addl) (v_params bp)
                                (v_names (bases_required bp)) (v_keys consts))
      (Define.make_signature names required bp consts).
Proof. exact make_signature_src. Qed.

(* get_base_info = base_info, whenever the model does not decline *)
Theorem C14_src_get_base_info : forall so X gd g extra bases r,
    bases_ok g extra bases = true ->
    base_info gd g bases [] false = r -> r <> Raise Unmodelled ->
    DefineSrc.get_base_info so X (genv_heap gd g extra) (PTuple (v_refs bases)) =
    match r with
    | Ok bp => Ok (PTuple [v_params bp; v_names (bases_required bp)])
    | Raise x => Raise x
    end.
Proof. exact get_base_info_src. Qed.

(* _check_for_final_violations(mro) raises TypeError exactly when final_violation holds *)
Theorem C14_src_check_final : forall so X gd g extra name mro_tail,
    DefineSrc.check_for_final_violations so X (genv_heap gd g extra) (PList (v_refs (name :: mro_tail))) =
    if final_violation g mro_tail then Raise TypeError else Ok PNone.
Proof. exact check_final_src. Qed.

(* _block_invalid_consts raises ValueError exactly when some non-field attribute of the statement is invalid_const *)
Theorem C14_src_block_invalid_consts : forall so X h s ents ann,
    annotations_are h ents ann ->
    (forall n u, In (n, u) (s_attrs s) ->
       str_in n (map fst ann) = false /\ exists v, In (n, v) ents /\ uval_matches h u v = true) ->
    (forall n v, In (n, v) ents -> bad_entry h (map fst ann) (n, v) = true ->
       exists u, In (n, u) (s_attrs s) /\ uval_matches h u v = true) ->
    DefineSrc.block_invalid_consts so X h (PDict (skeys ents)) =
    if existsb invalid_const (s_attrs s) then Raise ValueError else Ok PNone.
Proof. exact block_invalid_consts_src. Qed.

(* _apply_default_and_update_required_not_to_include_fields_with_defaults = apply_eq_default on every member,
   then own_required (as a set) *)
Theorem C14_src_apply_default : forall re_match e so X base s defs ents pre,
    so_ok so -> NoDup (map fst pre) -> defaults_normal pre = true ->
    forallb (member_ok defs) pre = true -> forallb (fun nd => eqd_plain (snd nd)) defs = true ->
    (forall n, base (fobj n) n__default = None) ->
    (forall n, In n (map fst pre) -> alist_get ents n = Some (fld_ref n)) ->
    alist_get ents (s2p "_required") = option_map v_names (s_required s) ->
    alist_get ents (s2p "_optional") = option_map v_names (s_optional s) ->
    (forall hh n fo v, alist_get pre n = Some (MField fo) ->
       X (s2p "._try_default_value") hh [fld_ref n; v] =
       match vset re_match e (fo_field fo) v with
       | Ok _ => Ok (hh, PNone, [fld_ref n; v])
       | Raise x => Raise x
       end) ->
    match mapM (apply_member re_match e defs) pre with
    | Ok own =>
        exists h' req, Permutation req (own_required s own) /\ heap_eq h' (members_heap base own) /\
          DefineSrc.apply_default_and_update_required so X (members_heap base pre) (PDict (skeys ents)) (v_defs defs)
                                                       (v_names (map fst pre)) =
          Ok (h', PNone, PDict (skeys (alist_set ents (s2p "_required") (v_names req))))
    | Raise x =>
        DefineSrc.apply_default_and_update_required so X (members_heap base pre) (PDict (skeys ents)) (v_defs defs)
                                                     (v_names (map fst pre)) = Raise x
    end.
Proof. exact apply_default_src. Qed.

(* ... and that second phase is the model's build_members once the Field constructors of the class body succeeded *)
Theorem C14_src_build_members : forall re_match e l pre,
    NoDup (map fst l) -> mapM (init_member re_match e) l = Ok pre ->
    build_members re_match e l = mapM (apply_member re_match e (eq_defs l)) pre.
Proof. exact build_members_two_phases. Qed.

(* _get_all_fields_by_name(cls): the member objects in the order and with the overriding of fields_of_mro *)
Theorem C14_src_get_all_fields_by_name : forall so X gd g extra c kc,
    find_klass g c = Some kc -> mro_plain g (k_mro kc) = true ->
    DefineSrc.get_all_fields_by_name so X (genv_heap gd g extra) (ref c) =
    Ok (PDict (skeys (v_fields_of_mro g (k_mro kc)))).
Proof. exact get_all_fields_by_name_src. Qed.

Theorem C14_src_fields_of_mro : forall g mro,
    fields_of_mro g mro = mro_fold (fun _ nm => snd nm) g mro /\
    map fst (v_fields_of_mro g mro) = map fst (fields_of_mro g mro).
Proof. exact fields_of_mro_names. Qed.

(* _instantiate_fields_if_needed leaves a class dict of Field / Constant objects and plain attributes alone *)
Theorem C14_src_instantiate_frame : forall so X h ents defs,
    (forall nv, In nv ents -> entry_left_alone X h nv) ->
    DefineSrc.instantiate_fields_if_needed so X h (PDict (skeys ents)) defs = Ok (h, PNone, PDict (skeys ents)).
Proof. exact instantiate_frame_src. Qed.

(* StructMeta.__new__, statement by statement: the field-name check ... *)
Theorem C14_src_new_field_names : forall so X ents names h,
    (forall n, In n names -> exists o, alist_get ents n = Some (ref o)) ->
    match StructMeta_new__for_field_name so X h (PDict (skeys ents)) (v_names names) with
    | Ok h' => existsb bad_field_name names = false /\ (forall o a, a <> s2p "_name" -> h' o a = h o a)
    | Raise x => x = ValueError /\ existsb bad_field_name names = true
    end.
Proof. exact new_field_names_src. Qed.

(* ... the _optional check ... *)
Theorem C14_src_new_optional_check : forall so X h breq required optional,
    StructMeta_new__for_f so X h (v_names breq) (v_names required) (v_names optional) =
    if existsb (fun f => str_in f required || str_in f breq) optional then Raise ValueError else Ok tt.
Proof. exact new_optional_check_src. Qed.

(* ... and the class attribute _required *)
Theorem C14_src_new_required_attr : forall so X h c breq required,
    so_ok so ->
    exists req, Permutation req (dedup_str (breq ++ required)) /\
      StructMeta_new__call_setattr_REQUIRED_FIELDS so X h (v_names breq) (ref c) (v_names required) =
      Ok (heap_set h c (s2p "_required") (v_names req)).
Proof. exact new_required_attr_src. Qed.

Theorem C14_src_new_required : forall so X h ents d v,
    alist_get ents (s2p "_required") = Some v ->
    StructMeta_new__set_required so X h (PDict (skeys ents)) d = Ok v.
Proof. exact new_required_src. Qed.

Print Assumptions C14_src_make_signature.
Print Assumptions C14_src_get_base_info.
Print Assumptions C14_src_check_final.
Print Assumptions C14_src_block_invalid_consts.
Print Assumptions C14_src_apply_default.
Print Assumptions C14_src_build_members.
Print Assumptions C14_src_get_all_fields_by_name.
Print Assumptions C14_src_fields_of_mro.
Print Assumptions C14_src_instantiate_frame.
Print Assumptions C14_src_new_field_names.
Print Assumptions C14_src_new_optional_check.
Print Assumptions C14_src_new_required_attr.
Print Assumptions C14_src_new_required.

(* the side conditions are satisfiable and the generated functions run: Struct/DefineSrcProofs.v
   ex_make_signature, ex_get_base_info, ex_block_invalid_consts, ex_apply_default, ex_apply_default_oracle,
   ex_new_statements *)
