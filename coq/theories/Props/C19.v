(* Property C19 — operations never mutate caller data and never hand out live internal state.
   PARTIAL by design: the theorems below cover the aliasing LOGIC (a store model with explicit sharing,
   operations given semantics by their effect summaries); which summary each typedpy operation has is
   tied to the code by the generated site facts (Gen/AliasSites.v) and by the exhaustive before/after
   differential of harness/props/c19.py.  Only property theorems here; proofs are in Struct/AliasProofs.v. *)
From Coq Require Import ZArith String List Bool.
Import ListNotations.
From TP Require Import Base.PyVal Struct.Alias Struct.AliasProofs Gen.AliasSites.

(* the full statement: EVERY operation, whatever its summary *)
Definition C19_statement : Prop :=
  forall w op, sepb w = true ->
    (forall n a, In a (acc w) -> resolve n (st (exec w op)) (ILoc a) = resolve n (st w) (ILoc a)) /\
    (forall ms n, abs_state n (run_client (exec w op) ms) = abs_state n (exec w op)).

(* characterisation: for every operation whose effect summary contains no WritesArg / RetainsArg /
   ReturnsInternal (and whose one-level copies are of reference-free containers), (1) the call leaves
   every object the caller can reach -- hence every argument -- unchanged, and (2) for ANY later sequence
   of client mutations of the arguments, of the results and of anything built from them, the abstract
   state of the instance / class is unchanged. *)
Theorem C19_noninterference : forall w op,
    sepb w = true -> summary_safe op = true -> shallow_ok w op = true ->
    (forall n a, In a (acc w) -> resolve n (st (exec w op)) (ILoc a) = resolve n (st w) (ILoc a)) /\
    (forall ms n, abs_state n (run_client (exec w op) ms) = abs_state n (exec w op)).
Proof. exact noninterference. Qed.

(* mutations alone (no operation in between): any history of client mutations, by induction on it *)
Theorem C19_client_mutations_invisible : forall w ms n,
    sepb w = true -> abs_state n (run_client w ms) = abs_state n w.
Proof. intros w ms n H. apply client_noninterference. apply sepb_sound. exact H. Qed.

(* each unsafe effect kind refutes the full statement: a constructed store and one mutation *)
Theorem C19_witness_RetainsArg :
  let w1 := exec w_retains [AStore fname RetainsArg 0] in
  abs_state 3 (run_client w1 [MWrite 0 (lst [one; poke])]) <> abs_state 3 w1.
Proof. exact witness_retains. Qed.

Theorem C19_witness_ReturnsInternal :
  sepb w_returns = true /\
  let w1 := exec w_returns [AReturn fname ReturnsInternal] in
  abs_state 3 (run_client w1 [MWrite 0 (lst [one; poke])]) <> abs_state 3 w1.
Proof. exact witness_returns. Qed.

Theorem C19_witness_WritesArg :
  sepb w_retains = true /\
  resolve 3 (st (exec w_retains [AWrite 0 (lst [])])) (ILoc 0) <> resolve 3 (st w_retains) (ILoc 0).
Proof. exact witness_writes. Qed.

Theorem C19_witness_shallow_copy_of_references :
  sepb w_shallow = true /\ summary_safe [AStore fname Copies 1] = true /\
  shallow_ok w_shallow [AStore fname Copies 1] = false /\
  let w1 := exec w_shallow [AStore fname Copies 1] in
  abs_state 4 (run_client w1 [MWrite 0 (lst [one; poke])]) <> abs_state 4 w1.
Proof. exact witness_shallow. Qed.

Theorem C19_refuted : ~ C19_statement.
Proof.
  intro H. destruct (H w_returns [AReturn fname ReturnsInternal] (proj1 witness_returns)) as [_ H2].
  exact (proj2 witness_returns (H2 [MWrite 0 (lst [one; poke])] 3)).
Qed.

Print Assumptions C19_noninterference.
Print Assumptions C19_client_mutations_invisible.
Print Assumptions C19_witness_RetainsArg.
Print Assumptions C19_witness_ReturnsInternal.
Print Assumptions C19_witness_WritesArg.
Print Assumptions C19_witness_shallow_copy_of_references.
Print Assumptions C19_refuted.

(* non-vacuity: a separated world, an operation with three copying steps (store an argument, return a
   one-level copy, return a deep copy) satisfies every hypothesis; the client then overwrites its
   argument, one result, allocates, and tries to write an internal location it cannot reach *)
Example C19_nonvacuous :
  sepb w_ok = true /\ summary_safe op_ok = true /\ shallow_ok w_ok op_ok = true /\
  acc (exec w_ok op_ok) = [4; 3; 0] /\
  abs_state 3 (run_client (exec w_ok op_ok) [MWrite 0 (lst []); MWrite 3 (lst [poke]); MAlloc (lst []); MWrite 1 (lst [poke])])
  = [(fname, PList [one; one]); (s2p "g"%string, PList [one])].
Proof. exact nonvacuous. Qed.

(* the sites of the CURRENT source tree the model regards as unsafe (evaluated by the harness each run) *)
Definition C19_unsafe_sites_now := unsafe_sites alias_sites.
