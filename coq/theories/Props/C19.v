(* Property C19 — operations never mutate caller data and never hand out live internal state.
   PARTIAL by design: the theorems below cover the aliasing LOGIC (a store model with explicit sharing,
   operations given semantics by their effect summaries); which summary each typedpy operation has is
   tied to the code by the generated site facts (Gen/AliasSites.v) and by the exhaustive before/after
   differential of harness/props/c19.py.  Only property theorems here; proofs are in Struct/AliasProofs.v. *)
From Coq Require Import ZArith String List Bool.
Import ListNotations.
From TP Require Import Base.PyVal Struct.Alias Struct.AliasProofs Struct.AliasIntake Struct.AliasIntakeProofs Gen.AliasSites
     Gen.AliasTables Struct.AliasIntakeToday.

(* the full statement: EVERY operation, whatever its summary *)
Definition C19_statement : Prop :=
  forall w op, sepb w = true ->
    (forall n a, In a (acc w) -> resolve n (st (exec w op)) (ILoc a) = resolve n (st w) (ILoc a)) /\
    (forall ms n, abs_state n (run_client (exec w op) ms) = abs_state n (exec w op)).

(* characterisation: for every operation whose effect summary contains no WritesArg / RetainsArg /
   ReturnsInternal (and whose one-level copies are of reference-free containers), (1) the call leaves
   every object the caller can reach -- hence every argument -- unchanged, and (2) for ANY later sequence
   of client mutations of the arguments, of the results and of anything built from them, the abstract
   state of the instance / class is unchanged. *)
Theorem C19_noninterference : forall w op,
    sepb w = true -> summary_safe op = true -> shallow_ok w op = true ->
    (forall n a, In a (acc w) -> resolve n (st (exec w op)) (ILoc a) = resolve n (st w) (ILoc a)) /\
    (forall ms n, abs_state n (run_client (exec w op) ms) = abs_state n (exec w op)).
Proof. exact noninterference. Qed.

(* mutations alone (no operation in between): any history of client mutations, by induction on it *)
Theorem C19_client_mutations_invisible : forall w ms n,
    sepb w = true -> abs_state n (run_client w ms) = abs_state n w.
Proof. intros w ms n H. apply client_noninterference. apply sepb_sound. exact H. Qed.

(* each unsafe effect kind refutes the full statement: a constructed store and one mutation *)
Theorem C19_witness_RetainsArg :
  let w1 := exec w_retains [AStore fname RetainsArg 0] in
  abs_state 3 (run_client w1 [MWrite 0 (lst [one; poke])]) <> abs_state 3 w1.
Proof. exact witness_retains. Qed.

Theorem C19_witness_ReturnsInternal :
  sepb w_returns = true /\
  let w1 := exec w_returns [AReturn fname ReturnsInternal] in
  abs_state 3 (run_client w1 [MWrite 0 (lst [one; poke])]) <> abs_state 3 w1.
Proof. exact witness_returns. Qed.

Theorem C19_witness_WritesArg :
  sepb w_retains = true /\
  resolve 3 (st (exec w_retains [AWrite 0 (lst [])])) (ILoc 0) <> resolve 3 (st w_retains) (ILoc 0).
Proof. exact witness_writes. Qed.

Theorem C19_witness_shallow_copy_of_references :
  sepb w_shallow = true /\ summary_safe [AStore fname Copies 1] = true /\
  shallow_ok w_shallow [AStore fname Copies 1] = false /\
  let w1 := exec w_shallow [AStore fname Copies 1] in
  abs_state 4 (run_client w1 [MWrite 0 (lst [one; poke])]) <> abs_state 4 w1.
Proof. exact witness_shallow. Qed.

Theorem C19_refuted : ~ C19_statement.
Proof.
  intro H. destruct (H w_returns [AReturn fname ReturnsInternal] (proj1 witness_returns)) as [_ H2].
  exact (proj2 witness_returns (H2 [MWrite 0 (lst [one; poke])] 3)).
Qed.

(* ------------------------------------------------------------------------------------------------
   Intake: what an instance keeps of the value it is given (Struct/AliasIntake.v).  [retains] is the
   executable model of typedpy's defensive-copy decisions -- Structure.__setattr__, Field.__set__,
   ImmutableMixin._get_defensive_copy_if_needed and the wrappers' __init__ -- parametric in the isinstance
   tables GENERATED from the source (Gen/AliasTables.v), for every owner kind, declared field type and shape
   of the argument value (tuples / frozensets holding mutable objects included).  The harness compares it
   with the implementation case by case; the theorems below say which tables are safe, for ALL types and
   ALL values, and give a leaking value for every unsafe table entry. *)

(* an ImmutableStructure whose Structure.__setattr__ exempts only atomic types shares nothing with its
   constructor arguments / the deserialized document, whatever the field types and the values *)
Theorem C19_immutable_structure_intake_safe : forall sv tb deser t v,
    struct_gate_ok tb = true -> retains sv tb OwnImmStruct deser t v = false.
Proof. exact immstruct_safe. Qed.

(* ... and every other entry of that table leaks: a value of the exempted type through which the caller
   still reaches an object stored in the immutable instance (tuple -> a tuple holding a list, ...) *)
Theorem C19_immutable_structure_exemption_leaks : forall sv tb y,
    atomic_ty y = false -> In y (t_setattr tb) ->
    pyty_of (witness_of y) = (match y with YUnknownTy => YList | _ => y end) /\
    retains sv tb OwnImmStruct false TAny (witness_of y) = true.
Proof. exact immstruct_leaks_typed. Qed.

(* a field declared immutable (ImmutableField mixin), at every nesting depth *)
Theorem C19_immutable_field_intake_safe : forall sv tb deser t v,
    sites_intake_ok sv = true -> field_gates_ok tb = true ->
    retains sv tb OwnImmField deser t v = false.
Proof. exact immfield_safe. Qed.

Theorem C19_immutable_field_exemption_leaks : forall sv tb y,
    atomic_ty y = false -> In y (t_set tb) ->
    retains sv tb OwnImmField false TAny (witness_of y) = true.
Proof. exact immfield_leaks. Qed.

(* The tables GENERATED from the current source (Gen/AliasTables.v, Gen/AliasSites.v) satisfy the hypotheses of
   the two safety theorems: an ImmutableStructure, and a field declared immutable, keep nothing of the value they
   are given -- for ALL declared types and ALL values (wrappers of other structures' fields, tuples holding
   lists, untyped maps ... included).  Re-checked by the kernel on every run. *)
Theorem C19_immutable_structure_intake_safe_now : forall deser t v,
    retains alias_sites copy_tables OwnImmStruct deser t v = false.
Proof. exact immstruct_safe_today. Qed.

Theorem C19_immutable_field_intake_safe_now : forall deser t v,
    retains alias_sites copy_tables OwnImmField deser t v = false.
Proof. exact immfield_safe_today. Qed.

(* Map fields are skipped by Field.__set__'s copy; unless _DictStruct.__init__ copies, an untyped ImmutableMap shares
   the caller's values *)
Theorem C19_immutable_map_leaks : forall sv tb deser,
    t_map_custom tb = true -> t_dict_gate tb = false ->
    retains sv tb OwnImmField deser (TMap None) (VDict [VList [VAtom]]) = true.
Proof. exact immutable_map_leaks. Qed.

(* a mutable owner: a field type with no untyped position at any depth is rebuilt level by level, so nothing of a
   well-shaped argument is shared (induction over the declared type, nested through items / fields) *)
Theorem C19_plain_typed_intake_safe : forall sv tb deser t v,
    sites_intake_ok sv = true -> typed_inside t = true -> shape_ok deser t v = true ->
    retains sv tb OwnPlain deser t v = false.
Proof. exact plain_typed_safe. Qed.

Print Assumptions C19_noninterference.
Print Assumptions C19_client_mutations_invisible.
Print Assumptions C19_witness_RetainsArg.
Print Assumptions C19_witness_ReturnsInternal.
Print Assumptions C19_witness_WritesArg.
Print Assumptions C19_witness_shallow_copy_of_references.
Print Assumptions C19_refuted.

Print Assumptions C19_immutable_structure_intake_safe.
Print Assumptions C19_immutable_structure_exemption_leaks.
Print Assumptions C19_immutable_field_intake_safe.
Print Assumptions C19_immutable_field_exemption_leaks.
Print Assumptions C19_immutable_map_leaks.
Print Assumptions C19_immutable_structure_intake_safe_now.
Print Assumptions C19_immutable_field_intake_safe_now.
Print Assumptions C19_plain_typed_intake_safe.

(* non-vacuity: a separated world, an operation with three copying steps (store an argument, return a
   one-level copy, return a deep copy) satisfies every hypothesis; the client then overwrites its
   argument, one result, allocates, and tries to write an internal location it cannot reach *)
Example C19_nonvacuous :
  sepb w_ok = true /\ summary_safe op_ok = true /\ shallow_ok w_ok op_ok = true /\
  acc (exec w_ok op_ok) = [4; 3; 0] /\
  abs_state 3 (run_client (exec w_ok op_ok) [MWrite 0 (lst []); MWrite 3 (lst [poke]); MAlloc (lst []); MWrite 1 (lst [poke])])
  = [(fname, PList [one; one]); (s2p "g"%string, PList [one])].
Proof. exact nonvacuous. Qed.

(* the sites of the CURRENT source tree the model regards as unsafe (evaluated by the harness each run) *)
Definition C19_unsafe_sites_now := unsafe_sites alias_sites.

(* non-vacuity of the intake theorems: a table set satisfying every hypothesis (the library's, since a wrapper is
   exempt only when it is itself immutable and _DictStruct.__init__ copies), a nested type and a value full of mutable objects under tuples; and the pinned tree's
   tables with `tuple` added to Structure.__setattr__'s exemptions, on which the same value leaks *)
Definition tables_ok : ctables :=
  {| t_setattr := [YScalar; YImmStruct; YImmWrapper]; t_setattr_copies := true;
     t_set := [YScalar; YImmStruct; YImmWrapper]; t_set_copies := true;
     t_mixin := [YScalar; YTuple; YImmWrapper; YImmStruct]; t_mixin_copies := true;
     t_list_gate := true; t_deque_gate := true; t_dict_gate := true; t_map_custom := true |}.
Definition tables_tuple_exempt : ctables :=
  {| t_setattr := [YWrapper; YImmStruct; YScalar; YTuple]; t_setattr_copies := true;
     t_set := [YWrapper; YScalar; YImmStruct]; t_set_copies := true;
     t_mixin := [YScalar; YTuple; YWrapper; YImmStruct]; t_mixin_copies := true;
     t_list_gate := true; t_deque_gate := true; t_dict_gate := false; t_map_custom := true |}.
Definition sites_ok_example : sites :=
  {| s_liststruct_init := Copies; s_dictstruct_init := Copies; s_array_set_wraps := true; s_map_set_wraps := true;
     s_array_ser_scalar := Copies; s_array_ser_items := Copies; s_array_ser_noitems := ReturnsInternal;
     s_map_ser_items := Copies; s_regular_ser_list := Copies; s_regular_ser_map := Copies;
     s_convert_dict := DeepCopies; s_convert_step := DeepCopies; s_code_required := Copies;
     s_schema_required := Copies; s_schema_default := DeepCopies; s_trusted_array := RetainsArg |}.
Definition nested_ty : aty := TTuple [TAny; TArray (Some (TMap (Some TAny)))].
Definition nested_val : vshape := VTuple [VTuple [VList [VAtom]; VAtom]; VList [VDict [VTuple [VDict [VAtom]]]]].

Example C19_intake_nonvacuous :
  struct_gate_ok tables_ok = true /\ field_gates_ok tables_ok = true /\ sites_intake_ok sites_ok_example = true /\
  shape_ok false nested_ty nested_val = true /\ mutable_reach nested_val = true /\
  retains sites_ok_example tables_ok OwnPlain false nested_ty nested_val = true /\
  retains sites_ok_example tables_ok OwnImmStruct false nested_ty nested_val = false /\
  retains sites_ok_example tables_ok OwnImmField false nested_ty nested_val = false /\
  struct_gate_ok tables_tuple_exempt = false /\
  retains sites_ok_example tables_tuple_exempt OwnImmStruct false nested_ty nested_val = true /\
  retains sites_ok_example tables_tuple_exempt OwnImmStruct false TAny (VTuple [VAtom; VAtom]) = false /\
  typed_inside (TArray (Some (TTuple [TScalar true; TMap (Some (TScalar true))]))) = true /\
  shape_ok false (TArray (Some (TTuple [TScalar true; TMap (Some (TScalar true))])))
           (VList [VTuple [VAtom; VDict [VAtom; VAtom]]]) = true /\
  (* the live value of another instance's Array[Map[str, Array[int]]] field handed to a typed field: rebuilt *)
  shape_ok false (TArray (Some (TMap (Some (TArray (Some (TScalar true)))))))
           (VWrapper [VWrapper [VWrapper [VAtom]]; VWrapper [VWrapper []]]) = true /\
  mutable_reach (VWrapper [VWrapper [VWrapper [VAtom]]]) = true /\
  retains sites_ok_example tables_ok OwnPlain false (TArray (Some (TMap (Some (TArray (Some (TScalar true)))))))
          (VWrapper [VWrapper [VWrapper [VAtom]]; VWrapper [VWrapper []]]) = false /\
  (* ... while an UNTYPED Array keeps the donor's inner wrappers *)
  retains sites_ok_example tables_ok OwnPlain false (TArray None) (VWrapper [VWrapper [VAtom]]) = true.
Proof. vm_compute. repeat split. Qed.

(* ---- generated layer, round 4: the collection wrappers' __init__ / copy / __deepcopy__ / pickle support re-translated from the source on every run (harness/genmods/py2v_alias.py -> Gen/AliasSrc.v) into the identity heap of Struct/CopyHeap.v; bridging lemmas in Struct/AliasSrcProofs.v ---- *)
From TP Require Import Base.PyOpsAlias Gen.AliasSrc Struct.AliasSrcProofs.

Theorem C19_src_is_immutable :
  forall (E : aenv)
           (rec : CopyHeap.heap -> CopyHeap.child -> res (CopyHeap.heap * CopyHeap.child)) 
           (b : aval) (fimm : bool) (ib : ibind) (nm : aval) (h : CopyHeap.heap),
         Src_ImmutableMixin_is_immutable E rec (wview b fimm ib nm) h = Ok (h, abool (simm fimm ib)).
Proof. exact src_is_immutable. Qed.

(* _get_defensive_copy_if_needed on a fresh plain container deep-copies exactly when the wrapper is bound to an immutable owner / field *)
Theorem C19_src_defensive_copy_fresh :
  forall (E : aenv)
           (rec : CopyHeap.heap -> CopyHeap.child -> res (CopyHeap.heap * CopyHeap.child)) 
           (b : aval) (fimm : bool) (ib : ibind) (nm : aval) (k : CopyHeap.okind)
           (kids : list (pystr * CopyHeap.child)) (h : CopyHeap.heap),
         plain_kind k = true ->
         Src_ImmutableMixin_get_defensive_copy_if_needed E rec (wview b fimm ib nm) (ATmp k kids) h =
         (if simm fimm ib then a_deepcopy rec (ATmp k kids) h else Ok (h, ATmp k kids)).
Proof. exact src_defcopy_tmp. Qed.

(* ... and on a heap value exactly when that holds and the value is not of an exempt type *)
Theorem C19_src_defensive_copy_child :
  forall (tbl : CopyHeap.loc -> option wbind) (ia : CopyHeap.loc -> pystr -> option pyval)
           (df : pystr -> option pyval)
           (rec : CopyHeap.heap -> CopyHeap.child -> res (CopyHeap.heap * CopyHeap.child)) 
           (b : aval) (fimm : bool) (ib : ibind) (nm : aval) (c : CopyHeap.child) 
           (h : CopyHeap.heap),
         Src_ImmutableMixin_get_defensive_copy_if_needed (env_of tbl ia df) rec 
           (wview b fimm ib nm) (AV c) h =
         match exempt tbl h c with
         | Ok ex => if negb ex && simm fimm ib then a_deepcopy rec (AV c) h else Ok (h, AV c)
         | Raise e => Raise e
         end.
Proof. exact src_defcopy_child. Qed.

(* copy() yields a new plain container of the items, never the live wrapper *)
Theorem C19_src_list_copy :
  forall (E : aenv)
           (rec : CopyHeap.heap -> CopyHeap.child -> res (CopyHeap.heap * CopyHeap.child))
           (fimm : bool) (ib : ibind) (nm : aval) (l : CopyHeap.loc) (h : CopyHeap.heap)
           (o : CopyHeap.obj),
         CopyHeap.get h l = Some o ->
         CopyHeap.o_kind o = CopyHeap.KWList ->
         Src_ListStruct_copy E rec (wview (AV (CopyHeap.CRef l)) fimm ib nm) h =
         lift_kids (opt_copy (simm fimm ib) rec h (CopyHeap.o_kids o))
           (fun (h1 : CopyHeap.heap) (ks : list (pystr * CopyHeap.child)) =>
            Ok (h1, ATmp CopyHeap.KList ks)).
Proof. exact src_list_copy. Qed.

Theorem C19_src_list_copy_fresh :
  forall (E : aenv)
           (rec : CopyHeap.heap -> CopyHeap.child -> res (CopyHeap.heap * CopyHeap.child))
           (fimm : bool) (ib : ibind) (nm : aval) (l : CopyHeap.loc) (h : CopyHeap.heap)
           (o : CopyHeap.obj),
         simm fimm ib = false ->
         CopyHeap.get h l = Some o ->
         CopyHeap.o_kind o = CopyHeap.KWList ->
         (r <~ Src_ListStruct_copy E rec (wview (AV (CopyHeap.CRef l)) fimm ib nm);; a_to_child r) h =
         Ok
           (CopyHeap.alloc h
              {| CopyHeap.o_kind := CopyHeap.KList; CopyHeap.o_kids := CopyHeap.o_kids o |}).
Proof. exact src_list_copy_fresh. Qed.

Theorem C19_src_deque_copy :
  forall (E : aenv)
           (rec : CopyHeap.heap -> CopyHeap.child -> res (CopyHeap.heap * CopyHeap.child))
           (fimm : bool) (ib : ibind) (nm : aval) (l : CopyHeap.loc) (h : CopyHeap.heap)
           (o : CopyHeap.obj),
         defaults_ok E = true ->
         simm fimm ib = false ->
         CopyHeap.get h l = Some o ->
         CopyHeap.o_kind o = CopyHeap.KWDeque ->
         Src_DequeStruct_copy E rec (wview (AV (CopyHeap.CRef l)) fimm ib nm) h =
         Ok (h, ATmp CopyHeap.KDeque (unlabel (CopyHeap.o_kids o))).
Proof. exact src_deque_copy. Qed.

Theorem C19_src_dict_copy :
  forall (tb : CopyHeap.loc -> wbind) (ia : CopyHeap.loc -> pystr -> option pyval)
           (df : pystr -> option pyval)
           (rec : CopyHeap.heap -> CopyHeap.child -> res (CopyHeap.heap * CopyHeap.child))
           (fimm : bool) (ib : ibind) (nm : aval) (l : CopyHeap.loc) (h : CopyHeap.heap)
           (o : CopyHeap.obj),
         CopyHeap.get h l = Some o ->
         CopyHeap.o_kind o = CopyHeap.KWDict ->
         Src_DictStruct_copy (env_of (fun l0 : CopyHeap.loc => Some (tb l0)) ia df) rec
           (wview (AV (CopyHeap.CRef l)) fimm ib nm) h =
         lift_kids (opt_copy (simm fimm ib) rec h (CopyHeap.o_kids o))
           (fun (h1 : CopyHeap.heap) (ks : list (pystr * CopyHeap.child)) =>
            Ok (h1, ATmp CopyHeap.KDict ks)).
Proof. exact src_dict_copy. Qed.

(* the pickled state holds a new list, not the wrapper *)
Theorem C19_src_list_getstate :
  forall (E : aenv)
           (rec : CopyHeap.heap -> CopyHeap.child -> res (CopyHeap.heap * CopyHeap.child))
           (fimm : bool) (ib : ibind) (nm : aval) (l : CopyHeap.loc) (h : CopyHeap.heap)
           (o : CopyHeap.obj),
         CopyHeap.get h l = Some o ->
         CopyHeap.o_kind o = CopyHeap.KWList ->
         Src_ListStruct_getstate E rec (wview (AV (CopyHeap.CRef l)) fimm ib nm) h =
         lift_kids (opt_copy (simm fimm ib) rec h (CopyHeap.o_kids o))
           (fun (h1 : CopyHeap.heap) (ks : list (pystr * CopyHeap.child)) =>
            Ok
              (h1,
               ADict
                 [(s2p "the_instance", inst_of ib); (s2p "the_array", fdesc fimm);
                  (s2p "the_name", nm); (s2p "the_values", ATmp CopyHeap.KList ks)])).
Proof. exact src_list_getstate. Qed.

Theorem C19_src_list_setstate :
  forall (E : aenv)
           (rec : CopyHeap.heap -> CopyHeap.child -> res (CopyHeap.heap * CopyHeap.child))
           (fimm : bool) (ib : ibind) (nm : aval) (ks : list (pystr * CopyHeap.child))
           (h : CopyHeap.heap),
         (s <~
          Src_ListStruct_setstate E rec (AObj [])
            (ADict
               [(s2p "the_instance", inst_of ib); (s2p "the_array", fdesc fimm);
                (s2p "the_name", nm); (s2p "the_values", ATmp CopyHeap.KList ks)]);;
          r <~ a_finish_new CopyHeap.KWList s;; a_to_child r) h =
         Ok
           (CopyHeap.alloc h {| CopyHeap.o_kind := CopyHeap.KWList; CopyHeap.o_kids := unlabel ks |}).
Proof. exact src_list_setstate. Qed.

Print Assumptions C19_src_is_immutable.
Print Assumptions C19_src_defensive_copy_fresh.
Print Assumptions C19_src_defensive_copy_child.
Print Assumptions C19_src_list_copy.
Print Assumptions C19_src_list_copy_fresh.
Print Assumptions C19_src_deque_copy.
Print Assumptions C19_src_dict_copy.
Print Assumptions C19_src_list_getstate.
Print Assumptions C19_src_list_setstate.

(* ---- generated layer, round 5: the INTAKE sites (Field.__set__, extract_field_value, the __set__ of the collection
   fields) re-translated from the source on every run (harness/genmods/py2v_alias_intake.py -> Gen/AliasIntakeSrc.v)
   into the identity heap of Struct/CopyHeap.v; bridging lemmas in Struct/AliasIntakeSrcProofs.v ---- *)
From TP Require Import Base.PyOpsAliasIntake Gen.AliasIntakeSrc Struct.AliasIntakeSrcProofs.

(* the element loop of a typed Array / Deque REBUILDS: a new list holding what the item field's own __set__ stores
   for each element, in order -- never the caller's list *)
Theorem C19_src_intake_extract_rebuilds :
  forall (E : aenv) (CK : checks) (recf : nat -> CopyHeap.heap -> CopyHeap.child -> res (CopyHeap.heap * CopyHeap.child))
         (rec : CopyHeap.heap -> CopyHeap.child -> res (CopyHeap.heap * CopyHeap.child)) (sup : aval -> aval -> aval -> M aval)
         (fimm custom : bool) (nm : pystr) (f : nat) (u ad : aval) (l : CopyHeap.loc) (h : CopyHeap.heap) (o : CopyHeap.obj) (n0 : pystr),
    CopyHeap.get h l = Some o -> CopyHeap.o_kind o = CopyHeap.KList ->
    Src_extract_field_value E CK recf rec sup (fself fimm custom nm (item_field f n0) u ad) (AV (CopyHeap.CRef l)) (AClass CopyHeap.KList) h =
    lift_kids (map_kidsR (recf f) h (unlabel (CopyHeap.o_kids o))) (fun h1 ks => Ok (h1, ATmp CopyHeap.KList ks)).
Proof. exact src_extract_field_value. Qed.

(* Field.__set__ of a field not declared immutable (or a Map) RETAINS the object it is handed (AliasIntake: fset_passes) *)
Theorem C19_src_intake_field_set_retains :
  forall (E : aenv) (CK : checks) (recf : nat -> CopyHeap.heap -> CopyHeap.child -> res (CopyHeap.heap * CopyHeap.child))
         (rec : CopyHeap.heap -> CopyHeap.child -> res (CopyHeap.heap * CopyHeap.child)) (sup : aval -> aval -> aval -> M aval)
         (nm : pystr) (items u ad : aval) (ia : list (pystr * aval)),
    uniq_off E -> constructing ia ->
    forall (fimm custom : bool) (v : aval) (h : CopyHeap.heap),
    fimm && negb custom = false -> (fimm = true -> alist_get ia nm = None) ->
    pystr_eqb nm (s2p "_instantiated") = false ->
    Src_Field_set E CK recf rec sup (fself fimm custom nm items u ad) (AObj ia) v h = Ok (h, AObj (alist_set ia nm v)).
Proof. exact src_field_set_plain. Qed.

(* Field.__set__ of a field declared immutable keeps a DEEP COPY of every value that is not of an exempt type *)
Theorem C19_src_intake_field_set_immutable_copies :
  forall (E : aenv) (CK : checks) (recf : nat -> CopyHeap.heap -> CopyHeap.child -> res (CopyHeap.heap * CopyHeap.child))
         (rec : CopyHeap.heap -> CopyHeap.child -> res (CopyHeap.heap * CopyHeap.child)) (sup : aval -> aval -> aval -> M aval)
         (nm : pystr) (items u ad : aval) (ia : list (pystr * aval)),
    constructing ia ->
    forall (c : CopyHeap.child) (h : CopyHeap.heap),
    alist_get ia nm = None -> pystr_eqb nm (s2p "_instantiated") = false ->
    CopyHeap.child_isinstance h c [CopyHeap.TImmMixin] = false ->
    Src_Field_set E CK recf rec sup (fself true false nm items u ad) (AObj ia) (AV c) h =
    if CopyHeap.child_isinstance h c set_exempt_tys then Ok (h, AObj (alist_set ia nm (AV c)))
    else match rec h c with
         | Ok (h1, c1) => Ok (h1, AObj (alist_set ia nm (AV c1)))
         | Raise e => Raise (if exn_eqb e TypeError then TypeError else e)
         end.
Proof. exact src_field_set_immutable. Qed.

Print Assumptions C19_src_intake_extract_rebuilds.
Print Assumptions C19_src_intake_field_set_retains.
Print Assumptions C19_src_intake_field_set_immutable_copies.

(* ---- round 6: the whole Array intake, universally (Struct/AliasIntakeSrcProofs.v) ---- *)

(* Array[item field #f].__set__ on the caller's plain list: the instance holds a NEW _ListStruct, allocated after
   everything the item field allocated, over what the item field's __set__ stored for each element *)
Theorem C19_src_intake_array_typed :
  forall (E : aenv) (CK : checks) (recf : nat -> CopyHeap.heap -> CopyHeap.child -> res (CopyHeap.heap * CopyHeap.child))
         (rec : CopyHeap.heap -> CopyHeap.child -> res (CopyHeap.heap * CopyHeap.child)) (sup0 : aval -> aval -> aval -> M aval)
         (nm : pystr) (u ad : aval) (ia : list (pystr * aval)),
    checks_pass CK -> uniq_off E -> plain_owner ia -> pystr_eqb nm (s2p "_instantiated") = false ->
    forall (f : nat) (n0 : pystr) (l : CopyHeap.loc) (h : CopyHeap.heap) (o : CopyHeap.obj),
    CopyHeap.get h l = Some o -> CopyHeap.o_kind o = CopyHeap.KList ->
    Src_Array_set E CK recf rec (Src_Field_set E CK recf rec sup0)
                  (fself false false nm (item_field f n0) u ad) (AObj ia) (AV (CopyHeap.CRef l)) h =
    lift_kids (map_kidsR (recf f) h (unlabel (CopyHeap.o_kids o)))
      (fun h1 ks => Ok ((h1 ++ [{| CopyHeap.o_kind := CopyHeap.KWList; CopyHeap.o_kids := unlabel ks |}])%list,
                        AObj (alist_set ia nm (AV (CopyHeap.CRef (List.length h1)))))).
Proof. exact src_array_set_typed. Qed.

(* an untyped Array: a NEW _ListStruct over the caller's items themselves (the elements are shared, as
   AliasIntake.pos predicts at TArray None; the list is not) *)
Theorem C19_src_intake_array_untyped :
  forall (E : aenv) (CK : checks) (recf : nat -> CopyHeap.heap -> CopyHeap.child -> res (CopyHeap.heap * CopyHeap.child))
         (rec : CopyHeap.heap -> CopyHeap.child -> res (CopyHeap.heap * CopyHeap.child)) (sup0 : aval -> aval -> aval -> M aval)
         (nm : pystr) (u ad : aval) (ia : list (pystr * aval)),
    checks_pass CK -> uniq_off E -> plain_owner ia -> pystr_eqb nm (s2p "_instantiated") = false ->
    forall (l : CopyHeap.loc) (h : CopyHeap.heap) (o : CopyHeap.obj),
    CopyHeap.get h l = Some o -> CopyHeap.o_kind o = CopyHeap.KList ->
    Src_Array_set E CK recf rec (Src_Field_set E CK recf rec sup0)
                  (fself false false nm anone u ad) (AObj ia) (AV (CopyHeap.CRef l)) h =
    Ok ((h ++ [{| CopyHeap.o_kind := CopyHeap.KWList; CopyHeap.o_kids := unlabel (CopyHeap.o_kids o) |}])%list,
        AObj (alist_set ia nm (AV (CopyHeap.CRef (List.length h))))).
Proof. exact src_array_set_untyped. Qed.

(* ... in the terms of the separation model: the stored location did not exist before the call, is a _ListStruct over
   the item field's outputs, and the caller's list is unchanged *)
Theorem C19_src_intake_array_typed_fresh :
  forall (E : aenv) (CK : checks) (recf : nat -> CopyHeap.heap -> CopyHeap.child -> res (CopyHeap.heap * CopyHeap.child))
         (rec : CopyHeap.heap -> CopyHeap.child -> res (CopyHeap.heap * CopyHeap.child)) (sup0 : aval -> aval -> aval -> M aval)
         (nm : pystr) (u ad : aval) (ia : list (pystr * aval)) (f : nat) (n0 : pystr)
         (l : CopyHeap.loc) (h : CopyHeap.heap) (o : CopyHeap.obj),
    checks_pass CK -> uniq_off E -> plain_owner ia -> pystr_eqb nm (s2p "_instantiated") = false ->
    extends (recf f) -> CopyHeap.get h l = Some o -> CopyHeap.o_kind o = CopyHeap.KList ->
    forall hf inst',
    Src_Array_set E CK recf rec (Src_Field_set E CK recf rec sup0)
                  (fself false false nm (item_field f n0) u ad) (AObj ia) (AV (CopyHeap.CRef l)) h = Ok (hf, inst') ->
    exists w ks, inst' = AObj (alist_set ia nm (AV (CopyHeap.CRef w))) /\ List.length h <= w /\
                 CopyHeap.get hf w = Some {| CopyHeap.o_kind := CopyHeap.KWList; CopyHeap.o_kids := ks |} /\
                 (exists h1, map_kidsR (recf f) h (unlabel (CopyHeap.o_kids o)) = Ok (h1, ks)) /\
                 CopyHeap.get hf l = Some o.
Proof. exact src_array_set_typed_fresh. Qed.

Print Assumptions C19_src_intake_array_typed.
Print Assumptions C19_src_intake_array_untyped.
Print Assumptions C19_src_intake_array_typed_fresh.

(* d[k] through a _DictStruct not bound immutable hands out the stored value, never the wrapper's body *)
Theorem C19_src_dict_getitem :
  forall (tb : CopyHeap.loc -> wbind) (ia : CopyHeap.loc -> pystr -> option pyval) (df : pystr -> option pyval)
         (rec : CopyHeap.heap -> CopyHeap.child -> res (CopyHeap.heap * CopyHeap.child))
         (fimm : bool) (ib : ibind) (nm : aval) (l : CopyHeap.loc) (h : CopyHeap.heap) (o : CopyHeap.obj)
         (ps : list (CopyHeap.child * CopyHeap.child)) (kc : CopyHeap.child),
    simm fimm ib = false -> CopyHeap.get h l = Some o -> CopyHeap.o_kind o = CopyHeap.KWDict ->
    kid_pairs (CopyHeap.o_kids o) = Some ps ->
    Src_DictStruct_getitem (env_of (fun l => Some (tb l)) ia df) rec (wview (AV (CopyHeap.CRef l)) fimm ib nm) (AV kc) h =
    match dict_find ps kc with Some v => Ok (h, AV v) | None => Raise KeyError end.
Proof. exact src_dict_getitem. Qed.
Print Assumptions C19_src_dict_getitem.
