(* Property C17 — versioned conversion composes, reaches the latest version, leaves input intact.
   This file holds only the property theorems; each is closed by [exact] of a lemma proved in
   Ser/VersionedProofs.v and followed by Print Assumptions. *)
From Coq Require Import ZArith String List.
Import ListNotations.
From TP Require Import Base.PyVal Ser.Versioned Ser.VersionedProofs.
Local Open Scope string_scope.
Local Open Scope Z_scope.

Section C17.
  (* the user's FunctionCall functions: any pure (possibly raising) family *)
  Variable fn : N -> list pyval -> res pyval.

  (* convert_dict applies exactly the mappings from d's version onward, in order *)
  Theorem C17_applies_exact_suffix : forall d maps z,
      has_version d z -> 1 <= z ->
      convert_dict fn d maps = fold_left (step fn) (skipn (Z.to_nat (z - 1)) maps) (Ok d).
  Proof. exact (convert_dict_suffix fn). Qed.

  (* the result carries version len(mappings)+1 *)
  Theorem C17_version : forall d maps z d',
      forallb keeps_version maps = true ->
      has_version d z -> 1 <= z <= Z.of_nat (length maps) + 1 ->
      convert_dict fn d maps = Ok d' ->
      has_version d' (Z.of_nat (length maps) + 1).
  Proof. exact (convert_dict_version fn). Qed.

  (* two-stage conversion through ANY prefix equals converting at once (any history length, any split) *)
  Theorem C17_compose : forall d maps z k d1,
      forallb keeps_version maps = true ->
      has_version d z -> 1 <= z ->
      (k <= length maps)%nat ->
      convert_dict fn d (firstn k maps) = Ok d1 ->
      convert_dict fn d1 maps = convert_dict fn d maps.
  Proof. exact (convert_dict_compose fn). Qed.

  (* a document already at (or beyond) the latest version is returned unchanged *)
  Theorem C17_latest_id : forall d maps z,
      has_version d z -> Z.of_nat (length maps) + 1 <= z ->
      convert_dict fn d maps = Ok d.
  Proof. exact (convert_dict_latest fn). Qed.

  (* deserializing from any older version = deserializing the converted latest-version document *)
  Theorem C17_deser_any_version : forall (T : Type) (deser : dict -> res T) d maps z d',
      forallb keeps_version maps = true ->
      has_version d z -> 1 <= z <= Z.of_nat (length maps) + 1 ->
      convert_dict fn d maps = Ok d' ->
      deser_versioned fn deser maps d = deser_versioned fn deser maps d'.
  Proof. exact (@deser_versioned_any_version fn). Qed.

  (* a newly constructed instance always carries the latest version *)
  Theorem C17_new_instance_latest : forall maps kw,
      has_version (versioned_init_kwargs maps kw) (Z.of_nat (length maps) + 1).
  Proof. exact versioned_init_latest. Qed.
End C17.

Print Assumptions C17_applies_exact_suffix.
Print Assumptions C17_version.
Print Assumptions C17_compose.
Print Assumptions C17_latest_id.
Print Assumptions C17_deser_any_version.
Print Assumptions C17_new_instance_latest.

(* non-vacuity: a concrete two-step history (move a key, add a constant, delete, nested mapper,
   function call) starting at version 1 satisfies the hypotheses and converts to version 3 *)
Definition ex_maps : list mapping :=
  [ [ (s2p "name", MKey (s2p "old.name")); (s2p "old", MDeleted); (s2p "k", MConst (PNum (NInt 7))) ];
    [ (s2p "sub._mapper", MSub [ (s2p "x", MFunc 2%N []) ]); (s2p "n", MFunc 3%N [s2p "name"; s2p "k"]) ] ].
Definition ex_doc : dict :=
  [ (PStr (s2p "version"), PNum (NInt 1));
    (PStr (s2p "old"), PDict [ (PStr (s2p "name"), PStr (s2p "joe")) ]);
    (PStr (s2p "sub"), PList [ PDict [ (PStr (s2p "x"), PNum (NInt 1)) ] ]) ].

Example C17_nonvacuous :
  forallb keeps_version ex_maps = true /\ has_version ex_doc 1 /\
  exists d', convert_dict std_fn ex_doc ex_maps = Ok d' /\ has_version d' 3 /\
             dict_get d' (PStr (s2p "name")) = Some (PStr (s2p "joe")) /\
             dict_get d' (PStr (s2p "old")) = None.
Proof.
  split; [vm_compute; reflexivity|]. split; [vm_compute; reflexivity|].
  eexists. split; [vm_compute; reflexivity|]. vm_compute. repeat split; reflexivity.
Qed.

(* ---- the tie to the source, re-checked by the kernel on every run -------------------------------------
   Gen/VersionedSrc.v is re-generated from typedpy/serialization/versioned_mapping.py and typedpy/commons.py
   (harness/genmods/py2v_versioned.py): _convert, convert_dict, deep_get with its helper, Constant.  For EVERY
   document, mapping history and user-function oracle, what the source computes NOW is what the hand-written
   model Ser/Versioned.v (on which the theorems above are proved) computes.  [predicted] excludes only the
   inputs on which the hand model declines (Raise Unmodelled); [mapping_ok]/[plain_version] delimit the
   encodable mappings and the non-float version numbers. *)
From TP Require Import Base.PyOps Base.PyOps2 Base.PyOpsVersioned Gen.VersionedSrc Ser.VersionedSrcProofs.

Theorem C17_src_get_next_level :
  forall (call : pyval -> list pyval -> res pyval) (d : pyval) (key : pystr),
         Src_get_next_level call d (PStr key) PNone (PBool false) = Ok (get_next_level d key).
Proof. exact src_get_next_level. Qed.

(* commons.deep_get as _convert calls it, unconditionally *)
Theorem C17_src_deep_get :
  forall (call : pyval -> list pyval -> res pyval) (d : pyval) (path : pystr),
         Src_deep_get call d (PStr path) PNone (PBool false) (PBool false) = Ok (deep_get d path).
Proof. exact src_deep_get. Qed.

(* versioned_mapping._convert = the model's convert *)
Theorem C17_src_convert :
  forall (fn : N -> list pyval -> res pyval) (m : mapping) (d : dict),
         mapping_ok m = true ->
         predicted (convert fn m d) = true ->
         Src_convert (call_of fn) (PDict d) (enc_mapping m) = enc_res (convert fn m d).
Proof. exact src_convert. Qed.

(* versioned_mapping.convert_dict = the model's convert_dict *)
Theorem C17_src_convert_dict_gen :
  forall (fn : N -> list pyval -> res pyval) (d : dict) (maps : list mapping),
         forallb mapping_ok maps = true ->
         versions_plain_dict fn d maps = true ->
         predicted (convert_dict fn d maps) = true ->
         Src_convert_dict (call_of fn) (PDict d) (enc_maps maps) = enc_res (convert_dict fn d maps).
Proof. exact src_convert_dict_gen. Qed.

(* the same under C17's own hypotheses (every mapping keeps the version key, the start version is a plain int) *)
Theorem C17_src_convert_dict :
  forall (fn : N -> list pyval -> res pyval) (d : dict) (maps : list mapping),
         forallb mapping_ok maps = true ->
         forallb keeps_version maps = true ->
         plain_version d = true ->
         predicted (convert_dict fn d maps) = true ->
         Src_convert_dict (call_of fn) (PDict d) (enc_maps maps) = enc_res (convert_dict fn d maps).
Proof. exact src_convert_dict. Qed.

Print Assumptions C17_src_get_next_level.
Print Assumptions C17_src_deep_get.
Print Assumptions C17_src_convert.
Print Assumptions C17_src_convert_dict_gen.
Print Assumptions C17_src_convert_dict.
