(* Property C17 — versioned conversion composes, reaches the latest version, leaves input intact.
   This file holds only the property theorems; each is closed by [exact] of a lemma proved in
   Ser/VersionedProofs.v, Ser/VersionedDeserProofs.v or Ser/VersionedSrc.v and followed by Print Assumptions.

   Three layers:
     C17_*          over the model, for every family of user functions [fn] and every setting [p] of the integer
                    literals of convert_dict that passes cd_params_ok; for deserialization, for every table of
                    read sites that passes sites_ok;
     C17_src_*      the same theorems instantiated at the tables re-read from /repo's source on this run
                    (Gen/VersionedShape.v) -- they stop type-checking when the source loses the shape;
     C17_*_refuted  what goes wrong when a table entry is not as required (witnesses). *)
From Coq Require Import ZArith String List.
Import ListNotations.
From TP Require Import Base.PyVal Ser.Versioned Ser.VersionedProofs Ser.VersionedDeser Ser.VersionedDeserProofs
     Gen.VersionedShape Ser.VersionedSrc.
Local Open Scope string_scope.
Local Open Scope Z_scope.

Section C17.
  (* the user's FunctionCall functions: any pure (possibly raising) family *)
  Variable fn : N -> list pyval -> res pyval.
  (* the integer literals of convert_dict: slice offset and increment must be 1 *)
  Variable p : cd_params.
  Hypothesis Hp : cd_params_ok p = true.

  (* convert_dict applies exactly the mappings from d's version onward, in order *)
  Theorem C17_applies_exact_suffix : forall d maps z,
      has_version d z -> 1 <= z ->
      convert_dict fn p d maps = fold_left (step fn p) (skipn (Z.to_nat (z - 1)) maps) (Ok d).
  Proof. exact (convert_dict_suffix fn p Hp). Qed.

  (* the result carries version len(mappings)+1 *)
  Theorem C17_version : forall d maps z d',
      forallb keeps_version maps = true ->
      has_version d z -> 1 <= z <= Z.of_nat (length maps) + 1 ->
      convert_dict fn p d maps = Ok d' ->
      has_version d' (Z.of_nat (length maps) + 1).
  Proof. exact (convert_dict_version fn p Hp). Qed.

  (* two-stage conversion through ANY prefix equals converting at once (any history length, any split) *)
  Theorem C17_compose : forall d maps z k d1,
      forallb keeps_version maps = true ->
      has_version d z -> 1 <= z ->
      (k <= length maps)%nat ->
      convert_dict fn p d (firstn k maps) = Ok d1 ->
      convert_dict fn p d1 maps = convert_dict fn p d maps.
  Proof. exact (convert_dict_compose fn p Hp). Qed.

  (* a document already at (or beyond) the latest version is returned unchanged *)
  Theorem C17_latest_id : forall d maps z,
      has_version d z -> Z.of_nat (length maps) + 1 <= z ->
      convert_dict fn p d maps = Ok d.
  Proof. exact (convert_dict_latest fn p Hp). Qed.

  (* deserializing from any older version = deserializing the converted latest-version document,
     for ANY continuation that reads only the converted document *)
  Theorem C17_deser_any_version : forall (T : Type) (deser : dict -> res T) d maps z d',
      forallb keeps_version maps = true ->
      has_version d z -> 1 <= z <= Z.of_nat (length maps) + 1 ->
      convert_dict fn p d maps = Ok d' ->
      deser_versioned fn p deser maps d = deser_versioned fn p deser maps d'.
  Proof. exact (@deser_versioned_any_version fn p Hp). Qed.

  (* ... and for the modelled deserialize_structure_internal itself (prelude, kept non-field keys,
     construct_fields_map, constructor), whatever the entry point, class, options: provided every read of
     a document variable after the prelude is of the converted document *)
  Theorem C17_deser_internal_any_version : forall pr sites ish e c o d maps z d',
      sites_ok sites = true ->
      forallb keeps_version maps = true ->
      has_version d z -> 1 <= z <= Z.of_nat (length maps) + 1 ->
      convert_dict fn p d maps = Ok d' ->
      deser_internal fn p pr sites ish e c o maps d = deser_internal fn p pr sites ish e c o maps d'.
  Proof. exact (deser_internal_any_version fn p Hp). Qed.

  (* the deserialized instance carries the latest version *)
  Theorem C17_deser_internal_version : forall pr sites ish e c o d maps st,
      init_shape_ok ish = true ->
      deser_internal fn p pr sites ish e c o maps d = Ok st ->
      has_version st (Z.of_nat (length maps) + 1).
  Proof. exact (deser_internal_version fn p). Qed.

  (* no attribute of the instance comes from anywhere but the converted document *)
  Theorem C17_deser_internal_keys_from_converted : forall pr sites ish e c o d maps z d' st k,
      sites_ok sites = true ->
      forallb keeps_version maps = true ->
      has_version d z -> 1 <= z <= Z.of_nat (length maps) + 1 ->
      convert_dict fn p d maps = Ok d' ->
      deser_internal fn p pr sites ish e c o maps d = Ok st ->
      k <> ver -> dict_get d' (PStr k) = None -> dict_get st (PStr k) = None.
  Proof. exact (deser_internal_keys_from_converted fn p Hp). Qed.

  (* a newly constructed instance always carries the latest version *)
  Theorem C17_new_instance_latest : forall maps kw,
      has_version (versioned_init_kwargs maps kw) (Z.of_nat (length maps) + 1).
  Proof. exact versioned_init_latest. Qed.

  (* ---- instantiated at the source's current tables *)

  Theorem C17_src_shapes_ok :
    cd_params_ok gen_cd_params = true /\ init_shape_ok gen_init_shape = true /\
    prelude_ok gen_prelude = true /\ sites_ok gen_deser_sites = true.
  Proof. exact gen_shapes_ok. Qed.

  Theorem C17_src_applies_exact_suffix : forall d maps z,
      has_version d z -> 1 <= z ->
      convert_dict fn gen_cd_params d maps
      = fold_left (step fn gen_cd_params) (skipn (Z.to_nat (z - 1)) maps) (Ok d).
  Proof. exact (src_convert_dict_suffix fn). Qed.

  Theorem C17_src_version : forall d maps z d',
      forallb keeps_version maps = true ->
      has_version d z -> 1 <= z <= Z.of_nat (length maps) + 1 ->
      convert_dict fn gen_cd_params d maps = Ok d' ->
      has_version d' (Z.of_nat (length maps) + 1).
  Proof. exact (src_convert_dict_version fn). Qed.

  Theorem C17_src_compose : forall d maps z k d1,
      forallb keeps_version maps = true ->
      has_version d z -> 1 <= z ->
      (k <= length maps)%nat ->
      convert_dict fn gen_cd_params d (firstn k maps) = Ok d1 ->
      convert_dict fn gen_cd_params d1 maps = convert_dict fn gen_cd_params d maps.
  Proof. exact (src_convert_dict_compose fn). Qed.

  Theorem C17_src_deser_any_version : forall e c o d maps z d',
      forallb keeps_version maps = true ->
      has_version d z -> 1 <= z <= Z.of_nat (length maps) + 1 ->
      convert_dict fn gen_cd_params d maps = Ok d' ->
      deser_internal fn gen_cd_params gen_prelude gen_deser_sites gen_init_shape e c o maps d
      = deser_internal fn gen_cd_params gen_prelude gen_deser_sites gen_init_shape e c o maps d'.
  Proof. exact (src_deser_any_version fn). Qed.

  Theorem C17_src_deser_version : forall e c o d maps st,
      deser_internal fn gen_cd_params gen_prelude gen_deser_sites gen_init_shape e c o maps d = Ok st ->
      has_version st (Z.of_nat (length maps) + 1).
  Proof. exact (src_deser_version fn). Qed.

  Theorem C17_src_deser_keys_from_converted : forall e c o d maps z d' st k,
      forallb keeps_version maps = true ->
      has_version d z -> 1 <= z <= Z.of_nat (length maps) + 1 ->
      convert_dict fn gen_cd_params d maps = Ok d' ->
      deser_internal fn gen_cd_params gen_prelude gen_deser_sites gen_init_shape e c o maps d = Ok st ->
      k <> ver -> dict_get d' (PStr k) = None -> dict_get st (PStr k) = None.
  Proof. exact (src_deser_keys_from_converted fn). Qed.

  Theorem C17_src_new_instance_latest : forall maps kw,
      has_version (versioned_init_kwargs_s gen_init_shape maps kw) (Z.of_nat (length maps) + 1).
  Proof. exact src_new_instance_latest. Qed.
End C17.

(* ---- witnesses: a read of the caller's document after the prelude, a constructor that only fills in a
   missing version *)
Theorem C17_deser_raw_undefined_refuted :
  convert_dict std_fn std_cd_params w_doc w_maps = Ok w_conv /\
  deser_internal std_fn std_cd_params std_prelude raw_undefined_sites (InitForce 1) EDeserializer
                 w_class w_opts w_maps w_doc
  <> deser_internal std_fn std_cd_params std_prelude raw_undefined_sites (InitForce 1) EDeserializer
                    w_class w_opts w_maps w_conv.
Proof. exact deser_raw_undefined_refuted. Qed.

Theorem C17_deser_raw_fields_refuted :
  deser_internal std_fn std_cd_params std_prelude raw_fields_sites (InitForce 1) EDeserializer
                 w_class w_opts w_maps w_doc
  <> deser_internal std_fn std_cd_params std_prelude raw_fields_sites (InitForce 1) EDeserializer
                    w_class w_opts w_maps w_conv.
Proof. exact deser_raw_fields_refuted. Qed.

Theorem C17_deser_raw_trusted_refuted :
  deser_internal std_fn std_cd_params std_prelude raw_trusted_sites (InitForce 1) EDeserializer
                 w_class w_opts_trusted w_maps w_doc
  <> deser_internal std_fn std_cd_params std_prelude raw_trusted_sites (InitForce 1) EDeserializer
                    w_class w_opts_trusted w_maps w_conv.
Proof. exact deser_raw_trusted_refuted. Qed.

Theorem C17_init_setdefault_refuted :
  dict_get (versioned_init_kwargs_s (InitSetDefault 1) w_maps [ (PStr (s2p "version"), PNum (NInt 1)) ]) version_key
  <> Some (PNum (NInt 2)).
Proof. exact init_setdefault_refuted. Qed.

Print Assumptions C17_applies_exact_suffix.
Print Assumptions C17_version.
Print Assumptions C17_compose.
Print Assumptions C17_latest_id.
Print Assumptions C17_deser_any_version.
Print Assumptions C17_deser_internal_any_version.
Print Assumptions C17_deser_internal_version.
Print Assumptions C17_deser_internal_keys_from_converted.
Print Assumptions C17_new_instance_latest.
Print Assumptions C17_src_shapes_ok.
Print Assumptions C17_src_applies_exact_suffix.
Print Assumptions C17_src_version.
Print Assumptions C17_src_compose.
Print Assumptions C17_src_deser_any_version.
Print Assumptions C17_src_deser_version.
Print Assumptions C17_src_deser_keys_from_converted.
Print Assumptions C17_src_new_instance_latest.
Print Assumptions C17_deser_raw_undefined_refuted.
Print Assumptions C17_deser_raw_fields_refuted.
Print Assumptions C17_deser_raw_trusted_refuted.
Print Assumptions C17_init_setdefault_refuted.

(* non-vacuity: a concrete two-step history (move a key, add a constant, delete, nested mapper,
   function call) starting at version 1 satisfies the hypotheses and converts to version 3 *)
Definition ex_maps : list mapping :=
  [ [ (s2p "name", MKey (s2p "old.name")); (s2p "old", MDeleted); (s2p "k", MConst (PNum (NInt 7))) ];
    [ (s2p "sub._mapper", MSub [ (s2p "x", MFunc 2%N []) ]); (s2p "n", MFunc 3%N [s2p "name"; s2p "k"]) ] ].
Definition ex_doc : dict :=
  [ (PStr (s2p "version"), PNum (NInt 1));
    (PStr (s2p "old"), PDict [ (PStr (s2p "name"), PStr (s2p "joe")) ]);
    (PStr (s2p "sub"), PList [ PDict [ (PStr (s2p "x"), PNum (NInt 1)) ] ]) ].

Example C17_nonvacuous :
  cd_params_ok std_cd_params = true /\ forallb keeps_version ex_maps = true /\ has_version ex_doc 1 /\
  exists d', convert_dict std_fn std_cd_params ex_doc ex_maps = Ok d' /\ has_version d' 3 /\
             dict_get d' (PStr (s2p "name")) = Some (PStr (s2p "joe")) /\
             dict_get d' (PStr (s2p "old")) = None.
Proof.
  split; [vm_compute; reflexivity|]. split; [vm_compute; reflexivity|]. split; [vm_compute; reflexivity|].
  eexists. split; [vm_compute; reflexivity|]. vm_compute. repeat split; reflexivity.
Qed.

(* non-vacuity of the deserialization theorems: the generated tables pass the predicates (C17_src_shapes_ok), and a
   version-1 document whose history renames a key deserializes, through the source's current tables, to an
   instance at version 2 that has the new attribute, keeps an undeclared one, and does not have the old one *)
Definition ex_dclass : vclass :=
  {| vc_fields := [s2p "new"]; vc_required := [s2p "new"]; vc_additional := None; vc_trusted_eligible := false |}.
Definition ex_dopts : dopts :=
  {| o_keep_undefined := Some true; o_trusted := false; o_additional_default := true;
     o_ignore_invalid_additional := true |}.
Definition ex_ddoc : dict := (w_doc ++ [ (PStr (s2p "note"), PStr (s2p "vip")) ])%list.
Example C17_deser_nonvacuous :
  forallb keeps_version w_maps = true /\ has_version ex_ddoc 1 /\
  exists st, deser_internal std_fn gen_cd_params gen_prelude gen_deser_sites gen_init_shape EDeserializer
                            ex_dclass ex_dopts w_maps ex_ddoc = Ok st /\
             has_version st 2 /\
             dict_get st (PStr (s2p "new")) = Some (PNum (NInt 5)) /\
             dict_get st (PStr (s2p "note")) = Some (PStr (s2p "vip")) /\
             dict_get st (PStr (s2p "old")) = None.
Proof.
  split; [vm_compute; reflexivity|]. split; [vm_compute; reflexivity|].
  eexists. split; [vm_compute; reflexivity|]. vm_compute. repeat split; reflexivity.
Qed.

(* ---- the tie to the source, re-checked by the kernel on every run -------------------------------------
   Gen/VersionedSrc.v is re-generated from typedpy/serialization/versioned_mapping.py and typedpy/commons.py
   (harness/genmods/py2v_versioned.py): _convert, convert_dict, deep_get with its helper, Constant.  For EVERY
   document, mapping history and user-function oracle, what the source computes NOW is what the hand-written
   model Ser/Versioned.v (on which the theorems above are proved) computes.  [predicted] excludes only the
   inputs on which the hand model declines (Raise Unmodelled); [mapping_ok] delimits the
   encodable mappings, [plain_version] a start version that is not a float / Decimal / opaque object, [versions_plain_dict]
   a run that never adds 1 to an opaque object (floats are added exactly on both sides).  The model is taken at the
   literals of convert_dict re-read from the source (gen_cd_params). *)
From TP Require Import Base.PyOps Base.PyOps2 Base.PyOpsVersioned Gen.VersionedSrc Ser.VersionedSrcProofs.

Theorem C17_src_get_next_level :
  forall (call : pyval -> list pyval -> res pyval) (d : pyval) (key : pystr),
         Src_get_next_level call d (PStr key) PNone (PBool false) = Ok (get_next_level d key).
Proof. exact src_get_next_level. Qed.

(* commons.deep_get as _convert calls it, unconditionally *)
Theorem C17_src_deep_get :
  forall (call : pyval -> list pyval -> res pyval) (d : pyval) (path : pystr),
         Src_deep_get call d (PStr path) PNone (PBool false) (PBool false) = Ok (deep_get d path).
Proof. exact src_deep_get. Qed.

(* versioned_mapping._convert = the model's convert *)
Theorem C17_src_convert :
  forall (fn : N -> list pyval -> res pyval) (m : mapping) (d : dict),
         mapping_ok m = true ->
         predicted (convert fn m d) = true ->
         Src_convert (call_of fn) (PDict d) (enc_mapping m) = enc_res (convert fn m d).
Proof. exact src_convert. Qed.

(* versioned_mapping.convert_dict = the model's convert_dict *)
Theorem C17_src_convert_dict_gen :
  forall (fn : N -> list pyval -> res pyval) (d : dict) (maps : list mapping),
         forallb mapping_ok maps = true ->
         versions_plain_dict fn d maps = true ->
         predicted (convert_dict fn gen_cd_params d maps) = true ->
         Src_convert_dict (call_of fn) (PDict d) (enc_maps maps) = enc_res (convert_dict fn gen_cd_params d maps).
Proof. exact src_convert_dict_gen. Qed.

(* the same under C17's own hypotheses (every mapping keeps the version key, the start version is plain) *)
Theorem C17_src_convert_dict :
  forall (fn : N -> list pyval -> res pyval) (d : dict) (maps : list mapping),
         forallb mapping_ok maps = true ->
         forallb keeps_version maps = true ->
         plain_version d = true ->
         predicted (convert_dict fn gen_cd_params d maps) = true ->
         Src_convert_dict (call_of fn) (PDict d) (enc_maps maps) = enc_res (convert_dict fn gen_cd_params d maps).
Proof. exact src_convert_dict. Qed.

Print Assumptions C17_src_get_next_level.
Print Assumptions C17_src_deep_get.
Print Assumptions C17_src_convert.
Print Assumptions C17_src_convert_dict_gen.
Print Assumptions C17_src_convert_dict.
