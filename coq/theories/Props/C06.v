(* Property C06 — deserialization accepts exactly the JSON images of constructor-valid data.
   Only the property theorems; model Ser/Deserialize.v, documented reading Ser/DocReading.v, proofs
   Ser/DeserProofs.v and Ser/RoundTripProofs.v. *)
From Coq Require Import ZArith NArith String List Bool.
Import ListNotations.
From TP Require Import Base.PyVal Base.PyEq Fields.FieldAst Fields.SetChain Fields.Doc Struct.Instance
  Ser.Json Ser.Serialize Ser.Deserialize Ser.DocReading Ser.RoundTripProofs Ser.DeserProofs.
Local Open Scope string_scope.

Section C06.
  Variable re_match : N -> pystr -> bool.
  Variable e : env.
  Variable ens : enums.
  Variable fl : dflags.

  (* Keys that are not fields (case analysis on _additional_properties x keep_undefined x the
     configuration flag).
     (1) dropped: with keep_undefined false, or additional properties forbidden and the flag on, the
         outcome is exactly that of the document without those keys. *)
  Theorem C06_extra_keys_dropped : forall n ku cn c kv,
      find_class e cn = Some c ->
      (ku = false \/ (c_additional c = false /\ df_ignore_invalid fl = true)) ->
      deser_struct re_match e ens fl n ku cn (PDict kv) =
      deser_struct re_match e ens fl n ku cn (PDict (field_keys_only c kv)).
  Proof. exact (extras_dropped re_match e ens fl). Qed.

  (* (2) rejected with TypeError: additional properties forbidden, flag off, keep_undefined true, and
         the document has a key that is not a field (the fields themselves deserializing). *)
  Theorem C06_extra_keys_rejected : forall n cn c kv kw k v,
      find_class e cn = Some c ->
      c_additional c = false -> df_ignore_invalid fl = false ->
      In (PStr k, v) kv -> str_in k (field_names c) = false ->
      has_dup (map fst kw) = false ->
      deser_fields re_match e ens (deser_struct re_match e ens fl n) true (c_ignore_none c) (c_fields c) kv false = Ok kw ->
      (forall ex, str_keys (filter (fun p => negb (is_field_key c (fst p))) kv) = Some ex ->
                  has_dup (map fst (ex ++ kw)) = false) ->
      deser_struct re_match e ens fl (S n) true cn (PDict kv) = Raise TypeError.
  Proof. exact (extras_rejected re_match e ens fl). Qed.

  (* (3) hence a key that is not a field can become an attribute only if the class allows additional
         properties and keep_undefined is true: in every other case (1) or (2) applies.  The adjustment made
         by Deserializer.deserialize: an explicit keep_undefined is used as is; None means "true" exactly
         when the class FORBIDS additional properties. *)
  Theorem C06_keep_undefined_adjustment : forall c ku,
      adjust_keep_undefined c ku = match ku with Some b => b | None => negb (c_additional c) end.
  Proof. exact adjust_spec. Qed.

  Theorem C06_extra_keys_cases : forall c ku,
      (ku = false \/ (c_additional c = false /\ df_ignore_invalid fl = true)) \/
      (c_additional c = false /\ df_ignore_invalid fl = false /\ ku = true) \/
      (c_additional c = true /\ ku = true).
  Proof. intros c ku. destruct ku, (c_additional c), (df_ignore_invalid fl); auto. Qed.
End C06.

Print Assumptions C06_extra_keys_dropped.
Print Assumptions C06_extra_keys_rejected.
Print Assumptions C06_keep_undefined_adjustment.
Print Assumptions C06_extra_keys_cases.
