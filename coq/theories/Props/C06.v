(* Property C06 — deserialization accepts exactly the JSON images of constructor-valid data.
   Only the property theorems; model Ser/Deserialize.v, documented reading Ser/DocReading.v, proofs
   Ser/DeserProofs.v and Ser/RoundTripProofs.v. *)
From Coq Require Import ZArith NArith String List Bool.
Import ListNotations.
From TP Require Import Base.PyVal Base.PyEq Fields.FieldAst Fields.SetChain Fields.Doc Struct.Instance
  Ser.Json Ser.Serialize Ser.Deserialize Ser.DocReading Ser.RoundTripProofs Ser.DeserProofs
  Ser.DeserExn Ser.DeserExnProofs Gen.DeserFlow Ser.DeserFlowTie Ser.AgreeProofs.
From Coq Require Import Permutation.
Local Open Scope string_scope.

Section C06.
  Variable re_match : N -> pystr -> bool.
  Variable e : env.
  Variable ens : enums.
  Variable fl : dflags.

  (* Keys that are not fields (case analysis on _additional_properties x keep_undefined x the
     configuration flag).
     (1) dropped: with keep_undefined false, or additional properties forbidden and the flag on, the
         outcome is exactly that of the document without those keys. *)
  Theorem C06_extra_keys_dropped : forall n ku cn c kv,
      find_class e cn = Some c ->
      (ku = false \/ (c_additional c = false /\ df_ignore_invalid fl = true)) ->
      deser_struct re_match e ens fl n ku cn (PDict kv) =
      deser_struct re_match e ens fl n ku cn (PDict (field_keys_only c kv)).
  Proof. exact (extras_dropped re_match e ens fl). Qed.

  (* (2) rejected with TypeError: additional properties forbidden, flag off, keep_undefined true, and
         the document has a key that is not a field (the fields themselves deserializing). *)
  Theorem C06_extra_keys_rejected : forall n cn c kv kw k v,
      find_class e cn = Some c ->
      c_additional c = false -> df_ignore_invalid fl = false ->
      In (PStr k, v) kv -> str_in k (field_names c) = false ->
      has_dup (map fst kw) = false ->
      deser_fields re_match e ens (deser_struct re_match e ens fl n) true (c_ignore_none c) (c_fields c) kv false = Ok kw ->
      (forall ex, str_keys (filter (fun p => negb (is_field_key c (fst p))) kv) = Some ex ->
                  has_dup (map fst (ex ++ kw)) = false) ->
      deser_struct re_match e ens fl (S n) true cn (PDict kv) = Raise TypeError.
  Proof. exact (extras_rejected re_match e ens fl). Qed.

  (* (3) hence a key that is not a field can become an attribute only if the class allows additional
         properties and keep_undefined is true: in every other case (1) or (2) applies.  The adjustment made
         by Deserializer.deserialize: an explicit keep_undefined is used as is; None means "true" exactly
         when the class FORBIDS additional properties. *)
  Theorem C06_keep_undefined_adjustment : forall c ku,
      adjust_keep_undefined c ku = match ku with Some b => b | None => negb (c_additional c) end.
  Proof. exact adjust_spec. Qed.

  Theorem C06_extra_keys_cases : forall c ku,
      (ku = false \/ (c_additional c = false /\ df_ignore_invalid fl = true)) \/
      (c_additional c = false /\ df_ignore_invalid fl = false /\ ku = true) \/
      (c_additional c = true /\ ku = true).
  Proof. intros c ku. destruct ku, (c_additional c), (df_ignore_invalid fl); auto. Qed.

  (* "Rejections are TypeError/ValueError."
     (4) A multi-field wrapper (AnyOf / OneOf / AllOf / NotField) raises ValueError only, whatever its
         alternatives raise while they are tried (Unmodelled / OutOfFuel are the model declining). *)
  Theorem C06_wrapper_error_class : forall rec ku ign j x fs f,
      f = FAnyOf fs \/ f = FOneOf fs \/ f = FAllOf fs \/ f = FNot fs ->
      deser_val re_match e ens rec ku ign f j = Raise x -> x = ValueError \/ model_exn x = true.
  Proof. exact (wrapper_error_class re_match e ens). Qed.

  (* (5) For every class environment whose declarations are well formed -- positional containers (Tuple, Array/Deque
         with a list of item fields) included, inside and outside multi-field wrappers -- every rejection by
         Deserializer(cls).deserialize -- pre-validation, error collection, nested structures, the final
         constructor call -- is a TypeError/ValueError, for all documents, flags and keep_undefined.
         (Until finding F9 was repaired this carried the hypothesis "no positional container outside a wrapper":
         value[i] on a document shorter than the positional items raised IndexError.) *)
  Theorem C06_error_class : forall n ku cn j x,
      env_wf e = true ->
      deserialize re_match e ens fl n ku cn j = Raise x -> is_te_ve x = true \/ model_exn x = true.
  Proof. exact (deserialize_error_class re_match e ens fl). Qed.

  (* (7) the final authority: every rejection by the constructor is a TypeError/ValueError *)
  Theorem C06_constructor_error_class : forall c kw x,
      class_all wf_field c = true -> construct re_match e c kw = Raise x -> okx x = true.
  Proof. exact (construct_okx re_match e). Qed.

  (* "deserialize(d) succeeds exactly when d is the documented JSON form of arguments the constructor accepts,
     and the result then equals the instance the constructor builds."
     (8) Proved for the scalar fragment: a class whose fields are numbers, strings, booleans, literal enums or
         Anything (any constraints, any _required / _additional_properties / _ignore_none / defaults / hook),
         every object document with distinct string keys and no null member, keys in ANY order, any extra keys,
         both flags, keep_undefined True/False: the code-shaped model (pre-validation per field in class order,
         error collection for falsy inputs, extras first, the constructor) and the documented reading (the
         members in document order handed to the constructor) accept the same documents with == instances and
         otherwise both raise a TypeError/ValueError -- or one of the two models declines. *)
  Theorem C06_agree_scalar : forall n ku cn c kv skv,
      find_class e cn = Some c -> scalar_class c = true -> class_all wf_field c = true ->
      NoDup (field_names c) ->
      str_keys kv = Some skv -> NoDup (map fst skv) -> (forall k v, In (k, v) skv -> v <> PNone) ->
      agree (deser_struct re_match e ens fl (S n) ku cn (PDict kv))
            (spec_deser re_match e ens fl (S n) ku cn (PDict kv)) = true.
  Proof. exact (agree_scalar re_match e ens fl). Qed.

  (* (9) what (8) rests on: the constructor does not depend on the order of its keyword arguments -- for EVERY
         class of the model (collections, wrappers, nested structures included): permuted arguments are both
         accepted with == instances, or both rejected. *)
  Theorem C06_constructor_order_free : forall c K1 K2,
      Permutation K1 K2 -> NoDup (field_names c) ->
      match construct re_match e c K1, construct re_match e c K2 with
      | Ok x, Ok y => pyval_eqb (strip_none x) (strip_none y) = true
      | Raise _, Raise _ => True
      | _, _ => False
      end.
  Proof. exact (construct_perm re_match e). Qed.
End C06.

(* (6) the full statement "every rejection is a TypeError/ValueError" (Ser/DeserExn.error_class_statement), over all
   class environments: it holds since F9 was repaired (a positional document that is too short is a ValueError). *)
Theorem C06_error_class_statement : error_class_statement.
Proof. exact error_class_holds. Qed.

(* The exception flow the model assumes is the one the source has NOW (Gen/DeserFlow.v is regenerated from
   serialization.py on every run): list-like handlers = rewrap, the wrapper's handler catches everything and
   its own errors are raised inside it, construct_fields_map collects TypeError/ValueError only. *)
Theorem C06_src_list_like_handlers :
  exists r1 r2, rows_of (s2p "deserialize_list_like") = [r1; r2] /\
    forall x, row_catches r1 x = is_te_ve x /\ row_catches r2 x = is_te_ve x.
Proof. exact list_like_handlers_are_rewrap. Qed.

Theorem C06_src_wrapper_handler :
  exists r, rows_of (s2p "deserialize_multifield_wrapper") = [r] /\
    (forall x, model_exn x = false -> row_catches r x = true) /\
    row_catches r (OtherExn (s2p "InvalidOperation")) = true /\
    row_raises_inside r = [s2p "ValueError"; s2p "ValueError"].
Proof. exact wrapper_handler_catches_all. Qed.

Theorem C06_src_fields_map_handler :
  exists r, rows_of (s2p "construct_fields_map") = [r] /\ forall x, row_catches r x = is_te_ve x.
Proof. exact fields_map_handler_collects_te_ve. Qed.

(* deserialize_single_field: the handler around SerializableField.deserialize catches exactly ValueError and raises
   ValueError again with the field's name (the model's [rewrap_ve] around Enum.deserialize) *)
Theorem C06_src_single_field_handlers :
  exists r1 r2, rows_of (s2p "deserialize_single_field") = [r1; r2] /\ forall x, row_catches r2 x = is_ve x.
Proof. exact single_field_handlers. Qed.

(* non-vacuity: the hypothesis of (5) holds of a class with a positional Tuple outside every wrapper and of a class
   with a wrapper over a positional alternative; a document shorter than the positional items is a ValueError in the
   first, "does not match" (the next alternative is taken) in the second; a one-item Tuple reads every element *)
Example C06_error_class_nonvacuous :
  let t := FTuple [c06_int; c06_str] false in
  let f := FAnyOf [t; FSeqEach SeqList c06_int {| minItems := None; maxItems := None |} false] in
  env_wf [c06_cls t] = true /\ env_wf [c06_cls f] = true /\
  deserialize (fun _ _ => true) [c06_cls t] [] c06_flags 3 (Some true) (s2p "A") (c06_doc (PList [PNum (NInt 1)]))
  = Raise ValueError /\
  deserialize (fun _ _ => true) [c06_cls f] [] c06_flags 3 (Some true) (s2p "A") (c06_doc (PList [PNum (NInt 1)]))
  = Ok (PStruct (s2p "A") [(s2p "t", PList [PNum (NInt 1)])]) /\
  deserialize (fun _ _ => true) [c06_cls f] [] c06_flags 3 (Some true) (s2p "A") (c06_doc (PList [PStr (s2p "a")]))
  = Raise ValueError /\
  deserialize (fun _ _ => true) [c06_cls (FTuple [c06_int] false)] [] c06_flags 3 (Some true) (s2p "A") (c06_doc (PList []))
  = Ok (PStruct (s2p "A") [(s2p "t", PTuple [])]) /\
  deserialize (fun _ _ => true) [c06_cls (FTuple [c06_int] false)] [] c06_flags 3 (Some true) (s2p "A")
              (c06_doc (PList [PNum (NInt 1); PStr (s2p "a")]))
  = Raise ValueError.
Proof. vm_compute. repeat split; reflexivity. Qed.

(* non-vacuity of (8): a class with an Integer and a String field, additional properties allowed; a document that
   lists its members in another order than the class and has an extra key; both models accept, with == results *)
Definition c06_cls2 : classdef :=
  {| c_name := s2p "B"; c_ancestors := [];
     c_fields := [{| fd_name := s2p "a"; fd_field := c06_int; fd_immutable := false; fd_default := None |};
                  {| fd_name := s2p "b"; fd_field := c06_str; fd_immutable := false; fd_default := None |}];
     c_required := [s2p "a"]; c_additional := true; c_ignore_none := false; c_immutable := false; c_hook := HookNone |}.
Definition c06_doc2 : list (pystr * pyval) :=
  [(s2p "b", PStr (s2p "x")); (s2p "zz", PNum (NInt 1)); (s2p "a", PNum (NInt 5))].

Example C06_agree_scalar_nonvacuous :
  scalar_class c06_cls2 = true /\ class_all wf_field c06_cls2 = true /\
  str_keys (map (fun p => (PStr (fst p), snd p)) c06_doc2) = Some c06_doc2 /\
  is_ok (deser_struct (fun _ _ => true) [c06_cls2] [] c06_flags 2 true (s2p "B")
           (PDict (map (fun p => (PStr (fst p), snd p)) c06_doc2))) = true /\
  res_equiv_tv (deser_struct (fun _ _ => true) [c06_cls2] [] c06_flags 2 true (s2p "B")
                  (PDict (map (fun p => (PStr (fst p), snd p)) c06_doc2)))
               (spec_deser (fun _ _ => true) [c06_cls2] [] c06_flags 2 true (s2p "B")
                  (PDict (map (fun p => (PStr (fst p), snd p)) c06_doc2))) = true.
Proof. vm_compute. repeat split; reflexivity. Qed.

Print Assumptions C06_extra_keys_dropped.
Print Assumptions C06_extra_keys_rejected.
Print Assumptions C06_keep_undefined_adjustment.
Print Assumptions C06_extra_keys_cases.
Print Assumptions C06_wrapper_error_class.
Print Assumptions C06_error_class.
Print Assumptions C06_error_class_statement.
Print Assumptions C06_constructor_error_class.
Print Assumptions C06_agree_scalar.
Print Assumptions C06_constructor_order_free.
Print Assumptions C06_src_list_like_handlers.
Print Assumptions C06_src_wrapper_handler.
Print Assumptions C06_src_fields_map_handler.
Print Assumptions C06_src_single_field_handlers.

(* ---- the tie to the source of the deserialization dispatch, re-checked by the kernel on every run ------------
   Gen/DeserializeSrc.v is re-generated from typedpy/serialization/serialization.py (harness/genmods/py2v_deserialize.py):
   deserialize_single_field, deserialize_list_like, deserialize_map, deserialize_multifield_wrapper,
   construct_fields_map, the extra-key filter and deserialize_structure_internal (calls to code outside the file go
   through one oracle, instantiated by the hand model's meaning).  For every declaration and document in the
   stated domain (doc_ok: no sets, hashable distinct dict keys; order_ok: Map entries on which key-first and
   value-first evaluation agree) the source computes NOW what the hand-written model Ser/Deserialize.v computes. *)
From TP Require Import Base.PyObj Base.PyOpsDeserialize Gen.DeserializeSrc Ser.DeserializeSrcProofs.

Theorem C06_src_single_field :
  forall (re_match : N -> pystr -> bool) (e : env) (ens : enums) (h : heap) 
           (ext : extern) (rec : bool -> pystr -> pyval -> res pyval),
         (forall (ku : bool) (c : pystr) (j v : pyval), rec ku c j = Ok v -> is_unbound v = false) ->
         ext_agrees re_match e ens ext ->
         forall (f : field) (fuel : nat) (ku ign : bool) (j name mapper camel : pyval),
         3 * fdepth f <= fuel ->
         doc_ok j = true ->
         order_ok re_match e ens rec ku f j = true ->
         r_deserialize_single_field (F h ext rec fuel) (fld_py f) j name mapper 
           (PBool ku) camel (PBool ign) = deser_val re_match e ens rec ku ign f j.
Proof. exact src_single_field_eq. Qed.

(* premise-free instance: the oracle IS the model *)
Theorem C06_src_single_field_model :
  forall (re_match : N -> pystr -> bool) (e : env) (ens : enums) (h : heap)
           (rec : bool -> pystr -> pyval -> res pyval) (f : field) (fuel : nat) 
           (ku ign : bool) (j name mapper camel : pyval),
         (forall (ku0 : bool) (c : pystr) (j0 v : pyval), rec ku0 c j0 = Ok v -> is_unbound v = false) ->
         3 * fdepth f <= fuel ->
         doc_ok j = true ->
         order_ok re_match e ens rec ku f j = true ->
         r_deserialize_single_field (F h (model_ext re_match e ens) rec fuel) 
           (fld_py f) j name mapper (PBool ku) camel (PBool ign) =
         deser_val re_match e ens rec ku ign f j.
Proof. exact src_single_field_model. Qed.

Theorem C06_src_construct_fields_map :
  forall (re_match : N -> pystr -> bool) (e : env) (ens : enums) (h : heap) 
           (ext : extern) (rec : bool -> pystr -> pyval -> res pyval),
         (forall (ku : bool) (c : pystr) (j v : pyval), rec ku c j = Ok v -> is_unbound v = false) ->
         ext_agrees re_match e ens ext ->
         ext_struct_agrees ext ->
         forall (cn : pystr) (fds : list fdecl) (m kv : list (pyval * pyval)) 
           (ku ign : bool) (usm camel : pyval) (fuel : nat),
         cfm_heap_ok h cn = true ->
         noop_on m fds = true ->
         NoDup (map fd_name fds) ->
         fields_covered re_match e ens rec ku fds kv = true ->
         3 * fields_depth fds <= fuel ->
         src_construct_fields_map h ext (F h ext rec fuel) (PDict (enc_fields fds)) 
           (PBool ku) (PDict m) (PDict kv) (ref cn) usm camel (PBool ign) 
           (PBool false) =
         match deser_fields re_match e ens rec ku ign fds kv false with
         | Ok kw => Ok (PDict (enc_kw kw))
         | Raise x => Raise x
         end.
Proof. exact src_construct_fields_map_eq. Qed.

(* which non-field keys reach the constructor *)
Theorem C06_src_extra_keys :
  forall (h : heap) (ext : extern) (R : recs) (cn : pystr) (c : classdef)
           (kv : list (pyval * pyval)) (ku flag : bool),
         h (s2p "TypedPyDefaults") (s2p "ignore_invalid_additional_properties_in_deserialization") =
         Some (PBool flag) ->
         match h cn (s2p "_constants") with
         | Some (PList []) | Some (PDict []) | None => true
         | _ => false
         end = true ->
         forallb (fun p : pyval * pyval => py_hashable (fst p)) kv = true ->
         keys_distinct [] kv = true ->
         r <-
         src_deserialize_structure_internal_comp_kwargs h ext R (PBool ku)
           (PDict (enc_fields (c_fields c))) (PBool (c_additional c)) (ref cn) kv;;
         PyOpsFields.py_dict_of r =
         Ok
           (PDict
              (if ku && (c_additional c || negb flag)
               then filter (fun p : pyval * pyval => negb (is_field_key c (fst p))) kv
               else [])).
Proof. exact src_extra_keys_eq. Qed.

(* one class level of deserialize_structure_internal = the model's deser_struct *)
Theorem C06_src_structure_internal :
  forall (re_match : N -> pystr -> bool) (e : env) (ens : enums) (fl : dflags) 
           (h : heap) (ext : extern) (n fuel : nat) (cn : pystr) (c : classdef)
           (m : list (pyval * pyval)) (j name usm mapper : pyval) (ku : bool) 
           (ssv : pyval),
         ext_agrees re_match e ens ext ->
         ext_struct_agrees ext ->
         find_class e cn = Some c ->
         heap_models h fl cn c ->
         ext_class_agrees re_match e ext cn c m ->
         NoDup (map fd_name (c_fields c)) ->
         struct_covered re_match e ens (deser_struct re_match e ens fl n) ku c j = true ->
         3 * fields_depth (c_fields c) <= fuel ->
         src_deserialize_structure_internal h ext
           (struct_recs h ext (deser_struct re_match e ens fl n) fuel) (ref cn) j name usm mapper
           (PBool ku) (PBool false) (PBool false) ssv = deser_struct re_match e ens fl (S n) ku cn j.
Proof. exact src_structure_internal_eq. Qed.

Print Assumptions C06_src_single_field.
Print Assumptions C06_src_single_field_model.
Print Assumptions C06_src_construct_fields_map.
Print Assumptions C06_src_extra_keys.
Print Assumptions C06_src_structure_internal.
