(* Property C08 — the exported JSON schema is well-formed and admits every serialized valid instance.
   Only the property theorems; proofs are in Schema/ToSchemaProofs.v.

   The full statement is FALSE of the faithful model (the code has defects, reproduced on the real
   library by harness/props/c08.py): it is kept as Definitions, the characterisation (defect-free
   sub-fragment => property) is proved, and each defect has a _refuted witness. *)
From Coq Require Import ZArith NArith String List.
Import ListNotations.
From TP Require Import Base.PyVal Fields.FieldAst Fields.SetChain Fields.Doc Fields.Domain Fields.SetChainProofs
  Schema.Draft4 Schema.ToSchema Schema.ToSchemaProofs Schema.ToSchemaClassProofs
  Gen.SchemaGuards Schema.SchemaGuardProofs.
Local Open Scope string_scope.

(* ------------------------------------------------------------------ full statements (Definitions) *)

(* every mappable class exports a well-formed draft-4 document whose $refs resolve in its definitions *)
Definition C08_wf_statement : Prop :=
  forall ei e smap fuel c, schema_mappable ei e fuel c = true -> wf_doc (fix_doc (to_schema ei e smap fuel c)) = true.

(* every value a mappable field accepts, serialized, validates against the field's exported schema *)
Definition C08_complete_statement : Prop :=
  forall ei re_match re_search e D ss f v nf j,
    (forall p s, re_match p s = true -> re_search p s = true) ->
    mappable ei f = true -> field_refs f = [] ->
    vset re_match e f v = Ok nf -> ser ei re_match e ss f nf = Some j ->
    valid4 re_search D (fdepth f + 40) (fix_dialect (fschema ei f)) j = true.

(* converse on the exact sub-fragment: left to the differential (boundary documents, validator-accepts
   implies Deserializer-accepts); [deser] stands for the Deserializer *)
Definition C08_exact_statement (exact : field -> bool) (deser : field -> pyval -> bool) : Prop :=
  forall ei re_search D f j,
    exact f = true -> valid4 re_search D (fdepth f + 40) (fix_dialect (fschema ei f)) j = true -> deser f j = true.

(* ------------------------------------------------------------------ theorems *)

(* Well-formedness (characterisation), per declaration, by structural induction over the field: for every
   declaration free of the characterised defects ([fclean]: sizes/multiplesOf in draft 4's domain, non-empty
   distinct enums, JSON bounds; a pattern/length-constrained Map key and exclusiveMaximum without a maximum are no
   longer among them: the library writes {pattern: schema} and drops the lone exclusiveMaximum), the emitted schema, after the two dialect translations, is a well-formed draft-4 schema, and its
   $refs resolve in any definitions D that contain the referenced classes. *)
Theorem C08_wf : forall ei D f,
    fclean ei f = true ->
    (forall nm, In nm (field_refs f) -> alist_has D nm = true) ->
    wf4 D (fix_dialect (fschema ei f)) = true.
Proof. exact fschema_wf. Qed.


(* The "$ref resolves inside the returned definitions" clause, at the level of the whole exported document and for
   EVERY class (no cleanliness hypothesis: it also holds of the classes whose export has other defects): if the
   reference graph of the class is explored within the fuel (every referenced class exists), every $ref of the
   top-level schema and of every definition has an entry in the returned definitions.  Induction over the fuel
   of the definitions closure. *)
Theorem C08_refs_resolve : forall ei e smap fuel c,
    closed e fuel any_class (class_refs c) = true ->
    doc_refs_resolve (fix_doc (to_schema ei e smap fuel c)) = true.
Proof. exact refs_resolve. Qed.

(* Well-formedness of the whole document (characterisation at class level): a class free of the characterised
   defects, transitively through its references ([schema_clean]: clean fields, JSON defaults, a non-empty
   duplicate-free "required" unless the class is a field wrapper), exports -- after the dialect translation -- a
   well-formed draft-4 document all of whose $refs resolve. *)
Theorem C08_wf_doc : forall ei e smap fuel c,
    schema_clean ei e smap fuel c = true ->
    wf_doc (fix_doc (to_schema ei e smap fuel c)) = true.
Proof. exact clean_doc_wf. Qed.

Section C08.
  Variable ei : einfo_t.                                   (* enum classes: mixed-in primitive type, by-value flag *)
  Variable re_match re_search : N -> pystr -> bool.        (* oracles: re.match / re.search *)
  Hypothesis re_match_search : forall p s, re_match p s = true -> re_search p s = true.
  Variable e : env.
  Variable D : list (pystr * schema).
  Variable ser_struct : pystr -> list (pystr * pyval) -> option pyval.

  (* Completeness (characterisation), compiler-correctness style, by structural induction over the field:
     on the sub-fragment [cfrag] (numbers with bounds/multiplesOf/signs/exclusiveMaximum except the sign-only float
     bound; strings with lengths and patterns; booleans; enum
     classes; arrays with size bounds; maps with string keys, constrained or not; AnyOf/Optional over scalar
     options — nested to any depth), every value the documented rules accept with normal form nf, once
     serialized, validates against the exported schema (after the dialect translation), for every fuel
     above the nesting depth. *)
  Theorem C08_complete : forall f, cfrag ei f = true -> forall v nf j n,
      docb re_match e f v = Some nf ->
      ser ei re_match e ser_struct f nf = Some j ->
      (fdepth f <= n)%nat ->
      valid4 re_search D n (fix_dialect (fschema ei f)) j = true.
  Proof. exact (fschema_complete ei re_match re_search re_match_search e D ser_struct). Qed.

  (* the same for the code-shaped set-chain, on C02's domain (where vset and the documented rules agree) *)
  Theorem C08_complete_vset : forall f, cfrag ei f = true -> forall v nf j n,
      dom f v = true ->
      vset re_match e f v = Ok nf ->
      ser ei re_match e ser_struct f nf = Some j ->
      (fdepth f <= n)%nat ->
      valid4 re_search D n (fix_dialect (fschema ei f)) j = true.
  Proof.
    intros f Hc v nf j n Hdom Hv Hs Hn.
    apply (fschema_complete ei re_match re_search re_match_search e D ser_struct f Hc v nf j n); auto.
    apply (vset_decision re_match e f v nf Hdom). exact Hv.
  Qed.
  (* Completeness at class level (object form): properties under the RENAMED keys, "required" after renaming and
     with the fields that have a default, additionalProperties.  For a class in object form whose fields are in the
     completeness fragment and whose renamed keys are distinct, and an instance whose attributes hold normal forms
     of their fields, with every required field and every field with a default present: the serialization
     validates against the class schema. *)
  Variable smap : pystr -> renames.
  Theorem C08_class_complete : forall c attrs j fuel n,
      find_class e (c_name c) = Some c ->
      wrapper_form c = false ->
      forallb (fun d => cfrag ei (fd_field d)) (c_fields c) = true ->
      nodup_str (map (fun d => rename (smap (c_name c)) (fd_name d)) (c_fields c)) = true ->
      Forall (attr_ok re_match e c) attrs ->
      (forall r, In r (c_required c) -> alist_has attrs r = true) ->
      (forall d, In d (c_fields c) -> fd_default d <> None -> alist_has attrs (fd_name d) = true) ->
      (forall d, In d (c_fields c) -> (fdepth (fd_field d) <= n)%nat) ->
      ser_inst ei re_match e smap (S fuel) (c_name c) attrs = Some j ->
      valid4 re_search D (S n) (fix_dialect (class_schema ei (smap (c_name c)) c)) j = true.
  Proof. exact (class_complete ei re_match re_search re_match_search e D smap). Qed.
End C08.

Print Assumptions C08_wf.
Print Assumptions C08_refs_resolve.
Print Assumptions C08_wf_doc.
Print Assumptions C08_class_complete.
Print Assumptions C08_complete.
Print Assumptions C08_complete_vset.

(* ------------------------------------------------------------------ ties to the source (regenerated every run) *)
(* Gen/SchemaGuards.v is rewritten from typedpy/json_schema/json_schema_mapping.py by harness/genmods/schema_guards.py
   (abstract interpretation of the function bodies) before every build; these theorems state that what the source
   says NOW is what the model above is about. *)

(* EnumMapper.to_schema.adjust: the isinstance tests, in the order the source makes them *)
Theorem C08_src_enum_adjust : forall is_enum is_prim by_value,
    enum_adjust_gen is_enum is_prim by_value = enum_adjust is_enum is_prim by_value.
Proof. exact src_enum_adjust. Qed.

(* NumberMapper.to_schema.get_min / get_max, one row per concrete numeric class *)
Theorem C08_src_get_min : forall k s c,
    get_min k s c = interp_bound (minimum c) (get_min_gen k s (is_some (minimum c))).
Proof. exact src_get_min. Qed.
Theorem C08_src_get_max : forall k s c,
    get_max k s c = interp_bound (maximum c) (get_max_gen k s (is_some (maximum c))).
Proof. exact src_get_max. Qed.

(* get_mapper's dispatch table *)
Theorem C08_src_get_mapper : forall f,
    alist_get schema_mapper_table (s2p (field_class f)) = option_map s2p (mapper_for f).
Proof. exact src_get_mapper. Qed.

(* no module-level state is written by the functions of the export module *)
Theorem C08_src_stateless : schema_module_state = [].
Proof. exact src_stateless. Qed.

Print Assumptions C08_src_enum_adjust.
Print Assumptions C08_src_get_min.
Print Assumptions C08_src_get_max.
Print Assumptions C08_src_get_mapper.
Print Assumptions C08_src_stateless.

(* ------------------------------------------------------------------ refutations of the full statements *)

Definition always (_ : N) (_ : pystr) : bool := true.
Definition no_struct (_ : pystr) (_ : list (pystr * pyval)) : option pyval := None.

(* F16a: PositiveFloat is exported with minimum 0.000001; the valid value 1e-9 is not admitted *)
Definition tiny : num := NFlt 4835703278458517 (-82).     (* the double 1e-9 *)
Example C08_complete_refuted_epsilon :
  let f := FNumber KFloat SPositive no_numc in
  mappable no_einfo f = true /\
  vset always [] f (PNum tiny) = Ok (PNum tiny) /\
  ser no_einfo always [] no_struct f (PNum tiny) = Some (PNum tiny) /\
  valid4 always [] 50 (fix_dialect (fschema no_einfo f)) (PNum tiny) = false.
Proof. repeat split; vm_compute; reflexivity. Qed.

Theorem C08_complete_refuted : ~ C08_complete_statement.
Proof.
  intro H.
  specialize (H no_einfo always always [] [] no_struct (FNumber KFloat SPositive no_numc) (PNum tiny) (PNum tiny) (PNum tiny)
                (fun _ _ E => E) eq_refl eq_refl).
  assert (A : vset always [] (FNumber KFloat SPositive no_numc) (PNum tiny) = Ok (PNum tiny)) by (vm_compute; reflexivity).
  assert (B : ser no_einfo always [] no_struct (FNumber KFloat SPositive no_numc) (PNum tiny) = Some (PNum tiny)) by reflexivity.
  specialize (H A B). vm_compute in H. discriminate H.
Qed.
Print Assumptions C08_complete_refuted.

(* F16b (repaired): Map with a pattern/length-constrained String key: "patternProperties": {<key regex>: <value schema>}
   is well-formed, and admits the serialized map whichever keys the regex finds; so is a Number with exclusiveMaximum
   and no maximum of its own (the keyword is not exported), also under a sign class *)
Example C08_wf_map_pattern_keys :
  let f := FMapKV (FString {| minLength := Some 2%Z; maxLength := None; pattern := Some 0%N |})
                  (FNumber KInteger SNonPositive {| multiplesOf := None; minimum := None; maximum := None; exclusiveMaximum := true |})
                  no_sizec in
  let j := PDict [(PStr (s2p "ab"), PNum (NInt 0))] in
  mappable no_einfo f = true /\ fclean no_einfo f = true /\ cfrag no_einfo f = true /\
  wf4 [] (fix_dialect (fschema no_einfo f)) = true /\
  docb always [] f j = Some j /\ ser no_einfo always [] no_struct f j = Some j /\
  valid4 always [] 10 (fix_dialect (fschema no_einfo f)) j = true.
Proof. repeat split; vm_compute; reflexivity. Qed.

(* "required": [] (a class without required fields) violates draft 4's stringArray (minItems 1) *)
Definition cls_no_required : classdef :=
  {| c_name := s2p "T"; c_ancestors := [];
     c_fields := [ {| fd_name := s2p "a"; fd_field := FNumber KInteger SAny no_numc; fd_immutable := false; fd_default := None |} ];
     c_required := []; c_additional := true; c_ignore_none := false; c_immutable := false; c_hook := HookNone |}.

Theorem C08_wf_refuted : ~ C08_wf_statement.
Proof.
  intro H. specialize (H no_einfo [] (fun _ => []) 3%nat cls_no_required eq_refl). vm_compute in H. discriminate H.
Qed.
Print Assumptions C08_wf_refuted.

(* a field-wrapper class nested in another: definitions hold the bare field schema, the nested instance is
   serialized as an object *)
Definition cls_w : classdef :=
  {| c_name := s2p "W"; c_ancestors := [];
     c_fields := [ {| fd_name := s2p "a"; fd_field := FNumber KInteger SAny no_numc; fd_immutable := false; fd_default := None |} ];
     c_required := [s2p "a"]; c_additional := false; c_ignore_none := false; c_immutable := false; c_hook := HookNone |}.
Definition cls_t : classdef :=
  {| c_name := s2p "T"; c_ancestors := [];
     c_fields := [ {| fd_name := s2p "w"; fd_field := FClassRef (s2p "W"); fd_immutable := false; fd_default := None |};
                   {| fd_name := s2p "n"; fd_field := FNumber KInteger SAny no_numc; fd_immutable := false; fd_default := None |} ];
     c_required := [s2p "n"; s2p "w"]; c_additional := false; c_ignore_none := false; c_immutable := false; c_hook := HookNone |}.

Example C08_complete_refuted_nested_wrapper :
  let env := [cls_w; cls_t] in
  let doc := fix_doc (to_schema no_einfo env (fun _ => []) 5 cls_t) in
  let inst := [(s2p "w", PStruct (s2p "W") [(s2p "a", PNum (NInt 1))]); (s2p "n", PNum (NInt 2))] in
  wf_doc doc = true /\
  exists j, ser_top no_einfo always env (fun _ => []) 5 cls_t inst = Some j /\
            valid4 always (snd doc) 50 (fst doc) j = false.
Proof.
  split; [vm_compute; reflexivity|].
  exists (PDict [(PStr (s2p "w"), PDict [(PStr (s2p "a"), PNum (NInt 1))]); (PStr (s2p "n"), PNum (NInt 2))]).
  split; vm_compute; reflexivity.
Qed.

(* ------------------------------------------------------------------ non-vacuity *)

(* a nested declaration in the proved fragment, an accepted value whose normal form differs from the input,
   its serialization, and the verdict; plus a class with a $ref whose export is well-formed *)
Definition ex_field : field :=
  FMapKV (FString no_strc)
         (FSeqEach SeqList
            (FAnyOf [FNumber KInteger SPositive {| multiplesOf := Some 5%Z; minimum := None; maximum := Some (NInt 100); exclusiveMaximum := true |};
                     FString {| minLength := Some 2%Z; maxLength := None; pattern := Some 3%N |}])
            {| minItems := Some 1%Z; maxItems := Some 3%Z |} false)
         no_sizec.
Definition ex_value : pyval :=
  PDict [(PStr (s2p "k"), PList [PNum (NInt 95); PStr (s2p "yy")])].

Example C08_nonvacuous :
  cfrag no_einfo ex_field = true /\ fclean no_einfo ex_field = true /\
  docb always [] ex_field ex_value = Some ex_value /\
  ser no_einfo always [] no_struct ex_field ex_value = Some ex_value /\
  valid4 always [] (fdepth ex_field) (fix_dialect (fschema no_einfo ex_field)) ex_value = true /\
  (* at the exclusive maximum the value is rejected by the field, and the document by the schema *)
  valid4 always [] 10 (fix_dialect (fschema no_einfo ex_field)) (PDict [(PStr (s2p "k"), PList [PNum (NInt 100)])]) = false /\
  wf_doc (fix_doc (to_schema no_einfo [cls_w; cls_t] (fun _ => []) 5 cls_t)) = true.
Proof. repeat split; vm_compute; reflexivity. Qed.

(* ------------------------------------------------------------------ non-vacuity of the class-level theorems *)

Definition fd (n : string) (f : field) (d : option pyval) : fdecl :=
  {| fd_name := s2p n; fd_field := f; fd_immutable := false; fd_default := d |}.
Definition cls (n : string) (fs : list fdecl) (req : list string) (add : bool) : classdef :=
  {| c_name := s2p n; c_ancestors := []; c_fields := fs; c_required := map s2p req; c_additional := add;
     c_ignore_none := false; c_immutable := false; c_hook := HookNone |}.

(* Top -> Mid -> Leaf (Leaf reachable only through Mid), an IntEnum field exported by name, a renamed key, a default *)
Definition ei_prio : einfo_t :=
  fun c => if pystr_eqb c (s2p "Prio") then {| eo_mixin := MixInt; eo_by_value := false |} else no_einfo c.
Definition prio_field : field :=
  FEnumCls (s2p "Prio") [(s2p "LOW", PNum (NInt 1)); (s2p "HIGH", PNum (NInt 2))].
Definition cls_leaf := cls "Leaf" [fd "v" (FNumber KInteger SAny no_numc) None; fd "p" prio_field None] ["p"; "v"] false.
Definition cls_mid := cls "Mid" [fd "leaf" (FClassRef (s2p "Leaf")) None; fd "n" (FNumber KInteger SAny no_numc) None] ["leaf"; "n"] false.
Definition cls_top := cls "Top" [fd "mid" (FSeqEach SeqList (FClassRef (s2p "Mid")) no_sizec false) None;
                                 fd "x_y" (FString no_strc) (Some (PStr (s2p "dflt")))] ["mid"] false.
Definition env3 : env := [cls_leaf; cls_mid; cls_top].
Definition smap3 : pystr -> renames :=
  fun c => if pystr_eqb c (s2p "Top") then [(s2p "x_y", s2p "xY")] else [].

Example C08_class_level_nonvacuous :
  closed env3 5 any_class (class_refs cls_top) = true /\
  schema_clean ei_prio env3 smap3 5 cls_top = true /\
  length (snd (to_schema ei_prio env3 smap3 5 cls_top)) = 2%nat /\
  (* the IntEnum is exported by name *)
  fschema ei_prio prio_field = Sch [KEnum [PStr (s2p "LOW"); PStr (s2p "HIGH")]] /\
  (* a class with an empty "required" is not clean (its export is ill-formed), yet its $refs resolve *)
  (let bad := cls "Bad" [fd "m" (FClassRef (s2p "Mid")) None] [] true in
   schema_clean ei_prio env3 smap3 5 bad = false /\
   wf_doc (fix_doc (to_schema ei_prio env3 smap3 5 bad)) = false /\
   doc_refs_resolve (fix_doc (to_schema ei_prio env3 smap3 5 bad)) = true).
Proof. repeat split; vm_compute; reflexivity. Qed.

(* hypotheses of C08_class_complete on a class with a renamed key, a default and an IntEnum field *)
Definition cls_flat := cls "Flat" [fd "p" prio_field None; fd "x_y" (FString no_strc) (Some (PStr (s2p "dflt")));
                                   fd "l" (FSeqEach SeqList (FNumber KInteger SPositive no_numc) no_sizec false) None]
                           ["p"] false.
Definition smap_flat : pystr -> renames := fun _ => [(s2p "x_y", s2p "xY")].
Definition flat_attrs : list (pystr * pyval) :=
  [(s2p "p", PEnum (s2p "Prio") (s2p "HIGH") (PNum (NInt 2))); (s2p "x_y", PStr (s2p "dflt"));
   (s2p "l", PList [PNum (NInt 3)])].

Example C08_class_complete_nonvacuous :
  find_class [cls_flat] (c_name cls_flat) = Some cls_flat /\
  wrapper_form cls_flat = false /\
  forallb (fun d => cfrag ei_prio (fd_field d)) (c_fields cls_flat) = true /\
  nodup_str (map (fun d => rename (smap_flat (c_name cls_flat)) (fd_name d)) (c_fields cls_flat)) = true /\
  Forall (attr_ok always [cls_flat] cls_flat) flat_attrs /\
  forallb (fun r => alist_has flat_attrs r) (c_required cls_flat) = true /\
  ser_inst ei_prio always [cls_flat] smap_flat 3 (c_name cls_flat) flat_attrs =
    Some (PDict [(PStr (s2p "p"), PStr (s2p "HIGH")); (PStr (s2p "xY"), PStr (s2p "dflt"));
                 (PStr (s2p "l"), PList [PNum (NInt 3)])]) /\
  (* and the schema does reject a document that lacks the defaulted (hence required) key *)
  valid4 always [] 5 (fix_dialect (class_schema ei_prio (smap_flat (c_name cls_flat)) cls_flat))
         (PDict [(PStr (s2p "p"), PStr (s2p "HIGH"))]) = false.
Proof.
  repeat split; try (vm_compute; reflexivity).
  repeat constructor.
  - exists (fd "p" prio_field None), (PStr (s2p "HIGH")). split; vm_compute; reflexivity.
  - exists (fd "x_y" (FString no_strc) (Some (PStr (s2p "dflt")))), (PStr (s2p "dflt")). split; vm_compute; reflexivity.
  - exists (fd "l" (FSeqEach SeqList (FNumber KInteger SPositive no_numc) no_sizec false) None), (PList [PNum (NInt 3)]).
    split; vm_compute; reflexivity.
Qed.

(* ------------------------------------------------------------------ the tie to the source of the per-field schema mappers (generated layer) *)
(* Property C08 — the tie of the hand-written model Schema/ToSchema.v (fschema, mappable), on which the C08
   theorems are proved, to the CURRENT text of typedpy/json_schema/json_schema_mapping.py.
   Gen/SchemaSrc.v is the translation of get_mapper / convert_to_schema / _map_class_reference / every
   *Mapper.to_schema, re-generated from the source on every run (harness/genmods/py2v_schema.py); these theorems
   (proved in Schema/SchemaSrcProofs.v) say that it computes the hand model, for EVERY declaration.
   [ei] is the enum-class table of the model (per class: mixed-in primitive type, serialization_by_value). *)
From Coq Require Import ZArith NArith String List.
Import ListNotations.
From TP Require Import Base.PyVal Base.PyOps Base.PyOps2 Base.PyOpsSchema Fields.FieldAst
     Schema.Draft4 Schema.ToSchema Gen.SchemaSrc Schema.SchemaSrcProofs.

Section C08_src.
  Variable pat_text : N -> pystr.                         (* the text of a pattern id *)
  Variable ei : einfo_t.                                  (* the enum classes: mix-in kind, by-value flag *)
  Variable s2s : pyval -> pyval -> res pyval.             (* structure_to_schema(cls, definitions, sm) *)
  Variable defs_store : pyval -> pyval -> res unit.       (* definitions[k] = v *)
  Hypothesis defs_store_ok : forall k v, defs_store k v = Ok tt.

  (* convert_to_schema, as the source is written now, on the object of a declaration the hand model calls mappable:
     returns exactly the rendering of fschema (same keys, same order, same values) *)
  Theorem C08_src_to_schema : forall f,
      mappable ei f = true -> keys_text_ok pat_text f = true -> refs_ok s2s f ->
      forall fuel sm, (cfuel f <= fuel)%nat ->
      convert_to_schema s2s defs_store fuel (field_obj pat_text ei f) sm = Ok (sch_json pat_text (fschema ei f)).
  Proof. exact (generated_convert_to_schema pat_text ei s2s defs_store defs_store_ok). Qed.

  (* ... and on one it calls unmappable: raises TypeError / NotImplementedError *)
  Theorem C08_src_unmappable_raises : forall f,
      mappable ei f = false -> lits_plain f = true -> keys_text_ok pat_text f = true -> refs_ok s2s f ->
      forall fuel sm, (cfuel f <= fuel)%nat ->
      exists e, convert_to_schema s2s defs_store fuel (field_obj pat_text ei f) sm = Raise e /\ schema_exn e = true.
  Proof. exact (generated_convert_to_schema_raises pat_text ei s2s defs_store defs_store_ok). Qed.

  (* get_mapper: the mapper class of every field class (none for Deque, NoneField, Anything) *)
  Theorem C08_src_get_mapper_fun : forall f,
      get_mapper (cls_val (field_pyclass f))
      = match mapper_of f with Some m => Ok (cls_val m) | None => Raise NotImplementedError end.
  Proof. exact generated_get_mapper. Qed.

  (* the per-mapper statements (rec = convert_to_schema; mc = whatever class the mapper object has) *)
  Theorem C08_src_NumberMapper : forall rec mc k s c sm,
      NumberMapper__to_schema s2s defs_store rec (mapper_obj mc (field_obj pat_text ei (FNumber k s c))) sm
      = Ok (jkws pat_text (KType TNumber :: tl (num_kws k s c))).
  Proof. exact (generated_NumberMapper_to_schema pat_text ei s2s defs_store). Qed.

  Theorem C08_src_IntegerMapper : forall rec mc s c sm,
      IntegerMapper__to_schema s2s defs_store rec (mapper_obj mc (field_obj pat_text ei (FNumber KInteger s c))) sm
      = Ok (jschema pat_text ei (FNumber KInteger s c)).
  Proof. exact (generated_IntegerMapper_to_schema pat_text ei s2s defs_store). Qed.

  Theorem C08_src_StringMapper : forall rec mc c sm,
      StringMapper__to_schema s2s defs_store rec (mapper_obj mc (field_obj pat_text ei (FString c))) sm
      = Ok (jschema pat_text ei (FString c)).
  Proof. exact (generated_StringMapper_to_schema pat_text ei s2s defs_store). Qed.

  Theorem C08_src_BooleanMapper : forall rec self sm,
      BooleanMapper__to_schema s2s defs_store rec self sm = Ok (jschema pat_text ei FBoolean).
  Proof. exact (generated_BooleanMapper_to_schema pat_text ei s2s defs_store). Qed.

  Theorem C08_src_ArrayMapper_seq : forall rec mc k items sz u add sm,
      ArrayMapper__to_schema s2s defs_store rec (mapper_obj mc (PStruct (seq_class k) (seq_attrs items sz u add))) sm
      = (J <- rec items sm ;;
         Ok (PDict (map (kw_json pat_text) ([KType TArray] ++ uniq_kws u ++ optl add KAddItems ++ size_kws sz)
                    ++ items_entry J))).
  Proof. exact (generated_ArrayMapper_to_schema_seq pat_text s2s defs_store). Qed.

  Theorem C08_src_ArrayMapper_tuple : forall rec mc items u sm,
      ArrayMapper__to_schema s2s defs_store rec
        (mapper_obj mc (PStruct (s2p "Tuple") [(s2p "items", items); (s2p "uniqueItems", otrue u)])) sm
      = (J <- rec items sm ;;
         Ok (PDict (map (kw_json pat_text) ([KType TArray] ++ uniq_kws u ++ [KAddItems false]) ++ items_entry J))).
  Proof. exact (generated_ArrayMapper_to_schema_tuple pat_text s2s defs_store). Qed.

  Theorem C08_src_ArrayMapper_set : forall rec mc imm items sz sm,
      ArrayMapper__to_schema s2s defs_store rec
        (mapper_obj mc (PStruct (set_class imm) ((s2p "items", items) :: size_attrs sz))) sm
      = (J <- rec items sm ;;
         Ok (PDict (map (kw_json pat_text) ([KType TArray; KUnique true] ++ size_kws sz) ++ items_entry J))).
  Proof. exact (generated_ArrayMapper_to_schema_set pat_text s2s defs_store). Qed.

  Theorem C08_src_MapMapper_any : forall rec mc sz sm,
      MapMapper__to_schema s2s defs_store rec (mapper_obj mc (map_obj PNone sz)) sm = Ok (jschema pat_text ei (FMapAny sz)).
  Proof. exact (generated_MapMapper_to_schema_any pat_text ei s2s defs_store). Qed.

  Theorem C08_src_MapMapper_kv : forall rec mc c V sz sm,
      key_pat_ok pat_text c = true ->
      (forall J, rec V sm = Ok J -> exists d D, J = PDict (d :: D)) ->
      MapMapper__to_schema s2s defs_store rec
        (mapper_obj mc (map_obj (PList [field_obj pat_text ei (FString c); V]) sz)) sm
      = (J <- rec V sm ;;
         Ok (PDict ([kw_json pat_text (KType TObject)]
                    ++ [if key_constrained c then (PStr (s2p "patternProperties"), PDict [(PStr (key_text pat_text c), J)])
                        else (PStr (s2p "additionalProperties"), J)]
                    ++ map (kw_json pat_text) (size_kws sz)))).
  Proof. exact (generated_MapMapper_to_schema_kv pat_text ei s2s defs_store). Qed.

  Theorem C08_src_MapMapper_badkey : forall rec mc kf V sz sm,
      match kf with FString _ => false | _ => true end = true ->
      MapMapper__to_schema s2s defs_store rec (mapper_obj mc (map_obj (PList [field_obj pat_text ei kf; V]) sz)) sm
      = Raise TypeError.
  Proof. exact (generated_MapMapper_to_schema_badkey pat_text ei s2s defs_store). Qed.

  Theorem C08_src_EnumMapper_lit : forall rec mc vs sm,
      forallb plain_lit vs = true ->
      EnumMapper__to_schema s2s defs_store rec (mapper_obj mc (field_obj pat_text ei (FEnumLit vs))) sm
      = if mappable ei (FEnumLit vs) then Ok (jschema pat_text ei (FEnumLit vs)) else Raise TypeError.
  Proof. exact (generated_EnumMapper_to_schema_lit pat_text ei s2s defs_store). Qed.

  Theorem C08_src_EnumMapper_cls : forall rec mc cls ms sm,
      EnumMapper__to_schema s2s defs_store rec (mapper_obj mc (field_obj pat_text ei (FEnumCls cls ms))) sm
      = Ok (jschema pat_text ei (FEnumCls cls ms)).
  Proof. exact (generated_EnumMapper_to_schema_cls pat_text ei s2s defs_store). Qed.

  Theorem C08_src_AllOfMapper : forall rec mc cls fs sm,
      AllOfMapper__to_schema s2s defs_store rec (mapper_obj mc (fields_obj cls fs)) sm
      = (J <- rec fs sm ;; Ok (PDict [(PStr (s2p "allOf"), J)])).
  Proof. exact (generated_AllOfMapper_to_schema s2s defs_store). Qed.

  Theorem C08_src_OneOfMapper : forall rec mc cls fs sm,
      OneOfMapper__to_schema s2s defs_store rec (mapper_obj mc (fields_obj cls fs)) sm
      = (J <- rec fs sm ;; Ok (PDict [(PStr (s2p "oneOf"), J)])).
  Proof. exact (generated_OneOfMapper_to_schema s2s defs_store). Qed.

  Theorem C08_src_NotFieldMapper : forall rec mc cls fs sm,
      NotFieldMapper__to_schema s2s defs_store rec (mapper_obj mc (fields_obj cls fs)) sm
      = (J <- rec fs sm ;; Ok (PDict [(PStr (s2p "not"), J)])).
  Proof. exact (generated_NotFieldMapper_to_schema s2s defs_store). Qed.

  Theorem C08_src_AnyOfMapper : forall rec mc fs sm,
      AnyOfMapper__to_schema s2s defs_store rec (mapper_obj mc (field_obj pat_text ei (FAnyOf fs))) sm
      = match fs with
        | [g; FNone] => rec (field_obj pat_text ei g) sm
        | _ => (J <- rec (PList (map (field_obj pat_text ei) fs)) sm ;; Ok (PDict [(PStr (s2p "anyOf"), J)]))
        end.
  Proof. exact (generated_AnyOfMapper_to_schema pat_text ei s2s defs_store). Qed.

  Theorem C08_src_map_class_reference : forall rec c d x,
      s2s (cls_val c) PNone = Ok (PTuple [d; x]) ->
      defs_store (PStr c) d = Ok tt ->
      map_class_reference s2s defs_store rec (field_obj pat_text ei (FClassRef c)) = Ok (jschema pat_text ei (FClassRef c)).
  Proof. exact (generated_map_class_reference pat_text ei s2s defs_store). Qed.
End C08_src.

Print Assumptions C08_src_to_schema.
Print Assumptions C08_src_unmappable_raises.
Print Assumptions C08_src_get_mapper_fun.
Print Assumptions C08_src_NumberMapper.
Print Assumptions C08_src_IntegerMapper.
Print Assumptions C08_src_StringMapper.
Print Assumptions C08_src_BooleanMapper.
Print Assumptions C08_src_ArrayMapper_seq.
Print Assumptions C08_src_ArrayMapper_tuple.
Print Assumptions C08_src_ArrayMapper_set.
Print Assumptions C08_src_MapMapper_any.
Print Assumptions C08_src_MapMapper_kv.
Print Assumptions C08_src_MapMapper_badkey.
Print Assumptions C08_src_EnumMapper_lit.
Print Assumptions C08_src_EnumMapper_cls.
Print Assumptions C08_src_AllOfMapper.
Print Assumptions C08_src_OneOfMapper.
Print Assumptions C08_src_NotFieldMapper.
Print Assumptions C08_src_AnyOfMapper.
Print Assumptions C08_src_map_class_reference.

(* the hypotheses are satisfiable by a non-trivial declaration (and the disagreement on an empty key pattern) *)
Example C08_src_satisfiable :
  mappable src_ex_ei src_ex_field = true /\ keys_text_ok src_ex_pat_text src_ex_field = true /\
  refs_ok src_ex_s2s src_ex_field /\
  (forall k v, src_ex_store k v = Ok tt) /\ (cfuel src_ex_field <= 6)%nat /\
  convert_to_schema src_ex_s2s src_ex_store 6 (field_obj src_ex_pat_text src_ex_ei src_ex_field) PNone
  = Ok (sch_json src_ex_pat_text (fschema src_ex_ei src_ex_field)).
Proof. exact side_conditions_satisfiable. Qed.

(* _generate_schema_for_fields_internal and serialize_internal read "<name>._mapper" under the attribute name *)
Theorem C08_src_submapper_lookup :
  schema_submapper_lookup = ByAttrName /\ serializer_submapper_lookup = ByAttrName.
Proof. exact src_submapper_lookup. Qed.
Print Assumptions C08_src_submapper_lookup.

(* Inline structures (StructureReference) under a nested mapper tree: when the export and the serializer look the
   "<name>._mapper" entry up under the same name -- which C08_src_submapper_lookup establishes for the current
   source -- the serialization of the inline structure validates against its inline schema, for every mapper tree
   (holder renamed or not, nested keys renamed or not). *)
Theorem C08_inline_complete : forall ei re_match re_search,
    (forall p s, re_match p s = true -> re_search p s = true) ->
    forall e D kS kR t key c attrs j fuel n,
      kS = kR ->
      find_class e (c_name c) = Some c ->
      wrapper_form c = false ->
      forallb (fun d => cfrag ei (fd_field d)) (c_fields c) = true ->
      nodup_str (map (fun d => rename (sub_renames kR t key) (fd_name d)) (c_fields c)) = true ->
      Forall (attr_ok re_match e c) attrs ->
      (forall r, In r (c_required c) -> alist_has attrs r = true) ->
      (forall d, In d (c_fields c) -> fd_default d <> None -> alist_has attrs (fd_name d) = true) ->
      (forall d, In d (c_fields c) -> (fdepth (fd_field d) <= n)%nat) ->
      inline_ser ei re_match e kR t key fuel c attrs = Some j ->
      valid4 re_search D (S n) (fix_dialect (inline_schema ei kS t key c)) j = true.
Proof. exact inline_complete. Qed.
Print Assumptions C08_inline_complete.

(* the hypothesis kS = kR is needed, and only bites when the HOLDER is renamed: a holder "home_addr" renamed to
   "homeAddr" whose inline keys are renamed through "home_addr._mapper" *)
Definition cls_addr := cls "Addr" [fd "street_name" (FString no_strc) None; fd "zip" (FString no_strc) None] ["street_name"] false.
Definition addr_tree (holder_to : string) : mtree :=
  MT [(s2p "home_addr", s2p holder_to)]
     [(s2p "home_addr", MT [(s2p "street_name", s2p "streetName")] [])].
Example C08_inline_lookup_matters :
  let attrs := [(s2p "street_name", PStr (s2p "main"))] in
  let ser k t := inline_ser no_einfo always [cls_addr] k t (s2p "home_addr") 3 cls_addr attrs in
  let ok kS kR t := match ser kR t with
                    | Some j => valid4 always [] 5 (fix_dialect (inline_schema no_einfo kS t (s2p "home_addr") cls_addr)) j
                    | None => false end in
  ser ByAttrName (addr_tree "homeAddr") = Some (PDict [(PStr (s2p "streetName"), PStr (s2p "main"))]) /\
  ok ByAttrName ByAttrName (addr_tree "homeAddr") = true /\
  ok ByMappedName ByAttrName (addr_tree "homeAddr") = false /\      (* export reads "homeAddr._mapper": not found *)
  ok ByMappedName ByAttrName (addr_tree "home_addr") = true.         (* holder not renamed: the two names coincide *)
Proof. repeat split; vm_compute; reflexivity. Qed.

(* ------------------------------------------------------------------ the tie to the source of structure_to_schema (class level) *)
(* Gen/SchemaSrc.v also carries the translation of _validated_mapped_value, _generate_schema_for_fields_internal and
   structure_to_schema (regenerated on every run); Schema/SchemaSrcClassProofs.v ties them to the hand model:
   [h] are the attributes of the classes, [agg] is aggregate_serialization_mappers, [rec] convert_to_schema. *)
From TP Require Import Schema.SchemaSrcClassProofs.

(* _validated_mapped_value on a mapper of string renames *)
Theorem C08_src_validated_mapped_value : forall m k, validated_mapped_value (ren_dict m) (PStr k) = Ok PNone.
Proof. exact generated_validated_mapped_value. Qed.

(* the loop of _generate_schema_for_fields_internal: properties keyed by the renamed names in field order, with the
   default copied in; the required list renamed entry by entry (each entry once: the list of the field names the
   entries stand for is kept alongside) and extended by the keys of the defaulted fields that are not required *)
Theorem C08_src_generate_schema_for_fields : forall pat_text ei h agg s2s defs_store rec m fs P R,
    (forall d, In d fs -> field_ready pat_text ei rec d) ->
    generate_schema_for_fields_internal h agg s2s defs_store rec (fields_dict pat_text ei fs) (ren_dict m) (PDict P) (strs R)
    = Ok (PTuple [PDict (fst (run_fields pat_text ei m fs P R)); strs (snd (run_fields pat_text ei m fs P R))]).
Proof. exact generated_generate_schema_for_fields. Qed.

(* structure_to_schema on a class seen through the heap: the wrapper form is the bare field schema, any other class
   {"type": "object", "properties", "required" (sorted), "additionalProperties"}, in this order *)
Theorem C08_src_structure_to_schema : forall pat_text ei h agg s2s defs_store rec c m sm,
    class_seen pat_text ei h agg c m sm -> nodup_str (c_required c) = true ->
    (forall d, In d (c_fields c) -> field_ready pat_text ei rec d) ->
    structure_to_schema_body h agg s2s defs_store rec (cls_val (c_name c)) sm
    = if wrapper_form c
      then match c_fields c with
           | d :: _ => (J <- rec (fdecl_obj pat_text ei d) PNone ;; Ok (PTuple [J; defs_token]))
           | [] => Raise Unmodelled
           end
      else Ok (PTuple [class_json pat_text ei m c; defs_token]).
Proof. exact generated_structure_to_schema_body. Qed.

Print Assumptions C08_src_validated_mapped_value.
Print Assumptions C08_src_generate_schema_for_fields.
Print Assumptions C08_src_structure_to_schema.

(* satisfiable, and equal to the hand model's class_schema on a class with a renamed key, a default and a reference to
   a wrapper class; and the disagreement on chained renames *)
Example C08_src_class_level_satisfiable :
  class_seen ex_pt no_einfo (heap_of ex_pt no_einfo ex_env) (agg_of ex_smap) ex_T (ex_smap (c_name ex_T)) PNone /\
  nodup_str (c_required ex_T) = true /\ wrapper_form ex_T = false /\ wrapper_form ex_P = true /\
  structure_to_schema (heap_of ex_pt no_einfo ex_env) (agg_of ex_smap) (fun _ _ => Ok tt) 6%nat 3%nat (cls_val (s2p "T")) PNone
  = Ok (PTuple [sch_json ex_pt (class_schema no_einfo (ex_smap (s2p "T")) ex_T); defs_token]) /\
  structure_to_schema (heap_of ex_pt no_einfo ex_env) (agg_of ex_smap) (fun _ _ => Ok tt) 6%nat 3%nat (cls_val (s2p "P")) PNone
  = Ok (PTuple [sch_json ex_pt (class_schema no_einfo (ex_smap (s2p "P")) ex_P); defs_token]) /\
  class_json ex_pt no_einfo (ex_smap (s2p "T")) ex_T = sch_json ex_pt (class_schema no_einfo (ex_smap (s2p "T")) ex_T).
Proof. exact class_level_satisfiable. Qed.

(* ------------------------------------------------------------------ class level, closed against the hand model *)
From TP Require Import Schema.SchemaSrcClassModel.

(* what the generated structure_to_schema builds for a class in object form IS the rendering of class_schema, for every
   class of the domain [class_dom]: required list duplicate-free and naming fields, renamed keys pairwise distinct *)
Theorem C08_src_class_json_model : forall pat_text ei m c,
    class_dom m c = true -> wrapper_form c = false ->
    class_json pat_text ei m c = sch_json pat_text (class_schema ei m c).
Proof. exact class_json_model. Qed.

(* the generated FIXPOINT (nested classes, $refs through _map_class_reference) returns the rendering of the hand model's
   class_schema, for every class environment whose reference graph is explored within the fuel ([closed]) and whose
   classes are in the domain [cls_ok] *)
Theorem C08_src_structure_to_schema_fix : forall pat_text ei e smap defs_store,
    (forall k v, defs_store k v = Ok tt) ->
    forall ffuel fuel c sm,
      find_class e (c_name c) = Some c -> cls_ok pat_text ei smap ffuel c = true ->
      closed e fuel (cls_ok pat_text ei smap ffuel) (class_refs c) = true ->
      structure_to_schema (heap_of pat_text ei e) (agg_of smap) defs_store ffuel (S fuel) (cls_val (c_name c)) sm
      = Ok (PTuple [sch_json pat_text (class_schema ei (smap (c_name c)) c); defs_token]).
Proof. exact generated_structure_to_schema_fix. Qed.

(* a Number / String / Boolean field that carries a default (`_default` attribute) exports as the field without it *)
Theorem C08_src_scalar_default : forall pat_text ei s2s defs_store n f v sm,
    scalar f = true ->
    convert_to_schema s2s defs_store (S n)
      (match field_obj pat_text ei f with PStruct c a => PStruct c ((s2p "_default", v) :: a) | o => o end) sm
    = Ok (sch_json pat_text (fschema ei f)).
Proof. exact convert_scalar_default. Qed.

Print Assumptions C08_src_class_json_model.
Print Assumptions C08_src_structure_to_schema_fix.
Print Assumptions C08_src_scalar_default.

Example C08_src_fix_satisfiable :
  find_class ex_env (c_name ex_T) = Some ex_T /\ cls_ok ex_pt no_einfo ex_smap 6 ex_T = true /\
  closed ex_env 1 (cls_ok ex_pt no_einfo ex_smap 6) (class_refs ex_T) = true /\ class_refs ex_T = [s2p "P"].
Proof. exact fix_satisfiable. Qed.
