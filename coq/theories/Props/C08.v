(* Property C08 — the exported JSON schema is well-formed and admits every serialized valid instance.
   Only the property theorems; proofs are in Schema/ToSchemaProofs.v.

   The full statement is FALSE of the faithful model (the code has defects, reproduced on the real
   library by harness/props/c08.py): it is kept as Definitions, the characterisation (defect-free
   sub-fragment => property) is proved, and each defect has a _refuted witness. *)
From Coq Require Import ZArith NArith String List.
Import ListNotations.
From TP Require Import Base.PyVal Fields.FieldAst Fields.SetChain Fields.Doc Fields.Domain Fields.SetChainProofs
  Schema.Draft4 Schema.ToSchema Schema.ToSchemaProofs.
Local Open Scope string_scope.

(* ------------------------------------------------------------------ full statements (Definitions) *)

(* every mappable class exports a well-formed draft-4 document whose $refs resolve in its definitions *)
Definition C08_wf_statement : Prop :=
  forall ei e smap fuel c, schema_mappable ei e fuel c = true -> wf_doc (fix_doc (to_schema ei e smap fuel c)) = true.

(* every value a mappable field accepts, serialized, validates against the field's exported schema *)
Definition C08_complete_statement : Prop :=
  forall ei re_match re_search e D ss f v nf j,
    (forall p s, re_match p s = true -> re_search p s = true) ->
    mappable ei f = true -> field_refs f = [] ->
    vset re_match e f v = Ok nf -> ser ei re_match e ss f nf = Some j ->
    valid4 re_search D (fdepth f + 40) (fix_dialect (fschema ei f)) j = true.

(* converse on the exact sub-fragment: left to the differential (boundary documents, validator-accepts
   implies Deserializer-accepts); [deser] stands for the Deserializer *)
Definition C08_exact_statement (exact : field -> bool) (deser : field -> pyval -> bool) : Prop :=
  forall ei re_search D f j,
    exact f = true -> valid4 re_search D (fdepth f + 40) (fix_dialect (fschema ei f)) j = true -> deser f j = true.

(* ------------------------------------------------------------------ theorems *)

(* Well-formedness (characterisation), per declaration, by structural induction over the field: for every
   declaration free of the characterised defects ([fclean]: no pattern/length-constrained Map key, no
   exclusiveMaximum without a maximum, sizes/multiplesOf in draft 4's domain, non-empty distinct enums, JSON
   bounds), the emitted schema, after the two dialect translations, is a well-formed draft-4 schema, and its
   $refs resolve in any definitions D that contain the referenced classes. *)
Theorem C08_wf : forall ei D f,
    fclean ei f = true ->
    (forall nm, In nm (field_refs f) -> alist_has D nm = true) ->
    wf4 D (fix_dialect (fschema ei f)) = true.
Proof. exact fschema_wf. Qed.

Section C08.
  Variable ei : einfo_t.                                   (* enum classes: mixed-in primitive type, by-value flag *)
  Variable re_match re_search : N -> pystr -> bool.        (* oracles: re.match / re.search *)
  Hypothesis re_match_search : forall p s, re_match p s = true -> re_search p s = true.
  Variable e : env.
  Variable D : list (pystr * schema).
  Variable ser_struct : pystr -> list (pystr * pyval) -> option pyval.

  (* Completeness (characterisation), compiler-correctness style, by structural induction over the field:
     on the sub-fragment [cfrag] (numbers with bounds/multiplesOf/signs except the sign-only float bound and
     exclusiveMaximum without an explicit maximum; strings with lengths and patterns; booleans; enum
     classes; arrays with size bounds; maps with unconstrained string keys; AnyOf/Optional over scalar
     options — nested to any depth), every value the documented rules accept with normal form nf, once
     serialized, validates against the exported schema (after the dialect translation), for every fuel
     above the nesting depth. *)
  Theorem C08_complete : forall f, cfrag ei f = true -> forall v nf j n,
      docb re_match e f v = Some nf ->
      ser ei re_match e ser_struct f nf = Some j ->
      (fdepth f <= n)%nat ->
      valid4 re_search D n (fix_dialect (fschema ei f)) j = true.
  Proof. exact (fschema_complete ei re_match re_search re_match_search e D ser_struct). Qed.

  (* the same for the code-shaped set-chain, on C02's domain (where vset and the documented rules agree) *)
  Theorem C08_complete_vset : forall f, cfrag ei f = true -> forall v nf j n,
      dom f v = true ->
      vset re_match e f v = Ok nf ->
      ser ei re_match e ser_struct f nf = Some j ->
      (fdepth f <= n)%nat ->
      valid4 re_search D n (fix_dialect (fschema ei f)) j = true.
  Proof.
    intros f Hc v nf j n Hdom Hv Hs Hn.
    apply (fschema_complete ei re_match re_search re_match_search e D ser_struct f Hc v nf j n); auto.
    apply (vset_decision re_match e f v nf Hdom). exact Hv.
  Qed.
End C08.

Print Assumptions C08_wf.
Print Assumptions C08_complete.
Print Assumptions C08_complete_vset.

(* ------------------------------------------------------------------ refutations of the full statements *)

Definition always (_ : N) (_ : pystr) : bool := true.
Definition no_struct (_ : pystr) (_ : list (pystr * pyval)) : option pyval := None.

(* F16a: PositiveFloat is exported with minimum 0.000001; the valid value 1e-9 is not admitted *)
Definition tiny : num := NFlt 4835703278458517 (-82).     (* the double 1e-9 *)
Example C08_complete_refuted_epsilon :
  let f := FNumber KFloat SPositive no_numc in
  mappable no_einfo f = true /\
  vset always [] f (PNum tiny) = Ok (PNum tiny) /\
  ser no_einfo always [] no_struct f (PNum tiny) = Some (PNum tiny) /\
  valid4 always [] 50 (fix_dialect (fschema no_einfo f)) (PNum tiny) = false.
Proof. repeat split; vm_compute; reflexivity. Qed.

Theorem C08_complete_refuted : ~ C08_complete_statement.
Proof.
  intro H.
  specialize (H no_einfo always always [] [] no_struct (FNumber KFloat SPositive no_numc) (PNum tiny) (PNum tiny) (PNum tiny)
                (fun _ _ E => E) eq_refl eq_refl).
  assert (A : vset always [] (FNumber KFloat SPositive no_numc) (PNum tiny) = Ok (PNum tiny)) by (vm_compute; reflexivity).
  assert (B : ser no_einfo always [] no_struct (FNumber KFloat SPositive no_numc) (PNum tiny) = Some (PNum tiny)) by reflexivity.
  specialize (H A B). vm_compute in H. discriminate H.
Qed.
Print Assumptions C08_complete_refuted.

(* F16b: Map with a pattern-constrained String key: "patternProperties": <value schema> is ill-formed *)
Example C08_wf_refuted_map_pattern_keys :
  let f := FMapKV (FString {| minLength := None; maxLength := None; pattern := Some 0%N |})
                  (FNumber KInteger SAny no_numc) no_sizec in
  mappable no_einfo f = true /\ wf4 [] (fix_dialect (fschema no_einfo f)) = false.
Proof. split; vm_compute; reflexivity. Qed.

(* "required": [] (a class without required fields) violates draft 4's stringArray (minItems 1) *)
Definition cls_no_required : classdef :=
  {| c_name := s2p "T"; c_ancestors := [];
     c_fields := [ {| fd_name := s2p "a"; fd_field := FNumber KInteger SAny no_numc; fd_immutable := false; fd_default := None |} ];
     c_required := []; c_additional := true; c_ignore_none := false; c_immutable := false; c_hook := HookNone |}.

Theorem C08_wf_refuted : ~ C08_wf_statement.
Proof.
  intro H. specialize (H no_einfo [] (fun _ => []) 3%nat cls_no_required eq_refl). vm_compute in H. discriminate H.
Qed.
Print Assumptions C08_wf_refuted.

(* a field-wrapper class nested in another: definitions hold the bare field schema, the nested instance is
   serialized as an object *)
Definition cls_w : classdef :=
  {| c_name := s2p "W"; c_ancestors := [];
     c_fields := [ {| fd_name := s2p "a"; fd_field := FNumber KInteger SAny no_numc; fd_immutable := false; fd_default := None |} ];
     c_required := [s2p "a"]; c_additional := false; c_ignore_none := false; c_immutable := false; c_hook := HookNone |}.
Definition cls_t : classdef :=
  {| c_name := s2p "T"; c_ancestors := [];
     c_fields := [ {| fd_name := s2p "w"; fd_field := FClassRef (s2p "W"); fd_immutable := false; fd_default := None |};
                   {| fd_name := s2p "n"; fd_field := FNumber KInteger SAny no_numc; fd_immutable := false; fd_default := None |} ];
     c_required := [s2p "n"; s2p "w"]; c_additional := false; c_ignore_none := false; c_immutable := false; c_hook := HookNone |}.

Example C08_complete_refuted_nested_wrapper :
  let env := [cls_w; cls_t] in
  let doc := fix_doc (to_schema no_einfo env (fun _ => []) 5 cls_t) in
  let inst := [(s2p "w", PStruct (s2p "W") [(s2p "a", PNum (NInt 1))]); (s2p "n", PNum (NInt 2))] in
  wf_doc doc = true /\
  exists j, ser_top no_einfo always env (fun _ => []) 5 cls_t inst = Some j /\
            valid4 always (snd doc) 50 (fst doc) j = false.
Proof.
  split; [vm_compute; reflexivity|].
  exists (PDict [(PStr (s2p "w"), PDict [(PStr (s2p "a"), PNum (NInt 1))]); (PStr (s2p "n"), PNum (NInt 2))]).
  split; vm_compute; reflexivity.
Qed.

(* ------------------------------------------------------------------ non-vacuity *)

(* a nested declaration in the proved fragment, an accepted value whose normal form differs from the input,
   its serialization, and the verdict; plus a class with a $ref whose export is well-formed *)
Definition ex_field : field :=
  FMapKV (FString no_strc)
         (FSeqEach SeqList
            (FAnyOf [FNumber KInteger SPositive {| multiplesOf := Some 5%Z; minimum := None; maximum := Some (NInt 100); exclusiveMaximum := true |};
                     FString {| minLength := Some 2%Z; maxLength := None; pattern := Some 3%N |}])
            {| minItems := Some 1%Z; maxItems := Some 3%Z |} false)
         no_sizec.
Definition ex_value : pyval :=
  PDict [(PStr (s2p "k"), PList [PNum (NInt 95); PStr (s2p "yy")])].

Example C08_nonvacuous :
  cfrag no_einfo ex_field = true /\ fclean no_einfo ex_field = true /\
  docb always [] ex_field ex_value = Some ex_value /\
  ser no_einfo always [] no_struct ex_field ex_value = Some ex_value /\
  valid4 always [] (fdepth ex_field) (fix_dialect (fschema no_einfo ex_field)) ex_value = true /\
  (* at the exclusive maximum the value is rejected by the field, and the document by the schema *)
  valid4 always [] 10 (fix_dialect (fschema no_einfo ex_field)) (PDict [(PStr (s2p "k"), PList [PNum (NInt 100)])]) = false /\
  wf_doc (fix_doc (to_schema no_einfo [cls_w; cls_t] (fun _ => []) 5 cls_t)) = true.
Proof. repeat split; vm_compute; reflexivity. Qed.
