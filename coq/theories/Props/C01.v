(* Property C01 — no validating entry point ever yields an instance that violates its declaration.
   Only the property theorems; proofs are in Struct/InstanceProofs.v (instance level, on top of
   Fields/SetChainProofs.v).  Model: Fields/SetChain.v (vset, the __set__ chains), Struct/Instance.v
   (construct = Structure.__init__ with keywords), Struct/Entry.v (the entry points and chains).
   Spec: Fields/Doc.v (docb, the documented rules) through [conf], [struct_ok], [inst_ok]. *)
From Coq Require Import ZArith NArith String List Bool.
Import ListNotations.
From TP Require Import Base.PyVal Fields.FieldAst Fields.SetChain Fields.Doc Fields.Domain
  Struct.Shapes Struct.Instance Struct.Entry Struct.InstanceProofs Struct.NestedProofs
  Struct.EntrySites Struct.EntrySitesProofs Gen.EntrySites Struct.EntrySitesToday
  Base.PyOps Base.PyOpsEnum Gen.GuardsEnum Fields.EnumGuardProofs
  Ser.Json Ser.Serialize Ser.Deserialize Ser.DeserEntry Ser.DeserEntryProofs Ser.DeserDeepProofs
  Struct.Defaults Struct.DefaultsProofs.
Local Open Scope string_scope.

(* Where the line between theorem and correspondence is:
   - the constructor and everything that funnels into it (deserializer, from_other_class,
     shallow_clone_with_overrides, cast_to, nesting) are MODELLED step by step and the theorems below
     are about that model; the correspondence compares the model with typedpy on every generated step;
   - copy.copy / copy.deepcopy / pickle are value preserving in the model (pickle keeps the declared
     fields).  typedpy's __deepcopy__ is NOT always value preserving (it re-assigns under
     `_skip_validation`, and AnyOf then applies its first option's conversion unvalidated): that is a
     finding of the harness (known_findings C01-deepcopy-anyof-conversion), found by evaluating
     [inst_ok]/[deep_valid] on the observed copy, not a theorem about the model.

   The full field-level statement: whatever a __set__ chain stores conforms to the declaration.
   It is FALSE of the faithful model (and of typedpy): size and uniqueness of a collection are
   checked on the supplied elements, the converted elements are stored (C01_field_refuted). *)
Definition C01_field_statement (re_match : N -> pystr -> bool) (e : env) : Prop :=
  forall f v nf, dom f v = true -> vset re_match e f v = Ok nf -> conf re_match e f nf = true.

Section C01.
  Variable re_match : N -> pystr -> bool.     (* oracle: re.match *)
  Variable e : env.                           (* class environment *)

  (* Field level.  For every declaration f (any nesting) and every value v in the statement's domain
     on which the collection-level constraints also hold of the normalised elements ([stable]):
     the stored value is valid for f according to the documented rules. *)
  Theorem C01_vset_sound : forall f v nf,
      dom f v = true -> stable re_match e f v = true ->
      vset re_match e f v = Ok nf -> conf re_match e f nf = true.
  Proof. exact (vset_sound re_match e). Qed.

  (* Keyword construction.  For every class c and keyword arguments kw in the domain: the instance
     returned has every required field, every stored field value valid for its declaration, no
     undeclared attribute unless additional properties are allowed, no attribute twice, and the
     __validate__ hook accepts it. *)
  Theorem C01_construct_sound : forall c kw v,
      kw_ok re_match e c kw = true -> defaults_ok re_match e c = true ->
      construct re_match e c kw = Ok v ->
      exists a, v = PStruct (c_name c) a /\ struct_ok re_match e c a = true.
  Proof. exact (construct_sound re_match e). Qed.

  (* Every single entry point (constructor, deserializer, from_other_class on an instance or a
     mapping, shallow_clone_with_overrides, cast_to, nesting, copy, deepcopy, pickle round trip). *)
  Theorem C01_entry_sound : forall cur en x,
      entry_dom re_match e cur en = true ->
      (match entry_plan e cur en with PValue _ => inst_ok re_match e cur = true | _ => True end) ->
      run_entry re_match e cur en = Ok x -> inst_ok re_match e x = true.
  Proof. exact (entry_sound re_match e). Qed.

  (* Any chain of entry points, of any length, applied to a valid instance ... *)
  Theorem C01_chain_sound : forall ch x0 x,
      inst_ok re_match e x0 = true -> chain_dom re_match e x0 ch = true ->
      run_chain re_match e x0 ch = Ok x -> inst_ok re_match e x = true.
  Proof. exact (chain_sound re_match e). Qed.

  (* ... and any chain that begins with a construction, whatever it is applied to. *)
  Theorem C01_chain_from_ctor_sound : forall cn kw ch x0 x,
      chain_dom re_match e x0 (ECtor cn kw :: ch) = true ->
      run_chain re_match e x0 (ECtor cn kw :: ch) = Ok x -> inst_ok re_match e x = true.
  Proof. exact (chain_from_ctor_sound re_match e). Qed.

  (* Nested validity.  The __set__ chains never invent instances: every Structure instance inside a
     stored normal form is valid if those inside the supplied value are ... *)
  Theorem C01_vset_keeps_nested_valid : forall f v nf,
      vset re_match e f v = Ok nf -> deep_valid re_match e v = true -> deep_valid re_match e nf = true.
  Proof. exact (vset_keeps_nested_valid re_match e). Qed.

  (* ... hence for any chain of entry points (from nothing, PNone, or from a deeply valid instance),
     fed with arguments whose nested instances are valid: the result is valid for its class AND so is
     every Structure instance reachable inside it (through collections, maps, nested structures). *)
  Theorem C01_chain_deep_sound : forall ch x0 x,
      env_defaults_deep re_match e = true -> deep_valid re_match e x0 = true ->
      chain_vals_deep re_match e ch = true -> chain_dom re_match e x0 ch = true ->
      run_chain re_match e x0 ch = Ok x -> deep_valid re_match e x = true.
  Proof. exact (chain_deep_sound re_match e). Qed.
End C01.

(* ------------------------------------------------------------------ tie of the entry points to the source
   The model above ASSUMES that every entry point funnels into the validating constructor (or is one of
   the recognised copy idioms).  That assumption is a table, read off the AST of the working tree on
   every run (Gen/EntrySites.v): one row per entry point, the kinds of its `return` statements.  The
   model parametrised by ANY such table ... *)
Section C01_sites.
  Variable re_match : N -> pystr -> bool.
  Variable e : env.

  (* ... is sound whenever the table is safe: single entry points and chains of any length *)
  Theorem C01_entry_sites_sound : forall t unp cur en x,
      sites_ok t unp = true ->
      entry_dom re_match e cur en = true ->
      (match entry_plan e cur en with PValue _ => inst_ok re_match e cur = true | _ => True end) ->
      run_entry_sites re_match e t unp cur en = Ok x -> inst_ok re_match e x = true.
  Proof. exact (fun t unp => entry_sites_sound re_match e t unp). Qed.

  Theorem C01_chain_sites_sound : forall t unp ch x0 x,
      sites_ok t unp = true ->
      inst_ok re_match e x0 = true -> chain_dom re_match e x0 ch = true ->
      run_chain_sites re_match e t unp x0 ch = Ok x -> inst_ok re_match e x = true.
  Proof. exact (fun t unp => chain_sites_sound re_match e t unp). Qed.
End C01_sites.

(* ... and violates C01 on a constructed input whenever it is not (valid current instance, or none;
   the entry point returns; the result is rejected by the spec) *)
Theorem C01_sites_characterisation : forall re_match t unp,
    sites_ok t unp = false ->
    exists k x, (wit_cur k = PNone \/ inst_ok re_match wit_env (wit_cur k) = true) /\
                run_entry_sites re_match wit_env t unp (wit_cur k) (wit_entry k) = Ok x /\
                inst_ok re_match wit_env x = false.
Proof. exact sites_characterisation. Qed.

(* today's table (regenerated from the working tree before this file is compiled) is safe *)
Theorem C01_entry_sites_today : sites_ok entry_sites default_unpickle = true.
Proof. exact entry_sites_today. Qed.

(* ------------------------------------------------------------------ omitted fields and default factories
   A field the caller leaves out is filled from its default through the same __set__ chain as a supplied value
   (Structure._set_defaults -> setattr); [construct] does that for whatever classdef it is given.  A default
   FACTORY (`default=<callable>`) returns a new value at every construction: [with_default c n d] is class c
   at a moment when the factory of field n returns d.  Whatever d is, an instance that comes out is valid for
   the class as declared (validity never looks at defaults). *)
Theorem C01_construct_default_sound : forall re_match e c n d kw v,
    kw_ok re_match e (with_default c n d) kw = true ->
    defaults_ok re_match e (with_default c n d) = true ->
    construct re_match e (with_default c n d) kw = Ok v ->
    exists a, v = PStruct (c_name c) a /\ struct_ok re_match e c a = true.
Proof. exact construct_default_sound. Qed.

(* ------------------------------------------------------------------ deserialization with its real pre-processing
   [EDeser cls kw] above is parametric in the keyword arguments.  Ser/Deserialize.v models what
   deserialize_structure_internal computes from a document (field by field, nested structures,
   collections, multi-field wrappers, Enum.deserialize, keep_undefined, compact form) and ends in the
   constructor; Ser/DeserEntry.v exposes the keyword arguments it reaches the constructor with. *)
Section C01_deser.
  Variable re_match : N -> pystr -> bool.
  Variable e : env.
  Variable ens : enums.
  Variable fl : dflags.

  (* deserializing ANY document is the entry point EDeser on the computed keyword arguments *)
  Theorem C01_deser_as_entry : forall n ku cn j x cur,
      deser_struct re_match e ens fl (S n) ku cn j = Ok x ->
      exists c kw, deser_plan re_match e ens fl n ku cn j = Ok (c, kw) /\
                   run_entry re_match e cur (EDeser cn kw) = Ok x.
  Proof. exact (deser_as_entry re_match e ens fl). Qed.

  (* deserialize_structure(cls, document, keep_undefined=ku): an instance that comes out is valid *)
  Theorem C01_deser_sound : forall n ku cn j x,
      deser_dom re_match e ens fl n ku cn j = true ->
      deser_struct re_match e ens fl (S n) ku cn j = Ok x -> inst_ok re_match e x = true.
  Proof. exact (deser_sound re_match e ens fl). Qed.

  (* Deserializer(cls).deserialize(document, keep_undefined=ku) *)
  Theorem C01_deserialize_sound : forall n ku cn c j x,
      find_class e cn = Some c ->
      deser_dom re_match e ens fl n (adjust_keep_undefined c ku) cn j = true ->
      deserialize re_match e ens fl (S n) ku cn j = Ok x -> inst_ok re_match e x = true.
  Proof. exact (deserialize_sound re_match e ens fl). Qed.

  (* ... followed by any chain of validating entry points *)
  Theorem C01_deser_then_chain_sound : forall n ku cn j x0 ch x,
      deser_dom re_match e ens fl n ku cn j = true ->
      deser_struct re_match e ens fl (S n) ku cn j = Ok x0 ->
      chain_dom re_match e x0 ch = true ->
      run_chain re_match e x0 ch = Ok x -> inst_ok re_match e x = true.
  Proof. exact (deser_then_chain_sound re_match e ens fl). Qed.

  (* Nested instances.  [deser_checked] is deser_struct with the statement's domain checked at EVERY
     constructor call, those for nested objects included (outside it, it declines).  Whenever it returns,
     (1) the model of typedpy's deserializer returns the same instance - deserialize_single_field is
     monotone in the function it uses for nested classes (structural induction over its code) - and
     (2) that instance is valid for its class and so is every Structure instance nested anywhere inside it,
     whether the deserializer created it for a nested object or it was supplied in the document. *)
  Theorem C01_deser_checked_agrees : forall n ku cn j x,
      deser_checked re_match e ens fl n ku cn j = Ok x -> deser_struct re_match e ens fl n ku cn j = Ok x.
  Proof. exact (deser_checked_agrees re_match e ens fl). Qed.

  Theorem C01_deser_deep_sound : env_defaults_deep re_match e = true -> forall n ku cn j x,
      deser_checked re_match e ens fl n ku cn j = Ok x -> deep_valid re_match e j = true ->
      deser_struct re_match e ens fl n ku cn j = Ok x /\ deep_valid re_match e x = true.
  Proof. exact (deser_deep_sound re_match e ens fl). Qed.
End C01_deser.

(* ------------------------------------------------------------------ tie of the Enum chain to the source
   Enum._validate and Enum.__set__ (typedpy/fields/enum.py) are translated to Gallina on every run
   (Gen/GuardsEnum.v).  For every enum class (all members [allm]), every declared subset [members] of
   it, every list of literals and EVERY value, the translation of today's source stores / raises
   exactly what the model [vset] does - on which the theorems above are proved. *)
Theorem C01_src_Enum_cls_set : forall re_match e cls allm members v,
    sub_alist members allm ->
    Enum__set re_match (enum_cls_self cls allm members) v = vset re_match e (FEnumCls cls members) v.
Proof. exact generated_enum_cls_set. Qed.

Theorem C01_src_Enum_lit_set : forall re_match e values v,
    Enum__set re_match (enum_lit_self values) v = vset re_match e (FEnumLit values) v.
Proof. exact generated_enum_lit_set. Qed.

(* The [stable] hypothesis cannot be dropped: Array(items=Boolean(), uniqueItems=True) given
   [True, 'True'] stores [True, True]. *)
Definition cex_field : field := FSeqEach SeqList FBoolean no_sizec true.
Definition cex_value : pyval := PList [PBool true; PStr (s2p "True")].

Theorem C01_field_refuted : forall re_match e, ~ C01_field_statement re_match e.
Proof.
  intros re_match e H.
  specialize (H cex_field cex_value (PList [PBool true; PBool true]) eq_refl eq_refl).
  vm_compute in H. discriminate H.
Qed.

Print Assumptions C01_vset_sound.
Print Assumptions C01_construct_sound.
Print Assumptions C01_entry_sound.
Print Assumptions C01_chain_sound.
Print Assumptions C01_chain_from_ctor_sound.
Print Assumptions C01_field_refuted.
Print Assumptions C01_vset_keeps_nested_valid.
Print Assumptions C01_chain_deep_sound.
Print Assumptions C01_entry_sites_sound.
Print Assumptions C01_chain_sites_sound.
Print Assumptions C01_sites_characterisation.
Print Assumptions C01_entry_sites_today.
Print Assumptions C01_construct_default_sound.
Print Assumptions C01_deser_as_entry.
Print Assumptions C01_deser_sound.
Print Assumptions C01_deserialize_sound.
Print Assumptions C01_deser_then_chain_sound.
Print Assumptions C01_deser_checked_agrees.
Print Assumptions C01_deser_deep_sound.
Print Assumptions C01_src_Enum_cls_set.
Print Assumptions C01_src_Enum_lit_set.

(* ------------------------------------------------------------------ non-vacuity *)

Definition ex_point : classdef :=
  {| c_name := s2p "Point"; c_ancestors := [];
     c_fields := [ {| fd_name := s2p "x"; fd_field := FNumber KInteger SAny no_numc; fd_immutable := false; fd_default := None |};
                   {| fd_name := s2p "y"; fd_field := FNumber KFloat SNonNegative no_numc; fd_immutable := false;
                      fd_default := Some (PNum (NInt 2)) |};
                   {| fd_name := s2p "tags"; fd_field := FSet true (Some (FString no_strc)) {| minItems := Some 1%Z; maxItems := None |};
                      fd_immutable := false; fd_default := None |} ];
     c_required := [s2p "x"]; c_additional := false; c_ignore_none := true; c_immutable := false;
     c_hook := HookLe (s2p "x") (s2p "x") |}.
Definition ex_sub : classdef :=
  {| c_name := s2p "Point3"; c_ancestors := [s2p "Point"];
     c_fields := c_fields ex_point ++
                 [ {| fd_name := s2p "z"; fd_field := FAnyOf [FBoolean; FNone]; fd_immutable := false; fd_default := None |} ];
     c_required := [s2p "x"]; c_additional := true; c_ignore_none := false; c_immutable := false; c_hook := HookNone |}.
Definition ex_holder : classdef :=
  {| c_name := s2p "Holder"; c_ancestors := [];
     c_fields := [ {| fd_name := s2p "p"; fd_field := FClassRef (s2p "Point"); fd_immutable := false; fd_default := None |} ];
     c_required := [s2p "p"]; c_additional := false; c_ignore_none := false; c_immutable := true; c_hook := HookNone |}.
Definition ex_env : env := [ex_point; ex_sub; ex_holder].

Definition ex_chain : list entry :=
  [ ECtor (s2p "Point3") [(s2p "x", PNum (NInt 1)); (s2p "z", PStr (s2p "True")); (s2p "extra", PNone);
                          (s2p "tags", PSet false [PStr (s2p "a"); PStr (s2p "b")])];
    EDeepCopy;
    EClone [(s2p "x", PNum (NInt 5))];
    ECastTo (s2p "Point");
    EPickle;
    EFromOther (s2p "Point3") [(s2p "z", PNone)];
    EWrap (s2p "Holder") (s2p "p") [];
    ECopy ].

Example C01_nonvacuous :
  (* the hypotheses of the chain theorem hold of an 8-step chain through three classes ... *)
  chain_dom (fun _ _ => true) ex_env PNone ex_chain = true /\
  env_defaults_deep (fun _ _ => true) ex_env = true /\
  chain_vals_deep (fun _ _ => true) ex_env ex_chain = true /\
  (* ... which runs to completion, normalising on the way (int -> float default, 'True' -> True,
     set -> frozenset), and nests the result in another structure *)
  run_chain (fun _ _ => true) ex_env PNone ex_chain =
    Ok (PStruct (s2p "Holder")
          [(s2p "p", PStruct (s2p "Point3")
                       [(s2p "x", PNum (NInt 5)); (s2p "y", PNum (NFlt 1 1));
                        (s2p "tags", PSet true [PStr (s2p "a"); PStr (s2p "b")]); (s2p "z", PNone)])]) /\
  (* an invalid argument, a missing required field and an undeclared attribute are rejected *)
  run_chain (fun _ _ => true) ex_env PNone [ECtor (s2p "Point") [(s2p "x", PStr (s2p "1"))]] = Raise TypeError /\
  run_chain (fun _ _ => true) ex_env PNone [ECtor (s2p "Point") [(s2p "y", PNum (NInt 1))]] = Raise TypeError /\
  run_chain (fun _ _ => true) ex_env PNone [ECtor (s2p "Point") [(s2p "x", PNum (NInt 1)); (s2p "w", PNone)]] = Raise TypeError /\
  (* the spec is not trivially true: it rejects an instance with a bad value / a missing field *)
  inst_ok (fun _ _ => true) ex_env (PStruct (s2p "Point") [(s2p "x", PNum (NInt 1)); (s2p "y", PNum (NFlt (-1) 0))]) = false /\
  inst_ok (fun _ _ => true) ex_env (PStruct (s2p "Point") [(s2p "y", PNum (NFlt 1 0))]) = false /\
  inst_ok (fun _ _ => true) ex_env (PStruct (s2p "Point") [(s2p "x", PNum (NInt 1)); (s2p "_skip_validation", PBool true)]) = false.
Proof. repeat split; vm_compute; reflexivity. Qed.

(* the site table is not trivially safe: a cast_to with a trusted return makes the table unsafe, and the
   parametric model then hands out Strict(a='x') *)
Definition ex_bad_sites : site_table :=
  (fn_cast, [XTrusted; XCtor]) :: filter (fun r => negb (pystr_eqb (fst r) fn_cast)) entry_sites.

Example C01_sites_nonvacuous :
  sites_ok ex_bad_sites true = false /\
  run_entry_sites (fun _ _ => true) wit_env ex_bad_sites true (wit_cur KCast) (wit_entry KCast) =
    Ok (PStruct (s2p "Strict") [(flag_trusted, PBool true); (s2p "a", PStr (s2p "x"))]) /\
  run_entry_sites (fun _ _ => true) wit_env entry_sites default_unpickle (wit_cur KCast) (wit_entry KCast) =
    Raise TypeError /\
  chain_dom (fun _ _ => true) ex_env PNone ex_chain = true /\
  run_chain_sites (fun _ _ => true) ex_env entry_sites default_unpickle PNone ex_chain =
    run_chain (fun _ _ => true) ex_env PNone ex_chain.
Proof. repeat split; vm_compute; reflexivity. Qed.

(* the Enum tie is not vacuous: a declared subset of a class; the name of an excluded member is rejected,
   a declared name is converted, a foreign class's member is rejected, an unhashable value is rejected with the
   field's own ValueError (it is never hashed) *)
Definition ex_color_all : list (pystr * pyval) :=
  [(s2p "RED", PNum (NInt 1)); (s2p "GREEN", PNum (NInt 2)); (s2p "BLUE", PStr (s2p "b"))].
Definition ex_color_sub : list (pystr * pyval) := [(s2p "RED", PNum (NInt 1)); (s2p "GREEN", PNum (NInt 2))].

Example C01_src_Enum_nonvacuous :
  sub_alist ex_color_sub ex_color_all /\
  Enum__set (fun _ _ => true) (enum_cls_self (s2p "Color") ex_color_all ex_color_sub) (PStr (s2p "BLUE")) = Raise ValueError /\
  Enum__set (fun _ _ => true) (enum_cls_self (s2p "Color") ex_color_all ex_color_sub) (PStr (s2p "GREEN")) =
    Ok (PEnum (s2p "Color") (s2p "GREEN") (PNum (NInt 2))) /\
  Enum__set (fun _ _ => true) (enum_cls_self (s2p "Color") ex_color_all ex_color_sub)
            (PEnum (s2p "Color") (s2p "BLUE") (PStr (s2p "b"))) = Raise ValueError /\
  Enum__set (fun _ _ => true) (enum_cls_self (s2p "Color") ex_color_all ex_color_sub)
            (PEnum (s2p "Size") (s2p "RED") (PNum (NInt 1))) = Raise ValueError /\
  Enum__set (fun _ _ => true) (enum_cls_self (s2p "Color") ex_color_all ex_color_sub) (PList []) = Raise ValueError /\
  Enum__set (fun _ _ => true) (enum_lit_self [PNum (NInt 1); PStr (s2p "a")]) (PBool true) = Ok (PBool true) /\
  Enum__set (fun _ _ => true) (enum_lit_self [PNum (NInt 1); PStr (s2p "a")]) (PStr (s2p "1")) = Raise ValueError.
Proof.
  split.
  - intros n x H. unfold ex_color_sub, ex_color_all in *. cbn [alist_get] in *.
    destruct (pystr_eqb (s2p "RED") n); [exact H|].
    destruct (pystr_eqb (s2p "GREEN") n); [exact H| discriminate H].
  - repeat split; vm_compute; reflexivity.
Qed.

(* deserialization: a nested document is in the domain, runs to a valid instance (the set given as a JSON
   list, the nested Point as a JSON object), and an ill-typed document is rejected *)
Definition ex_flags : dflags := {| df_ignore_invalid := false; df_compact := true |}.
Definition ex_doc : pyval :=
  PDict [(PStr (s2p "p"), PDict [(PStr (s2p "x"), PNum (NInt 3)); (PStr (s2p "tags"), PList [PStr (s2p "a")])])].

Example C01_deser_nonvacuous :
  deser_dom (fun _ _ => true) ex_env [] ex_flags 3 true (s2p "Holder") ex_doc = true /\
  deser_struct (fun _ _ => true) ex_env [] ex_flags 4 true (s2p "Holder") ex_doc =
    Ok (PStruct (s2p "Holder")
          [(s2p "p", PStruct (s2p "Point")
                       [(s2p "y", PNum (NFlt 1 1)); (s2p "x", PNum (NInt 3)); (s2p "tags", PSet true [PStr (s2p "a")])])]) /\
  deser_struct (fun _ _ => true) ex_env [] ex_flags 4 true (s2p "Point")
               (PDict [(PStr (s2p "x"), PStr (s2p "3"))]) = Raise TypeError /\
  (* the domain-checked deserializer returns on the nested document (so C01_deser_deep_sound applies to it),
     and declines a document that puts a bool where a number is declared (outside the statement's domain) *)
  deser_checked (fun _ _ => true) ex_env [] ex_flags 4 true (s2p "Holder") ex_doc =
    deser_struct (fun _ _ => true) ex_env [] ex_flags 4 true (s2p "Holder") ex_doc /\
  deep_valid (fun _ _ => true) ex_env ex_doc = true /\
  deser_checked (fun _ _ => true) ex_env [] ex_flags 4 true (s2p "Point")
                (PDict [(PStr (s2p "x"), PBool true)]) = Raise Unmodelled.
Proof. repeat split; vm_compute; reflexivity. Qed.

(* default factory: Point.y (Float, non-negative) whose factory now returns -1: the omitted field makes the
   construction fail; returning 3 (an int), it is converted and stored; the hypotheses hold in both cases *)
Example C01_default_nonvacuous :
  kw_ok (fun _ _ => true) ex_env (with_default ex_point (s2p "y") (PNum (NInt (-1)))) [(s2p "x", PNum (NInt 1))] = true /\
  defaults_ok (fun _ _ => true) ex_env (with_default ex_point (s2p "y") (PNum (NInt (-1)))) = true /\
  construct (fun _ _ => true) ex_env (with_default ex_point (s2p "y") (PNum (NInt (-1)))) [(s2p "x", PNum (NInt 1))]
    = Raise ValueError /\
  construct (fun _ _ => true) ex_env (with_default ex_point (s2p "y") (PNum (NInt 3))) [(s2p "x", PNum (NInt 1))]
    = Ok (PStruct (s2p "Point") [(s2p "y", PNum (NFlt 3 0)); (s2p "x", PNum (NInt 1))]).
Proof. repeat split; vm_compute; reflexivity. Qed.

(* ---- generated layer, round 4: Structure.__init__ / _set_defaults re-translated from structures.py on every run (harness/genmods/py2v_init.py -> Gen/InitSrc.v); bridging lemmas in Struct/InitSrcProofs.v ---- *)
From TP Require Import Base.PyOpsInit Gen.InitSrc Struct.InitModel Struct.InitSrcProofs.

(* for every class description and keyword list in init_dom (signature order), the source's __init__ (fail-fast) yields exactly Instance.construct: the instance state and the exception class *)
Theorem C01_src_init_is_construct :
  forall (re_match : N -> pystr -> bool) (e : env) (msg_of : pystr -> pyval -> exn -> pystr)
           (bind_msg hook_msg : pystr) (repr_str : pystr -> pystr) (dumps : list pystr -> pystr)
           (sig_order : kwargs -> kwargs) (c : classdef) (kw : kwargs),
         init_dom c kw = true ->
         sig_order (bound_of c kw) = bound_of c kw ->
         view c
           (Structure__init (init_heap c true)
              (MW re_match e msg_of bind_msg hook_msg repr_str dumps sig_order c) 
              (PTuple []) (kw_dict kw) []) = construct re_match e c kw.
Proof. exact generated_init_is_construct. Qed.

(* the setattr the constructor calls is the generated Structure.__setattr__ followed by the descriptor hand-over *)
Theorem C01_src_init_setattr :
  forall (re_match : N -> pystr -> bool) (e : env) (msg_of : pystr -> pyval -> exn -> pystr)
           (c : classdef) (n : pystr) (v : pyval) (s : istate),
         ordinary n = true ->
         model_setattr re_match e msg_of c (PStr n) v s =
         (let (s', o) :=
            match
              StructGuards.Structure__setattr (StructGuardProofs.struct_heap c (instantiated s))
                (PStr n) v
            with
            | Ok (Some vr) => StructGuardProofs.handover re_match e c (instantiated s) s n vr
            | Ok None => (s, Done)
            | Raise x => (s, Raised x)
            end in
          match o with
          | Done => (s', inl tt)
          | Raised x => (s', inr {| x_cls := x; x_arg := msg_of n v x |})
          end).
Proof. exact model_setattr_is_source. Qed.

(* the fail-fast assignment loop of the source is run_sets with the exception re-wrapped, class preserved *)
Theorem C01_src_init_loop :
  forall (re_match : N -> pystr -> bool) (e : env) (msg_of : pystr -> pyval -> exn -> pystr)
           (bind_msg hook_msg : pystr) (repr_str : pystr -> pystr) (dumps : list pystr -> pystr)
           (sig_order : kwargs -> kwargs) (c : classdef) (ff : bool) (l : kwargs) 
           (s : istate),
         names_plain l = true ->
         no_undefined l = true ->
         inv s ->
         for_acc
           (ff_body re_match e msg_of bind_msg hook_msg repr_str dumps sig_order c (init_heap c ff))
           (pairs l) tt s =
         (let (s', s0) := run_sets re_match e msg_of c l s in
          match s0 with
          | inl _ => (s', inl tt)
          | inr x =>
              (s', inr (rewrap re_match e msg_of bind_msg hook_msg repr_str dumps sig_order c x))
          end).
Proof. exact ff_loop. Qed.

(* an argument that is Undefined is not assigned *)
Theorem C01_src_init_skips_undefined :
  forall (re_match : N -> pystr -> bool) (e : env) (msg_of : pystr -> pyval -> exn -> pystr)
           (bind_msg hook_msg : pystr) (repr_str : pystr -> pystr) (dumps : list pystr -> pystr)
           (sig_order : kwargs -> kwargs) (c : classdef) (h : PyObj.heap) 
           (n : pystr) (v : pyval) (s : istate),
         undefined_ref v = true ->
         ff_body re_match e msg_of bind_msg hook_msg repr_str dumps sig_order c h (PStr n, v) tt s =
         (s, inl tt).
Proof. exact ff_body_skips_undefined. Qed.

(* _set_defaults of the source assigns exactly defaults_of, in order *)
Theorem C01_src_set_defaults :
  forall (re_match : N -> pystr -> bool) (e : env) (msg_of : pystr -> pyval -> exn -> pystr)
           (bind_msg hook_msg : pystr) (repr_str : pystr -> pystr) (dumps : list pystr -> pystr)
           (sig_order : kwargs -> kwargs) (c : classdef) (ff : bool) (dl : list (pystr * pyval))
           (s : istate),
         (forall p : pystr * pyval,
          In p dl ->
          exists fd : fdecl,
            find_field (c_fields c) (fst p) = Some fd /\ fd_default fd = Some (snd p)) ->
         Structure__set_defaults (init_heap c ff)
           (MW re_match e msg_of bind_msg hook_msg repr_str dumps sig_order c)
           (PList (map PStr (map fst dl))) (fields_map c) s = run_sets re_match e msg_of c dl s.
Proof. exact set_defaults_run. Qed.

(* the comprehension that selects the default-bearing fields *)
Theorem C01_src_init_defaults_selected :
  forall (c : classdef) (ff : bool) (kw : list (pystr * pyval)) (B : pyval) 
           (fs : list fdecl) (s : istate),
         (forall fd : fdecl,
          In fd fs ->
          find_field (c_fields c) (fd_name fd) = Some fd /\
          fd_default fd <> Some PNone /\
          PyOps2.py_in_dyn (PStr (fd_name fd)) B = Ok (alist_has kw (fd_name fd))) ->
         filterMM (dflt_pick c (init_heap c ff) B) (fpairs fs) s =
         (s, inl (map PStr (map fst (dflt kw fs)))).
Proof. exact comp_defaults. Qed.

(* extra keywords are assigned first and removed from the bound arguments *)
Theorem C01_src_init_extras_first :
  forall (re_match : N -> pystr -> bool) (e : env) (msg_of : pystr -> pyval -> exn -> pystr)
           (bind_msg hook_msg : pystr) (repr_str : pystr -> pystr) (dumps : list pystr -> pystr)
           (sig_order : kwargs -> kwargs) (c : classdef) (kw : kwargs),
         alist_has (bound_of c kw) n_kwargs = false ->
         (' c0 <~ lift (PyOps2.py_in_dyn (PStr (s2p "kwargs")) (bound_dict c kw));;
          (if c0
           then
            ' t23 <~ lift (PyOps2.py_getitem_dyn (bound_dict c kw) (PStr (s2p "kwargs")));;
            ' t24 <~ lift (PyOpsVersioned.py_dict_items t23);;
            ' _ <~
            for_acc
              (fun '(v_name_25, v_val_26) (_ : unit) =>
               ' _ <~
               w_setattr (MW re_match e msg_of bind_msg hook_msg repr_str dumps sig_order c)
                 v_name_25 v_val_26;; ret tt) t24 tt;;
            ' t27 <~ lift (PyOpsVersioned.py_delitem (bound_dict c kw) (PStr (s2p "kwargs")));;
            ret t27
           else ret (bound_dict c kw))) [] =
         (let (s1, s) := run_sets re_match e msg_of c (extras_of c kw) [] in
          match s with
          | inl _ => (s1, inl (PDict (pairs (bound_of c kw))))
          | inr x => (s1, inr x)
          end).
Proof. exact extras_phase. Qed.

(* the source assigns in SIGNATURE order, the hand model in caller order: with two invalid arguments the exception class differs (side condition sig_order of C01_src_init_is_construct) *)
Theorem C01_src_init_order_witness :
  ex_run (rev (A:=pystr * pyval)) ex_bad = Raise TypeError /\
         construct (fun (_ : N) (_ : pystr) => true) [ex_cls] ex_cls ex_bad = Raise ValueError.
Proof. exact order_disagreement. Qed.

Print Assumptions C01_src_init_is_construct.
Print Assumptions C01_src_init_setattr.
Print Assumptions C01_src_init_loop.
Print Assumptions C01_src_init_skips_undefined.
Print Assumptions C01_src_set_defaults.
Print Assumptions C01_src_init_defaults_selected.
Print Assumptions C01_src_init_extras_first.
Print Assumptions C01_src_init_order_witness.

(* ------------------------------------------------------------------ the constructor, continued: signature order, constants
   (1) UNCONDITIONAL in the order of the keywords: whatever permutation of the declared keywords the signature lists,
       the source's __init__ is [construct_sig] = [construct] with the declared keywords assigned in that order
       (and [construct_sig] is [construct] when the caller wrote them in that order).
   (2) Constant fields (model extension Struct/InitConstModel.v [construct_k]; [construct_k] without constants is
       [construct]): a constant named by the caller is refused, the others are assigned after the extra keywords and
       before the defaults. *)
From Coq Require Import Permutation.
From TP Require Import Struct.InitConstModel Struct.InitConstProofs Struct.InitOrderProofs.

Theorem C01_src_init_sig_order :
  forall (re_match : N -> pystr -> bool) (e : env) (msg_of : pystr -> pyval -> exn -> pystr)
         (bind_msg hook_msg : pystr) (repr_str : pystr -> pystr) (dumps : list pystr -> pystr)
         (sig_order : kwargs -> kwargs) (c : classdef) (kw : kwargs),
    init_dom c kw = true -> Permutation (bound_of c kw) (sig_order (bound_of c kw)) ->
    view c (Structure__init (init_heap c true)
              (MW re_match e msg_of bind_msg hook_msg repr_str dumps sig_order c) (PTuple []) (kw_dict kw) [])
    = construct_sig re_match e sig_order c kw.
Proof. exact generated_init_is_construct_sig. Qed.

Theorem C01_src_init_constants :
  forall (re_match : N -> pystr -> bool) (e : env) (msg_of : pystr -> pyval -> exn -> pystr)
         (bind_msg hook_msg : pystr) (repr_str : pystr -> pystr) (dumps : list pystr -> pystr)
         (sig_order : kwargs -> kwargs) (c : classdef) (K kw : kwargs),
    init_dom_k c K kw = true -> sig_order (bound_k c K kw) = bound_k c K kw ->
    view c (Structure__init (init_heap_k c true K)
              (model_world_k re_match e msg_of bind_msg hook_msg repr_str dumps sig_order c K) (PTuple []) (kw_dict kw) [])
    = construct_k re_match e c K kw.
Proof. exact generated_init_constants. Qed.

Theorem C01_construct_k_without_constants : forall re_match e c kw, construct_k re_match e c [] kw = construct re_match e c kw.
Proof. exact construct_k_nil. Qed.

Theorem C01_construct_k_refuses_constant : forall re_match e c K kw n,
    alist_has K n = true -> alist_has kw n = true -> is_ok (construct_k re_match e c K kw) = false.
Proof. exact construct_k_refuses_constant. Qed.

Print Assumptions C01_src_init_sig_order.
Print Assumptions C01_src_init_constants.
Print Assumptions C01_construct_k_without_constants.
Print Assumptions C01_construct_k_refuses_constant.

(* ------------------------------------------------------------------ tie of the entry points to the source, function by function
   cast_to, from_other_class and shallow_clone_with_overrides are translated to Gallina on every run (Gen/EntrySrc.v).
   With `self` the current instance (its __dict__ = the model's attributes + typedpy's two bookkeeping entries), classes
   as objects of the heap and `C( **kwargs)` = the validating constructor [construct] (Struct/EntrySrcModel.v), the
   translation of today's source IS the entry point [run_entry] the soundness theorems above quantify over: it
   delegates to the constructor of the right class with exactly the keywords the model computes (cast_to after the
   subclass / superclass test, keeping the target's fields that are set; from_other_class with every field of the
   target the source has and no override names, then the overrides).  shallow_clone_with_overrides builds the same
   bindings in another ORDER ({**fields, **overrides}: an overridden field keeps its place), [clone_kwargs_src]. *)
From TP Require Import Base.PyObj Struct.EntrySrcModel Struct.EntrySrcProofs Gen.EntrySrc.

Theorem C01_src_entry_cast_to :
  forall (re_match : N -> pystr -> bool) (e : env) (cd ct : classdef) (a : attrs),
    find_class e (c_name cd) = Some cd -> find_class e (c_name ct) = Some ct ->
    names_ok a = true -> vals_defined a = true -> defaults_defined cd = true -> fields_ok ct = true ->
    entry_view (Structure__cast_to (entry_heap e cd ct) (entry_world re_match e cd ct) (ref (cobj (c_name ct))) (inst_state a)) =
    run_entry re_match e (PStruct (c_name cd) a) (ECastTo (c_name ct)).
Proof. exact generated_cast_to_is_entry. Qed.

Theorem C01_src_entry_from_other_class :
  forall (re_match : N -> pystr -> bool) (e : env) (cd ct : classdef) (a : attrs) (over : kwargs),
    find_class e (c_name cd) = Some cd -> find_class e (c_name ct) = Some ct ->
    names_ok a = true -> vals_defined a = true -> defaults_defined cd = true -> fields_ok ct = true ->
    has_dup (map fst over) = false -> vals_defined over = true ->
    entry_view (Structure__from_other_class (entry_heap e cd ct) (entry_world re_match e cd ct) (ref (cobj (c_name ct)))
                  (ref (s2p "self")) PNone (kw_dict over) (inst_state a)) =
    run_entry re_match e (PStruct (c_name cd) a) (EFromOther (c_name ct) over).
Proof. exact generated_from_other_is_entry. Qed.

Theorem C01_src_entry_clone :
  forall (re_match : N -> pystr -> bool) (e : env) (cd : classdef) (a : attrs) (over : kwargs),
    find_class e (c_name cd) = Some cd ->
    names_ok a = true -> vals_defined a = true -> defaults_defined cd = true -> fields_ok cd = true ->
    entry_view (Structure__shallow_clone_with_overrides (entry_heap e cd cd) (entry_world re_match e cd cd) (kw_dict over) (inst_state a)) =
    construct re_match e cd (clone_kwargs_src cd a over).
Proof. exact generated_clone_is_constructor. Qed.

Theorem C01_src_entry_clone_bindings :
  forall (cd : classdef) (a : attrs) (over : kwargs) (n : pystr),
    has_dup (map fst over) = false ->
    alist_get (clone_kwargs_src cd a over) n = alist_get (clone_kwargs cd a over) n.
Proof. exact clone_kwargs_src_same_bindings. Qed.

(* non-vacuity: Point3(x=1, z=True, extra='e') cast to Point, re-read by Point.from_other_class with an override, cloned *)
Example C01_src_entry_nonvacuous :
  let a3 := [(s2p "x", PNum (NInt 1)); (s2p "z", PBool true); (s2p "extra", PStr (s2p "e"))] in
  let over := [(s2p "x", PNum (NInt 7))] in
  names_ok a3 = true /\ vals_defined a3 = true /\ defaults_defined ex_sub = true /\ fields_ok ex_point = true /\ fields_ok ex_sub = true /\
  entry_view (Structure__cast_to (entry_heap ex_env ex_sub ex_point) (entry_world (fun _ _ => true) ex_env ex_sub ex_point)
                (ref (cobj (s2p "Point"))) (inst_state a3)) =
    Ok (PStruct (s2p "Point") [(s2p "x", PNum (NInt 1)); (s2p "y", PNum (NFlt 1 1))]) /\
  entry_view (Structure__shallow_clone_with_overrides (entry_heap ex_env ex_sub ex_sub) (entry_world (fun _ _ => true) ex_env ex_sub ex_sub)
                (kw_dict over) (inst_state a3)) =
    Ok (PStruct (s2p "Point3") [(s2p "x", PNum (NInt 7)); (s2p "y", PNum (NFlt 1 1)); (s2p "z", PBool true)]).
Proof. repeat split; vm_compute; reflexivity. Qed.

Print Assumptions C01_src_entry_cast_to.
Print Assumptions C01_src_entry_from_other_class.
Print Assumptions C01_src_entry_clone.
Print Assumptions C01_src_entry_clone_bindings.
Print Assumptions C01_src_entry_nonvacuous.

(* ------------------------------------------------------------------ entry points, continued
   (1) from_other_class given a MAPPING and an ignore list: the constructor of the class on every field of the class
       that is neither ignored nor overridden (mapping.get(k)), then the overrides; without an ignore list it is the
       entry EFromMapping.  (2) shallow_clone_with_overrides as an equality with the entry EClone ([clone_kwargs] lists
       the keywords in the source's order {**fields, **overrides}).  (3) The copy entries on generated text: __copy__ /
       __deepcopy__ of Gen/EqHashSrc.v return an object whose public part is what ECopy / EDeepCopy return; EPickle is
       [pickle_rt], which C11_src_getstate / C11_src_setstate / C11_src_unpickle tie to the source.  (4) Re-validation:
       an assignment on an instantiated instance through the source's __setattr__ and the descriptor hand-over keeps a
       valid instance valid (or raises and changes nothing). *)
From TP Require Import Struct.EqHash Struct.EqHashSrcProofs Gen.EqHashSrc Struct.CopySrcEntryProofs
     Struct.Mutate Struct.MutateProofs Struct.StructGuardProofs Struct.MutationSrcProofs.

Theorem C01_src_entry_from_mapping :
  forall (re_match : N -> pystr -> bool) (e : env) (ct : classdef) (src over : kwargs) (ig : list pystr) (s : PyOpsInit.istate),
    find_class e (c_name ct) = Some ct -> fields_ok ct = true ->
    has_dup (map fst over) = false -> vals_defined over = true -> vals_defined src = true ->
    entry_view (Structure__from_other_class (entry_heap e ct ct) (entry_world re_match e ct ct) (ref (cobj (c_name ct)))
                  (kw_dict src) (ig_val ig) (kw_dict over) s) =
    construct re_match e ct (from_mapping_kwargs_ig ct src over ig).
Proof. exact generated_from_mapping_is_entry. Qed.

Theorem C01_src_entry_from_mapping_entry :
  forall (re_match : N -> pystr -> bool) (e : env) (ct : classdef) (src over : kwargs) (cur : pyval) (s : PyOpsInit.istate),
    find_class e (c_name ct) = Some ct -> fields_ok ct = true ->
    has_dup (map fst over) = false -> vals_defined over = true -> vals_defined src = true ->
    entry_view (Structure__from_other_class (entry_heap e ct ct) (entry_world re_match e ct ct) (ref (cobj (c_name ct)))
                  (kw_dict src) PNone (kw_dict over) s) =
    run_entry re_match e cur (EFromMapping (c_name ct) src over).
Proof. exact generated_from_mapping_is_run_entry. Qed.

Theorem C01_src_entry_clone_entry :
  forall (re_match : N -> pystr -> bool) (e : env) (cd : classdef) (a : attrs) (over : kwargs),
    find_class e (c_name cd) = Some cd ->
    names_ok a = true -> vals_defined a = true -> defaults_defined cd = true -> fields_ok cd = true ->
    entry_view (Structure__shallow_clone_with_overrides (entry_heap e cd cd) (entry_world re_match e cd cd) (kw_dict over) (inst_state a)) =
    run_entry re_match e (PStruct (c_name cd) a) (EClone over).
Proof. exact generated_clone_is_entry. Qed.

Theorem C01_src_entry_copy :
  forall (re_match : N -> pystr -> bool) (e : env) (W : PyOpsEqHash.world) (cd : classdef) (a : attrs) (t : option pyval),
    find_class e (c_name cd) = Some cd -> EqHashSrcProofs.keys_ok (inst_of (c_name cd) a) = true ->
    exists y, Src_Structure_copy W (inst_obj (inst_of (c_name cd) a) t) = Ok (inst_obj y t) /\
              run_entry re_match e (PStruct (c_name cd) a) ECopy = Ok (inst_public y).
Proof. exact generated_copy_is_entry. Qed.

Theorem C01_src_entry_deepcopy :
  forall (re_match : N -> pystr -> bool) (e : env) (W : PyOpsEqHash.world) (cd : classdef) (a : attrs) (t : option pyval) (memo : pyval),
    find_class e (c_name cd) = Some cd -> EqHashSrcProofs.keys_ok (inst_of (c_name cd) a) = true ->
    alist_has a n_skip_validation = false ->
    PyOpsEqHash.class_field (PyOpsEqHash.w_heap W) (c_name cd) n_immutable = None ->
    exists y, Src_Structure_deepcopy W (inst_obj (inst_of (c_name cd) a) t) memo = Ok (inst_obj y t) /\
              run_entry re_match e (PStruct (c_name cd) a) EDeepCopy = Ok (inst_public y).
Proof. exact generated_deepcopy_is_entry. Qed.

Theorem C01_src_entry_pickle :
  forall (re_match : N -> pystr -> bool) (e : env) (cd : classdef) (a : attrs),
    find_class e (c_name cd) = Some cd ->
    run_entry re_match e (PStruct (c_name cd) a) EPickle = Ok (inst_public (pickle_rt cd (inst_of (c_name cd) a))).
Proof. exact pickle_entry_is_pickle_rt. Qed.

Theorem C01_src_mutation_revalidates :
  forall (re_match : N -> pystr -> bool) (e : env) (c : classdef) (a : attrs) (n : pystr) (v : pyval) (a' : attrs) (r : outcome),
    ordinary_name n = true -> hook_wf c = true -> struct_ok re_match e c a = true ->
    value_safe re_match e c a (SetAttr n v) = true ->
    src_assign re_match e c a n v = (a', r) ->
    (r = Done -> struct_ok re_match e c a' = true) /\ (forall x, r = Raised x -> a' = a).
Proof. exact src_mutation_revalidates. Qed.

Example C01_src_entry_copy_nonvacuous :
  EqHashSrcProofs.keys_ok (inst_of (s2p "Point3") [(s2p "x", PNum (NInt 1)); (s2p "z", PBool true); (s2p "extra", PStr (s2p "e"))]) = true.
Proof. vm_compute. reflexivity. Qed.

Print Assumptions C01_src_entry_from_mapping.
Print Assumptions C01_src_entry_from_mapping_entry.
Print Assumptions C01_src_entry_clone_entry.
Print Assumptions C01_src_entry_copy.
Print Assumptions C01_src_entry_deepcopy.
Print Assumptions C01_src_entry_pickle.
Print Assumptions C01_src_mutation_revalidates.

(* from_other_class given an instance and an ignore list; without one it is the entry EFromOther (from_other_ig_nil) *)
Theorem C01_src_entry_from_other_ignore :
  forall (re_match : N -> pystr -> bool) (e : env) (cd ct : classdef) (a : attrs) (over : kwargs) (ig : list pystr),
    find_class e (c_name cd) = Some cd -> find_class e (c_name ct) = Some ct ->
    names_ok a = true -> vals_defined a = true -> defaults_defined cd = true -> fields_ok ct = true ->
    has_dup (map fst over) = false -> vals_defined over = true ->
    entry_view (Structure__from_other_class (entry_heap e cd ct) (entry_world re_match e cd ct) (ref (cobj (c_name ct)))
                  (ref (s2p "self")) (ig_val ig) (kw_dict over) (inst_state a)) =
    construct re_match e ct (from_other_kwargs_ig cd ct a over ig).
Proof. exact generated_from_other_ignore. Qed.

Theorem C01_from_other_kwargs_ig_nil : forall cd ct a over, from_other_kwargs_ig cd ct a over [] = from_other_kwargs cd ct a over.
Proof. exact from_other_ig_nil. Qed.

Print Assumptions C01_src_entry_from_other_ignore.
Print Assumptions C01_from_other_kwargs_ig_nil.
