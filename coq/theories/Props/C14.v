(* Property C14 -- inheritance only adds strictness; invalid class definitions fail when defined.
   Only the property theorems; model: Struct/Define.v (StructMeta.__new__, get_base_info,
   make_signature, ...), spec predicates: Struct/Faults.v, proofs: Struct/InheritProofs.v. *)
From Coq Require Import ZArith NArith String List Bool.
Import ListNotations.
From TP Require Import Base.PyVal Fields.FieldAst Fields.SetChain Struct.Define Struct.DefineProofs
     Struct.Faults Struct.InheritProofs.
Local Open Scope string_scope.

Section C14.
  Variable re_match : N -> pystr -> bool.     (* oracle: re.match *)
  Variable e : env.
  Variable gd : guards.                       (* block_unknown_consts / block_non_typedpy_field_assignment: any setting *)

  Notation define := (define re_match e gd).
  Notation built := (built re_match e gd).

  (* ---- a subclass has every field of its bases ---- *)

  (* one class statement, any number of bases, any of them *)
  Theorem C14_fields_mono_step : forall g s k b kb,
      built g -> define g s = Ok k -> In b (s_bases s) -> find_klass g b = Some kb ->
      forall n, In n (field_names kb) -> In n (field_names k).
  Proof. intros g s k b kb Hb. apply (define_fields_mono re_match e gd). apply (built_env_inv re_match e gd). exact Hb. Qed.

  (* hierarchies of any depth: induction over the chain of class statements *)
  Theorem C14_fields_mono : forall k a,
      descends re_match e gd k a -> forall n, In n (field_names a) -> In n (field_names k).
  Proof. exact (descends_fields_mono re_match e gd). Qed.

  (* ---- ... and requires at least what they require ---- *)

  (* one class statement: a name the signature of base b requires, on which the bases agree (no other
     base declares it optional), is in _required of the new class and stays a required parameter
     unless the new class fixes it with a Constant *)
  Theorem C14_required_mono_step : forall g s k b kb n,
      define g s = Ok k -> In b (s_bases s) -> find_klass g b = Some kb ->
      k_is_struct kb = true -> b <> n_Structure ->
      In n (k_sig_req kb) -> bases_agree g (s_bases s) n ->
      In n (k_required k) /\ (~ In n (map fst (k_constants k)) -> In n (k_sig_req k)).
  Proof. exact (define_required_mono re_match e gd). Qed.

  (* any depth *)
  Theorem C14_required_mono : forall n k a,
      req_chain re_match e gd n k a -> In n (k_sig_req a) ->
      In n (k_sig_req k) /\ (k = a \/ In n (k_required k)).
  Proof. exact (chain_required_mono re_match e gd). Qed.

  (* the unconditional statement: false of the faithful model (and of typedpy), see C14_required_refuted *)
  Definition C14_required_statement : Prop :=
    forall g s k b kb, built g -> define g s = Ok k -> In b (s_bases s) -> find_klass g b = Some kb ->
                       forall n, In n (k_sig_req kb) -> In n (k_required k).

  (* ---- inherited fields that are not redeclared are the bases' field objects ---- *)
  Theorem C14_inherited_behaviour : forall g s k n,
      define g s = Ok k -> ~ In n (map fst (s_members s)) ->
      alist_get (k_all k) n = alist_get (fields_of_mro g (tl_str (k_mro k))) n /\
      forall fo fo0, alist_get (k_all k) n = Some (MField fo) ->
                     alist_get (fields_of_mro g (tl_str (k_mro k))) n = Some (MField fo0) ->
                     fo_default fo = fo_default fo0 /\
                     forall env' v, vset re_match env' (fo_field fo) v = vset re_match env' (fo_field fo0) v.
  Proof.
    intros g s k n H Hn. pose proof (define_inherited_member re_match e gd g s k n H Hn) as Heq.
    split; [exact Heq|]. intros fo fo0 H1 H2. rewrite Heq, H2 in H1. inversion H1. split; reflexivity.
  Qed.

  (* ---- faults: the class statement raises (no class) ---- *)
  Theorem C14_fault_default_eq : forall g s,
      any_member (fault_eq_default re_match e) s = true -> is_ok (define g s) = false.
  Proof. exact (fault_eq_default_raises re_match e gd). Qed.

  Theorem C14_fault_default_kw_truthy : forall g s,
      any_member (fault_kw_default_truthy re_match e) s = true -> is_ok (define g s) = false.
  Proof. exact (fault_kw_default_truthy_raises re_match e gd). Qed.

  (* the full statement for `default=`: false (F12), see C14_fault_default_kw_refuted *)
  Definition C14_fault_default_kw_statement : Prop :=
    forall g s, any_member (fault_kw_default re_match e) s = true -> is_ok (define g s) = false.

  Theorem C14_fault_mutable_default : forall g s,
      any_member fault_mutable_default s = true -> is_ok (define g s) = false.
  Proof. exact (fault_mutable_default_raises re_match e gd). Qed.

  Theorem C14_fault_name : forall g s, fault_name s = true -> is_ok (define g s) = false.
  Proof. exact (fault_name_raises re_match e gd). Qed.

  Theorem C14_fault_optional : forall g s, fault_optional re_match e gd g s = true -> is_ok (define g s) = false.
  Proof. exact (fault_optional_raises re_match e gd). Qed.

  Theorem C14_fault_final_base : forall g s, fault_final_base g s = true -> is_ok (define g s) = false.
  Proof. exact (fault_final_base_raises re_match e gd). Qed.

  Theorem C14_fault_constant : forall g s, any_member fault_bad_const s = true -> is_ok (define g s) = false.
  Proof. exact (fault_bad_const_raises re_match e gd). Qed.

  Theorem C14_fault_keys_of : forall g s k,
      define g s = Ok k -> forall ns n, In ns (s_keys_of s) -> In n ns -> In n (field_names k).
  Proof. exact (keys_of_respected re_match e gd). Qed.

  Theorem C14_fault_unknown_attr : forall g s, fault_unknown_attr gd s = true -> is_ok (define g s) = false.
  Proof. exact (fault_unknown_attr_raises re_match e gd). Qed.

  Theorem C14_fault_non_typedpy : forall g s, fault_non_typedpy gd s = true -> is_ok (define g s) = false.
  Proof. exact (fault_non_typedpy_raises re_match e gd). Qed.

  (* ---- AbstractStructure ---- *)
  Theorem C14_abstract : forall k, In n_Abstract (k_bases k) -> instantiable k = Raise TypeError.
  Proof. exact abstract_not_instantiable. Qed.
End C14.

Print Assumptions C14_fields_mono_step.
Print Assumptions C14_fields_mono.
Print Assumptions C14_required_mono_step.
Print Assumptions C14_required_mono.
Print Assumptions C14_inherited_behaviour.
Print Assumptions C14_fault_default_eq.
Print Assumptions C14_fault_default_kw_truthy.
Print Assumptions C14_fault_mutable_default.
Print Assumptions C14_fault_name.
Print Assumptions C14_fault_optional.
Print Assumptions C14_fault_final_base.
Print Assumptions C14_fault_constant.
Print Assumptions C14_fault_keys_of.
Print Assumptions C14_fault_unknown_attr.
Print Assumptions C14_fault_non_typedpy.
Print Assumptions C14_abstract.

(* ------------------------------------------------------------------ witnesses *)

Definition nm := s2p.
Definition T := fun (_ : N) (_ : pystr) => true.
Definition f_int : field := FNumber KInteger SAny no_numc.
Definition f_int_min (z : Z) : field :=
  FNumber KInteger SAny {| multiplesOf := None; minimum := Some (NInt z); maximum := None; exclusiveMaximum := false |}.
Definition f_str : field := FString no_strc.
Definition stmt0 (name : string) (bases : list pystr) (ms : list (pystr * mstmt)) : classstmt :=
  {| s_name := nm name; s_bases := bases; s_members := ms; s_required := None; s_optional := None;
     s_additional := None; s_ignore_none := None; s_attrs := []; s_keys_of := [] |}.

(* F12: `a = Integer(minimum=5, default=0)` is accepted although 0 violates the field ... *)
Definition ex_f12 := stmt0 "F" [n_Structure] [(nm "a", SDecl (f_int_min 5) false (Some (DLit (PNum (NInt 0)))) None)].
(* ... while `a: Integer(minimum=5) = 0` and `default=3` are rejected *)
Definition ex_f12_eq := stmt0 "F" [n_Structure] [(nm "a", SDecl (f_int_min 5) false None (Some (DLit (PNum (NInt 0)))))].
Definition ex_f12_3 := stmt0 "F" [n_Structure] [(nm "a", SDecl (f_int_min 5) false (Some (DLit (PNum (NInt 3)))) None)].

Theorem C14_fault_default_kw_refuted : ~ C14_fault_default_kw_statement T [] default_guards.
Proof.
  intro H. specialize (H genv0 ex_f12). vm_compute in H. specialize (H eq_refl). discriminate.
Qed.
Print Assumptions C14_fault_default_kw_refuted.

Example C14_f12_contrast :
  is_ok (define T [] default_guards genv0 ex_f12) = true /\
  define T [] default_guards genv0 ex_f12_eq = Raise ValueError /\
  define T [] default_guards genv0 ex_f12_3 = Raise ValueError.
Proof. repeat split; vm_compute; reflexivity. Qed.

(* multiple bases: A declares x optional, B requires x, class C(A, B) does not require x *)
Definition ex_A : classstmt :=
  {| s_name := nm "A"; s_bases := [n_Structure];
     s_members := [(nm "x", SDecl f_int false None None); (nm "y", SDecl f_str false None None)];
     s_required := Some [nm "y"]; s_optional := None; s_additional := None; s_ignore_none := None;
     s_attrs := []; s_keys_of := [] |}.
Definition ex_B := stmt0 "B" [n_Structure] [(nm "x", SDecl (f_int_min 3) false None None);
                                            (nm "z", SDecl f_str false None (Some (DLit (PStr (nm "q")))))].
Definition ex_C := stmt0 "C" [nm "A"; nm "B"] [(nm "w", SDecl f_int false None None)].

Definition ex_env : option (genv * klass) :=
  match define T [] default_guards genv0 ex_A with
  | Ok a => match define T [] default_guards (a :: genv0) ex_B with
            | Ok b => match define T [] default_guards (b :: a :: genv0) ex_C with
                      | Ok c => Some (b :: a :: genv0, c)
                      | Raise _ => None end
            | Raise _ => None end
  | Raise _ => None end.

Definition ex_gA : genv := Eval vm_compute in match define T [] default_guards genv0 ex_A with Ok a => a :: genv0 | Raise _ => [] end.
Definition ex_gAB : genv := Eval vm_compute in match define T [] default_guards ex_gA ex_B with Ok b => b :: ex_gA | Raise _ => [] end.
Definition ex_kB : klass := Eval vm_compute in match ex_gAB with b :: _ => b | [] => builtin [] end.
Definition ex_kC : klass := Eval vm_compute in match define T [] default_guards ex_gAB ex_C with Ok c => c | Raise _ => builtin [] end.

Theorem C14_required_refuted : ~ C14_required_statement T [] default_guards.
Proof.
  intro H.
  assert (HbA : built T [] default_guards ex_gA).
  { apply (built_def T [] default_guards genv0 ex_A); [constructor | reflexivity | vm_compute; reflexivity]. }
  assert (HbAB : built T [] default_guards ex_gAB).
  { apply (built_def T [] default_guards ex_gA ex_B); [exact HbA | reflexivity | vm_compute; reflexivity]. }
  specialize (H ex_gAB ex_C ex_kC (nm "B") ex_kB HbAB).
  assert (Hd : define T [] default_guards ex_gAB ex_C = Ok ex_kC) by (vm_compute; reflexivity).
  specialize (H Hd (or_intror (or_introl eq_refl)) eq_refl (nm "x") (or_introl eq_refl)).
  vm_compute in H. repeat destruct H as [H|H]; try discriminate. exact H.
Qed.
Print Assumptions C14_required_refuted.

(* non-vacuity: a three-level hierarchy with a mix-in; fields and required names accumulate;
   the single-fault variants raise; AbstractStructure children cannot be instantiated, the class
   AbstractStructure itself can (its __bases__ do not contain AbstractStructure) *)
Example C14_nonvacuous :
  (match ex_env with
   | Some (_, c) => Some (field_names c, k_required c, k_sig_req c, k_mro c)
   | None => None end) =
  Some ([nm "x"; nm "z"; nm "y"; nm "w"], [nm "y"; nm "w"], [nm "y"; nm "w"], [nm "C"; nm "A"; nm "B"; n_Structure]) /\
  (* redeclaring a base-required field as optional: duplicate parameter -> ValueError *)
  define T [] default_guards ex_gAB
         {| s_name := nm "E"; s_bases := [nm "B"]; s_members := [(nm "x", SDecl f_int false None (Some (DLit (PNum (NInt 7)))))];
            s_required := None; s_optional := None; s_additional := None; s_ignore_none := None; s_attrs := []; s_keys_of := [] |}
  = Raise ValueError /\
  (* _optional naming a base-required field *)
  define T [] default_guards ex_gAB
         {| s_name := nm "E"; s_bases := [nm "B"]; s_members := [(nm "q", SDecl f_int false None None)];
            s_required := None; s_optional := Some [nm "x"]; s_additional := None; s_ignore_none := None; s_attrs := []; s_keys_of := [] |}
  = Raise ValueError /\
  (* extending an ImmutableStructure class *)
  (match define T [] default_guards genv0 (stmt0 "I" [n_Immutable] [(nm "a", SDecl f_int false None None)]) with
   | Ok i => define T [] default_guards (i :: genv0) (stmt0 "J" [nm "I"] [])
   | Raise x => Raise x end) = Raise TypeError /\
  instantiable (builtin n_Abstract) = Ok tt /\
  (match define T [] default_guards genv0 (stmt0 "Ab" [n_Abstract] [(nm "a", SDecl f_int false None None)]) with
   | Ok k => instantiable k | Raise x => Raise x end) = Raise TypeError.
Proof. repeat split; vm_compute; reflexivity. Qed.
