(* Property C14 -- inheritance only adds strictness; invalid class definitions fail when defined.
   Only the property theorems; model: Struct/Define.v (StructMeta.__new__, get_base_info,
   make_signature, ...), spec predicates: Struct/Faults.v, proofs: Struct/InheritProofs.v. *)
From Coq Require Import ZArith NArith String List Bool.
Import ListNotations.
From TP Require Import Base.PyVal Fields.FieldAst Fields.SetChain Struct.Define Struct.DefineProofs
     Struct.Faults Struct.InheritProofs.
Local Open Scope string_scope.

Section C14.
  Variable re_match : N -> pystr -> bool.     (* oracle: re.match *)
  Variable e : env.
  Variable gd : guards.                       (* block_unknown_consts / block_non_typedpy_field_assignment: any setting *)

  Notation define := (define re_match e gd).
  Notation built := (built re_match e gd).

  (* ---- a subclass has every field of its bases ---- *)

  (* one class statement, any number of bases, any of them *)
  Theorem C14_fields_mono_step : forall g s k b kb,
      built g -> define g s = Ok k -> In b (s_bases s) -> find_klass g b = Some kb ->
      forall n, In n (field_names kb) -> In n (field_names k).
  Proof. intros g s k b kb Hb. apply (define_fields_mono re_match e gd). apply (built_env_inv re_match e gd). exact Hb. Qed.

  (* hierarchies of any depth: induction over the chain of class statements *)
  Theorem C14_fields_mono : forall k a,
      descends re_match e gd k a -> forall n, In n (field_names a) -> In n (field_names k).
  Proof. exact (descends_fields_mono re_match e gd). Qed.

  (* ---- ... and requires at least what they require ---- *)

  (* one class statement: a name the signature of base b requires, on which the bases agree (no other
     base declares it optional), is in _required of the new class and stays a required parameter
     unless the new class fixes it with a Constant *)
  Theorem C14_required_mono_step : forall g s k b kb n,
      define g s = Ok k -> In b (s_bases s) -> find_klass g b = Some kb ->
      k_is_struct kb = true -> b <> n_Structure ->
      In n (k_sig_req kb) -> bases_agree g (s_bases s) n ->
      In n (k_required k) /\ (~ In n (map fst (k_constants k)) -> In n (k_sig_req k)).
  Proof. exact (define_required_mono re_match e gd). Qed.

  (* any depth *)
  Theorem C14_required_mono : forall n k a,
      req_chain re_match e gd n k a -> In n (k_sig_req a) ->
      In n (k_sig_req k) /\ (k = a \/ In n (k_required k)).
  Proof. exact (chain_required_mono re_match e gd). Qed.

  (* the unconditional statement: false of the faithful model (and of typedpy), see C14_required_refuted *)
  Definition C14_required_statement : Prop :=
    forall g s k b kb, built g -> define g s = Ok k -> In b (s_bases s) -> find_klass g b = Some kb ->
                       forall n, In n (k_sig_req kb) -> In n (k_required k).

  (* ---- inherited fields that are not redeclared are the bases' field objects ---- *)
  Theorem C14_inherited_behaviour : forall g s k n,
      define g s = Ok k -> ~ In n (map fst (s_members s)) ->
      alist_get (k_all k) n = alist_get (fields_of_mro g (tl_str (k_mro k))) n /\
      forall fo fo0, alist_get (k_all k) n = Some (MField fo) ->
                     alist_get (fields_of_mro g (tl_str (k_mro k))) n = Some (MField fo0) ->
                     fo_default fo = fo_default fo0 /\
                     forall env' v, vset re_match env' (fo_field fo) v = vset re_match env' (fo_field fo0) v.
  Proof.
    intros g s k n H Hn. pose proof (define_inherited_member re_match e gd g s k n H Hn) as Heq.
    split; [exact Heq|]. intros fo fo0 H1 H2. rewrite Heq, H2 in H1. inversion H1. split; reflexivity.
  Qed.

  (* ---- faults: the class statement raises (no class) ---- *)
  Theorem C14_fault_default_eq : forall g s,
      any_member (fault_eq_default re_match e) s = true -> is_ok (define g s) = false.
  Proof. exact (fault_eq_default_raises re_match e gd). Qed.

  Theorem C14_fault_default_kw_truthy : forall g s,
      any_member (fault_kw_default_truthy re_match e) s = true -> is_ok (define g s) = false.
  Proof. exact (fault_kw_default_truthy_raises re_match e gd). Qed.

  (* the full statement for `default=`: false (F12), see C14_fault_default_kw_refuted *)
  Definition C14_fault_default_kw_statement : Prop :=
    forall g s, any_member (fault_kw_default re_match e) s = true -> is_ok (define g s) = false.

  Theorem C14_fault_mutable_default : forall g s,
      any_member fault_mutable_default s = true -> is_ok (define g s) = false.
  Proof. exact (fault_mutable_default_raises re_match e gd). Qed.

  Theorem C14_fault_name : forall g s, fault_name s = true -> is_ok (define g s) = false.
  Proof. exact (fault_name_raises re_match e gd). Qed.

  Theorem C14_fault_optional : forall g s, fault_optional re_match e gd g s = true -> is_ok (define g s) = false.
  Proof. exact (fault_optional_raises re_match e gd). Qed.

  Theorem C14_fault_final_base : forall g s, fault_final_base g s = true -> is_ok (define g s) = false.
  Proof. exact (fault_final_base_raises re_match e gd). Qed.

  Theorem C14_fault_constant : forall g s, any_member fault_bad_const s = true -> is_ok (define g s) = false.
  Proof. exact (fault_bad_const_raises re_match e gd). Qed.

  Theorem C14_fault_keys_of : forall g s k,
      define g s = Ok k -> forall ns n, In ns (s_keys_of s) -> In n ns -> In n (field_names k).
  Proof. exact (keys_of_respected re_match e gd). Qed.

  Theorem C14_fault_unknown_attr : forall g s, fault_unknown_attr gd s = true -> is_ok (define g s) = false.
  Proof. exact (fault_unknown_attr_raises re_match e gd). Qed.

  Theorem C14_fault_non_typedpy : forall g s, fault_non_typedpy gd s = true -> is_ok (define g s) = false.
  Proof. exact (fault_non_typedpy_raises re_match e gd). Qed.

  (* ---- AbstractStructure ---- *)
  Theorem C14_abstract : forall k, In n_Abstract (k_bases k) -> instantiable k = Raise TypeError.
  Proof. exact abstract_not_instantiable. Qed.

  (* ... nor can the class AbstractStructure itself *)
  Theorem C14_abstract_itself : forall k, k_name k = n_Abstract -> instantiable k = Raise TypeError.
  Proof. exact abstract_itself_not_instantiable. Qed.
End C14.

Print Assumptions C14_fields_mono_step.
Print Assumptions C14_fields_mono.
Print Assumptions C14_required_mono_step.
Print Assumptions C14_required_mono.
Print Assumptions C14_inherited_behaviour.
Print Assumptions C14_fault_default_eq.
Print Assumptions C14_fault_default_kw_truthy.
Print Assumptions C14_fault_mutable_default.
Print Assumptions C14_fault_name.
Print Assumptions C14_fault_optional.
Print Assumptions C14_fault_final_base.
Print Assumptions C14_fault_constant.
Print Assumptions C14_fault_keys_of.
Print Assumptions C14_fault_unknown_attr.
Print Assumptions C14_fault_non_typedpy.
Print Assumptions C14_abstract.
Print Assumptions C14_abstract_itself.

(* ------------------------------------------------------------------ witnesses *)

Definition nm := s2p.
Definition T := fun (_ : N) (_ : pystr) => true.
Definition f_int : field := FNumber KInteger SAny no_numc.
Definition f_int_min (z : Z) : field :=
  FNumber KInteger SAny {| multiplesOf := None; minimum := Some (NInt z); maximum := None; exclusiveMaximum := false |}.
Definition f_str : field := FString no_strc.
Definition stmt0 (name : string) (bases : list pystr) (ms : list (pystr * mstmt)) : classstmt :=
  {| s_name := nm name; s_bases := bases; s_members := ms; s_required := None; s_optional := None;
     s_additional := None; s_ignore_none := None; s_attrs := []; s_keys_of := [] |}.

(* F12: `a = Integer(minimum=5, default=0)` is accepted although 0 violates the field ... *)
Definition ex_f12 := stmt0 "F" [n_Structure] [(nm "a", SDecl (f_int_min 5) false (Some (DLit (PNum (NInt 0)))) None)].
(* ... while `a: Integer(minimum=5) = 0` and `default=3` are rejected *)
Definition ex_f12_eq := stmt0 "F" [n_Structure] [(nm "a", SDecl (f_int_min 5) false None (Some (DLit (PNum (NInt 0)))))].
Definition ex_f12_3 := stmt0 "F" [n_Structure] [(nm "a", SDecl (f_int_min 5) false (Some (DLit (PNum (NInt 3)))) None)].

Theorem C14_fault_default_kw_refuted : ~ C14_fault_default_kw_statement T [] default_guards.
Proof.
  intro H. specialize (H genv0 ex_f12). vm_compute in H. specialize (H eq_refl). discriminate.
Qed.
Print Assumptions C14_fault_default_kw_refuted.

Example C14_f12_contrast :
  is_ok (define T [] default_guards genv0 ex_f12) = true /\
  define T [] default_guards genv0 ex_f12_eq = Raise ValueError /\
  define T [] default_guards genv0 ex_f12_3 = Raise ValueError.
Proof. repeat split; vm_compute; reflexivity. Qed.

(* multiple bases: A declares x optional, B requires x, class C(A, B) does not require x *)
Definition ex_A : classstmt :=
  {| s_name := nm "A"; s_bases := [n_Structure];
     s_members := [(nm "x", SDecl f_int false None None); (nm "y", SDecl f_str false None None)];
     s_required := Some [nm "y"]; s_optional := None; s_additional := None; s_ignore_none := None;
     s_attrs := []; s_keys_of := [] |}.
Definition ex_B := stmt0 "B" [n_Structure] [(nm "x", SDecl (f_int_min 3) false None None);
                                            (nm "z", SDecl f_str false None (Some (DLit (PStr (nm "q")))))].
Definition ex_C := stmt0 "C" [nm "A"; nm "B"] [(nm "w", SDecl f_int false None None)].

Definition ex_env : option (genv * klass) :=
  match define T [] default_guards genv0 ex_A with
  | Ok a => match define T [] default_guards (a :: genv0) ex_B with
            | Ok b => match define T [] default_guards (b :: a :: genv0) ex_C with
                      | Ok c => Some (b :: a :: genv0, c)
                      | Raise _ => None end
            | Raise _ => None end
  | Raise _ => None end.

Definition ex_gA : genv := Eval vm_compute in match define T [] default_guards genv0 ex_A with Ok a => a :: genv0 | Raise _ => [] end.
Definition ex_gAB : genv := Eval vm_compute in match define T [] default_guards ex_gA ex_B with Ok b => b :: ex_gA | Raise _ => [] end.
Definition ex_kB : klass := Eval vm_compute in match ex_gAB with b :: _ => b | [] => builtin [] end.
Definition ex_kC : klass := Eval vm_compute in match define T [] default_guards ex_gAB ex_C with Ok c => c | Raise _ => builtin [] end.

Theorem C14_required_refuted : ~ C14_required_statement T [] default_guards.
Proof.
  intro H.
  assert (HbA : built T [] default_guards ex_gA).
  { apply (built_def T [] default_guards genv0 ex_A); [constructor | reflexivity | vm_compute; reflexivity]. }
  assert (HbAB : built T [] default_guards ex_gAB).
  { apply (built_def T [] default_guards ex_gA ex_B); [exact HbA | reflexivity | vm_compute; reflexivity]. }
  specialize (H ex_gAB ex_C ex_kC (nm "B") ex_kB HbAB).
  assert (Hd : define T [] default_guards ex_gAB ex_C = Ok ex_kC) by (vm_compute; reflexivity).
  specialize (H Hd (or_intror (or_introl eq_refl)) eq_refl (nm "x") (or_introl eq_refl)).
  vm_compute in H. repeat destruct H as [H|H]; try discriminate. exact H.
Qed.
Print Assumptions C14_required_refuted.

(* non-vacuity: a three-level hierarchy with a mix-in; fields and required names accumulate;
   the single-fault variants raise; neither AbstractStructure children nor the class AbstractStructure
   itself can be instantiated, a grandchild can *)
Example C14_nonvacuous :
  (match ex_env with
   | Some (_, c) => Some (field_names c, k_required c, k_sig_req c, k_mro c)
   | None => None end) =
  Some ([nm "x"; nm "z"; nm "y"; nm "w"], [nm "y"; nm "w"], [nm "y"; nm "w"], [nm "C"; nm "A"; nm "B"; n_Structure]) /\
  (* redeclaring a base-required field as optional: duplicate parameter -> ValueError *)
  define T [] default_guards ex_gAB
         {| s_name := nm "E"; s_bases := [nm "B"]; s_members := [(nm "x", SDecl f_int false None (Some (DLit (PNum (NInt 7)))))];
            s_required := None; s_optional := None; s_additional := None; s_ignore_none := None; s_attrs := []; s_keys_of := [] |}
  = Raise ValueError /\
  (* _optional naming a base-required field *)
  define T [] default_guards ex_gAB
         {| s_name := nm "E"; s_bases := [nm "B"]; s_members := [(nm "q", SDecl f_int false None None)];
            s_required := None; s_optional := Some [nm "x"]; s_additional := None; s_ignore_none := None; s_attrs := []; s_keys_of := [] |}
  = Raise ValueError /\
  (* extending an ImmutableStructure class *)
  (match define T [] default_guards genv0 (stmt0 "I" [n_Immutable] [(nm "a", SDecl f_int false None None)]) with
   | Ok i => define T [] default_guards (i :: genv0) (stmt0 "J" [nm "I"] [])
   | Raise x => Raise x end) = Raise TypeError /\
  instantiable (builtin n_Abstract) = Raise TypeError /\
  (match define T [] default_guards genv0 (stmt0 "Ab" [n_Abstract] [(nm "a", SDecl f_int false None None)]) with
   | Ok k => instantiable k | Raise x => Raise x end) = Raise TypeError /\
  (match define T [] default_guards genv0 (stmt0 "Ab" [n_Abstract] [(nm "a", SDecl f_int false None None)]) with
   | Ok k => match define T [] default_guards (k :: genv0) (stmt0 "Conc" [nm "Ab"] []) with
             | Ok k2 => instantiable k2 | Raise x => Raise x end
   | Raise x => Raise x end) = Ok tt.
Proof. repeat split; vm_compute; reflexivity. Qed.

(* ======================================================================================================
   the tie to the source of class definition (generated layer), appended from the contributor's file *)
(* Property C14 -- the tie to typedpy's CURRENT source of the class-definition code (ready to append to Props/C14.v).
   Only re-exports: each theorem is Struct/DefineSrcProofs.v's lemma about the GENERATED translation
   (Gen/DefineSrc.v, rewritten from typedpy/structures/structures.py on every run) and the hand-written model
   Struct/Define.v on which the C14 theorems are proved.  How a model-level description is seen as the
   Python-level arguments is defined in Struct/DefineSrcProofs.v (v_names, v_params, v_keys, v_sig, genv_heap,
   members_heap, ...).  [so] is the iteration order of sets, [X] the oracle for calls the translation does not
   look into. *)
From Coq Require Import ZArith NArith String List Bool Permutation. Import ListNotations.
From TP Require Import Base.PyVal Base.PyOps Base.PyObj Base.PyOpsDerive Base.PyOpsDefine
     Fields.FieldAst Fields.SetChain Struct.Define Gen.DefineSrc Struct.DefineSrcProofs.

(* make_signature = Define.make_signature: the same optional parameters, the same **kwargs, the required
   parameters up to the order in which a set iterates, ValueError (duplicate parameter) by both or by none *)
Theorem C14_src_make_signature : forall so X h names required addl bp consts,
    so_ok so -> sig_inputs_ok names bp = true ->
    sig_agrees addl
      (DefineSrc.make_signature so X h (v_names names) (v_names required) (PBool addl) (v_params bp)
                                (v_names (bases_required bp)) (v_keys consts))
      (Define.make_signature names required bp consts).
Proof. exact make_signature_src. Qed.

(* get_base_info = base_info, whenever the model does not decline *)
Theorem C14_src_get_base_info : forall so X gd g extra bases r,
    bases_ok g extra bases = true ->
    base_info gd g bases [] false = r -> r <> Raise Unmodelled ->
    DefineSrc.get_base_info so X (genv_heap gd g extra) (PTuple (v_refs bases)) =
    match r with
    | Ok bp => Ok (PTuple [v_params bp; v_names (bases_required bp)])
    | Raise x => Raise x
    end.
Proof. exact get_base_info_src. Qed.

(* _check_for_final_violations(mro) raises TypeError exactly when final_violation holds *)
Theorem C14_src_check_final : forall so X gd g extra name mro_tail,
    DefineSrc.check_for_final_violations so X (genv_heap gd g extra) (PList (v_refs (name :: mro_tail))) =
    if final_violation g mro_tail then Raise TypeError else Ok PNone.
Proof. exact check_final_src. Qed.

(* _block_invalid_consts raises ValueError exactly when some non-field attribute of the statement is invalid_const *)
Theorem C14_src_block_invalid_consts : forall so X h s ents ann,
    annotations_are h ents ann ->
    (forall n u, In (n, u) (s_attrs s) ->
       str_in n (map fst ann) = false /\ exists v, In (n, v) ents /\ uval_matches h u v = true) ->
    (forall n v, In (n, v) ents -> bad_entry h (map fst ann) (n, v) = true ->
       exists u, In (n, u) (s_attrs s) /\ uval_matches h u v = true) ->
    DefineSrc.block_invalid_consts so X h (PDict (skeys ents)) =
    if existsb invalid_const (s_attrs s) then Raise ValueError else Ok PNone.
Proof. exact block_invalid_consts_src. Qed.

(* _apply_default_and_update_required_not_to_include_fields_with_defaults = apply_eq_default on every member,
   then own_required (as a set) *)
Theorem C14_src_apply_default : forall re_match e so X base s defs ents pre,
    so_ok so -> NoDup (map fst pre) -> defaults_normal pre = true ->
    forallb (member_ok defs) pre = true -> forallb (fun nd => eqd_plain (snd nd)) defs = true ->
    (forall n, base (fobj n) n__default = None) ->
    (forall n, In n (map fst pre) -> alist_get ents n = Some (fld_ref n)) ->
    alist_get ents (s2p "_required") = option_map v_names (s_required s) ->
    alist_get ents (s2p "_optional") = option_map v_names (s_optional s) ->
    (forall hh n fo v, alist_get pre n = Some (MField fo) ->
       X (s2p "._try_default_value") hh [fld_ref n; v] =
       match vset re_match e (fo_field fo) v with
       | Ok _ => Ok (hh, PNone, [fld_ref n; v])
       | Raise x => Raise x
       end) ->
    match mapM (apply_member re_match e defs) pre with
    | Ok own =>
        exists h' req, Permutation req (own_required s own) /\ heap_eq h' (members_heap base own) /\
          DefineSrc.apply_default_and_update_required so X (members_heap base pre) (PDict (skeys ents)) (v_defs defs)
                                                       (v_names (map fst pre)) =
          Ok (h', PNone, PDict (skeys (alist_set ents (s2p "_required") (v_names req))))
    | Raise x =>
        DefineSrc.apply_default_and_update_required so X (members_heap base pre) (PDict (skeys ents)) (v_defs defs)
                                                     (v_names (map fst pre)) = Raise x
    end.
Proof. exact apply_default_src. Qed.

(* ... and that second phase is the model's build_members once the Field constructors of the class body succeeded *)
Theorem C14_src_build_members : forall re_match e l pre,
    NoDup (map fst l) -> mapM (init_member re_match e) l = Ok pre ->
    build_members re_match e l = mapM (apply_member re_match e (eq_defs l)) pre.
Proof. exact build_members_two_phases. Qed.

(* _get_all_fields_by_name(cls): the member objects in the order and with the overriding of fields_of_mro *)
Theorem C14_src_get_all_fields_by_name : forall so X gd g extra c kc,
    find_klass g c = Some kc -> mro_plain g (k_mro kc) = true ->
    DefineSrc.get_all_fields_by_name so X (genv_heap gd g extra) (ref c) =
    Ok (PDict (skeys (v_fields_of_mro g (k_mro kc)))).
Proof. exact get_all_fields_by_name_src. Qed.

Theorem C14_src_fields_of_mro : forall g mro,
    fields_of_mro g mro = mro_fold (fun _ nm => snd nm) g mro /\
    map fst (v_fields_of_mro g mro) = map fst (fields_of_mro g mro).
Proof. exact fields_of_mro_names. Qed.

(* _instantiate_fields_if_needed leaves a class dict of Field / Constant objects and plain attributes alone *)
Theorem C14_src_instantiate_frame : forall so X h ents defs,
    (forall nv, In nv ents -> entry_left_alone X h nv) ->
    DefineSrc.instantiate_fields_if_needed so X h (PDict (skeys ents)) defs = Ok (h, PNone, PDict (skeys ents)).
Proof. exact instantiate_frame_src. Qed.

(* StructMeta.__new__, statement by statement: the field-name check ... *)
Theorem C14_src_new_field_names : forall so X ents names h,
    (forall n, In n names -> exists o, alist_get ents n = Some (ref o)) ->
    match StructMeta_new__for_field_name so X h (PDict (skeys ents)) (v_names names) with
    | Ok h' => existsb bad_field_name names = false /\ (forall o a, a <> s2p "_name" -> h' o a = h o a)
    | Raise x => x = ValueError /\ existsb bad_field_name names = true
    end.
Proof. exact new_field_names_src. Qed.

(* ... the _optional check ... *)
Theorem C14_src_new_optional_check : forall so X h breq required optional,
    StructMeta_new__for_f so X h (v_names breq) (v_names required) (v_names optional) =
    if existsb (fun f => str_in f required || str_in f breq) optional then Raise ValueError else Ok tt.
Proof. exact new_optional_check_src. Qed.

(* ... and the class attribute _required *)
Theorem C14_src_new_required_attr : forall so X h c breq required,
    so_ok so ->
    exists req, Permutation req (dedup_str (breq ++ required)) /\
      StructMeta_new__call_setattr_REQUIRED_FIELDS so X h (v_names breq) (ref c) (v_names required) =
      Ok (heap_set h c (s2p "_required") (v_names req)).
Proof. exact new_required_attr_src. Qed.

Theorem C14_src_new_required : forall so X h ents d v,
    alist_get ents (s2p "_required") = Some v ->
    StructMeta_new__set_required so X h (PDict (skeys ents)) d = Ok v.
Proof. exact new_required_src. Qed.

Print Assumptions C14_src_make_signature.
Print Assumptions C14_src_get_base_info.
Print Assumptions C14_src_check_final.
Print Assumptions C14_src_block_invalid_consts.
Print Assumptions C14_src_apply_default.
Print Assumptions C14_src_build_members.
Print Assumptions C14_src_get_all_fields_by_name.
Print Assumptions C14_src_fields_of_mro.
Print Assumptions C14_src_instantiate_frame.
Print Assumptions C14_src_new_field_names.
Print Assumptions C14_src_new_optional_check.
Print Assumptions C14_src_new_required_attr.
Print Assumptions C14_src_new_required.

(* the side conditions are satisfiable and the generated functions run: Struct/DefineSrcProofs.v
   ex_make_signature, ex_get_base_info, ex_block_invalid_consts, ex_apply_default, ex_apply_default_oracle,
   ex_new_statements *)

(* ------------------------------------------------------------------ StructMeta.__new__ as a whole *)
(* The GENERATED composition of the statements of StructMeta.__new__ (Gen/DefineSrc.v [StructMeta_new], in source
   order), run on the Python-level view of a class statement, yields [define]'s result: the same class description
   (read off the class object: [klass_cells]) or the same exception.  Domain: [new_domain] (boolean);
   the calls outside the translation and the completion of __annotations__: [new_contracts]; satisfiable:
   Struct/DefineNewExample.v [x_new_is_define].  [define_new] is [define] in the order of the source's checks;
   [order_ok] excludes the two-fault statements on which the orders differ ([x_order_differs]). *)
From TP Require Import Struct.DefineNewProofs.

Theorem C14_src_new_is_define : forall re_match e gd g extra so X s pre ents ann cd0 p_cls fac h0,
    new_domain re_match e gd g extra s pre ann = true -> so_ok so -> dict_view s pre ents ann ->
    new_contracts re_match e gd g extra so X s pre ents ann cd0 p_cls fac ->
    mapM (init_member re_match e) (s_members s) = Ok pre ->
    mheap gd g s g extra ann h0 pre -> h0 (constsobj s) n_dict_content = None ->
    match define_new re_match e gd g s pre with
    | Ok k => exists h' cd',
        StructMeta_new so X h0 p_cls (PStr (s_name s)) (PTuple (v_refs (s_bases s))) cd0 = Ok (h', ref (s_name s), cd') /\
        klass_cells s h' k
    | Raise x => StructMeta_new so X h0 p_cls (PStr (s_name s)) (PTuple (v_refs (s_bases s))) cd0 = Raise x
    end /\
    (forall k, define re_match e gd g s = Ok k <-> define_new re_match e gd g s pre = Ok k) /\
    (order_ok re_match e gd g s pre = true -> define re_match e gd g s = define_new re_match e gd g s pre).
Proof. exact new_is_define. Qed.

Theorem C14_src_define_new_is_define : forall re_match e gd g s pre,
    has_dup_str (map fst (s_members s)) = false -> s_keys_of s = [] ->
    mapM (init_member re_match e) (s_members s) = Ok pre ->
    (forall k, define re_match e gd g s = Ok k <-> define_new re_match e gd g s pre = Ok k) /\
    (order_ok re_match e gd g s pre = true -> define re_match e gd g s = define_new re_match e gd g s pre).
Proof. exact define_new_is_define. Qed.

Print Assumptions C14_src_new_is_define.
Print Assumptions C14_src_define_new_is_define.
