(* Property C10 - trusted and fast shortcut paths equal the validated paths on valid data.
   Only the property theorems; proofs are in Ser/TrustedProofs.v and Ser/FastProofs.v.
   The full statement is FALSE of the faithful model (the code has defects, see C10_*_refuted):
   it is kept as a Definition; what is proved is the characterisation on a safe fragment. *)
From Coq Require Import ZArith NArith String List.
Import ListNotations.
From TP Require Import Base.PyVal Base.PyEq Fields.FieldAst Fields.SetChain Struct.Instance
     Ser.Trusted Ser.TrustedProofs Ser.TrustedEnumProofs Ser.Fast Ser.FastProofs
     Ser.FastState Ser.FastStateProofs Ser.FastRegularProofs Ser.FastHistoryProofs.

Section C10.
  Variable re_match : N -> pystr -> bool.          (* oracle: re.match *)
  Variable sdeser : N -> pyval -> res pyval.       (* oracle: SerializableField.deserialize *)
  Variable ostore : N -> pyval -> res pyval.       (* oracle: unmodelled field kinds, regular path *)
  Variable sser oser ofast : N -> pyval -> res pyval.   (* oracles: serialize methods *)
  Variable e : tenv.

  (* The full first clause, as the property states it. *)
  Definition C10_trusted_statement : Prop :=
    forall fuel ku cn d x,
      eligible e fuel cn = true ->
      deser_regular re_match sdeser ostore e fuel ku [] cn d = Ok x ->
      deser_trusted re_match sdeser ostore e fuel ku cn d = Ok x.

  (* Characterisation (partial: the flat fragment).  For a class of primitive fields without
     defaults, and a document whose entries the regular key lookup finds under the fields' own names
     already in the normal form of their __set__ chains, the trusted path returns exactly the
     instance the regular path returns (hence also the same Serializer output). *)
  Theorem C10_trusted_partial : forall n ku cn c kv doc x,
      find_tclass e cn = Some c ->
      doc_alist kv = Some doc ->
      t_mapper c <> MapList ->
      (forall fd, In fd (t_fields c) -> flat_field re_match c kv doc fd) ->
      rename_doc c doc = doc ->
      ((ku && negb (is_special (t_mapper c)) && t_additional c)%bool = true -> extras_of c kv = []) ->
      deser_regular re_match sdeser ostore e (S n) ku [] cn (PDict kv) = Ok x ->
      trusted_cls re_match sdeser e (S n) NotNested cn (PDict kv) = Ok x.
  Proof. exact (trusted_flat re_match sdeser ostore e). Qed.

  (* Characterisation (partial: the enum fragment).  For a class whose fields are primitive fields and Enum fields over
     an enum class - looked up by member name or, with serialization_by_value, by member value -, each plain or wrapped
     as AnyOf[T, None] / AnyOf[None, T], without defaults, and a document whose entries the regular key lookup finds
     under the fields' own names (primitive values in the normal form of their __set__ chains, enum values truthy),
     the trusted path - at whatever level the classifier assigned - returns exactly the instance the regular path
     returns.  (False of the model before the repairs of _get_enum_mapping and
     _extract_non_nonefield_from_optional in typedpy: by-value enums, AnyOf[None, Enum].) *)
  Theorem C10_trusted_enums : forall n lv ku cn c kv doc x,
      find_tclass e cn = Some c ->
      doc_alist kv = Some doc ->
      t_mapper c <> MapList ->
      NoDup (map f_name (t_fields c)) ->
      (forall fd, In fd (t_fields c) -> enum_field re_match c kv doc fd) ->
      rename_doc c doc = doc ->
      ((ku && negb (is_special (t_mapper c)) && t_additional c)%bool = true -> extras_of c kv = []) ->
      deser_regular re_match sdeser ostore e (S n) ku [] cn (PDict kv) = Ok x ->
      trusted_cls re_match sdeser e (S n) lv cn (PDict kv) = Ok x.
  Proof. exact (trusted_enums re_match sdeser ostore e). Qed.

  (* Second clause: for a class the classifier rejects, the flag changes nothing. *)
  Theorem C10_ineligible : forall fuel ku cn d,
      level_of e fuel cn = Ok None ->
      deser_trusted re_match sdeser ostore e fuel ku cn d = deser_regular re_match sdeser ostore e fuel ku [] cn d.
  Proof. exact (ineligible_same re_match sdeser ostore e). Qed.

  (* Fourth clause, per field (partial): on every declaration made of leaves, Array and Set, the fast
     per-field serializer and the regular per-field serializer agree on every value. *)
  Theorem C10_fast_value_partial : forall fc sc sc0 tf v,
      plain_tf tf = true ->
      fast_val sser ofast fc tf v = ser_val re_match sser oser sc sc0 tf v.
  Proof. exact (fast_val_same re_match sser oser ofast). Qed.
End C10.

(* Third clause: from_trusted_data / trust_supplied_values on constructor-valid arguments that are
   already in normal form yields exactly the validated instance. *)
Theorem C10_from_trusted : forall re_match (e : env) c kw x,
    kw_normal re_match e c kw ->
    construct re_match e c kw = Ok x ->
    from_trusted c kw = x.
Proof. exact from_trusted_equals_validated. Qed.

(* ------------------------------------------------------------------ fourth clause over histories of a class family
   (Ser/FastState.v: which function `K.serialize` is depends on the order of class definitions,
   create_serializer calls, instantiations and - through the per-field caches of Array/Set - serializations) *)
Section C10_history.
  Variable re_match : N -> pystr -> bool.
  Variable sser oser ofast : N -> pyval -> res pyval.
  Variable e : tenv.                               (* flattened declarations of the family *)
  Variable ps : list (pystr * pystr).              (* child -> parent *)

  (* Once a constructor of class cn has returned - the regular one or from_trusted_data, with or without keywords -,
     cn keeps a serializer of its own through every later operation (so an instance never falls back to an inherited
     closure or the stub). *)
  Theorem C10_fast_instantiated_keeps_serializer : forall st tr cn a rest,
      snd (run_op sser ofast e ps st (HInst tr (PStruct cn a))) = Ok PNone ->
      alist_get (fst (run_ops sser ofast e ps (fst (run_op sser ofast e ps st (HInst tr (PStruct cn a)))) rest)) cn <> None.
  Proof. exact (instantiated_keeps_serializer sser ofast e ps). Qed.

  (* Late binding: in ANY state in which the classes of the structures the closure of k reaches (in the fields of v,
     in their fields, ...: instances of the declared classes or of subclasses) have serializers of their own, the
     closure of k returns what the order-free reading returns: each structure serialized by the declaration of its
     own class, with its own flags. *)
  Theorem C10_fast_state_independent : forall own cf n k v,
      closed e own cf n k v ->
      run_gen sser ofast e ps own n k (cf k) v = sfast sser ofast e cf n k v.
  Proof. exact (run_gen_sfast sser ofast e ps). Qed.

  (* For EVERY sequence of create_serializer calls (any flags), instantiations AND serializations, in any order,
     followed by any sequence of serializations of instances whose classes (and those of the structures they hold)
     have their own serializers: each x.serialize() returns the order-free document for the flags the classes ended
     up with.  (Serializations among the earlier operations used to be excluded: Array / Set fields froze the
     serializer they saw first.) *)
  Theorem C10_fast_settled_history : forall ops sers,
      let st1 := fst (run_ops sser ofast e ps st0 ops) in
      (forall op, In op sers -> good_ser e st1 op) ->
      snd (run_ops sser ofast e ps st1 sers) = map (expected sser ofast e st1) sers.
  Proof. exact (settled_history sser ofast e ps). Qed.

  (* Class level: for a safe class and an instance listed in declaration order - whose fields may hold instances of
     other safe classes than the declared ones, subclasses for instance - the order-free fast document (default
     flags) is the regular document. *)
  Theorem C10_fast_class :
      (forall id x w, sser id x = Ok w -> is_none w = false) ->
      forall n cn a d,
      safe_class e n cn = true -> ord_inst e n cn (PStruct cn a) ->
      ser_regular re_match sser oser e n [] cn (PStruct cn a) = Ok d ->
      sfast sser ofast e (fun _ => dconf) n cn (PStruct cn a) = Ok d.
  Proof. exact (fast_equals_regular re_match sser oser ofast e). Qed.

  (* End to end: any order of default-flag create_serializer calls, instantiations and serializations over a family
     with inheritance; afterwards x.serialize() of a safe instance is exactly the regular document. *)
  Theorem C10_fast_history :
      (forall id x w, sser id x = Ok w -> is_none w = false) ->
      forall ops cn a d,
      forallb default_op ops = true ->
      let st1 := fst (run_ops sser ofast e ps st0 ops) in
      all_own e st1 = true ->
      safe_class e HFUEL cn = true ->
      ord_inst e HFUEL cn (PStruct cn a) ->
      ser_regular re_match sser oser e HFUEL [] cn (PStruct cn a) = Ok d ->
      snd (run_ops sser ofast e ps st1 [HSer (PStruct cn a)]) = [Ok d].
  Proof. exact (fast_history_equals_regular re_match sser oser ofast e ps). Qed.
End C10_history.

Print Assumptions C10_trusted_partial.
Print Assumptions C10_trusted_enums.
Print Assumptions C10_ineligible.
Print Assumptions C10_fast_value_partial.
Print Assumptions C10_from_trusted.
Print Assumptions C10_fast_instantiated_keeps_serializer.
Print Assumptions C10_fast_state_independent.
Print Assumptions C10_fast_settled_history.
Print Assumptions C10_fast_class.
Print Assumptions C10_fast_history.

(* ------------------------------------------------------------------ refutations (defects of the code) *)

Definition no_re (_ : N) (_ : pystr) : bool := true.
Definition no_o (_ : N) (_ : pyval) : res pyval := Raise Unmodelled.
Definition color : list (pystr * pyval) := [(s2p "RED", PNum (NInt 1)); (s2p "GREEN", PNum (NInt 2))].
Definition mk (n : string) (fs : list tfd) (m : mapper) : tclass :=
  {| t_name := s2p n; t_fields := fs; t_required := []; t_additional := true; t_ignore_none := false;
     t_mapper := m; t_fast := true |}.
Definition fd (n : string) (t : tfield) : tfd := {| f_name := s2p n; f_ty := t; f_default := None |}.
Definition intf : tfield := TLeaf (LPrim (FNumber KInteger SAny no_numc)).
Definition dict1 (k : string) (v : pyval) : pyval := PDict [(PStr (s2p k), v)].

(* the full first clause is still false of the model: Boolean accepts the document value "True" and stores True,
   the trusted path stores the string (typedpy today: finding C10-boolean-from-string, a design limit of the shortcut) *)
Definition env_bool : tenv := [mk "C" [fd "b" (TLeaf (LPrim FBoolean))] MapNone].
Theorem C10_trusted_refuted : ~ C10_trusted_statement no_re no_o no_o env_bool.
Proof.
  intro H.
  specialize (H 3%nat false (s2p "C") (dict1 "b" (PStr (s2p "True")))
                (PStruct (s2p "C") [(s2p "b", PBool true)])
                eq_refl eq_refl).
  vm_compute in H. discriminate.
Qed.
Print Assumptions C10_trusted_refuted.

(* Enum(values=E, serialization_by_value=True): the trusted path looks the document value up BY VALUE, as the
   regular path does (it used to look it up by member name: KeyError; repaired in typedpy, was finding
   C10-F18-enum-by-value).  The same for Optional[...] of it, with None listed first or last. *)
Definition env_f18 : tenv :=
  [mk "C" [fd "e" (TLeaf (LEnum (s2p "Color") color true));
           fd "o" (TOpt false (TLeaf (LEnum (s2p "Color") color true)));
           fd "n" (TOpt true (TLeaf (LEnum (s2p "Color") color false)))] MapNone].
Definition doc_f18 : pyval :=
  PDict [(PStr (s2p "e"), PNum (NInt 2)); (PStr (s2p "o"), PNum (NInt 1)); (PStr (s2p "n"), PStr (s2p "RED"))].
Definition inst_f18 : pyval :=
  PStruct (s2p "C") [(s2p "e", PEnum (s2p "Color") (s2p "GREEN") (PNum (NInt 2)));
                     (s2p "o", PEnum (s2p "Color") (s2p "RED") (PNum (NInt 1)));
                     (s2p "n", PEnum (s2p "Color") (s2p "RED") (PNum (NInt 1)))].
Example C10_trusted_enum_by_value :
  eligible env_f18 3 (s2p "C") = true /\
  deser_regular no_re no_o no_o env_f18 3 false [] (s2p "C") doc_f18 = Ok inst_f18 /\
  deser_trusted no_re no_o no_o env_f18 3 false (s2p "C") doc_f18 = Ok inst_f18.
Proof. repeat split; vm_compute; reflexivity. Qed.

(* AnyOf[None, T]: the trusted path deserializes the nested structure, as for AnyOf[T, None] (it used to store
   the raw dict; repaired in typedpy, was finding C10-optional-none-first) *)
Definition env_nf : tenv :=
  [mk "In" [fd "a" intf] MapNone; mk "C" [fd "x" (TOpt true (TRef (s2p "In")))] MapNone].
Example C10_none_first_same :
  deser_regular no_re no_o no_o env_nf 4 false [] (s2p "C") (dict1 "x" (dict1 "a" (PNum (NInt 1)))) =
    Ok (PStruct (s2p "C") [(s2p "x", PStruct (s2p "In") [(s2p "a", PNum (NInt 1))])]) /\
  deser_trusted no_re no_o no_o env_nf 4 false (s2p "C") (dict1 "x" (dict1 "a" (PNum (NInt 1)))) =
    Ok (PStruct (s2p "C") [(s2p "x", PStruct (s2p "In") [(s2p "a", PNum (NInt 1))])]).
Proof. split; vm_compute; reflexivity. Qed.

(* a class with an AnyOf field that has no None option, Optional[Enum['a','b']] and Set[Number]: the trusted
   path no longer crashes / drops the key (repaired in typedpy, were findings C10-anyof-without-none,
   C10-optional-literal-enum, C10-set-of-number) *)
Definition env_rep : tenv :=
  [mk "C" [fd "u" (TUnion [LPrim (FNumber KInteger SAny no_numc); LPrim (FString no_strc)]);
           fd "l" (TOpt false (TLeaf (LEnumLit [PStr (s2p "a"); PStr (s2p "b")])));
           fd "s" (TSet (TLeaf (LPrim (FNumber KNumber SAny no_numc))))] MapNone].
Definition doc_rep : pyval :=
  PDict [(PStr (s2p "u"), PNum (NInt 1)); (PStr (s2p "l"), PStr (s2p "a")); (PStr (s2p "s"), PList [PNum (NInt 1); PNum (NInt 2)])].
Example C10_trusted_repaired_shapes :
  eligible env_rep 3 (s2p "C") = true /\
  is_ok (deser_regular no_re no_o no_o env_rep 3 false [] (s2p "C") doc_rep) = true /\
  deser_trusted no_re no_o no_o env_rep 3 false (s2p "C") doc_rep =
  deser_regular no_re no_o no_o env_rep 3 false [] (s2p "C") doc_rep.
Proof. repeat split; vm_compute; reflexivity. Qed.

(* an unsupported mapper makes the classifier raise instead of returning False: the flag is not a no-op *)
Definition env_fun : tenv := [mk "C" [fd "a" intf] (MapDict [(s2p "a", MFun)])].
Example C10_ineligible_refuted :
  deser_regular no_re no_o no_o env_fun 3 false [] (s2p "C") (dict1 "a" (PNum (NInt 5))) =
    Ok (PStruct (s2p "C") [(s2p "a", PNum (NInt 5))]) /\
  deser_trusted no_re no_o no_o env_fun 3 false (s2p "C") (dict1 "a" (PNum (NInt 5))) = Raise ValueError.
Proof. split; vm_compute; reflexivity. Qed.

(* from_trusted_data without the normal-form hypothesis: Boolean given 'True' *)
Definition cd_bool : classdef :=
  {| c_name := s2p "C"; c_ancestors := []; c_fields := [{| fd_name := s2p "b"; fd_field := FBoolean;
        fd_immutable := false; fd_default := None |}]; c_required := []; c_additional := false;
     c_ignore_none := false; c_immutable := false; c_hook := HookNone |}.
Example C10_from_trusted_refuted :
  construct no_re [] cd_bool [(s2p "b", PStr (s2p "True"))] = Ok (PStruct (s2p "C") [(s2p "b", PBool true)]) /\
  from_trusted cd_bool [(s2p "b", PStr (s2p "True"))] = PStruct (s2p "C") [(s2p "b", PStr (s2p "True"))].
Proof. split; vm_compute; reflexivity. Qed.

(* compact=True: the fast serializer unwraps a single optional field, the regular one does not *)
Definition env_cmp : tenv := [mk "C" [fd "a" intf] MapNone].
Example C10_fast_compact_refuted :
  fast_ser no_o no_o env_cmp 3 false true (s2p "C") (PStruct (s2p "C") [(s2p "a", PNum (NInt 1))]) = Ok (PNum (NInt 1)) /\
  ser_top no_re no_o no_o env_cmp 3 true (s2p "C") (PStruct (s2p "C") [(s2p "a", PNum (NInt 1))]) = Ok (dict1 "a" (PNum (NInt 1))).
Proof. split; vm_compute; reflexivity. Qed.

(* ------------------------------------------------------------------ non-vacuity *)

(* the hypotheses of C10_trusted_enums hold of a class with a by-value Enum, Optional[Enum] and AnyOf[None, Enum]
   field and a four-entry document: Ser/TrustedEnumProofs.v trusted_enums_nonvacuous *)
Example C10_trusted_enums_nonvacuous :
  doc_alist kv_e = Some doc_e /\ rename_doc cls_e doc_e = doc_e /\ NoDup (map f_name (t_fields cls_e)) /\
  (forall fd, In fd (t_fields cls_e) -> enum_field (fun _ _ => true) cls_e kv_e doc_e fd) /\
  is_ok (deser_regular (fun _ _ => true) (fun _ _ => Raise Unmodelled) (fun _ _ => Raise Unmodelled) [cls_e] 3 false []
                       (s2p "C") (PDict kv_e)) = true.
Proof.
  destruct trusted_enums_nonvacuous as (H1 & H2 & H3 & H4 & H5).
  split; [exact H1|]. split; [exact H2|]. split; [exact H3|]. split; [exact H4|]. rewrite H5. reflexivity.
Qed.

(* a flat class with a rename mapper-free declaration and a two-field document: all hypotheses of
   C10_trusted_partial hold and both paths return the same instance *)
Definition env_ok : tenv :=
  [mk "P" [fd "a" intf; fd "s" (TLeaf (LPrim (FString no_strc)))] MapNone].
Definition doc_ok : list (pyval * pyval) := [(PStr (s2p "s"), PStr (s2p "x")); (PStr (s2p "a"), PNum (NInt 7))].
Example C10_nonvacuous :
  eligible env_ok 3 (s2p "P") = true /\
  deser_regular no_re no_o no_o env_ok 3 false [] (s2p "P") (PDict doc_ok) =
    Ok (PStruct (s2p "P") [(s2p "a", PNum (NInt 7)); (s2p "s", PStr (s2p "x"))]) /\
  deser_trusted no_re no_o no_o env_ok 3 false (s2p "P") (PDict doc_ok) =
    Ok (PStruct (s2p "P") [(s2p "a", PNum (NInt 7)); (s2p "s", PStr (s2p "x"))]) /\
  plain_tf (TArray (TSet (TLeaf (LEnum (s2p "Color") color false)))) = true /\
  create_serializer env_ok 3 (s2p "P") = Ok tt.
Proof. repeat split; vm_compute; reflexivity. Qed.

(* ---- the tie to the source of fast_serialization.py (generated layer) ---------------------------------- *)
(* Property C10, second half (fast serialization): the tie to the source of typedpy/serialization/fast_serialization.py,
   re-checked by the kernel on every run.  Ready to be appended to Props/C10.v.
   Gen/FastSrc.v is re-generated from the source (harness/genmods/py2v_fast.py): FastSerializable.__init__ /
   serialize, _get_value, _verify_is_fast_serializable, _get_serialize, _get_constant, create_serializer,
   set_compact_wrapper, the inner functions they define (function values are data) and the subclass table of the
   field classes.  For EVERY class environment, class, instance and fuel the source NOW is the hand-written model of
   Ser/Fast.v (create_serializer, fast_ser) on which the C10 theorems are proved.  Proofs: Ser/FastSrcProofs.v. *)
From Coq Require Import ZArith NArith String List.
Import ListNotations.
From TP Require Import Base.PyVal Base.PyOps Base.PyOps2 Base.PyObj Base.PyOpsFields Base.PyOpsFast
     Fields.FieldAst Ser.Trusted Ser.Fast Gen.FastSrc Ser.TrustedSrcProofs Ser.FastSrcProofs.

(* create_serializer(cls, compact, serialize_none): the model's failure conditions, and the serializer it installs *)
Theorem C10_fast_src_create :
  forall (other_obj : N -> bool -> pyval) (sser ofast : N -> pyval -> res pyval) (e : tenv)
         (agg_chain : tclass -> pyval) (fuel d : nat) (call : callfn) (h : heap) (cn : pystr) (c : tclass)
         (compact sn : bool),
    env_ok other_obj e = true ->
    fits_env other_obj e d = true ->
    heap_inv other_obj e h ->
    find_tclass e cn = Some c ->
    create_serializer e fuel cn <> Raise Unmodelled ->
    create_serializer e fuel cn <> Raise OutOfFuel ->
    match create_serializer e fuel cn with
    | Ok _ =>
        exists h1 : heap,
          heap_inv other_obj e h1 /\
          src_create_serializer fuel d call (fast_ext other_obj sser ofast e agg_chain) h
                                (ref cn) (PBool compact) (PBool sn) PNone =
          Ok (final_heap other_obj h1 cn c (PBool sn) compact, PNone)
    | Raise x =>
        src_create_serializer fuel d call (fast_ext other_obj sser ofast e agg_chain) h
                              (ref cn) (PBool compact) (PBool sn) PNone = Raise x
    end.
Proof. exact src_create_eq. Qed.

(* the same, from the classes as they are before any serializer exists *)
Theorem C10_fast_src_create_fresh :
  forall (other_obj : N -> bool -> pyval) (sser ofast : N -> pyval -> res pyval) (e : tenv)
         (agg_chain : tclass -> pyval) (fuel d : nat) (call : callfn) (cn : pystr) (c : tclass) (compact sn : bool),
    env_ok other_obj e = true ->
    fits_env other_obj e d = true ->
    find_tclass e cn = Some c ->
    create_serializer e fuel cn <> Raise Unmodelled ->
    create_serializer e fuel cn <> Raise OutOfFuel ->
    match create_serializer e fuel cn with
    | Ok _ =>
        exists h1 : heap,
          heap_inv other_obj e h1 /\
          src_create_serializer fuel d call (fast_ext other_obj sser ofast e agg_chain)
                                (fast_heap0 other_obj e) (ref cn) (PBool compact) (PBool sn) PNone =
          Ok (final_heap other_obj h1 cn c (PBool sn) compact, PNone)
    | Raise x =>
        src_create_serializer fuel d call (fast_ext other_obj sser ofast e agg_chain)
                              (fast_heap0 other_obj e) (ref cn) (PBool compact) (PBool sn) PNone = Raise x
    end.
Proof. exact src_create_fresh. Qed.

(* what the class holds afterwards: the serializer as data (per field, which getter) and the marker *)
Theorem C10_fast_src_installed :
  forall (other_obj : N -> bool -> pyval) (h1 : heap) (cn : pystr) (c : tclass) (sn : pyval) (compact : bool),
    final_heap other_obj h1 cn c sn compact cn a_serialize = Some (installed other_obj cn c sn compact) /\
    final_heap other_obj h1 cn c sn compact cn a_created = Some (PBool true) /\
    (forall o a : pystr, pystr_eqb o cn = false -> final_heap other_obj h1 cn c sn compact o a = h1 o a) /\
    (forall a : pystr, pystr_eqb a a_serialize = false -> pystr_eqb a a_created = false ->
                       final_heap other_obj h1 cn c sn compact cn a = h1 cn a).
Proof. exact final_heap_cells. Qed.

(* the installed serializer, called on an instance = fast_ser (compact = False) *)
Theorem C10_fast_src_serializer :
  forall (other_obj : N -> bool -> pyval) (sser ofast : N -> pyval -> res pyval) (e : tenv)
         (agg_chain : tclass -> pyval) (h : heap),
    heap_installed other_obj e h ->
    env_ok other_obj e = true ->
    forall (n : nat) (cn : pystr) (c : tclass) (v : pyval) (sn : bool),
      find_tclass e cn = Some c ->
      t_fast c = true ->
      insts_ok e v = true ->
      fast_ser sser ofast e n sn false cn v <> Raise Unmodelled ->
      src_apply (2 * n) (fast_ext other_obj sser ofast e agg_chain) h (ser_closure other_obj cn c (PBool sn)) [v] =
      fast_ser sser ofast e n sn false cn v.
Proof. exact src_serializer_eq. Qed.

(* the compact wrapper = fast_ser (compact = True) *)
Theorem C10_fast_src_compact :
  forall (other_obj : N -> bool -> pyval) (sser ofast : N -> pyval -> res pyval) (e : tenv)
         (agg_chain : tclass -> pyval) (h : heap),
    heap_installed other_obj e h ->
    env_ok other_obj e = true ->
    forall (n : nat) (cn : pystr) (c : tclass) (a : list (pystr * pyval)) (sn : bool),
      find_tclass e cn = Some c ->
      t_fast c = true ->
      insts_ok e (PStruct cn a) = true ->
      fast_ser sser ofast e n sn true cn (PStruct cn a) <> Raise Unmodelled ->
      src_apply (S (2 * n)) (fast_ext other_obj sser ofast e agg_chain) h
                (compact_closure (ser_closure other_obj cn c (PBool sn))) [PStruct cn a] =
      fast_ser sser ofast e n sn true cn (PStruct cn a).
Proof. exact src_compact_eq. Qed.

(* FastSerializable.__init__: the lazy installation *)
Theorem C10_fast_src_init :
  forall (other_obj : N -> bool -> pyval) (sser ofast : N -> pyval -> res pyval) (e : tenv)
         (agg_chain : tclass -> pyval) (fuel d : nat) (call : callfn) (h : heap) (cn : pystr) (c : tclass)
         (a : list (pystr * pyval)) (args kwargs : pyval),
    env_ok other_obj e = true ->
    fits_env other_obj e d = true ->
    heap_inv other_obj e h ->
    find_tclass e cn = Some c ->
    (h cn a_serialize = None ->
     create_serializer e fuel cn <> Raise Unmodelled /\ create_serializer e fuel cn <> Raise OutOfFuel) ->
    match h cn a_serialize with
    | Some _ =>
        src_FastSerializable__init fuel d call (fast_ext other_obj sser ofast e agg_chain) h (PStruct cn a) args kwargs =
        Ok (h, PNone)
    | None =>
        match create_serializer e fuel cn with
        | Ok _ =>
            exists h1 : heap,
              heap_inv other_obj e h1 /\
              src_FastSerializable__init fuel d call (fast_ext other_obj sser ofast e agg_chain) h (PStruct cn a) args kwargs =
              Ok (final_heap other_obj h1 cn c (PBool false) false, PNone)
        | Raise x =>
            src_FastSerializable__init fuel d call (fast_ext other_obj sser ofast e agg_chain) h (PStruct cn a) args kwargs =
            Raise x
        end
    end.
Proof. exact src_init_eq. Qed.

(* the heaps the theorems speak about exist *)
Theorem C10_fast_src_heap0 :
  forall (other_obj : N -> bool -> pyval) (e : tenv),
    env_ok other_obj e = true -> heap_inv other_obj e (fast_heap0 other_obj e).
Proof. exact heap0_inv. Qed.

Theorem C10_fast_src_heap1 :
  forall (other_obj : N -> bool -> pyval) (e : tenv),
    env_ok other_obj e = true -> heap_installed other_obj e (fast_heap1 other_obj e).
Proof. exact heap1_installed. Qed.

Print Assumptions C10_fast_src_create.
Print Assumptions C10_fast_src_create_fresh.
Print Assumptions C10_fast_src_installed.
Print Assumptions C10_fast_src_serializer.
Print Assumptions C10_fast_src_compact.
Print Assumptions C10_fast_src_init.
Print Assumptions C10_fast_src_heap0.
Print Assumptions C10_fast_src_heap1.
(* ------------------------------------------------------------------ histories: refutations and non-vacuity *)

Definition strf : tfield := TLeaf (LPrim (FString no_strc)).
(* class P: a ; class C(P): user_name, TO_CAMELCASE ; class H: n2, es = Array[C] *)
Definition fam_env : tenv :=
  [mk "P" [fd "a" intf] MapNone;
   mk "C" [fd "a" intf; fd "user_name" strf] MapCamel;
   mk "H" [fd "n2" intf; fd "es" (TArray (TRef (s2p "C")))] MapNone;
   mk "G" [fd "n2" intf; fd "p" (TRef (s2p "P"))] MapNone].
Definition fam_ps : list (pystr * pystr) := [(s2p "C", s2p "P")].
Definition cinst : pyval := PStruct (s2p "C") [(s2p "a", PNum (NInt 2)); (s2p "user_name", PStr (s2p "joe"))].
Definition hinst : pyval := PStruct (s2p "H") [(s2p "n2", PNum (NInt 7)); (s2p "es", PList [cinst])].
Definition hempty : pyval := PStruct (s2p "H") [(s2p "n2", PNum (NInt 5)); (s2p "es", PList [])].
Definition cdoc : pyval := PDict [(PStr (s2p "a"), PNum (NInt 2)); (PStr (s2p "userName"), PStr (s2p "joe"))].
Definition hdoc : pyval := PDict [(PStr (s2p "n2"), PNum (NInt 7)); (PStr (s2p "es"), PList [cdoc])].

(* create(P); H(es=[]).serialize() - C has no serializer of its own yet - then H(es=[C(...)]).serialize(): the Child
   is emitted with all its fields and its own mapper.  (Array.serialize used to freeze `C.serialize` - P's closure
   at that moment - at its first call: the Child came out with the Parent's fields only; repaired in typedpy, was
   finding C10-fast-stale-collection-serializer.) *)
Example C10_fast_history_late_binding :
  nth 4 (snd (run_ops no_o no_o fam_env fam_ps st0
                      [HCreate (s2p "P") false false; HInst false hempty; HSer hempty; HInst false hinst; HSer hinst]))
      (Raise Unmodelled)
  = Ok hdoc /\
  ser_regular no_re no_o no_o fam_env HFUEL [] (s2p "H") hinst = Ok hdoc.
Proof. split; vm_compute; reflexivity. Qed.

(* a field declared with class P holding an instance of the subclass C: the fast path serializes a C, as the
   regular path does.  (It used to apply P's closure; repaired in typedpy, was finding
   C10-fast-subclass-instance-in-base-field.) *)
Definition ginst : pyval := PStruct (s2p "G") [(s2p "n2", PNum (NInt 1)); (s2p "p", cinst)].
Definition gdoc : pyval := PDict [(PStr (s2p "n2"), PNum (NInt 1)); (PStr (s2p "p"), cdoc)].
Example C10_fast_subclass_same :
  sfast no_o no_o fam_env (fun _ => dconf) HFUEL (s2p "G") ginst = Ok gdoc /\
  ser_regular no_re no_o no_o fam_env HFUEL [] (s2p "G") ginst = Ok gdoc /\
  snd (run_ops no_o no_o fam_env fam_ps st0 [HInst false ginst; HSer ginst]) = [Ok PNone; Ok gdoc].
Proof. repeat split; vm_compute; reflexivity. Qed.

(* from_trusted_data without keywords: the class gets its serializer like with any other instantiation (it used to
   be skipped: x.serialize() was the base class's closure or the stub; repaired in typedpy, was finding
   C10-fast-trusted-empty-instance) *)
Example C10_fast_trusted_empty :
  snd (run_ops no_o no_o fam_env fam_ps st0
               [HCreate (s2p "P") false false; HInst true (PStruct (s2p "C") []);
                HSer (PStruct (s2p "C") [(s2p "user_name", PStr (s2p "joe"))])])
  = [Ok PNone; Ok PNone; Ok (PDict [(PStr (s2p "userName"), PStr (s2p "joe"))])].
Proof. vm_compute. reflexivity. Qed.

(* non-vacuity of C10_fast_history, with a subclass instance in a field declared with the base class, on an order
   that an early-binding implementation gets wrong: the holders' serializers are created while C still inherits P's
   closure, a holder is serialized with an empty list, C is instantiated afterwards *)
Definition ops_ok : list hop :=
  [HCreate (s2p "P") false false; HCreate (s2p "H") false false; HCreate (s2p "G") false false;
   HInst false hempty; HSer hempty; HInst false hinst; HInst false ginst].
Example C10_fast_history_nonvacuous :
  forallb default_op ops_ok = true /\
  all_own fam_env (fst (run_ops no_o no_o fam_env fam_ps st0 ops_ok)) = true /\
  safe_class fam_env HFUEL (s2p "H") = true /\
  ord_inst fam_env HFUEL (s2p "H") hinst /\
  ser_regular no_re no_o no_o fam_env HFUEL [] (s2p "H") hinst = Ok hdoc /\
  snd (run_ops no_o no_o fam_env fam_ps (fst (run_ops no_o no_o fam_env fam_ps st0 ops_ok)) [HSer hinst]) = [Ok hdoc] /\
  safe_class fam_env HFUEL (s2p "G") = true /\
  ord_inst fam_env HFUEL (s2p "G") ginst /\
  snd (run_ops no_o no_o fam_env fam_ps (fst (run_ops no_o no_o fam_env fam_ps st0 ops_ok)) [HSer ginst]) = [Ok gdoc].
Proof.
  repeat split; try (vm_compute; reflexivity).
  - left. reflexivity.
  - apply al_take; [reflexivity|exact I|]. apply al_take; [reflexivity| |apply al_nil].
    constructor; [|constructor]. split; [left; reflexivity|].
    apply al_take; [reflexivity|exact I|]. apply al_take; [reflexivity|exact I|apply al_nil].
  - left. reflexivity.
  - apply al_take; [reflexivity|exact I|]. apply al_take; [reflexivity| |apply al_nil].
    (* the field p is declared with class P and holds a C: another safe class of the family *)
    split; [right; vm_compute; reflexivity|].
    apply al_take; [reflexivity|exact I|]. apply al_take; [reflexivity|exact I|apply al_nil].
Qed.

(* _get_enum_mapping puts the plain Enum[E] fields before the Optional ones: with a = Optional[Enum[Color]],
   b = Enum[Color] and the document {"a": {"x": 1}, "b": "NOPE"} the member lookup of b fails first (KeyError),
   not the hashing of a's value (TypeError) *)
Definition env_eo : tenv :=
  [mk "C" [fd "a" (TOpt false (TLeaf (LEnum (s2p "Color") color false))); fd "b" (TLeaf (LEnum (s2p "Color") color false))]
      MapNone].
Example C10_enum_mapping_order :
  deser_trusted no_re no_o no_o env_eo 3 false (s2p "C")
                (PDict [(PStr (s2p "a"), dict1 "x" (PNum (NInt 1))); (PStr (s2p "b"), PStr (s2p "NOPE"))])
  = Raise KeyError.
Proof. vm_compute. reflexivity. Qed.

(* ---- the tie to the source of the classifier, re-checked by the kernel on every run --------------------
   Gen/TrustedSrc.v is re-generated from typedpy/serialization/serialization.py (harness/genmods/py2v_trusted.py):
   _is_mapper_simple, _is_optional_anyof, _extract_non_nonefield_from_optional, _leading_option,
   _structure_simplicity_level, _enum_lookup, _get_enum_mapping, the tuple _valid_classes_for_trusted_deserialization and the subclass table of the field
   classes (read from the class statements).  For EVERY class environment the classifier of the source NOW is
   the hand-written classifier of Ser/Trusted.v on which the theorems above are proved. *)
From TP Require Import Base.PyOps Base.PyOps2 Base.PyObj Base.PyOpsFields Gen.TrustedSrc Ser.TrustedSrcProofs.

Theorem C10_src_mapper_simple :
  forall (other_obj : N -> bool -> pyval) (chain : list pyval) (e : tenv) 
           (cn : pystr) (c : tclass),
         chain_ok chain = true ->
         find_tclass e cn = Some c ->
         src_is_mapper_simple (class_heap other_obj chain e) (ref cn) =
         Ok (PBool (mapper_simple (t_mapper c))).
Proof. exact src_mapper_simple_eq. Qed.

Theorem C10_src_optional_anyof_opt :
  forall (other_obj : N -> bool -> pyval) (h : heap) (nf : bool) (f : tfield),
         tf_wf other_obj f = true ->
         src_is_optional_anyof h (tf_py other_obj (TOpt nf f)) = Ok (PBool true).
Proof. exact src_optional_anyof_opt. Qed.

Theorem C10_src_optional_anyof_union :
  forall (other_obj : N -> bool -> pyval) (h : heap) (ls : list leaf),
         src_is_optional_anyof h (tf_py other_obj (TUnion ls)) = Ok (PBool (union_optional ls)).
Proof. exact src_optional_anyof_union. Qed.

(* the option that is not None, wherever None is listed (the source used to return fields[0] in both branches) *)
Theorem C10_src_extract_opt :
  forall (other_obj : N -> bool -> pyval) (h : heap) (nf : bool) (f : tfield),
         tf_wf other_obj f = true ->
         src_extract_non_nonefield_from_optional h (tf_py other_obj (TOpt nf f)) = Ok (tf_py other_obj f).
Proof. exact src_extract_opt. Qed.

(* _leading_option: the option _get_enum_mapping looks at *)
Theorem C10_src_leading_option_opt :
  forall (other_obj : N -> bool -> pyval) (h : heap) (nf : bool) (f : tfield),
         tf_wf other_obj f = true ->
         src_leading_option h (tf_py other_obj (TOpt nf f)) = Ok (tf_py other_obj f).
Proof. exact src_leading_option_opt. Qed.

Theorem C10_src_leading_option_union :
  forall (other_obj : N -> bool -> pyval) (h : heap) (l : leaf) (ls : list leaf),
         union_optional (l :: ls) = false ->
         src_leading_option h (tf_py other_obj (TUnion (l :: ls))) = Ok (leaf_py l).
Proof. exact src_leading_option_union. Qed.

(* _structure_simplicity_level = level_of *)
Theorem C10_src_level :
  forall (other_obj : N -> bool -> pyval) (chain : list pyval) (e : tenv) 
           (fuel : nat) (cn : pystr),
         chain_ok chain = true ->
         env_wf other_obj e = true ->
         level_of e fuel cn <> Raise Unmodelled ->
         src_structure_simplicity_level fuel (class_heap other_obj chain e) (ref cn) =
         level_res (level_of e fuel cn).
Proof. exact src_level_eq. Qed.

(* the classifier's verdict = eligible *)
Theorem C10_src_eligible :
  forall (other_obj : N -> bool -> pyval) (chain : list pyval) (e : tenv) 
           (fuel : nat) (cn : pystr),
         chain_ok chain = true ->
         env_wf other_obj e = true ->
         level_of e fuel cn <> Raise Unmodelled ->
         eligible e fuel cn =
         match src_structure_simplicity_level fuel (class_heap other_obj chain e) (ref cn) with
         | Ok v => py_truthy v
         | Raise _ => false
         end.
Proof. exact src_eligible_eq. Qed.

(* _get_enum_mapping (plain Enum fields first, then Optional[Enum]); each entry maps the field to the object its
   document value is looked up in: the enum class (by name) or _enum_by_value (serialization_by_value) *)
Theorem C10_src_enum_mapping :
  forall (other_obj : N -> bool -> pyval) (chain : list pyval) (e : tenv) 
           (cn : pystr) (c : tclass),
         find_tclass e cn = Some c ->
         fields_wf other_obj (t_fields c) = true ->
         fields_union_ok (t_fields c) = true ->
         nodupb (map f_name (t_fields c)) = true ->
         src_get_enum_mapping (class_heap other_obj chain e) (ref cn) =
         Ok (targets_val (enum_targets (enum_order (t_fields c)))).
Proof. exact src_enum_mapping_eq. Qed.

Theorem C10_src_enum_order_same :
  forall fs : list tfd, Permutation.Permutation (enum_targets fs) (enum_targets (enum_order fs)).
Proof. exact enum_order_same. Qed.

Print Assumptions C10_src_mapper_simple.
Print Assumptions C10_src_optional_anyof_opt.
Print Assumptions C10_src_optional_anyof_union.
Print Assumptions C10_src_extract_opt.
Print Assumptions C10_src_leading_option_opt.
Print Assumptions C10_src_leading_option_union.
Print Assumptions C10_src_level.
Print Assumptions C10_src_eligible.
Print Assumptions C10_src_enum_mapping.
Print Assumptions C10_src_enum_order_same.

(* ------------------------------------------------------------------ tie of the trusted constructor to the source
   The `_trust_supplied_values` branch of Structure.__init__ as translated from today's source (Gen/InitSrc.v): for
   every world (whatever setattr / __validate__ would do: they are never called), every class, every positional
   argument tuple and every keyword list without repeated or bookkeeping names, the instance __dict__ is the flag,
   then every keyword as supplied, then `_instantiated` = True and an empty `_none_fields` - [from_trusted] above. *)
From TP Require Import Base.PyOpsInit Gen.InitSrc Struct.InitModel Struct.EntrySites Struct.InitReportsProofs.

Theorem C10_src_init_trusted :
  forall w : world,
    (forall s : istate, w_super w (s2p "__init__") [] s = (s, inl PNone)) ->
    forall (c : classdef) (ff : bool) (args : pyval) (kw : kwargs),
      trusted_dom kw = true ->
      exists s : istate,
        Structure__init (init_heap c ff) w args (kw_dict kw) s_trusted = (s, inl tt) /\
        s = s_trusted ++ kw ++ [(n_instantiated, PBool true); (n_none_fields, PSet false [])] /\
        PStruct (c_name c) (public s) = trusted_instance c kw /\
        PStruct (c_name c) (tl (public s)) = from_trusted c kw.
Proof. exact generated_init_trusted. Qed.

Example C10_src_init_trusted_nonvacuous :
  trusted_dom [(s2p "a", PStr (s2p "not an int")); (s2p "zz", PNone)] = true.
Proof. vm_compute. reflexivity. Qed.

Print Assumptions C10_src_init_trusted.

(* ------------------------------------------------------------------ the trusted PATH, tied to the source
   (Gen/TrustedSrc.v: the trusted branch of deserialize_structure_internal, _remap_input,
   Structure.from_trusted_data; Ser/TrustedPathProofs.v).  [ext] / [mcall] are the functions / methods the path calls
   that are translated elsewhere (get_flat_resolved_mapper: C07_src_flat_resolved_mapper) or are the model's oracles. *)
From TP Require Import Ser.TrustedPathProofs.

(* Structure.from_trusted_data(mapping): the fields present in the mapping, unchanged; every other key is dropped *)
Theorem C10_src_from_trusted_data :
  forall (other_obj : N -> bool -> pyval) (chain : list pyval) (e : tenv)
         (ext : pystr -> list pyval -> res pyval) (mcall : pyval -> pystr -> list pyval -> res pyval)
         (cn : pystr) (c : tclass) (m : list (pystr * pyval)),
    find_tclass e cn = Some c ->
    nodupb (map f_name (t_fields c)) = true ->
    forallb (fun p => nocls (snd p)) m = true ->
    src_from_trusted_data ext mcall (class_heap other_obj chain e) (ref cn) (PDict (kv_py m)) PNone (PDict []) =
    Ok (from_trusted_map c m).
Proof. exact src_from_trusted_eq. Qed.

(* the trusted branch at a known simplicity level (how _remap_input re-enters it for nested structures) = trusted_cls *)
Theorem C10_src_trusted_cls :
  forall (other_obj : N -> bool -> pyval) (chain : list pyval) (e : tenv) (re_match : N -> pystr -> bool)
         (sdeser : N -> pyval -> res pyval) (ext : pystr -> list pyval -> res pyval)
         (mcall : pyval -> pystr -> list pyval -> res pyval) (name usm ku : pyval),
    ext_ok e ext -> mcall_ok re_match sdeser mcall -> sdeser_ok sdeser -> path_wf other_obj e = true ->
    forall fuel lv cn d,
      val_wf d = true ->
      trusted_cls re_match sdeser e fuel lv cn d <> Raise Unmodelled ->
      src_deserialize_structure_internal fuel ext mcall (class_heap other_obj chain e) (ref cn) d name usm PNone ku
        (PBool false) (PBool true) (level_val lv) = trusted_cls re_match sdeser e fuel lv cn d.
Proof. exact src_trusted_cls_eq. Qed.

(* deserialize_structure_internal(cls, d, direct_trusted_mapping=True) on an ELIGIBLE class: exactly the model's trusted
   deserializer -- the same instance, the same exception class -- wherever the model predicts *)
Theorem C10_src_trusted_path :
  forall (other_obj : N -> bool -> pyval) (chain : list pyval) (e : tenv) (re_match : N -> pystr -> bool)
         (sdeser : N -> pyval -> res pyval) (ext : pystr -> list pyval -> res pyval)
         (mcall : pyval -> pystr -> list pyval -> res pyval) (name usm ku : pyval),
    ext_ok e ext -> mcall_ok re_match sdeser mcall -> sdeser_ok sdeser -> path_wf other_obj e = true ->
    forall (ostore : N -> pyval -> res pyval) (kum : bool) fuel cn d,
      chain_ok chain = true ->
      val_wf d = true ->
      eligible e fuel cn = true ->
      deser_trusted re_match sdeser ostore e fuel kum cn d <> Raise Unmodelled ->
      src_deserialize_structure_internal fuel ext mcall (class_heap other_obj chain e) (ref cn) d name usm PNone ku
        (PBool false) (PBool true) (PBool false) = deser_trusted re_match sdeser ostore e fuel kum cn d.
Proof. exact src_trusted_path. Qed.

Print Assumptions C10_src_from_trusted_data.
Print Assumptions C10_src_trusted_cls.
Print Assumptions C10_src_trusted_path.
