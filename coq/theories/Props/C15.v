(* Property C15 — a class behaves per its own definition, whatever else was defined or used.
   Only the property theorems; each is closed by [exact] of a lemma of Global/HistoryProofs.v. *)
From Coq Require Import NArith List Bool String.
Import ListNotations.
From TP Require Import Base.PyVal Global.Keys Global.History Global.HistoryProofs Gen.Globals.

(* A memo table for a function that is pure in its key is unobservable: for ANY history of lookups and
   insertions (all arguments in [dom]), a memoised lookup equals the direct computation. *)
Theorem C15_cache_transparent :
  forall (A K V : Type) (keqb : K -> K -> bool), (forall a b, keqb a b = true <-> a = b) ->
  forall (key : A -> K) (F : A -> V) (dom : A -> Prop),
    key_determines A K V key F dom ->
    forall hist a, Forall (fun o => dom (marg A o)) hist -> dom a ->
                   mget A K V keqb key F (fold_left (mapply A K V keqb key F) hist []) a = F a.
Proof. exact memo_transparent. Qed.

(* ... instantiated for every kind of key the generated layer can report: a key of a kind that is safe for
   what the cached function depends on determines the function (one class identity, one name) *)
Theorem C15_cache_transparent_kind :
  forall (V : Type) (F : carg -> V) (dom : carg -> Prop) k d,
    kind_safe_for d k = true -> one_name dom -> (d = DepClass -> ignores_flags F) ->
    forall hist a, Forall (fun o => dom (marg carg o)) hist -> dom a ->
      mget carg ckey V ckey_eqb (carg_key k) F (fold_left (mapply carg ckey V ckey_eqb (carg_key k) F) hist []) a = F a.
Proof.
  intros V F dom k d Hs Hn Hi. apply (memo_transparent carg ckey V ckey_eqb ckey_eqb_eq).
  exact (safe_kind_determines F dom k d Hs Hn Hi).
Qed.

(* every cache of the CURRENT source tree has a safe key (generated fact, re-checked on every run) *)
Theorem C15_generated_caches_safe : unsafe_caches caches = [].
Proof. reflexivity. Qed.

(* conversely a key coarser than what the function depends on is observable after ONE insertion *)
Theorem C15_cache_coarse_observable :
  forall (A K V : Type) (keqb : K -> K -> bool), (forall a b, keqb a b = true <-> a = b) ->
  forall (key : A -> K) (F : A -> V) a b, key a = key b -> F a <> F b ->
    mget A K V keqb key F (mapply A K V keqb key F [] (MPut A a)) b <> F b.
Proof. exact memo_coarse_observable. Qed.

(* The behaviour of a class after ANY history that defines it equals its behaviour when defined alone,
   provided no two different user classes share a registry key in that history (and: one identity - one
   definition; the memo key is safe; the class' serializer was not reconfigured; defaults are back). *)
Theorem C15_independent : forall rk ck an origs h stmt,
  consistent_b (cdefs_of h) = true ->
  no_collision_b rk (utypes_of h) = true ->
  kind_safe_for DepClassAndFlags ck = true ->
  defines_b h stmt = true ->
  no_config_b h stmt = true ->
  dview origs (run rk ck an h g0) = dview origs g0 ->
  beh ck an origs (run rk ck an h g0) stmt = beh ck an origs (run rk ck an [Define stmt] g0) stmt.
Proof. exact independent. Qed.

(* with a registry keyed by the class object the collision hypothesis is vacuous *)
Theorem C15_identity_registry_never_collides : forall rk us,
  registry_kind_injective rk = true ->
  (forall u u', In u us -> In u' us -> fst u = fst u' -> u = u') ->
  forall u u', In u us -> In u' us -> reg_key rk u = reg_key rk u' -> u = u'.
Proof. exact identity_never_collides. Qed.

(* the full statement (no collision hypothesis), for a registry of key kind rk *)
Definition C15_statement (rk : keykind) : Prop :=
  forall ck an origs h stmt,
    consistent_b (cdefs_of h) = true -> kind_safe_for DepClassAndFlags ck = true ->
    defines_b h stmt = true -> no_config_b h stmt = true ->
    dview origs (run rk ck an h g0) = dview origs g0 ->
    beh ck an origs (run rk ck an h g0) stmt = beh ck an origs (run rk ck an [Define stmt] g0) stmt.

(* F13: with a registry keyed by anything coarser than the class object (today: the bare class name), two
   different user classes with one name collide: the second class is checked against the first *)
Theorem C15_witness_registry : forall rk ck origs,
  registry_kind_injective rk = false ->
  consistent_b (cdefs_of w_history) = true /\ defines_b w_history [wB] = true /\
  no_config_b w_history [wB] = true /\
  beh ck std_an origs (run rk ck std_an w_history g0) [wB] <>
  beh ck std_an origs (run rk ck std_an [Define [wB]] g0) [wB].
Proof. exact witness_registry. Qed.

Theorem C15_refuted : forall rk, registry_kind_injective rk = false -> ~ C15_statement rk.
Proof.
  intros rk H S. destruct (witness_registry rk ClassAndFlags [] H) as [A [B [C D]]].
  apply D. apply S; try assumption; reflexivity.
Qed.

(* the StructureReference counter is not part of any behaviour *)
Theorem C15_counter_hidden : forall ck an origs g n stmt,
  beh ck an origs (with_counter g n) stmt = beh ck an origs g stmt.
Proof. exact counter_hidden. Qed.

(* ... and in the CURRENT source tree the counter only names the inline class: it is read once, for the
   first argument of type(), and StructureReference.__str__ does not show the name (generated fact) *)
Theorem C15_generated_counter_only_names : sref_counter_use = OnlyInlineClassName.
Proof. reflexivity. Qed.

Print Assumptions C15_cache_transparent.
Print Assumptions C15_generated_counter_only_names.
Print Assumptions C15_cache_transparent_kind.
Print Assumptions C15_generated_caches_safe.
Print Assumptions C15_cache_coarse_observable.
Print Assumptions C15_independent.
Print Assumptions C15_identity_registry_never_collides.
Print Assumptions C15_witness_registry.
Print Assumptions C15_refuted.
Print Assumptions C15_counter_hidden.

(* non-vacuity: three classes (two with one name, two wrapping differently named user classes), uses,
   a default window, another class' serializer reconfigured: the hypotheses hold and the behaviour is
   not trivial *)
Local Open Scope string_scope.
Definition exU0 : utype := (0%N, s2p "Point").
Definition exU1 : utype := (1%N, s2p "Money").
Definition exA : cdef := {| cid := 0; cname := s2p "Foo"; cbody := 7; cwraps := [exU0]; cnsref := 1; cfast := false |}.
Definition exB : cdef := {| cid := 1; cname := s2p "Foo"; cbody := 9; cwraps := [exU1; exU0]; cnsref := 0; cfast := true |}.
Definition exC : cdef := {| cid := 2; cname := s2p "Bar"; cbody := 3; cwraps := []; cnsref := 2; cfast := false |}.
Definition ex_h : list event :=
  [Define [exA]; Ser 0 0 2; SetDefault 1 true; Define [exA; exB]; Probe 0; CreateSerializer 2 1;
   SetDefault 1 false; Define [exC]; TrustedDeser 1 0; ToSchema 2].
Definition ex_origs : list (N * bool) := [(0%N, true); (1%N, false)].

Example C15_nonvacuous :
  consistent_b (cdefs_of ex_h) = true /\ no_collision_b ClassName (utypes_of ex_h) = true /\
  defines_b ex_h [exA; exB] = true /\ no_config_b ex_h [exA; exB] = true /\
  dview ex_origs (run ClassName ClassAndFlags std_an ex_h g0) = dview ex_origs g0 /\
  beh ClassAndFlags std_an ex_origs (run ClassName ClassAndFlags std_an ex_h g0) [exA; exB] =
    ([Some (s2p "Foo", 7%N, [0%N], None, [112; 113; 114; 115; 116]%N);
      Some (s2p "Foo", 9%N, [1%N; 0%N], None, [144; 145; 146; 147; 148]%N)], [true; false]).
Proof. repeat split; vm_compute; reflexivity. Qed.
