(* Property C07 — key-renaming mappers apply consistently in both directions at every level.
   This file holds only the property theorems; each is closed by [exact] of a lemma proved in
   Ser/MappersProofs.v and followed by Print Assumptions.

   Model: Ser/Mappers.v (add_mapper_to_aggregation, _set_base_mapper_no_op, aggregate_*_mappers,
   MRO collection, key handling of serialize_internal / construct_fields_map, wrapper validation).
   Spec: [rename_chain L n] — the declarative left-to-right composition of the renames in L;
   [nested_list L f c'] — the list in force for the class nested under field f.
   Hypotheses are boolean and explicit: [ident] (ASCII identifier field names), [chain_ok]
   (the `v == latest_mapper.get(k)` shortcut of the code does not fire on an entry that the same dict
   renames further, and no dict holds a nested dict under a plain key), [nested_ok] (the same for
   the nested-mapper entry).  Where the full statement is false of the faithful model because the
   pinned code has a defect, the full statement is a Definition with a [_refuted] witness. *)
From Coq Require Import ZArith NArith Bool List.
Import ListNotations.
From TP Require Import Base.PyVal Ser.Mappers Ser.MappersProofs Ser.MappersRoundTripProofs Ser.MappersCacheProofs
     Gen.MapperSites Ser.MapperSitesOk.

(* the aggregated mapper (either direction), for ANY mapper list and class, maps every field to
   its rename chain (DoNotSerialize when the chain drops it) *)
Theorem C07_agg_is_chain : forall for_ser c L am n,
    agg_list for_ser c (Some L) = Ok am ->
    In n (field_names c) -> ident n = true -> chain_ok L n (Some n) = true ->
    alist_get am n = Some (mval_of (rename_chain L n)).
Proof. exact agg_is_chain. Qed.

(* without [chain_ok] the statement is false of the pinned code: [{a: b}, {a: b, b: c}] *)
Theorem C07_agg_is_chain_full_refuted : ~ agg_is_chain_full.
Proof. exact agg_is_chain_full_refuted. Qed.

(* the list collected over the MRO is the declared one when every class declares a mapper ... *)
Theorem C07_collect_declared : forall levels inh,
    Forall (fun d : option decl => d <> None) levels -> collect_code inh levels = collect_decl levels.
Proof. exact collect_all_declared. Qed.

(* ... and differs (in its chain) when a subclass declares none: the parent's is applied twice *)
Theorem C07_collect_inherited_twice_refuted :
  exists levels n, rename_chain (collect_code None levels) n <> rename_chain (collect_decl levels) n.
Proof. exact inherited_twice_refuted. Qed.

(* the mapper used one level down (nested class reached directly or through Array/Set) is the
   aggregate of the nested class under its own list followed by what the enclosing list projects *)
Theorem C07_nested_mapper : forall c L am f kd c' sub0,
    agg_list true c (Some L) = Ok am ->
    NoDup (field_names c) -> (forall k, In k (field_names c) -> ident k = true) ->
    In (f, Some (kd, c')) (cfields c) ->
    agg_list true c' None = Ok sub0 -> (kd = KRef \/ sub0 <> []) ->
    nested_ok L f sub0 = true ->
    exists am', agg_list true c' (Some (nested_list L f c')) = Ok am' /\
                alist_get am (f ++ suffix) = Some (Sub am').
Proof. exact nested_entry. Qed.

(* key set of the serialized document = image of the populated, non-dropped fields ... *)
Theorem C07_keys_exact : forall c L am x dd,
    agg_list true c (Some L) = Ok am ->
    (forall n, In n (keys_of x) -> In n (field_names c) /\ ident n = true /\ chain_ok L n (Some n) = true) ->
    ser_val (Some (Sub am)) (IStruct x) = Ok (DDict dd) ->
    forall k, In k (keys_of dd) <-> exists n, In n (keys_of x) /\ rename_chain L n = Some k.
Proof. exact keys_exact_level. Qed.

(* ... at every nesting level: the same one level down, for arbitrary c and L (so it iterates) *)
Theorem C07_keys_exact_nested : forall c L am f kd c' sub0 x' dd',
    agg_list true c (Some L) = Ok am ->
    NoDup (field_names c) -> (forall k, In k (field_names c) -> ident k = true) ->
    In (f, Some (kd, c')) (cfields c) ->
    agg_list true c' None = Ok sub0 -> (kd = KRef \/ sub0 <> []) ->
    nested_ok L f sub0 = true ->
    (forall n, In n (keys_of x') -> In n (field_names c') /\ ident n = true /\
                                    chain_ok (nested_list L f c') n (Some n) = true) ->
    ser_val (alist_get am (f ++ suffix)) (IStruct x') = Ok (DDict dd') ->
    forall k, In k (keys_of dd') <-> exists n, In n (keys_of x') /\ rename_chain (nested_list L f c') n = Some k.
Proof. exact keys_exact_nested. Qed.

(* a field mapped to DoNotSerialize contributes no key *)
Theorem C07_donot_absent : forall c L am x dd n,
    agg_list true c (Some L) = Ok am ->
    (forall n, In n (keys_of x) -> In n (field_names c) /\ ident n = true /\ chain_ok L n (Some n) = true) ->
    ser_val (Some (Sub am)) (IStruct x) = Ok (DDict dd) ->
    rename_chain L n = None ->
    forall k, In k (keys_of dd) -> exists n', n' <> n /\ In n' (keys_of x) /\ rename_chain L n' = Some k.
Proof. exact donot_absent. Qed.

(* two fields share a key only if the mapper chain itself sends them to that key *)
Theorem C07_collide_only_if_mapper : forall for_ser c L am n1 n2 k,
    agg_list for_ser c (Some L) = Ok am ->
    In n1 (field_names c) -> ident n1 = true -> chain_ok L n1 (Some n1) = true ->
    In n2 (field_names c) -> ident n2 = true -> chain_ok L n2 (Some n2) = true ->
    alist_get am n1 = Some (Key k) -> alist_get am n2 = Some (Key k) ->
    rename_chain L n1 = Some k /\ rename_chain L n2 = Some k.
Proof. exact collide_only_if_mapper. Qed.

(* round trip, mapper layer (PARTIAL: the lookups the deserializer performs on the serialized
   document find exactly the populated fields; the composition with the model of
   deserialize_structure_internal by induction over nesting is not proved — it is covered by the
   correspondence and by the real == on every run) *)
Theorem C07_roundtrip_lookup_partial : forall c L am x dd,
    agg_list true c (Some L) = Ok am ->
    (forall n, In n (field_names c) -> ident n = true /\ chain_ok L n (Some n) = true) ->
    (forall n, In n (keys_of x) -> In n (field_names c)) -> NoDup (keys_of x) ->
    (forall n1 n2 k, In n1 (field_names c) -> In n2 (field_names c) ->
                     rename_chain L n1 = Some k -> rename_chain L n2 = Some k -> n1 = n2) ->
    ser_val (Some (Sub am)) (IStruct x) = Ok (DDict dd) ->
    (forall n v k, In (n, v) x -> rename_chain L n = Some k ->
                   exists dv, ser_val (alist_get am (n ++ suffix)) v = Ok dv /\ alist_get dd k = Some dv) /\
    (forall u k, In u (field_names c) -> ~ In u (keys_of x) -> rename_chain L u = Some k ->
                 alist_get dd k = None /\
                 ((forall n, In n (keys_of x) -> rename_chain L n <> Some u) -> alist_get dd u = None)).
Proof. exact roundtrip_lookup. Qed.

(* round trip through the model of deserialize_structure_internal / construct_fields_map, for a
   class of scalar fields under ANY mapper list (declared list, explicit mapper, camel_case_convert):
   serialization succeeds and deserializing its result gives back the populated fields.  The last
   hypothesis is exactly the complement of the defect C07-F2 (an unpopulated field NAMED like the key
   of a populated one). *)
Theorem C07_roundtrip_flat : forall c override flag x,
    let L := used_list c override flag in
    flat_class c -> field_names c <> [] ->
    (forall n, In n (field_names c) -> ident n = true /\ chain_ok L n (Some n) = true) ->
    (forall n, In n (field_names c) -> rename_chain L n <> None) ->
    (forall n1 n2 k, In n1 (field_names c) -> In n2 (field_names c) ->
                     rename_chain L n1 = Some k -> rename_chain L n2 = Some k -> n1 = n2) ->
    (forall n, In n (keys_of x) -> In n (field_names c)) -> NoDup (keys_of x) -> scalar_inst x ->
    (forall u n, In u (field_names c) -> ~ In u (keys_of x) -> In n (keys_of x) -> rename_chain L n <> Some u) ->
    exists dd, serialize c override flag x = Ok (DDict dd) /\
               deser_struct c override flag dd = Ok (project (field_names c) x).
Proof. exact roundtrip_flat_total. Qed.

(* deserialization side of the nested mapper: in the aggregated deserialization mapper the nested
   mapper of field f sits under "<rename chain of f>._mapper" -- the entry construct_fields_map looks
   up FIRST -- and is the nested class's aggregate composed left to right with what the list says
   about f ([des_track]); [des_free]: the `==` shortcut does not fire on the entry and no other entry
   moves onto its key *)
Theorem C07_nested_mapper_deser : forall c L dm f kd c' sub0 b,
    agg_list false c (Some L) = Ok dm ->
    NoDup (field_names c) -> (forall k, In k (field_names c) -> ident k = true) ->
    In (f, Some (kd, c')) (cfields c) ->
    agg_list false c' None = Ok sub0 -> (kd = KRef \/ sub0 <> []) ->
    base_noop false c = Ok b -> des_free L b f sub0 = true ->
    exists k x', des_track L f sub0 = Ok (k, x') /\ rename_chain L f = Some k /\
                 alist_get dm (k ++ suffix) = Some (Sub x') /\
                 deser_sub_lookup dm k f = Some (Sub x').
Proof. exact nested_entry_deser. Qed.

(* ... and the order of the two lookups matters: "<field>._mapper" first hands a field the nested
   mapper of the sibling that was renamed onto its name *)
Theorem C07_sub_lookup_order_matters :
  exists dm subR, agg_list false cOuter (Some LOuter) = Ok dm /\ agg_list false cRight None = Ok subR /\
    deser_sub_lookup dm sc sb = Some (Sub subR) /\ deser_sub_lookup_rev dm sc sb <> Some (Sub subR).
Proof. exact sub_lookup_order_matters. Qed.

(* the process-wide memo table aggregated_mapper_by_class is transparent: for EVERY history of calls
   (class, explicit mapper, flag) each answer is the one a fresh aggregation gives ... *)
Theorem C07_cache_transparent : forall table rs ch,
    coherent table ch -> serve table ch rs = map (fresh table) rs.
Proof. exact serve_transparent. Qed.

Theorem C07_cache_transparent_from_empty : forall table rs, serve table [] rs = map (fresh table) rs.
Proof. exact serve_transparent_from_empty. Qed.

(* ... which needs both the flag and the explicit mapper in the memo key *)
Theorem C07_cache_key_without_flag_refuted :
  exists rs, serve_with key_no_flag tableI [] rs <> map (fresh tableI) rs.
Proof. exact key_without_flag_refuted. Qed.

Theorem C07_cache_key_without_override_refuted :
  exists rs, serve_with key_no_override tableI [] rs <> map (fresh tableI) rs.
Proof. exact key_without_override_refuted. Qed.

(* the model performs the nested-mapper lookups / stores / enum dispatch that Gen/MapperSites.v
   records from the CURRENT source (regenerated on every run): order of the two "._mapper" lookups
   in construct_fields_map and add_mapper_to_aggregation, the single lookup of serialize_internal,
   the key a nested mapper is stored under, TO_CAMELCASE / TO_LOWERCASE -> camel / upper *)
Theorem C07_model_follows_source_sites :
  (forall dm mapped field, deser_sub_lookup dm mapped field = lookup_roles site_deser dm mapped field) /\
  (forall d mapped field, sub_of (MDict d) mapped field = classify_sub (lookup_roles site_agg d mapped field)) /\
  (forall rec am k v acc mapped,
      ser_step rec am (k, v) acc =
      match alist_get am k with
      | Some DoNot => Ok acc
      | e => let key := match e with Some (Key s) => s | _ => k end in
             y <- rec (lookup_roles site_ser am mapped k) v ;; Ok (alist_set acc key y)
      end) /\
  writes_agg = [RMapped; RMapped] /\ writes_base = [RField; RField; RField] /\
  (forall m name s, enum_name m = Some name ->
      exists f, dispatch_of name enum_dispatch = Some f /\
                strfun_apply f s = Some (match apply_key m s with Key t => t | _ => s end)) /\
  camelcase_shape_ok = true.
Proof. exact sites_ok. Qed.

(* the full round trip is false of the pinned code: (a) an unpopulated field named like another
   field's key captures its value; (b) two levels down the deserialization mapper is re-aggregated *)
Theorem C07_roundtrip_full_refuted : ~ roundtrip_full.
Proof. exact roundtrip_full_refuted. Qed.

Theorem C07_roundtrip_depth2_refuted :
  exists doc, serialize cO None false xO = Ok (DDict doc) /\ deser_struct cO None false doc <> Ok xO.
Proof. exact nested_depth2_roundtrip_refuted. Qed.

(* an explicit mapper naming a non-field is rejected when the wrapper is built, and only then *)
Theorem C07_wrapper_rejects_nonfield : forall fields keys,
    (exists k, In k keys /\ ~ In (first_segment k) fields) ->
    wrapper_validate fields keys = Raise ValueError.
Proof. exact wrapper_rejects_nonfield. Qed.

Theorem C07_wrapper_accepts_fields : forall fields keys,
    (forall k, In k keys -> In (first_segment k) fields) ->
    wrapper_validate fields keys = Ok tt.
Proof. exact wrapper_accepts_fields. Qed.

Print Assumptions C07_agg_is_chain.
Print Assumptions C07_agg_is_chain_full_refuted.
Print Assumptions C07_collect_declared.
Print Assumptions C07_collect_inherited_twice_refuted.
Print Assumptions C07_nested_mapper.
Print Assumptions C07_keys_exact.
Print Assumptions C07_keys_exact_nested.
Print Assumptions C07_donot_absent.
Print Assumptions C07_collide_only_if_mapper.
Print Assumptions C07_roundtrip_lookup_partial.
Print Assumptions C07_roundtrip_flat.
Print Assumptions C07_nested_mapper_deser.
Print Assumptions C07_sub_lookup_order_matters.
Print Assumptions C07_cache_transparent.
Print Assumptions C07_cache_transparent_from_empty.
Print Assumptions C07_cache_key_without_flag_refuted.
Print Assumptions C07_cache_key_without_override_refuted.
Print Assumptions C07_model_follows_source_sites.
Print Assumptions C07_roundtrip_full_refuted.
Print Assumptions C07_roundtrip_depth2_refuted.
Print Assumptions C07_wrapper_rejects_nonfield.
Print Assumptions C07_wrapper_accepts_fields.

(* non-vacuity: the documented chain Foo {"i": "j", "s": "name"} / Bar(Foo) [{"j": DoNotSerialize},
   TO_LOWERCASE] with a nested class under TO_CAMELCASE satisfies every hypothesis *)
Local Open Scope N_scope.
Definition p (l : list N) : pystr := l.
Definition s_i := p [105]. Definition s_j := p [106]. Definition s_s := p [115].
Definition s_name := p [110; 97; 109; 101]. Definition s_a := p [97]. Definition s_sub := p [115; 117; 98].
Definition e_in_x := p [105; 110; 95; 120].
Definition ex_nested := Class [(e_in_x, None)] [MCamel].
Definition ex_L := [MDict [(s_i, Key s_j); (s_s, Key s_name)]; MDict [(s_j, DoNot)]; MLower].
Definition ex_c := Class [(s_i, None); (s_s, None); (s_a, None); (s_sub, Some (KRef, ex_nested))] ex_L.
Definition ex_x : list (pystr * ival) :=
  [(s_i, IScal 5%Z); (s_s, IScal 6%Z); (s_a, IScal 7%Z); (s_sub, IStruct [(e_in_x, IScal 8%Z)])].

Example C07_nonvacuous :
  forallb (fun n => ident n && chain_ok ex_L n (Some n)) (field_names ex_c) = true /\
  rename_chain ex_L s_i = None /\ rename_chain ex_L s_s = Some (p [78; 65; 77; 69]) /\
  (exists sub0, agg_list true ex_nested None = Ok sub0 /\ nested_ok ex_L s_sub sub0 = true) /\
  exists am dd, agg_list true ex_c (Some ex_L) = Ok am /\
                ser_val (Some (Sub am)) (IStruct ex_x) = Ok (DDict dd) /\
                keys_of dd = [p [78; 65; 77; 69]; p [65]; p [83; 85; 66]] /\
                alist_get dd (p [83; 85; 66]) = Some (DDict [(p [73; 78; 88], DScal 8%Z)]).
Proof.
  split; [vm_compute; reflexivity|]. split; [vm_compute; reflexivity|]. split; [vm_compute; reflexivity|].
  split; [eexists; split; vm_compute; reflexivity|].
  eexists. eexists. split; [vm_compute; reflexivity|]. split; [vm_compute; reflexivity|].
  split; vm_compute; reflexivity.
Qed.

(* non-vacuity of C07_roundtrip_flat: Foo {i, s, in_x} under [{"i": "name", "s": "i"}, TO_CAMELCASE]
   plus camel_case_convert (field s is written under the NAME of its sibling i, a falsy value is
   stored under i): every hypothesis is discharged, and the conclusion is computed *)
Definition rf_L := [MDict [(s_i, Key s_name); (s_s, Key s_i)]; MCamel].
Definition rf_c := Class [(s_i, None); (s_s, None); (e_in_x, None)] rf_L.
Definition rf_x : list (pystr * ival) := [(s_i, IScal 0%Z); (s_s, IScal 6%Z); (e_in_x, IScal 7%Z)].

Example C07_roundtrip_flat_nonvacuous :
  exists dd, serialize rf_c None true rf_x = Ok (DDict dd) /\
             keys_of dd = [s_name; s_i; p [105; 110; 88]] /\
             deser_struct rf_c None true dd = Ok rf_x.
Proof.
  destruct (C07_roundtrip_flat rf_c None true rf_x) as [dd [Hs Hd]].
  - intros k fk [H|[H|[H|[]]]]; inversion H; reflexivity.
  - discriminate.
  - intros n [<-|[<-|[<-|[]]]]; split; vm_compute; reflexivity.
  - intros n [<-|[<-|[<-|[]]]]; vm_compute; discriminate.
  - intros n1 n2 k [<-|[<-|[<-|[]]]] [<-|[<-|[<-|[]]]]; vm_compute; intros E1 E2; try reflexivity; congruence.
  - intros n H. exact H.
  - repeat constructor; cbn; intuition discriminate.
  - intros n v [H|[H|[H|[]]]]; inversion H; eexists; reflexivity.
  - intros u n Hu Hnu Hn. exfalso. apply Hnu. exact Hu.
  - exists dd. split; [exact Hs|].
    assert (E : serialize rf_c None true rf_x = Ok (DDict [(s_name, DScal 0%Z); (s_i, DScal 6%Z); (p [105; 110; 88], DScal 7%Z)]))
      by (vm_compute; reflexivity).
    rewrite E in Hs. inversion Hs; subst dd. split; [reflexivity|]. exact Hd.
Qed.

(* non-vacuity of C07_nested_mapper_deser: Outer {a: Left, b: Right} under {a: b, b: c} -- field b,
   whose NAME is the key of its sibling a *)
Example C07_nested_mapper_deser_nonvacuous :
  exists b subR, base_noop false cOuter = Ok b /\ agg_list false cRight None = Ok subR /\
                 des_free LOuter b sb subR = true /\ des_track LOuter sb subR = Ok (sc, subR).
Proof.
  eexists. eexists. split; [vm_compute; reflexivity|]. split; [vm_compute; reflexivity|].
  split; vm_compute; reflexivity.
Qed.

(* ---- the tie to the source, re-checked by the kernel on every run -------------------------------------
   Gen/MappersSrc.v is re-generated from typedpy/serialization/mappers.py (harness/genmods/py2v_mappers.py):
   _convert_to_camelcase, the mappers enum, _apply_mapper, add_mapper_to_aggregation, _set_base_mapper_no_op,
   aggregate_serialization_mappers, aggregate_deserialization_mappers, get_flat_resolved_mapper (the memo table
   aggregated_mapper_by_class is treated as transparent).  For EVERY well-formed class description (ASCII
   names, unique keys) what the source computes NOW is what the hand-written model Ser/Mappers.v computes. *)
From TP Require Import Base.PyOps Base.PyOps2 Base.PyObj Base.PyOpsMappers Gen.MappersSrc Ser.MappersSrcProofs.

Theorem C07_src_camelcase :
  forall (h : heap) (s : pystr),
         ascii_str s = true -> Src_convert_to_camelcase h (PStr s) = Ok (PStr (camel s)).
Proof. exact src_convert_to_camelcase. Qed.

Theorem C07_src_apply_mapper :
  forall (h : heap) (latest : mapper) (prev : list (pystr * mval)) (k s : pystr) (fs : bool),
         mapper_wf latest = true ->
         ascii_str s = true ->
         alist_get prev k = Some (Key s) ->
         Src_apply_mapper h (enc_mapper latest) (PStr k) (enc_amap prev) (PBool fs) (PBool false) =
         Ok (enc_mval (apply_key latest s)).
Proof. exact src_apply_mapper. Qed.

Theorem C07_src_apply_mapper_self :
  forall (h : heap) (latest : mapper) (prev : amap) (f : pystr) (fs : bool),
         mapper_wf latest = true ->
         ascii_str f = true ->
         Src_apply_mapper h (enc_mapper latest) (PStr f) (enc_amap prev) (PBool fs) (PBool true) =
         Ok (enc_mval (apply_key latest f)).
Proof. exact src_apply_mapper_self. Qed.

(* full result equality, exceptions included *)
Theorem C07_src_add_mapper_to_aggregation :
  forall (h : heap) (fs : bool) (latest : mapper) (prev : amap),
         mapper_wf latest = true ->
         amap_wf prev = true ->
         Src_add_mapper_to_aggregation h (enc_mapper latest) (enc_amap prev) (PBool fs) =
         enc_res (add_agg fs latest prev).
Proof. exact src_add_mapper_to_aggregation. Qed.

Theorem C07_src_set_base_mapper_no_op :
  forall plain : pystr -> pyval,
         plain_ok plain ->
         forall (h : heap) (fs : bool) (c : classdef),
         class_wf c = true ->
         Src_set_base_mapper_no_op h (enc_class plain c) (PBool fs) = enc_res (base_noop fs c).
Proof. exact src_set_base_mapper_no_op. Qed.

Theorem C07_src_aggregate_serialization :
  forall plain : pystr -> pyval,
         plain_ok plain ->
         forall (h : heap) (c : classdef) (override : option amap) (camel : bool),
         class_wf c = true ->
         override_wf override = true ->
         Src_aggregate_serialization_mappers h (enc_class plain c) (enc_override override)
           (PBool camel) = enc_res (aggregate true c override camel).
Proof. exact src_aggregate_serialization_mappers. Qed.

Theorem C07_src_aggregate_deserialization :
  forall plain : pystr -> pyval,
         plain_ok plain ->
         forall (h : heap) (c : classdef) (override : option amap) (camel : bool),
         class_wf c = true ->
         override_wf override = true ->
         Src_aggregate_deserialization_mappers h (enc_class plain c) (enc_override override)
           (PBool camel) = enc_res (aggregate false c override camel).
Proof. exact src_aggregate_deserialization_mappers. Qed.

Theorem C07_src_aggregate_class_list :
  forall plain : pystr -> pyval,
         plain_ok plain ->
         forall (h : heap) (fs : bool) (c : classdef),
         class_wf c = true ->
         (if fs
          then Src_aggregate_serialization_mappers h (enc_class plain c) PNone (PBool false)
          else Src_aggregate_deserialization_mappers h (enc_class plain c) PNone (PBool false)) =
         enc_res (agg_list fs c None).
Proof. exact src_aggregate_class_list. Qed.

Theorem C07_src_flat_resolved_mapper :
  forall (h : heap) (sm dm : option mapper) (fields : list pystr) (fobj : pystr -> pyval),
         flat_ok (flat_effective sm dm) fields = true ->
         Src_get_flat_resolved_mapper h (flat_cls sm dm fields fobj) =
         Ok (enc_amap (flat_model (flat_effective sm dm) fields)).
Proof. exact src_get_flat_resolved_mapper. Qed.

Print Assumptions C07_src_camelcase.
Print Assumptions C07_src_apply_mapper.
Print Assumptions C07_src_apply_mapper_self.
Print Assumptions C07_src_add_mapper_to_aggregation.
Print Assumptions C07_src_set_base_mapper_no_op.
Print Assumptions C07_src_aggregate_serialization.
Print Assumptions C07_src_aggregate_deserialization.
Print Assumptions C07_src_aggregate_class_list.
Print Assumptions C07_src_flat_resolved_mapper.

(* ---- the deserializer itself, mapper ON: Gen/DeserializeSrc.v is re-generated from
   typedpy/serialization/serialization.py (harness/genmods/py2v_deserialize.py): deserialize_structure_internal,
   construct_fields_map, get_processed_input, deserialize_single_field, deserialize_array / _set / _list_like, tied by
   the generated knot src_full_fix.  For EVERY class of the model (rename-only mapper list, explicit mapper,
   camel_case_convert, nested classes directly / through Array / Set), and every document on which the model's
   deser_struct returns fields, what the source computes NOW is the instance carrying exactly those fields, each
   nesting level under the nested mapper the source looks up for it.  [mapped_cov]: field names pairwise different,
   mapped keys without ".", nested-mapper lookups that find a dict or nothing.  aggregate_deserialization_mappers is
   the oracle entry of that name ([ext_mapped_agrees]: it is the model's aggregate, which C07_src_aggregate_deserialization
   ties to mappers.py); keep_undefined is off (the correspondence's configuration). *)
From TP Require Import Base.PyOpsDeserialize Gen.DeserializeSrc Ser.DeserializeSrcProofs Ser.DeserializeMappedSrcProofs.
From Coq Require Import String.
Local Open Scope string_scope.

Theorem C07_src_deserialize_mapped :
  forall re_match e ens (h : heap) (ext : extern),
    ext_agrees re_match e ens ext -> ext_struct_agrees ext -> ext_mapped_agrees ext ->
    h (s2p "Structure") (s2p "failing_fast()") = Some (PBool true) ->
    (exists v, h (s2p "TypedPyDefaults") (s2p "additional_properties_default") = Some v) ->
    forall c (override : option amap) (camelflag : bool) doc x fuel nm ssv,
      (8 * cdepth c <= fuel)%nat ->
      mapped_cov c override camelflag = true ->
      deser_struct c override camelflag doc = Ok x ->
      r_deserialize_structure_internal (src_full_fix h ext fuel) (menc_class c) (enc_dval (DDict doc)) nm (PBool false)
        (enc_override override) (PBool false) (PBool camelflag) (PBool false) ssv =
      Ok (enc_ival (IStruct x) (Some (KRef, c))).
Proof. exact src_deserialize_mapped. Qed.

Print Assumptions C07_src_deserialize_mapped.
