(* Property C16 — generated .pyi stubs agree with the runtime constructor signatures.  PARTIAL:
   the theorems below are about the model of StructMeta.__new__/get_base_info/make_signature
   (Stubs/Signature.v) and of the stub generator (Stubs/StubModel.v) at the level
   (parameter name, has a default, ** parameter), over ALL class definitions of the model
   (any number of fields, any inheritance depth).  That the rendered text parses, that every
   class appears, that enum member names are kept and byte-identity across PYTHONHASHSEED values
   are run-time facts decided by the harness (harness/props/c16.py), not by these theorems.
   This file holds only the property theorems; the proofs are in Stubs/SignatureProofs.v and
   Stubs/StubProofs.v. *)
From Coq Require Import List Bool NArith String.
Import ListNotations.
From TP Require Import Base.PyVal Stubs.Signature Stubs.SignatureProofs Stubs.StubModel Stubs.StubProofs.
Local Open Scope string_scope.

(* the run-time signature names exactly the fields of the class (own and inherited, by
   dict.update over the MRO) that are not Constants *)
Theorem C16_sig_is_fields : forall apd C n,
    In n (sig_names apd C) <-> In n (all_names C) /\ ~ In n (constants C).
Proof. exact sig_names_spec. Qed.

(* stub __init__ keywords = run-time parameters minus constants, as sets, duplicate-free *)
Theorem C16_params : forall apd C,
    NoDup (stub_init_names apd apd C) /\
    (forall n, In n (stub_init_names apd apd C) <-> In n (sig_names apd C) /\ ~ In n (constants C)).
Proof. exact params_agree. Qed.

(* at run time a parameter lacks a default exactly when its name is in cls._required *)
Theorem C16_runtime_required : forall apd C n,
    def_ok apd C = true -> In n (sig_names apd C) ->
    (sig_required apd C n = true <-> In n (required_attr apd C)).
Proof. exact sig_required_spec. Qed.

(* "no default in the stub <-> required at run time": the default marker is decided by _required alone (a field that
   is not required gets "= None", a required one keeps its type text), so the clause holds of every class whose
   required fields' type TEXTS do not themselves end with "= None" ... *)
Theorem C16_defaults : forall apd C n,
    def_ok apd C = true -> tok_safe apd C = true ->
    In n (stub_init_names apd apd C) ->
    (stub_has_default apd apd C n = false <-> sig_required apd C n = true).
Proof. exact defaults_agree. Qed.
(* ... in particular of every class over the renderer's own vocabulary, where no type text ends with "= None"
   (AnyOf/OneOf[X, None] and typing.Optional[X] are rendered "Optional[X]"; the harness reads the token of every
   rendered field back from the generated text) *)
Theorem C16_defaults_rendered : forall apd C n,
    def_ok apd C = true -> (forall f, In f (all_fields C) -> f_tok f <> TOptNone) ->
    In n (stub_init_names apd apd C) ->
    (stub_has_default apd apd C n = false <-> sig_required apd C n = true).
Proof. exact defaults_agree_rendered. Qed.

(* "** in the stub <-> the class admits additional properties": full statement, refutation
   (flag inherited as True under default False), characterisation *)
Definition C16_kwargs_statement : Prop := kwargs_statement.
Theorem C16_kwargs_refuted : ~ C16_kwargs_statement.
Proof. exact kwargs_refuted. Qed.
Theorem C16_kwargs : forall apd C,
    kw_safe apd C = true -> stub_kw apd C = admits_additional apd C.
Proof. exact kwargs_agree. Qed.

(* shallow_clone_with_overrides carries the field keywords of __init__ (same names, same order);
   from_other_class / from_trusted_data carry them except a keyword named like one of their own parameters
   (cls, source_object, ignore_props: at run time such a keyword is bound to that parameter, it is not a field
   keyword of the method); the same ** parameter, and every keyword has a default *)
Theorem C16_methods_same_keywords : forall ar ast C,
  map fst (m_kwparams (stub_shallow_clone ar ast C)) = map fst (m_kwparams (stub_init ar ast C)) /\
  map fst (m_kwparams (stub_from_other_class ar ast C))
    = classmethod_names (map fst (m_kwparams (stub_init ar ast C))) /\
  map fst (m_kwparams (stub_from_trusted_data ar ast C))
    = classmethod_names (map fst (m_kwparams (stub_init ar ast C))) /\
  m_kw (stub_shallow_clone ar ast C) = m_kw (stub_init ar ast C) /\
  m_kw (stub_from_other_class ar ast C) = m_kw (stub_init ar ast C) /\
  m_kw (stub_from_trusted_data ar ast C) = m_kw (stub_init ar ast C) /\
  forallb (fun p : sparam => snd p) (m_kwparams (stub_shallow_clone ar ast C)) = true /\
  forallb (fun p : sparam => snd p) (m_kwparams (stub_from_other_class ar ast C)) = true /\
  forallb (fun p : sparam => snd p) (m_kwparams (stub_from_trusted_data ar ast C)) = true.
Proof. exact methods_same_keywords. Qed.
(* ... hence, for a class none of whose fields is named cls / source_object / ignore_props, exactly the keywords
   of __init__ *)
Theorem C16_methods_same_keywords_full : forall ar ast C,
  no_classmethod_own C = true ->
  map fst (m_kwparams (stub_from_other_class ar ast C)) = map fst (m_kwparams (stub_init ar ast C)) /\
  map fst (m_kwparams (stub_from_trusted_data ar ast C)) = map fst (m_kwparams (stub_init ar ast C)).
Proof. exact methods_same_keywords_full. Qed.

(* no mandatory parameter follows an optional one (the def is syntactically valid) *)
Theorem C16_order_wf : forall ar ast C, order_wf false (m_kwparams (stub_init ar ast C)) = true.
Proof. exact init_order_wf. Qed.
Theorem C16_methods_order_wf : forall ar ast C,
    order_wf true (m_kwparams (stub_shallow_clone ar ast C)) = true /\
    order_wf true (m_kwparams (stub_from_other_class ar ast C)) = true /\
    order_wf true (m_kwparams (stub_from_trusted_data ar ast C)) = true.
Proof. exact methods_order_wf. Qed.

(* no rendered classmethod repeats an argument name, whatever the fields are called (a field named cls,
   source_object or ignore_props used to be repeated after the fixed parameters: the .pyi did not compile);
   __init__ and shallow_clone_with_overrides do not either unless a field is named self *)
Theorem C16_no_duplicate_arguments : forall apd C,
    (no_self C = true ->
     NoDup (arg_names (stub_init apd apd C)) /\ NoDup (arg_names (stub_shallow_clone apd apd C))) /\
    NoDup (arg_names (stub_from_other_class apd apd C)) /\ NoDup (arg_names (stub_from_trusted_data apd apd C)).
Proof. exact no_duplicate_arguments. Qed.

(* the rendered signatures are a function of the class definition and the default alone
   (no dependence on hash order, run, or anything else): trivially, by construction *)
Theorem C16_deterministic : forall ar ast C C',
    C = C' -> stub_init ar ast C = stub_init ar ast C' /\ sig ar C = sig ar C'.
Proof. intros ar ast C C' E. subst. split; reflexivity. Qed.

Print Assumptions C16_sig_is_fields.
Print Assumptions C16_params.
Print Assumptions C16_runtime_required.
Print Assumptions C16_defaults.
Print Assumptions C16_defaults_rendered.
Print Assumptions C16_kwargs_refuted.
Print Assumptions C16_kwargs.
Print Assumptions C16_methods_same_keywords.
Print Assumptions C16_methods_same_keywords_full.
Print Assumptions C16_order_wf.
Print Assumptions C16_methods_order_wf.
Print Assumptions C16_no_duplicate_arguments.
Print Assumptions C16_deterministic.

(* non-vacuity: a three-level hierarchy with a Constant overriding an inherited field, a default,
   a typing.Optional field, a required AnyOf[X, None] field, _required given explicitly, additional properties switched off in
   the middle, satisfies def_ok, tok_safe and kw_safe; its stub and signature are as expected *)
Definition fld (n : string) (k : fkind) (d : bool) (t : tok) : fdecl :=
  {| f_name := s2p n; f_kind := k; f_default := d; f_tok := t |}.
Definition ex_hier : hier :=
  [ {| b_fields := [fld "val" KField false TPlain; fld "opt" KField false TOptBare; fld "req" KField false TOptBare];
       b_required := None; b_optional := [s2p "opt"]; b_additional := Some false |};
    {| b_fields := [fld "subject" KConst false TPlain; fld "name" KField false TPlain];
       b_required := None; b_optional := []; b_additional := None |};
    {| b_fields := [fld "i" KField true TPlain; fld "subject" KField false TPlain];
       b_required := Some [s2p "subject"]; b_optional := []; b_additional := None |} ].

Example C16_nonvacuous :
  def_ok true ex_hier = true /\ tok_safe true ex_hier = true /\ kw_safe true ex_hier = true /\
  no_reserved ex_hier = true /\ no_self ex_hier = true /\ no_classmethod_own ex_hier = true /\
  (forall f, In f (all_fields ex_hier) -> f_tok f <> TOptNone) /\
  m_kwparams (stub_init true true ex_hier)
    = [(s2p "name", false); (s2p "val", false); (s2p "req", false); (s2p "i", true); (s2p "opt", true)] /\
  m_kw (stub_init true true ex_hier) = false /\
  constants ex_hier = [s2p "subject"] /\
  sig_required true ex_hier (s2p "val") = true /\ sig_required true ex_hier (s2p "opt") = false /\
  (* a required field declared AnyOf[X, None] ("Optional[X]"): no default in the stub, required at run time *)
  sig_required true ex_hier (s2p "req") = true.
Proof.
  repeat split; try (vm_compute; reflexivity).
  intros f Hf. vm_compute in Hf.
  repeat (destruct Hf as [<- | Hf]; [discriminate|]). contradiction.
Qed.

(* a class with fields named cls and ignore_props (class S(Structure): cls: int; a: str; ignore_props: str = 'd'):
   __init__ and shallow_clone_with_overrides carry the three keywords, the two classmethods only `a`; no
   classmethod repeats an argument name *)
Definition ex_own_hier : hier :=
  [ {| b_fields := [fld "ignore_props" KField true TPlain; fld "cls" KField false TPlain; fld "a" KField false TPlain];
       b_required := None; b_optional := []; b_additional := None |} ].
Example C16_own_parameter_names :
  def_ok true ex_own_hier = true /\ no_classmethod_own ex_own_hier = false /\ no_self ex_own_hier = true /\
  map fst (m_kwparams (stub_init true true ex_own_hier)) = [s2p "cls"; s2p "a"; s2p "ignore_props"] /\
  map fst (m_kwparams (stub_shallow_clone true true ex_own_hier)) = [s2p "cls"; s2p "a"; s2p "ignore_props"] /\
  map fst (m_kwparams (stub_from_other_class true true ex_own_hier)) = [s2p "a"] /\
  arg_names (stub_from_trusted_data true true ex_own_hier) = [s2p "cls"; s2p "source_object"; s2p "ignore_props"; s2p "a"].
Proof. vm_compute. repeat split; reflexivity. Qed.

(* ======================================================================================================
   the tie to the source of the stub renderers (generated layer), appended from the contributor's file *)
(* Property C16 — the tie of the hand-written model of the stub generator (Stubs/StubModel.v: type_info,
   ordered_args, stub_init, stub_shallow_clone, stub_from_other_class, stub_from_trusted_data), on which the C16
   theorems are proved, to the CURRENT text of typedpy/stubs/type_info_getter.py (get_all_type_info),
   type_helpers.py (_get_ordered_args) and methods_info_getter.py (get_init, get_additional_structure_methods).
   Gen/StubsSrc.v is the translation of these functions, re-generated from the source on every run
   (harness/genmods/py2v_stubs.py); these theorems (proved in Stubs/StubsSrcProofs.v) say that, for EVERY class
   description, it computes texts whose reading is the hand model.  How a description is seen as Python-level
   arguments, and how a text is read back, is Stubs/StubsSrcView.v.
   This block is meant to be appended to Props/C16.v as it is. *)
From Coq Require Import List Bool NArith String.
Import ListNotations.
From TP Require Import Base.PyVal Base.PyOps Base.PyOps2 Base.PyObj Base.PyOpsDerive Base.PyOpsStubs
     Stubs.Signature Stubs.SignatureProofs Stubs.StubModel Stubs.StubProofs
     Gen.StubsSrc Stubs.StubsSrcView Stubs.StubsSrcProofs.

Section C16_src.
  Variable apd_run : bool.                                  (* the default when the classes were defined *)
  Variable h0 : heap.                                       (* the rest of the heap: arbitrary *)
  Variable fobj : fdecl -> pyval.                           (* the Field object of a declaration: arbitrary *)
  Variable cobj : pystr -> pyval.                           (* the values of cls._constants: arbitrary *)
  Variable ext : pyval -> pyval -> pyval -> res pyval.      (* get_type_info(field, locals_attrs, additional_classes) *)
  Variables la ac : pyval.                                  (* locals_attrs, additional_classes: arbitrary *)
  Notation hp := (cls_heap apd_run h0 fobj cobj).
  Notation ext_ok := (ext_ok fobj ext la ac).
  Notation type_info_text := (type_info_text apd_run fobj ext la ac).
  Notation stub_kws := (stub_kws apd_run fobj ext la ac).

  (* get_all_type_info, as the source is written now: one entry name -> text per non-constant field, in
     get_all_fields_by_name order, wrapped in "Optional[...] = None" iff not in _required and not already
     starting with "Optional[" ... *)
  Theorem C16_src_type_info : forall C : hier,
      ext_ok C = true ->
      get_all_type_info ext (hp C) (ref o_cls) la ac = Ok (sdict (type_info_text C)).
  Proof. exact (get_all_type_info_src_eq apd_run h0 fobj cobj ext la ac). Qed.

  (* ... and what the model keeps of it (name, text ends with "= None") is the model's type_info *)
  Theorem C16_src_type_info_abs : forall C : hier,
      ext_ok C = true -> map abs_entry (type_info_text C) = type_info apd_run C.
  Proof. exact (type_info_text_abs apd_run fobj ext la ac). Qed.

  (* _get_ordered_args on any dict of texts (distinct keys): the entries without "= None" first *)
  Theorem C16_src_ordered_args : forall (h : heap) (l : list (pystr * pystr)),
      nodup_names (map fst l) = true ->
      get_ordered_args h (sdict l) = Ok (sdict (ordered_text l)).
  Proof. exact get_ordered_args_src_eq. Qed.
  Theorem C16_src_ordered_args_abs : forall l, map abs_entry (ordered_text l) = ordered_args (map abs_entry l).
  Proof. exact ordered_text_abs. Qed.

  (* get_init on any dict of texts: the def with "self", one "name: text" per entry, "**kw" iff
     getattr(cls, "_additional_properties", default) *)
  Theorem C16_src_get_init : forall (C : hier) (l : list (pystr * pystr)) (apd_stub : bool),
      get_init (hp C) (ref o_cls) (sdict l) (PBool apd_stub) = Ok (PStr (init_text l (stub_kw apd_stub C))).
  Proof. exact (get_init_src_eq apd_run h0 fobj cobj). Qed.

  (* get_additional_structure_methods on any dict of texts (distinct keys): the three defs, every keyword
     completed with " = None"; the two classmethods without the keywords named like their own parameters
     ([methods_text] renders them from [classmethod_text]) *)
  Theorem C16_src_additional_methods : forall (C : hier) (l : list (pystr * pystr)) (apd_stub : bool),
      nodup_names (map fst l) = true ->
      get_additional_structure_methods (hp C) (ref o_cls) (sdict l) (PBool apd_stub)
      = Ok (PStr (methods_text (none_text l) (stub_kw apd_stub C))).
  Proof. exact (get_additional_structure_methods_src_eq apd_run h0 fobj cobj). Qed.
  Theorem C16_src_with_none_abs : forall l, map abs_entry (none_text l) = with_none (map abs_entry l).
  Proof. exact none_text_abs. Qed.
  Theorem C16_src_classmethod_abs : forall l, map abs_entry (classmethod_text l) = classmethod_kws (map abs_entry l).
  Proof. exact classmethod_text_abs. Qed.

  (* the chain get_stubs_of_structures runs for __init__: the text is the rendering of a def whose reading is
     the model's stub_init (fixed parameters, keywords with their has-a-default, ** parameter) *)
  Theorem C16_src_stub_init : forall (apd_stub : bool) (C : hier),
      ext_ok C = true ->
      (ti <- get_all_type_info ext (hp C) (ref o_cls) la ac ;;
       oa <- get_ordered_args (hp C) ti ;;
       get_init (hp C) (ref o_cls) oa (PBool apd_stub))
      = Ok (PStr (def_render init_head self_fixed (stub_kws C) (m_kw (stub_init apd_run apd_stub C))))
      /\ abs_def self_fixed (stub_kws C) (m_kw (stub_init apd_run apd_stub C)) = stub_init apd_run apd_stub C.
  Proof. exact (stub_init_src_eq apd_run h0 fobj cobj ext la ac). Qed.

  (* ... and for shallow_clone_with_overrides / from_other_class / from_trusted_data *)
  Theorem C16_src_stub_methods : forall (apd_stub : bool) (C : hier),
      ext_ok C = true ->
      let kws := none_text (stub_kws C) in
      let kw := stub_kw apd_stub C in
      (ti <- get_all_type_info ext (hp C) (ref o_cls) la ac ;;
       oa <- get_ordered_args (hp C) ti ;;
       get_additional_structure_methods (hp C) (ref o_cls) oa (PBool apd_stub))
      = Ok (PStr (join_strs nl [def_render clone_head self_fixed kws kw;
                                def_render other_head other_fixed (classmethod_text kws) kw;
                                def_render trusted_head trusted_fixed (classmethod_text kws) kw]))
      /\ abs_def self_fixed kws kw = stub_shallow_clone apd_run apd_stub C
      /\ abs_def other_fixed (classmethod_text kws) kw = stub_from_other_class apd_run apd_stub C
      /\ abs_def trusted_fixed (classmethod_text kws) kw = stub_from_trusted_data apd_run apd_stub C.
  Proof. exact (stub_methods_src_eq apd_run h0 fobj cobj ext la ac). Qed.

  (* consequences for the texts the source renders, through the model's theorems: the keyword names of the
     rendered __init__ are the run-time parameters (no constant, no duplicate), and no keyword without default
     follows one with default *)
  Theorem C16_src_init_keywords : forall C : hier,
      ext_ok C = true ->
      map fst (stub_kws C) = stub_init_names apd_run apd_run C /\
      NoDup (map fst (stub_kws C)) /\
      (forall n, In n (map fst (stub_kws C)) <-> In n (sig_names apd_run C) /\ ~ In n (constants C)) /\
      order_wf false (map abs_entry (stub_kws C)) = true.
  Proof.
    intros C Hok.
    assert (E : map fst (stub_kws C) = stub_init_names apd_run apd_run C).
    { unfold stub_init_names, stub_init. cbn [m_kwparams].
      rewrite <- (stub_kws_abs apd_run fobj ext la ac C Hok), map_map. reflexivity. }
    split; [exact E|]. rewrite E. destruct (params_agree apd_run C) as [Hnd Hn].
    split; [exact Hnd|]. split; [exact Hn|].
    rewrite (stub_kws_abs apd_run fobj ext la ac C Hok). exact (init_order_wf apd_run apd_run C).
  Qed.

  (* outside the model's domain (every Structure class has _required): with _required absent, every field is
     dropped -- `field_name not in required` is evaluated before `required is not None`, the TypeError is
     swallowed by the `except Exception` around it *)
  Theorem C16_src_no_required : forall C : hier,
      ext_total fobj ext la ac C = true ->
      get_all_type_info ext (cls_heap_no_required apd_run h0 fobj cobj C) (ref o_cls) la ac = Ok (PDict []).
  Proof. exact (get_all_type_info_no_required apd_run h0 fobj cobj ext la ac). Qed.
End C16_src.

Print Assumptions C16_src_type_info.
Print Assumptions C16_src_type_info_abs.
Print Assumptions C16_src_ordered_args.
Print Assumptions C16_src_ordered_args_abs.
Print Assumptions C16_src_get_init.
Print Assumptions C16_src_additional_methods.
Print Assumptions C16_src_with_none_abs.
Print Assumptions C16_src_classmethod_abs.
Print Assumptions C16_src_stub_init.
Print Assumptions C16_src_stub_methods.
Print Assumptions C16_src_init_keywords.
Print Assumptions C16_src_no_required.

(* non-vacuity: the side conditions hold of the three-level class of [ex_hier] above with an oracle that reads
   the text off the Field object; the texts are the library's own output for that class *)
Example C16_src_nonvacuous :
  ext_ok ex_fobj ex_ext PNone PNone ex_src_hier = true /\
  nodup_names (map fst (type_info_text true ex_fobj ex_ext PNone PNone ex_src_hier)) = true /\
  m_kwparams (stub_init true true ex_src_hier)
  = [(s2p "name", false); (s2p "val", false); (s2p "req", false); (s2p "i", true); (s2p "opt", true)].
Proof. vm_compute. repeat split; reflexivity. Qed.
