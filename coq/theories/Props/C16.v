(* Property C16 — generated .pyi stubs agree with the runtime constructor signatures.  PARTIAL:
   the theorems below are about the model of StructMeta.__new__/get_base_info/make_signature
   (Stubs/Signature.v) and of the stub generator (Stubs/StubModel.v) at the level
   (parameter name, has a default, ** parameter), over ALL class definitions of the model
   (any number of fields, any inheritance depth).  That the rendered text parses, that every
   class appears, that enum member names are kept and byte-identity across PYTHONHASHSEED values
   are run-time facts decided by the harness (harness/props/c16.py), not by these theorems.
   This file holds only the property theorems; the proofs are in Stubs/SignatureProofs.v and
   Stubs/StubProofs.v. *)
From Coq Require Import List Bool NArith String.
Import ListNotations.
From TP Require Import Base.PyVal Stubs.Signature Stubs.SignatureProofs Stubs.StubModel Stubs.StubProofs.
Local Open Scope string_scope.

(* the run-time signature names exactly the fields of the class (own and inherited, by
   dict.update over the MRO) that are not Constants *)
Theorem C16_sig_is_fields : forall apd C n,
    In n (sig_names apd C) <-> In n (all_names C) /\ ~ In n (constants C).
Proof. exact sig_names_spec. Qed.

(* stub __init__ keywords = run-time parameters minus constants, as sets, duplicate-free *)
Theorem C16_params : forall apd C,
    NoDup (stub_init_names apd apd C) /\
    (forall n, In n (stub_init_names apd apd C) <-> In n (sig_names apd C) /\ ~ In n (constants C)).
Proof. exact params_agree. Qed.

(* at run time a parameter lacks a default exactly when its name is in cls._required *)
Theorem C16_runtime_required : forall apd C n,
    def_ok apd C = true -> In n (sig_names apd C) ->
    (sig_required apd C n = true <-> In n (required_attr apd C)).
Proof. exact sig_required_spec. Qed.

(* "no default in the stub <-> required at run time": the full statement ... *)
Definition C16_defaults_statement : Prop := defaults_statement.
(* ... is false of the faithful model (a required AnyOf[X, None] field is rendered "= None") *)
Theorem C16_defaults_refuted : ~ C16_defaults_statement.
Proof. exact defaults_refuted. Qed.
(* ... and holds for every class whose Optional-rendered fields are exactly its non-required ones *)
Theorem C16_defaults : forall apd C n,
    def_ok apd C = true -> tok_safe apd C = true ->
    In n (stub_init_names apd apd C) ->
    (stub_has_default apd apd C n = false <-> sig_required apd C n = true).
Proof. exact defaults_agree. Qed.

(* "** in the stub <-> the class admits additional properties": full statement, refutation
   (flag inherited as True under default False), characterisation *)
Definition C16_kwargs_statement : Prop := kwargs_statement.
Theorem C16_kwargs_refuted : ~ C16_kwargs_statement.
Proof. exact kwargs_refuted. Qed.
Theorem C16_kwargs : forall apd C,
    kw_safe apd C = true -> stub_kw apd C = admits_additional apd C.
Proof. exact kwargs_agree. Qed.

(* shallow_clone_with_overrides / from_other_class / from_trusted_data carry the same field
   keywords (same names, same order), the same ** parameter, and every keyword has a default *)
Theorem C16_methods_same_keywords : forall ar ast C,
  map fst (m_kwparams (stub_shallow_clone ar ast C)) = map fst (m_kwparams (stub_init ar ast C)) /\
  map fst (m_kwparams (stub_from_other_class ar ast C)) = map fst (m_kwparams (stub_init ar ast C)) /\
  map fst (m_kwparams (stub_from_trusted_data ar ast C)) = map fst (m_kwparams (stub_init ar ast C)) /\
  m_kw (stub_shallow_clone ar ast C) = m_kw (stub_init ar ast C) /\
  m_kw (stub_from_other_class ar ast C) = m_kw (stub_init ar ast C) /\
  m_kw (stub_from_trusted_data ar ast C) = m_kw (stub_init ar ast C) /\
  forallb (fun p : sparam => snd p) (m_kwparams (stub_shallow_clone ar ast C)) = true /\
  forallb (fun p : sparam => snd p) (m_kwparams (stub_from_other_class ar ast C)) = true /\
  forallb (fun p : sparam => snd p) (m_kwparams (stub_from_trusted_data ar ast C)) = true.
Proof. exact methods_same_keywords. Qed.

(* no mandatory parameter follows an optional one (the def is syntactically valid) *)
Theorem C16_order_wf : forall ar ast C, order_wf false (m_kwparams (stub_init ar ast C)) = true.
Proof. exact init_order_wf. Qed.
Theorem C16_methods_order_wf : forall ar ast C,
    order_wf true (m_kwparams (stub_shallow_clone ar ast C)) = true /\
    order_wf true (m_kwparams (stub_from_other_class ar ast C)) = true /\
    order_wf true (m_kwparams (stub_from_trusted_data ar ast C)) = true.
Proof. exact methods_order_wf. Qed.

(* unless a field is named like a fixed parameter (self, cls, source_object, ignore_props), no
   rendered def repeats an argument name *)
Theorem C16_no_duplicate_arguments : forall apd C,
    no_reserved C = true ->
    NoDup (arg_names (stub_init apd apd C)) /\ NoDup (arg_names (stub_shallow_clone apd apd C)) /\
    NoDup (arg_names (stub_from_other_class apd apd C)) /\ NoDup (arg_names (stub_from_trusted_data apd apd C)).
Proof. exact no_duplicate_arguments. Qed.

(* the rendered signatures are a function of the class definition and the default alone
   (no dependence on hash order, run, or anything else): trivially, by construction *)
Theorem C16_deterministic : forall ar ast C C',
    C = C' -> stub_init ar ast C = stub_init ar ast C' /\ sig ar C = sig ar C'.
Proof. intros ar ast C C' E. subst. split; reflexivity. Qed.

Print Assumptions C16_sig_is_fields.
Print Assumptions C16_params.
Print Assumptions C16_runtime_required.
Print Assumptions C16_defaults_refuted.
Print Assumptions C16_defaults.
Print Assumptions C16_kwargs_refuted.
Print Assumptions C16_kwargs.
Print Assumptions C16_methods_same_keywords.
Print Assumptions C16_order_wf.
Print Assumptions C16_methods_order_wf.
Print Assumptions C16_no_duplicate_arguments.
Print Assumptions C16_deterministic.

(* non-vacuity: a three-level hierarchy with a Constant overriding an inherited field, a default,
   a typing.Optional field, _required given explicitly, additional properties switched off in
   the middle, satisfies def_ok, tok_safe and kw_safe; its stub and signature are as expected *)
Definition fld (n : string) (k : fkind) (d : bool) (t : tok) : fdecl :=
  {| f_name := s2p n; f_kind := k; f_default := d; f_tok := t |}.
Definition ex_hier : hier :=
  [ {| b_fields := [fld "val" KField false TPlain; fld "opt" KField false TOptNone];
       b_required := None; b_optional := [s2p "opt"]; b_additional := Some false |};
    {| b_fields := [fld "subject" KConst false TPlain; fld "name" KField false TPlain];
       b_required := None; b_optional := []; b_additional := None |};
    {| b_fields := [fld "i" KField true TPlain; fld "subject" KField false TPlain];
       b_required := Some [s2p "subject"]; b_optional := []; b_additional := None |} ].

Example C16_nonvacuous :
  def_ok true ex_hier = true /\ tok_safe true ex_hier = true /\ kw_safe true ex_hier = true /\
  no_reserved ex_hier = true /\
  m_kwparams (stub_init true true ex_hier)
    = [(s2p "name", false); (s2p "val", false); (s2p "i", true); (s2p "opt", true)] /\
  m_kw (stub_init true true ex_hier) = false /\
  constants ex_hier = [s2p "subject"] /\
  sig_required true ex_hier (s2p "val") = true /\ sig_required true ex_hier (s2p "opt") = false.
Proof. vm_compute. repeat split; reflexivity. Qed.
