(* A model of the fragment of Python's `re` that typedpy/errors.py uses (and a bit more, so that an
   edited source still translates): the regex AST that harness/genmods/regex_src.py emits into
   Gen/ErrorPatterns.v from the pattern TEXT of the working tree (through CPython's own parser,
   re._parser), and an executable backtracking matcher with the semantics of `pattern.match(s)`
   for str patterns compiled WITHOUT flags:

     literal characters / strings, `.` (any code point but "\n"), character sets with ranges and
     the \s category (also negated), greedy and lazy `*` `+` `?`, alternation, capture groups
     (numbered by their opening parenthesis), `^` / \A (position 0), `$` (at the end or just before
     a final "\n"), \Z (at the end).

   The matcher is the textbook continuation-passing backtracking engine: `rx_m r n s caps k` matches
   r at the head of the suffix s (n = length of the whole subject, for `^`), and calls k with the
   remaining suffix and the capture table; alternatives are tried in priority order and the first one
   whose continuation does not answer RxNoMatch wins - exactly the order in which sre explores them.
   A repetition body must consume at least one code point per iteration (the generator refuses -
   fails closed on - repetitions whose body can match the empty string, where sre's rules are
   subtler), so the iteration count is bounded by the length of the suffix; the loop runs on a fuel
   of (length + 1) and answers the distinct RxOutOfFuel if that were ever exhausted.

   No proofs in this file (Errors/RegexProofs.v). *)
From Coq Require Import NArith List Bool Arith. Import ListNotations.
From TP Require Import Base.PyVal.
Local Open Scope N_scope.
Local Open Scope list_scope.

(* ---------------------------------------------------------------- syntax *)

Inductive cset_item :=
| CChar (c : N)
| CRange (lo hi : N)
| CSpace                  (* \s : str.isspace() *)
| CNotSpace.              (* \S *)

Inductive regex :=
| REps
| RChar (c : N)                          (* one literal code point *)
| RStr (s : pystr)                       (* a run of literal code points *)
| RAny                                   (* .  *)
| RSet (neg : bool) (items : list cset_item)   (* [...]  [^...]  \s  \S *)
| RSeq (a b : regex)
| RAlt (a b : regex)                     (* a|b, a preferred *)
| RStar (greedy : bool) (r : regex)      (* r*  r*?  *)
| RPlus (greedy : bool) (r : regex)      (* r+  r+?  *)
| ROpt (greedy : bool) (r : regex)       (* r?  r??  *)
| RGroup (i : nat) (r : regex)           (* capture group number i >= 1 *)
| RBol                                   (* ^ and \A (no MULTILINE) *)
| REol                                   (* $ *)
| REos.                                  (* \Z *)

Definition rcat (l : list regex) : regex := fold_right RSeq REps l.
Definition ralt (l : list regex) : regex :=
  match l with
  | [] => REps
  | a :: t => fold_left RAlt t a          (* (a|b)|c : same priorities as a|b|c *)
  end.

(* ---------------------------------------------------------------- character classes *)

Definition rx_between (lo hi c : N) : bool := (lo <=? c) && (c <=? hi).

(* Py_UNICODE_ISSPACE *)
Definition rx_space (c : N) : bool :=
  rx_between 9 13 c || rx_between 28 32 c || (c =? 133) || (c =? 160) || (c =? 5760) ||
  rx_between 8192 8202 c || (c =? 8232) || (c =? 8233) || (c =? 8239) || (c =? 8287) || (c =? 12288).

Definition item_mem (c : N) (i : cset_item) : bool :=
  match i with
  | CChar x => c =? x
  | CRange lo hi => rx_between lo hi c
  | CSpace => rx_space c
  | CNotSpace => negb (rx_space c)
  end.

Definition set_mem (neg : bool) (items : list cset_item) (c : N) : bool :=
  xorb neg (existsb (item_mem c) items).

Definition rx_dot (c : N) : bool := negb (c =? 10).

(* ---------------------------------------------------------------- results, captures *)

Inductive rx_result :=
| RxNoMatch
| RxMatch (groups : list (option pystr))      (* match.groups(): None for a group that took no part *)
| RxOutOfFuel.

Definition caps := list (nat * pystr).          (* latest binding first *)

Fixpoint cap_get (c : caps) (i : nat) : option pystr :=
  match c with
  | [] => None
  | (j, s) :: t => if Nat.eqb j i then Some s else cap_get t i
  end.

Definition cap_set (i : nat) (s : pystr) (c : caps) : caps := (i, s) :: c.

Definition kont := pystr -> caps -> rx_result.

Fixpoint str_prefix (pre s : pystr) : option pystr :=
  match pre, s with
  | [], _ => Some s
  | p :: pre', c :: s' => if p =? c then str_prefix pre' s' else None
  | _ :: _, [] => None
  end.

(* one code point satisfying p *)
Definition char_body (p : N -> bool) (s : pystr) (c : caps) (k : kont) : rx_result :=
  match s with
  | x :: t => if p x then k t c else RxNoMatch
  | [] => RxNoMatch
  end.

(* body* followed by k.  Each iteration must make progress. *)
Fixpoint star_loop (body : pystr -> caps -> kont -> rx_result) (greedy : bool) (k : kont)
         (fuel : nat) (s : pystr) (c : caps) {struct fuel} : rx_result :=
  match fuel with
  | O => RxOutOfFuel
  | S f =>
      if greedy then
        match body s c (fun s' c' => if Nat.ltb (length s') (length s)
                                     then star_loop body greedy k f s' c' else RxNoMatch) with
        | RxNoMatch => k s c
        | r => r
        end
      else
        match k s c with
        | RxNoMatch => body s c (fun s' c' => if Nat.ltb (length s') (length s)
                                              then star_loop body greedy k f s' c' else RxNoMatch)
        | r => r
        end
  end.

Fixpoint rx_m (r : regex) (n : nat) (s : pystr) (c : caps) (k : kont) {struct r} : rx_result :=
  match r with
  | REps => k s c
  | RChar x => char_body (fun y => y =? x) s c k
  | RStr l => match str_prefix l s with Some t => k t c | None => RxNoMatch end
  | RAny => char_body rx_dot s c k
  | RSet neg items => char_body (set_mem neg items) s c k
  | RSeq a b => rx_m a n s c (fun s' c' => rx_m b n s' c' k)
  | RAlt a b => match rx_m a n s c k with
                | RxNoMatch => rx_m b n s c k
                | x => x
                end
  | RStar g a => star_loop (rx_m a n) g k (S (length s)) s c
  | RPlus g a => rx_m a n s c (fun s' c' => star_loop (rx_m a n) g k (S (length s')) s' c')
  | ROpt g a =>
      if g then match rx_m a n s c k with RxNoMatch => k s c | x => x end
      else match k s c with RxNoMatch => rx_m a n s c k | x => x end
  | RGroup i a =>
      rx_m a n s c (fun s' c' => k s' (cap_set i (firstn (length s - length s') s) c'))
  | RBol => if Nat.eqb (length s) n then k s c else RxNoMatch
  | REol => match s with
            | [] => k s c
            | [x] => if x =? 10 then k s c else RxNoMatch
            | _ => RxNoMatch
            end
  | REos => match s with [] => k s c | _ => RxNoMatch end
  end.

Fixpoint ngroups (r : regex) : nat :=
  match r with
  | RSeq a b | RAlt a b => Nat.max (ngroups a) (ngroups b)
  | RStar _ a | RPlus _ a | ROpt _ a => ngroups a
  | RGroup i a => Nat.max i (ngroups a)
  | _ => O
  end.

(* pattern.match(s): RxMatch (match.groups()) / RxNoMatch for None *)
Definition re_match (r : regex) (s : pystr) : rx_result :=
  rx_m r (length s) s [] (fun _ c => RxMatch (map (cap_get c) (seq 1 (ngroups r)))).

(* ---------------------------------------------------------------- for the harness *)

Definition opt_pystr_eqb (a b : option pystr) : bool :=
  match a, b with
  | Some x, Some y => pystr_eqb x y
  | None, None => true
  | _, _ => false
  end.

Fixpoint groups_eqb (a b : list (option pystr)) : bool :=
  match a, b with
  | [], [] => true
  | x :: a', y :: b' => opt_pystr_eqb x y && groups_eqb a' b'
  | _, _ => false
  end.

Definition rx_result_eqb (a b : rx_result) : bool :=
  match a, b with
  | RxNoMatch, RxNoMatch => true
  | RxMatch x, RxMatch y => groups_eqb x y
  | RxOutOfFuel, RxOutOfFuel => true
  | _, _ => false
  end.

(* (pattern, subject, what CPython answered) *)
Definition rx_case := (regex * pystr * rx_result)%type.
Definition rx_mismatch (x : rx_case) : bool :=
  let '(r, s, e) := x in negb (rx_result_eqb (re_match r s) e).
