(* C18: which errors a rejected construction / deserialization reports.
   Structure.__init__ (structures.py): fail-fast re-raises the first failing setattr with the class
   prefix; collect-all appends every TypeError/ValueError and raise_errs_if_needed (commons.py)
   raises InvalidStructureErr(json.dumps([f"{cls}.{e}" ...])).
   construct_fields_map (serialization.py) does the same over the deserializer's own per-field
   pre-validation and only then calls the constructor.  No proofs here. *)
From Coq Require Import NArith List String Bool. Import ListNotations.
From TP Require Import Base.PyVal Errors.Template Errors.Render Errors.Parse.
Local Open Scope list_scope.

(* a bound argument: its name and, if setattr rejects the value, the text of that exception *)
Definition arg := (pystr * option pystr)%type.

Fixpoint errors_of (args : list arg) : list (pystr * pystr) :=
  match args with
  | [] => []
  | (n, Some m) :: t => (n, m) :: errors_of t
  | (_, None) :: t => errors_of t
  end.

Section WithJson.
  (* json.dumps on a list of str: an oracle.  The text it produces is only ever handed back to
     json.loads, whose result on it is the list itself (x_json below is set accordingly). *)
  Variable dumps : list pystr -> pystr.

  Definition json_exn (msgs : list pystr) : exn_text := {| x_raw := dumps msgs; x_json := Some msgs |}.
  Definition plain_exn (m : pystr) : exn_text := {| x_raw := m; x_json := None |}.

  (* Structure.__init__ over the bound arguments *)
  Definition construct (fail_fast : bool) (cls : pystr) (args : list arg) : option exn_text :=
    match errors_of args with
    | [] => None
    | (n, m) :: rest =>
        if fail_fast then Some (plain_exn (with_class cls m))
        else Some (json_exn (map (fun e => with_class cls (snd e)) ((n, m) :: rest)))
    end.

  (* deserialization of one field: the deserializer's own check (deserialize_single_field) and,
     if that passes, what the constructor's setattr says about the deserialized value *)
  Record darg := { d_name : pystr; d_pre : option pystr; d_ctor : option pystr;
                  d_falsy : bool;  (* the document value is falsy: 0, "", [], {}, False *)
                  d_caught : bool  (* the pre-validation error is a TypeError / ValueError *) }.

  Definition pre_args (ds : list darg) : list arg := map (fun d => (d_name d, d_pre d)) ds.
  Definition ctor_args (ds : list darg) : list arg := map (fun d => (d_name d, d_ctor d)) ds.

  (* construct_fields_map in collect-all mode, then the constructor call *)
  Definition deserialize_all (cls : pystr) (ds : list darg) : option exn_text :=
    match errors_of (pre_args ds) with
    | [] => construct false cls (ctor_args ds)
    | errs => Some (json_exn (map (fun e => with_class cls (snd e)) errs))
    end.

  (* construct_fields_map, both modes, as the loop it is:
       if Structure.failing_fast() and processed_input:   deserialize unguarded
       else:  try ... except (TypeError, ValueError) as ex: errors.append(ex)
     In fail-fast mode a truthy value is deserialized unguarded (its error propagates as it is,
     WITHOUT class prefix); a falsy value goes through the collecting branch, so that
     raise_errs_if_needed raises the JSON list form at the end of the loop - in fail-fast mode.
     An exception that is neither TypeError nor ValueError (d_caught = false) propagates in both. *)
  Fixpoint deser_loop (ff : bool) (ds : list darg) (collected : list pystr) : option exn_text + list pystr :=
    match ds with
    | [] => inr collected
    | d :: t =>
        match d_pre d with
        | Some m => if negb (d_caught d) || (ff && negb (d_falsy d)) then inl (Some (plain_exn m))
                    else deser_loop ff t (collected ++ [m])
        | None => deser_loop ff t collected
        end
    end.

  (* ds: the supplied fields in get_all_fields_by_name order (the pre-validation loop);
     bound: the same fields in the order of the constructor's signature (its setattr loop) *)
  Definition deserialize (ff : bool) (cls : pystr) (ds bound : list darg) : option exn_text :=
    match deser_loop ff ds [] with
    | inl r => r
    | inr [] => construct ff cls (ctor_args bound)
    | inr errs => Some (json_exn (map (with_class cls) errs))
    end.

  Definition d_invalid (d : darg) : bool :=
    match d_pre d, d_ctor d with None, None => false | _, _ => true end.

  (* ---- exceptions of setattr that are neither TypeError nor ValueError (OverflowError of float(),
     IndexError ...).  Fail-fast construction catches Exception and re-raises with the class prefix;
     the collect-all loop catches (TypeError, ValueError) only: anything else leaves the loop at once,
     as it is. *)
  Definition uarg := (pystr * option (pystr * bool))%type.     (* message, caught by the collect-all loop *)

  Definition forget (a : uarg) : arg := (fst a, option_map fst (snd a)).

  Fixpoint collect_loop (args : list uarg) (acc : list pystr) : pystr + list pystr :=
    match args with
    | [] => inr acc
    | (_, None) :: t => collect_loop t acc
    | (_, Some (m, true)) :: t => collect_loop t (acc ++ [m])
    | (_, Some (m, false)) :: _ => inl m
    end.

  Definition construct_u (fail_fast : bool) (cls : pystr) (args : list uarg) : option exn_text :=
    if fail_fast then construct true cls (map forget args)
    else match collect_loop args [] with
         | inl m => Some (plain_exn m)
         | inr [] => None
         | inr errs => Some (json_exn (map (with_class cls) errs))
         end.

  Definition ctor_uargs (bound : list (darg * bool)) : list uarg :=
    map (fun p => (d_name (fst p), option_map (fun m => (m, snd p)) (d_ctor (fst p)))) bound.

  Definition deserialize_u (ff : bool) (cls : pystr) (ds : list darg) (bound : list (darg * bool)) : option exn_text :=
    match deser_loop ff ds [] with
    | inl r => r
    | inr [] => construct_u ff cls (ctor_uargs bound)
    | inr errs => Some (json_exn (map (with_class cls) errs))
    end.

  Definition all_caught (args : list uarg) : bool :=
    forallb (fun a => match snd a with Some (_, false) => false | _ => true end) args.
End WithJson.

(* the paths reported by the helper *)
Definition reported_paths (eis : list error_info) : list pystr :=
  flat_map (fun ei => match ei_field ei with Some p => [p] | None => [] end) eis.

(* ---- which checks the deserializer leaves to the constructor.  construct_fields_map validates every
   supplied field itself (deserialize_single_field: type, bounds, length, pattern of scalars and of the
   elements / keys / values of collections) and only then calls the constructor, whose setattr repeats
   that and adds: the sign mix-ins, the size and uniqueness of a collection, the number of positional
   items.  In collect-all mode an error of this second group is lost when the first stage rejects
   anything (F19: [deserialize_all] never reaches [construct]); an error of the FIRST group must never be
   found by the constructor only.  (class, function, exception) of the raise statements of the second
   group, as Gen/Templates.v names them: *)
Definition ctor_only_sites : list (pystr * pystr * pystr) :=
  [ (s2p "Positive", s2p "__set__", s2p "ValueError"); (s2p "Negative", s2p "__set__", s2p "ValueError");
    (s2p "NonPositive", s2p "__set__", s2p "ValueError"); (s2p "NonNegative", s2p "__set__", s2p "ValueError");
    (s2p "SizedCollection", s2p "validate_size", s2p "ValueError");
    ([], s2p "verify_type_and_uniqueness", s2p "ValueError");
    (s2p "Array", s2p "__set__", s2p "ValueError"); (s2p "Deque", s2p "__set__", s2p "ValueError");
    (s2p "Tuple", s2p "__set__", s2p "ValueError") ].

Definition is_ctor_only_site (t : template) : bool :=
  existsb (fun s => pystr_eqb (fst (fst s)) (t_cls t) && pystr_eqb (snd (fst s)) (t_fn t) && pystr_eqb (snd s) (t_exn t))
          ctor_only_sites.

