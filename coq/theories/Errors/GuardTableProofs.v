(* C18: today's validation chains (Gen/GuardProgs.v) judged by the class analysis, and the theorem that
   composes  analysis soundness (GuardProofs.v)  +  today's table  +  the message round trip
   (ErrorsProofs.tmpl_ok_parse):  a scalar field rejects a value only through a raise statement whose
   message names the field. *)
From Coq Require Import ZArith NArith List String Bool. Import ListNotations.
From TP Require Import Base.PyVal Base.PyOps Errors.Template Errors.Render Errors.Parse Errors.TemplateOk
  Errors.ErrorsProofs Errors.Guard Errors.GuardProofs Errors.GuardSchema Gen.Templates Gen.GuardProgs.
Local Open Scope list_scope.

(* Re-checked by the kernel on every run against the chains regenerated from the working tree: every
   kind's chain exists, takes the stated number of parameters, passes the analysis on the stated domain,
   and each of its raise statements is a per-field message site with a template of the accepted shape. *)
Lemma all_kinds_ok : forallb kind_ok kinds = true.
Proof. vm_compute. reflexivity. Qed.

Lemma kind_ok_inv : forall k, In k kinds -> forall g, entry_of (k_entry k) = Some g ->
    gsafe (init_env k) (g_prog g) = true /\ forallb site_templated (sites (g_prog g)) = true.
Proof.
  intros k Hin g Hg. pose proof all_kinds_ok as H. rewrite forallb_forall in H. specialize (H k Hin).
  unfold kind_ok in H. rewrite Hg in H. apply andb_true_iff in H as [H H2]. apply andb_true_iff in H as [_ H1].
  split; assumption.
Qed.

Lemma site_templated_inv : forall s, site_templated s = true ->
    exists t, In t templates /\ t_id t = fst s /\ tmpl_ok (t_segs t) = true.
Proof.
  intros s H. unfold site_templated in H.
  destruct (find (fun t => N.eqb (t_id t) (fst s)) templates) as [t|] eqn:Hf; [|discriminate H].
  apply find_some in Hf as [Hin He]. apply N.eqb_eq in He. eauto.
Qed.

(* For every kind of scalar field, every field object that fits the kind's schema and every value of
   the kind's domain (for the unconditional kinds: EVERY value): the validation chain either accepts,
   or ends in a raise statement of typedpy whose template is a per-field message of the accepted shape.
   It never ends in an exception raised by a guard expression itself. *)
Theorem rejection_is_templated :
  forall k, In k kinds -> forall g, entry_of (k_entry k) = Some g ->
  forall re self vals, env_ok (init_env k) self vals = true ->
    match run re self vals (g_prog g) with
    | Bare _ => False
    | Named tid _ => exists t, In t templates /\ t_id t = tid /\ tmpl_ok (t_segs t) = true
    | Pass _ => True
    end.
Proof.
  intros k Hin g Hg re self vals Hok. destruct (kind_ok_inv k Hin g Hg) as [Hs Ht].
  destruct (run re self vals (g_prog g)) as [v|tid x|e] eqn:Hr; [exact I| |].
  - apply run_sites in Hr. rewrite forallb_forall in Ht. specialize (Ht _ Hr).
    destruct (site_templated_inv _ Ht) as (t & H1 & H2 & H4). exists t. cbn [fst] in H2. auto.
  - exact (gsafe_sound re self (g_prog g) (init_env k) vals Hok Hs e Hr).
Qed.

(* ... and the message that raise statement prints is parsed back to a path naming the field *)
Theorem rejection_names_field :
  forall k, In k kinds -> forall g, entry_of (k_entry k) = Some g ->
  forall re self vals tid x, env_ok (init_env k) self vals = true ->
    run re self vals (g_prog g) = Named tid x ->
    exists t, In t templates /\ t_id t = tid /\
      forall cls name sfx a msg,
        identb cls = true -> identb name = true -> args_nonl a = true ->
        r_path a = field_path name sfx -> render t a = Some msg ->
        parsed_ok cls name msg /\ parsed_ok cls name (with_class cls msg).
Proof.
  intros k Hin g Hg re self vals tid x Hok Hr.
  pose proof (rejection_is_templated k Hin g Hg re self vals Hok) as H. rewrite Hr in H.
  destruct H as (t & H1 & H2 & H4). exists t. split; [exact H1|]. split; [exact H2|].
  intros cls name sfx a msg Hc Hn Ha Hp Hrn.
  exact (tmpl_ok_parse (t_segs t) a msg cls name sfx H4 Ha Hc Hn Hp Hrn).
Qed.

(* ------------------------------------------------------------------ every value
   The kinds of [kinds_all_values] - every scalar field class: Number, Integer, Float, each with every
   sign mix-in, String, Boolean, Enum over values and over a class, and the type-and-uniqueness helper -
   put NO condition on the values: the hypothesis [env_ok] reduces to "as many values as the chain has
   parameters" and "the field object fits the schema". *)
Definition domain_is_everything (k : gkind) : bool :=
  forallb (fun a : absv => match a with None => true | Some _ => false end) (k_domain k).

Lemma all_values_kinds_unrestricted : forallb domain_is_everything kinds_all_values = true.
Proof. vm_compute. reflexivity. Qed.

Lemma vars_ok_everything : forall dom vals,
    forallb (fun a : absv => match a with None => true | Some _ => false end) dom = true ->
    List.length vals = List.length dom -> vars_ok dom vals = true.
Proof.
  induction dom as [|a dom IH]; intros [|v vals] Hd Hl; cbn [List.length] in Hl; try discriminate Hl; [reflexivity|].
  cbn [forallb] in Hd. apply andb_true_iff in Hd as [Ha Hd]. destruct a as [l|]; [discriminate Ha|].
  cbn [vars_ok absv_has andb]. apply IH; [exact Hd|]. injection Hl as Hl. exact Hl.
Qed.

Lemma kind_ok_nparams : forall k, In k kinds -> forall g, entry_of (k_entry k) = Some g ->
    List.length (k_domain k) = g_nparams g.
Proof.
  intros k Hin g Hg. pose proof all_kinds_ok as H. rewrite forallb_forall in H. specialize (H k Hin).
  unfold kind_ok in H. rewrite Hg in H. apply andb_true_iff in H as [H _]. apply andb_true_iff in H as [H _].
  apply Nat.eqb_eq in H. exact H.
Qed.

Theorem rejection_is_templated_all_values :
  forall k, In k kinds_all_values -> forall g, entry_of (k_entry k) = Some g ->
  forall re self vals, List.length vals = g_nparams g -> attrs_ok (k_schema k) self = true ->
    match run re self vals (g_prog g) with
    | Bare _ => False
    | Named tid _ => exists t, In t templates /\ t_id t = tid /\ tmpl_ok (t_segs t) = true
    | Pass _ => True
    end.
Proof.
  intros k Hin g Hg re self vals Hlen Hattrs.
  assert (Hin' : In k kinds) by (unfold kinds; apply in_or_app; left; exact Hin).
  apply (rejection_is_templated k Hin' g Hg re self vals).
  unfold env_ok, init_env. cbn [a_vars a_attrs]. rewrite Hattrs, andb_true_r.
  pose proof all_values_kinds_unrestricted as H. rewrite forallb_forall in H. specialize (H k Hin).
  apply vars_ok_everything; [exact H|]. rewrite Hlen. symmetry. exact (kind_ok_nparams k Hin' g Hg).
Qed.
