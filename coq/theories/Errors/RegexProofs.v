(* C18: the hand-written parsers of Errors/Parse.v ARE the regular expressions of typedpy/errors.py.

   Gen/ErrorPatterns.v holds the four patterns as regex ASTs generated from the source text on every
   run; Errors/Regex.v gives them the semantics of Python's `pattern.match`.  Here, for EVERY subject
   string (by induction, no sampling):

     regex_pattern1        re_match pat_validation_1 m   = take_field m, then p1  (groups field, value, problem)
     regex_pattern2        re_match pat_validation_2 m   = take_field m, then p2  (groups field, problem, value)
     regex_pattern3        re_match pat_validation_3 m   = take_field m, then p3  (groups field, problem)
     regex_expected_class  re_match pat_expected_class p = class_of_expected p    (group class name)
     regex_display_table   display_type_by_type_src = display_type_by_type
     regex_parse_msg       parse_msg, re-expressed through the four re_match calls, as errors.py is written

   The right-hand sides never are RxOutOfFuel: the matcher's fuel is never exhausted on these patterns.

   Structure: (1) general lemmas about the matcher: a greedy repetition of a one-character class
   followed by a continuation is `gscan` (try the longest run first, give characters back one at a
   time); when the continuation cannot start with a character of the class the scan is deterministic
   (`gscan_det`: the maximal run, no backtracking).  (2) list lemmas about dollar_line / split_last /
   drop_last2.  (3) one "shape" lemma per pattern, quantified over the character sets and literal
   strings (with their meaning as hypotheses), so that the final theorems are: unfold the GENERATED
   definition, apply the shape lemma, discharge the character-class equalities by arithmetic.  An edit
   of a regex in errors.py that changes its structure makes `apply` fail; one that changes a character
   class or a literal makes the side condition fail. *)
From Coq Require Import String.
From Coq Require Import NArith List Bool Arith Lia.
Import ListNotations.
From TP Require Import Base.PyVal Errors.Parse Errors.Regex Gen.ErrorPatterns.
Local Open Scope N_scope.
Local Open Scope list_scope.

(* ================================================================ 1. the matcher *)

Lemma str_prefix_eq : forall p s, str_prefix p s = strip_prefix p s.
Proof. induction p as [|x p IH]; intros [|c s]; cbn; try reflexivity; now rewrite IH. Qed.

(* greedy scan: the longest run of p-characters first, then shorter and shorter ones;
   k (consumed) (rest) *)
Fixpoint gscan (p : N -> bool) (k : pystr -> pystr -> rx_result) (s : pystr) : rx_result :=
  match s with
  | x :: t =>
      if p x then
        match gscan p (fun a b => k (x :: a) b) t with
        | RxNoMatch => k [] s
        | r => r
        end
      else k [] s
  | [] => k [] []
  end.

Lemma gscan_ext : forall p s k k', (forall a b, k a b = k' a b) -> gscan p k s = gscan p k' s.
Proof.
  induction s as [|x t IH]; intros k k' H; cbn [gscan].
  - apply H.
  - rewrite (IH (fun a b => k (x :: a) b) (fun a b => k' (x :: a) b)) by (intros; apply H).
    now rewrite H.
Qed.

Lemma span_ext : forall p q, (forall c, p c = q c) -> forall s, span p s = span q s.
Proof. intros p q H; induction s as [|x t IH]; cbn [span]; [reflexivity|]. now rewrite H, IH. Qed.

Lemma gscan_pred_ext : forall p q, (forall c, p c = q c) -> forall s k, gscan p k s = gscan q k s.
Proof.
  intros p q H; induction s as [|x t IH]; intro k; cbn [gscan]; [reflexivity|].
  now rewrite H, IH.
Qed.

(* no backtracking when the continuation cannot start with a p-character *)
Lemma gscan_det : forall p s k,
  (forall a c t, p c = true -> k a (c :: t) = RxNoMatch) ->
  gscan p k s = k (fst (span p s)) (snd (span p s)).
Proof.
  induction s as [|x t IH]; intros k H; cbn [gscan span]; [reflexivity|].
  destruct (p x) eqn:Px; [|reflexivity].
  rewrite IH by (intros; now apply H).
  destruct (span p t) as [a b]; cbn [fst snd].
  rewrite (H [] x t Px). now destruct (k (x :: a) b).
Qed.

Lemma firstn_pre : forall (a b : pystr), firstn (length (a ++ b) - length b) (a ++ b) = a.
Proof.
  intros a b. rewrite app_length.
  replace (length a + length b - length b)%nat with (length a + 0)%nat by lia.
  rewrite firstn_app_2. cbn. apply app_nil_r.
Qed.

Definition is_cc (body : pystr -> caps -> kont -> rx_result) (p : N -> bool) : Prop :=
  forall s c k, body s c k = char_body p s c k.

Lemma star_group_gen : forall body p, is_cc body p ->
  forall i (k : kont) s0 s pre fuel c, s0 = pre ++ s -> (length s < fuel)%nat ->
  star_loop body true (fun s' c' => k s' (cap_set i (firstn (length s0 - length s') s0) c')) fuel s c
  = gscan p (fun a b => k b (cap_set i (pre ++ a) c)) s.
Proof.
  intros body p Hb i k s0.
  induction s as [|x t IH]; intros pre fuel c E L; (destruct fuel as [|f]; [inversion L|]);
    cbn [star_loop gscan]; rewrite Hb; cbn [char_body].
  - subst s0. now rewrite firstn_pre, app_nil_r.
  - assert (Ef : firstn (length s0 - length (x :: t)) s0 = pre) by (subst s0; apply firstn_pre).
    destruct (p x) eqn:Px.
    + assert (Lt : Nat.ltb (length t) (length (x :: t)) = true) by (apply Nat.ltb_lt; cbn; lia).
      rewrite Lt.
      rewrite (IH (pre ++ [x]) f c) by (cbn in L; first [now rewrite <- app_assoc | lia]).
      rewrite (gscan_ext p t (fun a b => k b (cap_set i ((pre ++ [x]) ++ a) c))
                             (fun a b => k b (cap_set i (pre ++ x :: a) c)))
        by (intros; now rewrite <- app_assoc).
      now rewrite Ef, app_nil_r.
    + now rewrite Ef, app_nil_r.
Qed.

(* ( cc* ) followed by k *)
Lemma m_group_star : forall r p n, is_cc (rx_m r n) p ->
  forall i s c k,
  rx_m (RGroup i (RStar true r)) n s c k = gscan p (fun a b => k b (cap_set i a c)) s.
Proof.
  intros r p n H i s c k. cbn [rx_m].
  now rewrite (star_group_gen _ p H i k s s [] (S (length s)) c eq_refl (Nat.lt_succ_diag_r _)).
Qed.

(* ( cc+ ) followed by k *)
Lemma m_group_plus : forall r p n, is_cc (rx_m r n) p ->
  forall i s c k,
  rx_m (RGroup i (RPlus true r)) n s c k =
  match s with
  | x :: t => if p x then gscan p (fun a b => k b (cap_set i (x :: a) c)) t else RxNoMatch
  | [] => RxNoMatch
  end.
Proof.
  intros r p n H i s c k. cbn [rx_m]. rewrite H. destruct s as [|x t]; cbn [char_body]; [reflexivity|].
  destruct (p x); [|reflexivity].
  now rewrite (star_group_gen _ p H i k (x :: t) t [x] (S (length t)) c eq_refl (Nat.lt_succ_diag_r _)).
Qed.

Lemma cc_any : forall n, is_cc (rx_m RAny n) rx_dot.
Proof. intros n s c k. reflexivity. Qed.
Lemma cc_set : forall neg items n, is_cc (rx_m (RSet neg items) n) (set_mem neg items).
Proof. intros neg items n s c k. reflexivity. Qed.

(* ================================================================ 2. the hand-written parsers *)

Lemma rx_dot_nl : forall x, rx_dot x = negb (is_nl x).
Proof. reflexivity. Qed.

Lemma dollar_cons : forall x t, is_nl x = false ->
  dollar_line (x :: t) = option_map (cons x) (dollar_line t).
Proof.
  intros x t Hx. unfold dollar_line. destruct t as [|y t'].
  - cbn. rewrite Hx. cbn. now rewrite Hx.
  - change (strip_final_nl (x :: y :: t')) with (x :: strip_final_nl (y :: t')).
    cbn [no_nl forallb]. rewrite Hx. cbn [negb andb].
    fold (no_nl (strip_final_nl (y :: t'))).
    now destruct (no_nl (strip_final_nl (y :: t'))).
Qed.

Lemma dollar_nl : forall x t, is_nl x = true ->
  dollar_line (x :: t) = match t with [] => Some [] | _ => None end.
Proof.
  intros x t Hx. unfold dollar_line. destruct t as [|y t'].
  - cbn. now rewrite Hx.
  - change (strip_final_nl (x :: y :: t')) with (x :: strip_final_nl (y :: t')).
    cbn [no_nl forallb]. now rewrite Hx.
Qed.

(* ANY* followed by $ : what the maximal newline-free run leaves must be "" or "\n" *)
Lemma dollar_span : forall s,
  dollar_line s =
  match snd (span rx_dot s) with
  | [] => Some (fst (span rx_dot s))
  | [x] => if x =? 10 then Some (fst (span rx_dot s)) else None
  | _ => None
  end.
Proof.
  induction s as [|x t IH]; [reflexivity|].
  cbn [span]. rewrite rx_dot_nl. destruct (is_nl x) eqn:Hx; cbn [negb].
  - rewrite (dollar_nl x t Hx). cbn [fst snd]. unfold is_nl in Hx. destruct t; [now rewrite Hx | reflexivity].
  - rewrite (dollar_cons x t Hx), IH. destruct (span rx_dot t) as [a b]; cbn [fst snd].
    destruct b as [|y [|z b']]; cbn [option_map]; try reflexivity. now destruct (y =? 10).
Qed.

Lemma no_nl_app : forall a b, no_nl (a ++ b) = no_nl a && no_nl b.
Proof. intros. unfold no_nl. apply forallb_app. Qed.

Lemma dollar_app : forall a b, no_nl a = true ->
  dollar_line (a ++ b) = option_map (app a) (dollar_line b).
Proof.
  induction a as [|x a IH]; intros b H.
  - cbn. now destruct (dollar_line b).
  - cbn in H. apply andb_true_iff in H as [Hx Ha]. apply negb_true_iff in Hx.
    cbn [app]. rewrite (dollar_cons x _ Hx), (IH b Ha). now destruct (dollar_line b).
Qed.

Lemma strip_prefix_app : forall sep s t, strip_prefix sep s = Some t -> s = sep ++ t.
Proof.
  induction sep as [|p sep IH]; intros s t H; cbn in H.
  - now inversion H.
  - destruct s as [|c s]; [discriminate|]. destruct (p =? c) eqn:E; [|discriminate].
    apply N.eqb_eq in E. subst c. cbn. f_equal. now apply IH.
Qed.

(* a newline-free separator at the head of s is at the head of its line *)
Lemma prefix_line : forall sep, no_nl sep = true -> forall s line, dollar_line s = Some line ->
  match strip_prefix sep s with
  | Some t' => exists b, strip_prefix sep line = Some b /\ dollar_line t' = Some b
  | None => strip_prefix sep line = None
  end.
Proof.
  induction sep as [|p sep IH]; intros Hs s line H.
  - cbn. eauto.
  - cbn in Hs. apply andb_true_iff in Hs as [Hp Hsep]. apply negb_true_iff in Hp.
    destruct s as [|x t].
    + cbn in H. inversion H. reflexivity.
    + destruct (is_nl x) eqn:Hx.
      * rewrite (dollar_nl x t Hx) in H. destruct t; [|discriminate]. inversion H; subst line.
        cbn. destruct (p =? x) eqn:E; [|reflexivity].
        apply N.eqb_eq in E. subst x. congruence.
      * rewrite (dollar_cons x t Hx) in H. destruct (dollar_line t) as [l'|] eqn:D; [|discriminate].
        cbn in H. inversion H; subst line. cbn [strip_prefix].
        destruct (p =? x); [|reflexivity]. exact (IH Hsep t l' D).
Qed.

(* ================================================================ 3. pattern tails *)

(* ( ANY* ) $  with a final continuation that only looks at the captures *)
Lemma tail_dollar : forall i n s c (F : caps -> rx_result),
  rx_m (RSeq (RGroup i (RStar true RAny)) (RSeq REol REps)) n s c (fun _ c' => F c') =
  match dollar_line s with Some g => F (cap_set i g c) | None => RxNoMatch end.
Proof.
  intros i n s c F. change (rx_m (RSeq ?a ?b) n s c ?k) with (rx_m a n s c (fun s' c' => rx_m b n s' c' k)).
  rewrite (m_group_star RAny rx_dot n (cc_any n)).
  rewrite gscan_det.
  - rewrite dollar_span. destruct (snd (span rx_dot s)) as [|y [|z b']]; cbn; try reflexivity.
    now destruct (y =? 10).
  - intros a x t Hx. cbn. destruct t; [|reflexivity].
    unfold rx_dot in Hx. apply negb_true_iff in Hx. now rewrite Hx.
Qed.

(* ^ ( fieldclass+ ) tail : the maximal run, when the tail cannot start with a class character *)
Lemma head_field : forall neg items, (forall c, set_mem neg items c = is_fieldch c) ->
  forall tail m k,
  (forall x t cp, is_fieldch x = true -> rx_m tail (length m) (x :: t) cp k = RxNoMatch) ->
  rx_m (RSeq RBol (RSeq (RGroup 1 (RPlus true (RSet neg items))) tail)) (length m) m [] k =
  match span is_fieldch m with
  | ([], _) => RxNoMatch
  | (w, r) => rx_m tail (length m) r (cap_set 1 w []) k
  end.
Proof.
  intros neg items Hset tail m k Hk.
  change (rx_m (RSeq RBol ?b) (length m) m [] k) with
    (if Nat.eqb (length m) (length m) then rx_m b (length m) m [] k else RxNoMatch).
  rewrite Nat.eqb_refl.
  change (rx_m (RSeq ?a ?b) (length m) m [] k) with
    (rx_m a (length m) m [] (fun s' c' => rx_m b (length m) s' c' k)).
  rewrite (m_group_plus _ _ _ (cc_set neg items (length m))).
  destruct m as [|x t]; [reflexivity|].
  cbn [span]. rewrite Hset. destruct (is_fieldch x) eqn:Fx; [|reflexivity].
  rewrite (gscan_pred_ext _ _ Hset).
  rewrite gscan_det by (intros a y u Hy; now apply Hk).
  now destruct (span is_fieldch t) as [a b].
Qed.

(* character-class equalities  forall c, set_mem neg items c = P c  by arithmetic *)
Ltac class_tac :=
  let c := fresh "c" in
  intro c;
  unfold set_mem, is_fieldch, is_ws, not_semi, is_nl, in_range, rx_space, rx_between, rx_dot;
  cbn [existsb item_mem];
  unfold rx_space, rx_between;
  rewrite ?xorb_false_l, ?xorb_true_l, ?orb_false_r;
  apply Bool.eq_iff_eq_true;
  repeat (rewrite ?orb_true_iff, ?andb_true_iff, ?negb_true_iff, ?orb_false_iff, ?andb_false_iff,
            ?negb_false_iff, ?N.leb_le, ?N.leb_gt, ?N.eqb_eq, ?N.eqb_neq);
  lia.

(* ---------------------------------------------------------------- pattern 3 *)

Definition hand3 (F : caps -> rx_result) (m : pystr) : rx_result :=
  match take_field m with
  | Some (f, r) => match p3 r with
                   | Some p => F (cap_set 2 p (cap_set 1 f []))
                   | None => RxNoMatch
                   end
  | None => RxNoMatch
  end.

Lemma take_field_span : forall m,
  take_field m =
  match span is_fieldch m with
  | ((_ :: _) as w, c :: r') => if c =? 58 then Some (w, r') else None
  | _ => None
  end.
Proof. intro m. unfold take_field. now destruct (span is_fieldch m) as [[|x w] [|c r]]. Qed.

Lemma fieldch_not_colon : forall x, is_fieldch x = true -> (x =? 58) = false.
Proof.
  intros x H. destruct (x =? 58) eqn:E; [|reflexivity]. apply N.eqb_eq in E. subst x. discriminate.
Qed.

Lemma shape3_gen : forall neg1 items1 neg2 items2,
  (forall c, set_mem neg1 items1 c = is_fieldch c) ->
  (forall c, set_mem neg2 items2 c = is_ws c) ->
  forall F m,
  rx_m (rcat [RBol; RGroup 1 (RPlus true (RSet neg1 items1)); RChar 58; RSet neg2 items2;
              RGroup 2 (RStar true RAny); REol]) (length m) m [] (fun _ c => F c) = hand3 F m.
Proof.
  intros neg1 items1 neg2 items2 H1 H2 F m. cbn [rcat fold_right].
  rewrite (head_field neg1 items1 H1).
  - unfold hand3. rewrite take_field_span.
    destruct (span is_fieldch m) as [[|x w] r]; [reflexivity|].
    change (rx_m (RSeq (RChar 58) ?b) ?n r ?c ?k) with (char_body (fun y => y =? 58) r c (fun s' c' => rx_m b n s' c' k)).
    destruct r as [|y r']; cbn [char_body]; [reflexivity|].
    destruct (y =? 58); [|reflexivity].
    change (rx_m (RSeq (RSet neg2 items2) ?b) ?n r' ?c ?k) with
      (char_body (set_mem neg2 items2) r' c (fun s' c' => rx_m b n s' c' k)).
    unfold p3. destruct r' as [|z r1]; cbn [char_body]; [reflexivity|].
    rewrite H2. destruct (is_ws z); [|reflexivity].
    rewrite tail_dollar. now destruct (dollar_line r1).
  - intros x t cp Hx. cbn. now rewrite (fieldch_not_colon x Hx).
Qed.

Theorem regex_pattern3 : forall m,
  re_match pat_validation_3 m =
  match take_field m with
  | Some (f, r) => match p3 r with
                   | Some p => RxMatch [Some f; Some p]
                   | None => RxNoMatch
                   end
  | None => RxNoMatch
  end.
Proof.
  intro m. unfold re_match, pat_validation_3.
  refine (eq_trans (shape3_gen _ _ _ _ _ _ _ m) _); [class_tac | class_tac |].
  unfold hand3. destruct (take_field m) as [[f r]|]; [|reflexivity]. now destruct (p3 r).
Qed.

(* ---------------------------------------------------------------- stepping through a sequence *)

Lemma m_seq : forall a b n s c k,
  rx_m (RSeq a b) n s c k = rx_m a n s c (fun s' c' => rx_m b n s' c' k).
Proof. reflexivity. Qed.

Lemma m_seq_str : forall l b n s c k,
  rx_m (RSeq (RStr l) b) n s c k =
  match strip_prefix l s with Some t => rx_m b n t c k | None => RxNoMatch end.
Proof. intros. cbn [rx_m]. now rewrite str_prefix_eq. Qed.

Lemma m_seq_char : forall x b n s c k,
  rx_m (RSeq (RChar x) b) n s c k =
  match s with y :: t => if y =? x then rx_m b n t c k else RxNoMatch | [] => RxNoMatch end.
Proof. reflexivity. Qed.

Lemma m_seq_set : forall neg items b n s c k,
  rx_m (RSeq (RSet neg items) b) n s c k =
  match s with y :: t => if set_mem neg items y then rx_m b n t c k else RxNoMatch | [] => RxNoMatch end.
Proof. reflexivity. Qed.

Lemma m_seq_bol : forall b m c k,
  rx_m (RSeq RBol b) (length m) m c k = rx_m b (length m) m c k.
Proof. intros. cbn [rx_m]. now rewrite Nat.eqb_refl. Qed.

(* ---------------------------------------------------------------- pattern 1 *)

Definition hand1 (F : caps -> rx_result) (m : pystr) : rx_result :=
  match take_field m with
  | Some (f, r) => match p1 r with
                   | Some (v, p) => F (cap_set 3 p (cap_set 2 v (cap_set 1 f [])))
                   | None => RxNoMatch
                   end
  | None => RxNoMatch
  end.

Lemma shape1_gen : forall neg1 items1 l1 neg2 items2 l2,
  (forall c, set_mem neg1 items1 c = is_fieldch c) ->
  l1 = 58 :: SP_GOT_SP ->
  (forall c, set_mem neg2 items2 c = not_semi c) ->
  l2 = 59 :: [32] ->
  forall F m,
  rx_m (rcat [RBol; RGroup 1 (RPlus true (RSet neg1 items1)); RStr l1;
              RGroup 2 (RStar true (RSet neg2 items2)); RStr l2;
              RGroup 3 (RStar true RAny); REol]) (length m) m [] (fun _ c => F c) = hand1 F m.
Proof.
  intros neg1 items1 l1 neg2 items2 l2 H1 E1 H2 E2 F m. subst l1 l2. cbn [rcat fold_right].
  rewrite (head_field neg1 items1 H1).
  - unfold hand1. rewrite take_field_span.
    destruct (span is_fieldch m) as [[|x w] r]; [reflexivity|].
    rewrite m_seq_str. cbn [strip_prefix]. destruct r as [|y r']; [reflexivity|].
    rewrite (N.eqb_sym 58 y). destruct (y =? 58); [|reflexivity].
    unfold p1. destruct (strip_prefix SP_GOT_SP r') as [r1|]; [|reflexivity].
    rewrite m_seq, (m_group_star _ _ _ (cc_set neg2 items2 (length m))), (gscan_pred_ext _ _ H2).
    rewrite gscan_det.
    + destruct (span not_semi r1) as [v r2]; cbn [fst snd]. rewrite m_seq_str.
      change (59 :: [32]) with SEMI_SP.
      destruct (strip_prefix SEMI_SP r2) as [r3|]; [|reflexivity].
      rewrite tail_dollar. now destruct (dollar_line r3).
    + intros a z u Hz. rewrite m_seq_str. cbn [strip_prefix].
      unfold not_semi in Hz. apply negb_true_iff in Hz. now rewrite (N.eqb_sym 59 z), Hz.
  - intros x t cp Hx. rewrite m_seq_str. cbn [strip_prefix].
    now rewrite (N.eqb_sym 58 x), (fieldch_not_colon x Hx).
Qed.

Theorem regex_pattern1 : forall m,
  re_match pat_validation_1 m =
  match take_field m with
  | Some (f, r) => match p1 r with
                   | Some (v, p) => RxMatch [Some f; Some v; Some p]
                   | None => RxNoMatch
                   end
  | None => RxNoMatch
  end.
Proof.
  intro m. unfold re_match, pat_validation_1.
  refine (eq_trans (shape1_gen _ _ _ _ _ _ _ _ _ _ _ m) _);
    [class_tac | reflexivity | class_tac | reflexivity |].
  unfold hand1. destruct (take_field m) as [[f r]|]; [|reflexivity]. now destruct (p1 r) as [[v p]|].
Qed.

(* ---------------------------------------------------------------- pattern 2 *)

(* ( ANY* ) sep ( ANY* ) $  =  the line, split at the LAST sep *)
Lemma p2_core : forall q sep', no_nl (q :: sep') = true ->
  forall s (F : pystr -> pystr -> rx_result), (forall a g, F a g <> RxNoMatch) ->
  gscan rx_dot (fun a b => match strip_prefix (q :: sep') b with
                           | Some t => match dollar_line t with Some g => F a g | None => RxNoMatch end
                           | None => RxNoMatch
                           end) s
  = match dollar_line s with
    | Some line => match split_last (q :: sep') line with
                   | Some (a, b) => F a b
                   | None => RxNoMatch
                   end
    | None => RxNoMatch
    end.
Proof.
  intros q sep' Hs. assert (Hs' := Hs). cbn in Hs'. apply andb_true_iff in Hs' as [Hq Hsep'].
  apply negb_true_iff in Hq.
  induction s as [|x t IH]; intros F HF.
  - reflexivity.
  - cbn [gscan]. rewrite rx_dot_nl. destruct (is_nl x) eqn:Hx; cbn [negb].
    + rewrite (dollar_nl x t Hx). cbn [strip_prefix].
      destruct (q =? x) eqn:E; [apply N.eqb_eq in E; subst x; congruence|].
      now destruct t.
    + rewrite (IH (fun a g => F (x :: a) g)) by (intros; apply HF).
      rewrite (dollar_cons x t Hx). destruct (dollar_line t) as [line|] eqn:D; cbn [option_map].
      * cbn [split_last]. destruct (split_last (q :: sep') line) as [[a b]|].
        -- destruct (F (x :: a) b) eqn:EF; [exfalso; eapply HF; eauto | reflexivity | reflexivity].
        -- pose proof (prefix_line (q :: sep') Hs (x :: t) (x :: line)) as PL.
           rewrite (dollar_cons x t Hx), D in PL. specialize (PL eq_refl).
           destruct (strip_prefix (q :: sep') (x :: t)) as [t'|].
           ++ destruct PL as [b [P1 P2]]. now rewrite P1, P2.
           ++ now rewrite PL.
      * destruct (strip_prefix (q :: sep') (x :: t)) as [t'|] eqn:SP; [|reflexivity].
        apply strip_prefix_app in SP. cbn in SP. inversion SP; subst.
        rewrite (dollar_app sep' t' Hsep') in D. now destruct (dollar_line t').
Qed.

Definition hand2 (F : caps -> rx_result) (m : pystr) : rx_result :=
  match take_field m with
  | Some (f, r) => match p2 r with
                   | Some (p, v) => F (cap_set 3 v (cap_set 2 p (cap_set 1 f [])))
                   | None => RxNoMatch
                   end
  | None => RxNoMatch
  end.

Lemma shape2_gen : forall neg1 items1 neg2 items2 l3,
  (forall c, set_mem neg1 items1 c = is_fieldch c) ->
  (forall c, set_mem neg2 items2 c = is_ws c) ->
  l3 = 59 :: [32; 71; 111; 116; 32] ->
  forall F, (forall c, F c <> RxNoMatch) -> forall m,
  rx_m (rcat [RBol; RGroup 1 (RPlus true (RSet neg1 items1)); RChar 58; RSet neg2 items2;
              RGroup 2 (RStar true RAny); RStr l3;
              RGroup 3 (RStar true RAny); REol]) (length m) m [] (fun _ c => F c) = hand2 F m.
Proof.
  intros neg1 items1 neg2 items2 l3 H1 H2 E3 F HF m. subst l3. cbn [rcat fold_right].
  rewrite (head_field neg1 items1 H1).
  - unfold hand2. rewrite take_field_span.
    destruct (span is_fieldch m) as [[|x w] r]; [reflexivity|].
    rewrite m_seq_char. destruct r as [|y r']; [reflexivity|].
    destruct (y =? 58); [|reflexivity].
    rewrite m_seq_set. unfold p2. destruct r' as [|z r1]; [reflexivity|].
    rewrite H2. destruct (is_ws z); [|reflexivity].
    rewrite m_seq, (m_group_star _ _ _ (cc_any (length m))).
    rewrite (gscan_ext rx_dot r1 _
               (fun a b => match strip_prefix (59 :: [32; 71; 111; 116; 32]) b with
                           | Some t => match dollar_line t with
                                       | Some g => F (cap_set 3 g (cap_set 2 a (cap_set 1 (x :: w) [])))
                                       | None => RxNoMatch
                                       end
                           | None => RxNoMatch
                           end)).
    + rewrite (p2_core 59 [32; 71; 111; 116; 32] eq_refl r1
                 (fun a g => F (cap_set 3 g (cap_set 2 a (cap_set 1 (x :: w) []))))) by (intros; apply HF).
      change (59 :: [32; 71; 111; 116; 32]) with SEMI_GOT.
      destruct (dollar_line r1) as [line|]; [|reflexivity].
      now destruct (split_last SEMI_GOT line) as [[a b]|].
    + intros a b. rewrite m_seq_str.
      destruct (strip_prefix (59 :: [32; 71; 111; 116; 32]) b) as [t|]; [|reflexivity].
      apply tail_dollar.
  - intros x t cp Hx. rewrite m_seq_char. now rewrite (fieldch_not_colon x Hx).
Qed.

Theorem regex_pattern2 : forall m,
  re_match pat_validation_2 m =
  match take_field m with
  | Some (f, r) => match p2 r with
                   | Some (p, v) => RxMatch [Some f; Some p; Some v]
                   | None => RxNoMatch
                   end
  | None => RxNoMatch
  end.
Proof.
  intro m. unfold re_match, pat_validation_2.
  refine (eq_trans (shape2_gen _ _ _ _ _ _ _ _ _ _ m) _);
    [class_tac | class_tac | reflexivity | discriminate |].
  unfold hand2. destruct (take_field m) as [[f r]|]; [|reflexivity]. now destruct (p2 r) as [[p v]|].
Qed.

(* ---------------------------------------------------------------- _expected_class_pattern *)

Definition eol (t : pystr) : bool :=
  match t with [] => true | [x] => x =? 10 | _ => false end.

Lemma m_eol : forall n t c (F : caps -> rx_result),
  rx_m (RSeq REol REps) n t c (fun _ c' => F c') = if eol t then F c else RxNoMatch.
Proof. intros n [|x [|y t]] c F; cbn; try reflexivity. Qed.

Lemma eol_sfn : forall t, eol t = true -> strip_final_nl t = [].
Proof.
  intros [|x [|y t]] H; cbn in *; try reflexivity; try discriminate.
  unfold is_nl. now rewrite H.
Qed.

Lemma sfn_cons2 : forall c d t, strip_final_nl (c :: d :: t) = c :: strip_final_nl (d :: t).
Proof. reflexivity. Qed.

Lemma dl2_cons3 : forall c d e t,
  drop_last2 (c :: d :: e :: t) =
  match drop_last2 (d :: e :: t) with Some (i, l) => Some (c :: i, l) | None => None end.
Proof. reflexivity. Qed.

Lemma sfn_nil : forall e u, strip_final_nl (e :: u) = [] -> u = [] /\ e = 10.
Proof.
  intros e [|f u] H.
  - cbn in H. unfold is_nl in H. destruct (e =? 10) eqn:E; [|discriminate].
    apply N.eqb_eq in E. now split.
  - rewrite sfn_cons2 in H. discriminate.
Qed.

Ltac nomatch_F HF :=
  match goal with
  | |- context [match ?F ?a with RxNoMatch => _ | RxMatch _ => _ | RxOutOfFuel => _ end] =>
      let E := fresh "EF" in
      destruct (F a) eqn:E; [exfalso; eapply HF; exact E | |]
  end.

(* ( ANY* ) '> $   =  drop one final newline, the last two characters are '> , the rest has no newline *)
Lemma class_core : forall x (F : pystr -> rx_result), (forall a, F a <> RxNoMatch) ->
  gscan rx_dot (fun a b => match strip_prefix [39; 62] b with
                           | Some t => if eol t then F a else RxNoMatch
                           | None => RxNoMatch
                           end) x
  = match drop_last2 (strip_final_nl x) with
    | Some (cn, l) => if pystr_eqb l [39; 62] && no_nl cn then F cn else RxNoMatch
    | None => RxNoMatch
    end.
Proof.
  induction x as [|c t IH]; intros F HF; [reflexivity|].
  cbn [gscan]. rewrite (IH (fun a => F (c :: a))) by (intros; apply HF).
  destruct t as [|d [|e u]].
  - (* one character *)
    cbn -[N.eqb]. unfold rx_dot, is_nl. destruct (c =? 10); destruct (39 =? c); reflexivity.
  - (* two characters *)
    cbn -[N.eqb]. unfold rx_dot, is_nl.
    rewrite (N.eqb_sym 39 c), (N.eqb_sym 62 d).
    destruct (d =? 10) eqn:Ed.
    + apply N.eqb_eq in Ed. subst d. cbn -[N.eqb]. destruct (c =? 10); destruct (c =? 39); reflexivity.
    + cbn -[N.eqb]. destruct (c =? 39) eqn:Ec; destruct (d =? 62) eqn:Ed2; cbn -[N.eqb];
        destruct (c =? 10) eqn:Ec10; cbn -[N.eqb]; try reflexivity.
  - (* three or more *)
    rewrite !sfn_cons2.
    destruct (strip_final_nl (e :: u)) as [|w1 W] eqn:EW.
    + apply sfn_nil in EW as [Eu Ee]. subst u e.
      cbn -[N.eqb]. rewrite (N.eqb_sym 39 c), (N.eqb_sym 62 d).
      destruct (rx_dot c); destruct (c =? 39); destruct (d =? 62); reflexivity.
    + rewrite dl2_cons3.
      assert (HK : forall a, match strip_prefix [39; 62] (c :: d :: e :: u) with
                             | Some t => if eol t then F a else RxNoMatch
                             | None => RxNoMatch
                             end = RxNoMatch).
      { intro a. cbn [strip_prefix]. destruct (39 =? c); [|reflexivity]. destruct (62 =? d); [|reflexivity].
        destruct (eol (e :: u)) eqn:EE; [|reflexivity]. apply eol_sfn in EE. congruence. }
      rewrite HK.
      destruct (drop_last2 (d :: w1 :: W)) as [[i l]|].
      * cbn [no_nl forallb]. fold (no_nl i). rewrite <- rx_dot_nl.
        destruct (rx_dot c); destruct (pystr_eqb l [39; 62]); destruct (no_nl i); cbn [andb];
          try reflexivity.
        now destruct (F (c :: i)).
      * now destruct (rx_dot c).
Qed.

Definition hand_class (F : caps -> rx_result) (p : pystr) : rx_result :=
  match class_of_expected p with
  | Some cn => F (cap_set 1 cn [])
  | None => RxNoMatch
  end.

Lemma shape_class_gen : forall l1 neg items l2 l3,
  l1 = s2p "Expected" ->
  (forall c, set_mem neg items c = is_ws c) ->
  l2 = s2p "<class '" ->
  l3 = [39; 62] ->
  forall F, (forall c, F c <> RxNoMatch) -> forall m,
  rx_m (rcat [RBol; RStr l1; RSet neg items; RStr l2; RGroup 1 (RStar true RAny); RStr l3; REol])
       (length m) m [] (fun _ c => F c) = hand_class F m.
Proof.
  intros l1 neg items l2 l3 E1 Hws E2 E3 F HF m. subst l1 l2 l3. cbn [rcat fold_right].
  rewrite m_seq_bol, m_seq_str. unfold hand_class, class_of_expected.
  destruct (strip_prefix (s2p "Expected") m) as [[|y r]|]; try reflexivity.
  rewrite m_seq_set, Hws. destruct (is_ws y); [|reflexivity].
  rewrite m_seq_str. destruct (strip_prefix (s2p "<class '") r) as [x|]; [|reflexivity].
  rewrite m_seq, (m_group_star _ _ _ (cc_any (length m))).
  rewrite (gscan_ext rx_dot x _
             (fun a b => match strip_prefix [39; 62] b with
                         | Some t => if eol t then F (cap_set 1 a []) else RxNoMatch
                         | None => RxNoMatch
                         end)).
  - rewrite (class_core x (fun a => F (cap_set 1 a []))) by (intros; apply HF).
    change (s2p "'>") with [39; 62].
    destruct (drop_last2 (strip_final_nl x)) as [[cn l]|]; [|reflexivity].
    now destruct (pystr_eqb l [39; 62] && no_nl cn).
  - intros a b. rewrite m_seq_str. destruct (strip_prefix [39; 62] b) as [t|]; [|reflexivity].
    apply m_eol.
Qed.

Theorem regex_expected_class : forall p,
  re_match pat_expected_class p =
  match class_of_expected p with
  | Some cn => RxMatch [Some cn]
  | None => RxNoMatch
  end.
Proof.
  intro p. unfold re_match, pat_expected_class.
  refine (eq_trans (shape_class_gen _ _ _ _ _ _ _ _ _ _ _ p) _);
    [reflexivity | class_tac | reflexivity | reflexivity | discriminate |].
  unfold hand_class. now destruct (class_of_expected p).
Qed.

Theorem regex_display_table : display_type_by_type_src = display_type_by_type.
Proof. reflexivity. Qed.

(* ---------------------------------------------------------------- the fuel is never exhausted *)

Theorem regex_patterns_total : forall m,
  re_match pat_validation_1 m <> RxOutOfFuel /\ re_match pat_validation_2 m <> RxOutOfFuel /\
  re_match pat_validation_3 m <> RxOutOfFuel /\ re_match pat_expected_class m <> RxOutOfFuel.
Proof.
  intro m. rewrite regex_pattern1, regex_pattern2, regex_pattern3, regex_expected_class.
  destruct (take_field m) as [[f r]|]; [|destruct (class_of_expected m); repeat split; discriminate].
  destruct (p1 r) as [[v p]|]; destruct (p2 r) as [[p' v']|]; destruct (p3 r); destruct (class_of_expected m);
    repeat split; discriminate.
Qed.

(* ---------------------------------------------------------------- errors.py as it is written *)

(* _transform_class_to_readable, through the generated pattern and the generated table *)
Definition transform_class_re (p : pystr) : problem :=
  match re_match pat_expected_class p with
  | RxMatch [Some cn] =>
      match alist_get display_type_by_type_src cn with
      | Some d => PText (s2p "Expected " ++ d)
      | None => PMatchRepr
      end
  | _ => PText p
  end.

(* _standard_readable_error_for_typedpy_exception_internal: three `match` attempts in order *)
Definition parse_msg_re (collect : bool) (m : pystr) : error_info :=
  let expand p := match p with
                  | PMatchRepr => PMatchRepr
                  | _ => try_expand collect p
                  end in
  match re_match pat_validation_1 m with
  | RxMatch [Some f; Some v; Some p] =>
      {| ei_field := Some f; ei_value := Some v; ei_problem := expand (transform_class_re p) |}
  | _ =>
      match re_match pat_validation_2 m with
      | RxMatch [Some f; Some p; Some v] =>
          {| ei_field := Some f; ei_value := Some v; ei_problem := expand (transform_class_re p) |}
      | _ =>
          match re_match pat_validation_3 m with
          | RxMatch [Some f; Some p] =>
              {| ei_field := Some f; ei_value := None; ei_problem := expand (transform_class_re p) |}
          | _ => {| ei_field := None; ei_value := None; ei_problem := PText m |}
          end
      end
  end.

Lemma regex_transform_class : forall p, transform_class_re p = transform_class p.
Proof.
  intro p. unfold transform_class_re, transform_class.
  rewrite regex_expected_class, regex_display_table. now destruct (class_of_expected p).
Qed.

Theorem regex_parse_msg : forall collect m, parse_msg_re collect m = parse_msg collect m.
Proof.
  intros collect m. unfold parse_msg_re, parse_msg.
  rewrite regex_pattern1, regex_pattern2, regex_pattern3.
  destruct (take_field m) as [[f r]|]; [|reflexivity].
  destruct (p1 r) as [[v p]|]; [now rewrite regex_transform_class|].
  destruct (p2 r) as [[p v]|]; [now rewrite regex_transform_class|].
  destruct (p3 r) as [p|]; [now rewrite regex_transform_class|reflexivity].
Qed.

(* the hypotheses are satisfiable / the statements are not vacuous *)
Example regex_pattern1_ex :
  re_match pat_validation_1 (s2p "Foo.a: Got 'x;y'; Expected <class 'int'>") = RxNoMatch /\
  re_match pat_validation_1 (s2p "Foo.a: Got 'xy'; Expected <class 'int'>") =
    RxMatch [Some (s2p "Foo.a"); Some (s2p "'xy'"); Some (s2p "Expected <class 'int'>")] /\
  re_match pat_validation_2 (s2p "a: x; Got 1; Got 2") =
    RxMatch [Some (s2p "a"); Some (s2p "x; Got 1"); Some (s2p "2")] /\
  re_match pat_expected_class (s2p "Expected <class 'a'>'>") = RxMatch [Some (s2p "a'>")].
Proof. vm_compute. repeat split; reflexivity. Qed.

Print Assumptions regex_pattern1.
Print Assumptions regex_pattern2.
Print Assumptions regex_pattern3.
Print Assumptions regex_expected_class.
Print Assumptions regex_display_table.
Print Assumptions regex_patterns_total.
Print Assumptions regex_parse_msg.
