(* C18: soundness of the class analysis of Errors/Guard.v.
     gsafe env p = true  ->  for every field object and every tuple of values described by env,
                             running p never ends in [Bare _]: no guard raises by itself.
   and the raise statements a run can end in are those listed by [sites]. *)
From Coq Require Import ZArith QArith NArith List String Bool Lia. Import ListNotations.
From TP Require Import Base.PyVal Base.PyOps Fields.SetChain Errors.Guard.
Local Open Scope list_scope.

Ltac dval v := destruct v as [|?b|?n|?s|?l|?l|?l|?f ?l|?kv|?cl ?nm ?x|?cl ?ats|?t ?r].
Ltac dnum n := destruct n as [?z|?m ?e|?m ?e].

(* ------------------------------------------------------------------ classes *)

Lemma acls_any_ex : forall l v, acls_any l v = true <-> exists c, In c l /\ acls_has c v = true.
Proof. intros l v. unfold acls_any. rewrite existsb_exists. reflexivity. Qed.

Lemma all_of_has : forall p a v,
    all_of p a = true -> absv_has a v = true -> exists c, p c = true /\ acls_has c v = true.
Proof.
  intros p [l|] v H Hv; [|discriminate H]. cbn [all_of absv_has] in *.
  rewrite forallb_forall in H. apply acls_any_ex in Hv as (c & Hin & Hc). eauto.
Qed.

Lemma pyclass_eqb_refl : forall k, pyclass_eqb k k = true.
Proof. destruct k; reflexivity. Qed.

Lemma kmem_in : forall k ks, In k ks -> kmem k ks = true.
Proof.
  intros k ks H. unfold kmem. apply existsb_exists. exists k. split; [assumption|apply pyclass_eqb_refl].
Qed.

Lemma isinstance_ex : forall v ks, py_isinstance v ks = true -> exists k, In k ks /\ isinstance1 v k = true.
Proof. intros v ks H. unfold py_isinstance in H. apply existsb_exists in H. exact H. Qed.

Lemma overlap_sound : forall c v ks,
    acls_has c v = true -> py_isinstance v ks = true -> overlap c ks = true.
Proof.
  intros c v ks Hc Hi. apply isinstance_ex in Hi as (k & Hin & Hk). apply kmem_in in Hin.
  destruct c as [k0| | | | | |]; [destruct k0|..]; dval v; try dnum n; try destruct b; try destruct f;
    cbn [acls_has isinstance1 is_enum_member] in Hc; try discriminate Hc;
    destruct k; cbn [isinstance1] in Hk; try discriminate Hk;
    cbn [overlap]; rewrite Hin; auto using orb_true_r.
Qed.

Lemma meet_sound : forall a ks v,
    absv_has a v = true -> py_isinstance v ks = true -> absv_has (absv_meet a ks) v = true.
Proof.
  intros [l|] ks v Ha Hi; cbn [absv_meet].
  - assert (Hk : acls_any (map AK ks) v = true).
    { unfold acls_any. rewrite existsb_exists. apply isinstance_ex in Hi as (k & Hin & Hk).
      exists (AK k). split; [apply in_map; assumption|exact Hk]. }
    destruct (forallb _ _); cbn [absv_has]; [|exact Hk].
    cbn [absv_has] in Ha. apply acls_any_ex in Ha as (c & Hin & Hc). apply acls_any_ex.
    exists c. split; [|exact Hc]. apply filter_In. split; [assumption|].
    eapply overlap_sound; eassumption.
  - cbn [absv_has]. unfold acls_any. rewrite existsb_exists. apply isinstance_ex in Hi as (k & Hin & Hk).
    exists (AK k). split; [apply in_map; assumption|exact Hk].
Qed.

Lemma numeric_sound : forall c v, numeric c = true -> acls_has c v = true -> exists n, as_num v = Some n.
Proof.
  intros c v Hp Hc.
  destruct c as [k0| | | | | |]; [destruct k0|..]; cbn [numeric] in Hp; try discriminate Hp;
    dval v; try dnum n; try destruct b; cbn [acls_has isinstance1] in Hc; try discriminate Hc;
    cbn [as_num]; eauto.
Qed.

Lemma hashable_sound : forall c v, hashable c = true -> acls_has c v = true -> py_hashable' v = true.
Proof.
  intros c v Hp Hc.
  destruct c as [k0| | | | | |]; [destruct k0|..]; cbn [hashable] in Hp; try discriminate Hp;
    dval v; try dnum n; try destruct b; try destruct f;
    cbn [acls_has isinstance1 is_enum_member] in Hc; try discriminate Hc; reflexivity.
Qed.

Lemma enum_seq_names : forall l, forallb is_enum_member l = true -> exists ns, mapM name_of l = Ok ns.
Proof.
  induction l as [|x l IH]; intro H; [exists []; reflexivity|].
  cbn [forallb] in H. apply andb_true_iff in H as [Hx Hl]. destruct (IH Hl) as (ns & Hns).
  destruct x; try discriminate Hx. cbn [mapM name_of bind]. rewrite Hns. cbn [bind]. eauto.
Qed.

Lemma enum_seq_any_is : forall x l, forallb is_enum_member l = true -> exists r, mapM (is_member_obj x) l = Ok r.
Proof.
  intros x. induction l as [|y l IH]; intro H; [exists []; reflexivity|].
  cbn [forallb] in H. apply andb_true_iff in H as [Hy Hl]. destruct (IH Hl) as (r & Hr).
  destruct y; try discriminate Hy. cbn [mapM is_member_obj bind]. rewrite Hr. cbn [bind]. eauto.
Qed.

Lemma sized_sound : forall c v, sized c = true -> acls_has c v = true -> exists z, py_len v = Ok (PNum (NInt z)).
Proof.
  intros c v Hp Hc.
  destruct c as [k0| | | | | |]; [destruct k0|..]; cbn [sized] in Hp; try discriminate Hp;
    dval v; try dnum n; try destruct b; try destruct f;
    cbn [acls_has isinstance1] in Hc; try discriminate Hc; cbn [py_len]; eauto.
Qed.

Lemma seq_like_sound : forall c v, seq_like c = true -> acls_has c v = true -> exists l, py_seq_items v = Ok l.
Proof.
  intros c v Hp Hc.
  destruct c as [k0| | | | | |]; [destruct k0|..]; cbn [seq_like] in Hp; try discriminate Hp;
    dval v; try dnum n; try destruct b; try destruct f;
    cbn [acls_has isinstance1] in Hc; try discriminate Hc; cbn [py_seq_items]; eauto.
Qed.

Lemma scanned_sound : forall c v x, scanned c = true -> acls_has c v = true -> exists b, py_in_container x v = Ok b.
Proof.
  intros c v x Hp Hc.
  destruct c as [k0| | | | | |]; [destruct k0|..]; cbn [scanned] in Hp; try discriminate Hp;
    dval v; try dnum n; try destruct b; try destruct f;
    cbn [acls_has isinstance1] in Hc; try discriminate Hc; cbn [py_in_container]; eauto.
Qed.

Lemma container_sound : forall c v x,
    (scanned c || hashing c) = true -> acls_has c v = true -> py_hashable' x = true ->
    exists b, py_in_container x v = Ok b.
Proof.
  intros c v x Hp Hc Hx.
  destruct c as [k0| | | | | |]; [destruct k0|..]; cbn [scanned hashing orb] in Hp; try discriminate Hp;
    dval v; try dnum n; try destruct b; try destruct f;
    cbn [acls_has isinstance1] in Hc; try discriminate Hc; cbn [py_in_container]; unfold py_in_set;
    rewrite ?Hx; cbn [orb]; eauto.
Qed.

Lemma is_str_sound : forall c v, is_str_cls c = true -> acls_has c v = true -> exists s, v = PStr s.
Proof.
  intros c v Hp Hc.
  destruct c as [k0| | | | | |]; [destruct k0|..]; cbn [is_str_cls] in Hp; try discriminate Hp.
  dval v; try dnum n; cbn [acls_has isinstance1] in Hc; try discriminate Hc; eauto.
Qed.

Lemma enum_seq_sound : forall c v, enum_seq c = true -> acls_has c v = true ->
    exists l, (v = PList l \/ v = PTuple l) /\ forallb is_enum_member l = true.
Proof.
  intros c v Hp Hc. destruct c; cbn [enum_seq] in Hp; try discriminate Hp.
  dval v; cbn [acls_has] in Hc; try discriminate Hc; eauto.
Qed.

Lemma nonzero_sound : forall c v, nonzero_int c = true -> acls_has c v = true ->
    exists m, v = PNum (NInt m) /\ (m =? 0)%Z = false.
Proof.
  intros c v Hp Hc. destruct c; cbn [nonzero_int] in Hp; try discriminate Hp.
  dval v; try dnum n; cbn [acls_has] in Hc; try discriminate Hc.
  exists z. split; [reflexivity|]. destruct (z =? 0)%Z; [discriminate Hc|reflexivity].
Qed.

Lemma int_to_flt_float : forall z, acls_has (AK K_float) (PNum (int_to_flt z)) = true.
Proof. intro z. unfold int_to_flt. destruct z as [|p|p]; [reflexivity| |]; destruct (strip2 p); reflexivity. Qed.

Lemma floatable_sound : forall c v, floatable c = true -> acls_has c v = true ->
    exists x, to_float v = Ok x /\ acls_has (AK K_float) x = true.
Proof.
  intros c v Hp Hc.
  destruct c as [k0| | | | | |]; [destruct k0|..]; cbn [floatable] in Hp; try discriminate Hp;
    dval v; try dnum n; cbn [acls_has isinstance1] in Hc; try discriminate Hc; cbn [to_float].
  - eexists. split; [reflexivity|reflexivity].
  - destruct b; eexists; (split; [reflexivity|]); unfold int_to_flt; cbn; reflexivity.
  - destruct b; [|discriminate Hc]. eexists; (split; [reflexivity|]); unfold int_to_flt; cbn; reflexivity.
  - destruct b; [discriminate Hc|]. eexists; (split; [reflexivity|]); unfold int_to_flt; cbn; reflexivity.
  - rewrite Hc. eexists. split; [reflexivity|]. apply int_to_flt_float.
Qed.

(* float() of an int, a bool or a float: a float, or OverflowError - nothing else *)
Lemma float_or_overflow_sound : forall c v, float_or_overflow c = true -> acls_has c v = true ->
    (exists x, to_float v = Ok x) \/ to_float v = Raise OverflowError.
Proof.
  intros c v Hp Hc. unfold float_or_overflow in Hp. apply orb_true_iff in Hp as [Hp|Hp].
  - left. destruct (floatable_sound _ _ Hp Hc) as (x & Hx & _). eauto.
  - destruct c as [k0| | | | | |]; [destruct k0|..]; try discriminate Hp;
      dval v; try dnum n; cbn [acls_has isinstance1] in Hc; try discriminate Hc; cbn [to_float].
    + left. eauto.
    + destruct (float_exact z); [left; eauto|]. destruct (Z.abs (round_int z) <? two_1024)%Z; [left; eauto|right; reflexivity].
    + destruct (float_exact z); [left; eauto|]. destruct (Z.abs (round_int z) <? two_1024)%Z; [left; eauto|right; reflexivity].
Qed.

Lemma truthy_sound : forall c v, acls_has c v = true -> py_truthy v = true -> may_be_truthy c = true.
Proof.
  intros c v Hc Ht.
  destruct c as [k0| | | | | |]; [destruct k0|..]; try reflexivity;
    dval v; try dnum n; try destruct b; cbn [acls_has isinstance1] in Hc; try discriminate Hc;
    cbn [py_truthy] in Ht; discriminate Ht.
Qed.

Lemma nonzero_truthy : forall z, (z =? 0)%Z = false -> py_truthy (PNum (NInt z)) = true.
Proof.
  intros z Hz. cbn [py_truthy num_to_Q]. unfold Qeq_bool, Zeq_bool. cbn [QArith_base.Qnum QArith_base.Qden].
  rewrite Z.mul_1_r. cbn [Z.mul]. destruct z; [discriminate Hz|reflexivity|reflexivity].
Qed.

Lemma falsy_sound : forall c v, acls_has c v = true -> py_truthy v = false -> may_be_falsy c = true.
Proof.
  intros c v Hc Ht.
  destruct c as [k0| | | | | |]; [destruct k0|..]; try reflexivity;
    dval v; try dnum n; try destruct b; cbn [acls_has isinstance1 is_enum_member] in Hc; try discriminate Hc;
    try (cbn [py_truthy] in Ht; discriminate Ht).
  destruct (z =? 0)%Z eqn:Hz; [discriminate Hc|]. rewrite (nonzero_truthy z Hz) in Ht. discriminate Ht.
Qed.

Lemma const_true_sound : forall k c v, acls_has c v = true -> identical v k = true -> may_be_const k c = true.
Proof.
  intros k c v Hc Hi.
  dval v; cbn [identical] in Hi; try discriminate Hi; dval k; try discriminate Hi.
  - destruct c as [k0| | | | | |]; [destruct k0|..]; cbn [acls_has isinstance1] in Hc; try discriminate Hc; reflexivity.
  - destruct b, b0; cbn [Bool.eqb] in Hi; try discriminate Hi;
      (destruct c as [k0| | | | | |]; [destruct k0|..]; cbn [acls_has isinstance1] in Hc; try discriminate Hc; reflexivity).
Qed.

Lemma const_false_sound : forall k c v, acls_has c v = true -> identical v k = false -> is_const k c = false.
Proof.
  intros k c v Hc Hi.
  destruct (is_const k c) eqn:E; [|reflexivity]. exfalso.
  dval k; cbn [is_const] in E; try discriminate E.
  - destruct c as [k0| | | | | |]; [destruct k0|..]; try discriminate E.
    dval v; try dnum n; cbn [acls_has isinstance1] in Hc; try discriminate Hc. discriminate Hi.
  - destruct b; destruct c as [k0| | | | | |]; try discriminate E;
      dval v; cbn [acls_has] in Hc; try discriminate Hc; destruct b; try discriminate Hc; discriminate Hi.
Qed.

Lemma class_of_const_sound : forall c, absv_has (class_of_const c) c = true.
Proof.
  intros c. dval c; try reflexivity; try dnum n; try destruct b; try reflexivity.
  cbn [class_of_const absv_has]. apply acls_any_ex. exists (AK K_int). split; [|reflexivity].
  apply in_or_app. right. apply in_or_app. right. left. reflexivity.
Qed.

(* ------------------------------------------------------------------ environments *)

Lemma vars_ok_length : forall avs vals, vars_ok avs vals = true -> List.length avs = List.length vals.
Proof.
  induction avs as [|a avs IH]; intros [|v vals] H; cbn [vars_ok] in H; try discriminate H; [reflexivity|].
  apply andb_true_iff in H as [_ H]. cbn [List.length]. f_equal. apply IH. exact H.
Qed.

Lemma vars_ok_nth : forall avs vals n a, vars_ok avs vals = true -> nth_error avs n = Some a ->
    exists v, nth_error vals n = Some v /\ absv_has a v = true.
Proof.
  induction avs as [|a0 avs IH]; intros [|v vals] n a H Hn; cbn [vars_ok] in H; try discriminate H.
  - destruct n; discriminate Hn.
  - apply andb_true_iff in H as [H0 H]. destruct n; cbn [nth_error] in *.
    + inversion Hn; subst. eauto.
    + eapply IH; eassumption.
Qed.

Lemma vars_ok_nth_val : forall avs vals n v, vars_ok avs vals = true -> nth_error vals n = Some v ->
    exists a, nth_error avs n = Some a /\ absv_has a v = true.
Proof.
  induction avs as [|a0 avs IH]; intros [|v0 vals] n v H Hn; cbn [vars_ok] in H; try discriminate H.
  - destruct n; discriminate Hn.
  - apply andb_true_iff in H as [H0 H]. destruct n; cbn [nth_error] in *.
    + inversion Hn; subst. eauto.
    + eapply IH; eassumption.
Qed.

Lemma vars_ok_set : forall avs vals n a v, vars_ok avs vals = true -> nth_error vals n = Some v ->
    absv_has a v = true -> vars_ok (set_nth avs n a) vals = true.
Proof.
  induction avs as [|a0 avs IH]; intros [|v0 vals] n a v H Hn Ha; cbn [vars_ok] in H; try discriminate H.
  - reflexivity.
  - apply andb_true_iff in H as [H0 H]. destruct n; cbn [nth_error set_nth vars_ok] in *.
    + inversion Hn; subst. rewrite Ha, H. reflexivity.
    + rewrite H0. cbn [andb]. eapply IH; eassumption.
Qed.

Lemma vars_ok_set_out : forall avs vals n a, vars_ok avs vals = true -> nth_error vals n = None ->
    vars_ok (set_nth avs n a) vals = true.
Proof.
  induction avs as [|a0 avs IH]; intros [|v0 vals] n a H Hn; cbn [vars_ok] in H; try discriminate H.
  - reflexivity.
  - apply andb_true_iff in H as [H0 H]. destruct n; cbn [nth_error set_nth vars_ok] in *; [discriminate Hn|].
    rewrite H0. cbn [andb]. apply IH; assumption.
Qed.

Lemma vars_ok_app : forall avs vals a v, vars_ok avs vals = true -> absv_has a v = true ->
    vars_ok (avs ++ [a]) (vals ++ [v]) = true.
Proof.
  induction avs as [|a0 avs IH]; intros [|v0 vals] a v H Ha; cbn [vars_ok] in H; try discriminate H.
  - cbn. rewrite Ha. reflexivity.
  - apply andb_true_iff in H as [H0 H]. cbn [app vars_ok]. rewrite H0. cbn [andb]. apply IH; assumption.
Qed.

Lemma absv_join_l : forall a b v, absv_has a v = true -> absv_has (absv_join a b) v = true.
Proof.
  intros [x|] [y|] v H; cbn [absv_join absv_has] in *; try reflexivity.
  unfold acls_any in *. rewrite existsb_app, H. reflexivity.
Qed.
Lemma absv_join_r : forall a b v, absv_has b v = true -> absv_has (absv_join a b) v = true.
Proof.
  intros [x|] [y|] v H; cbn [absv_join absv_has] in *; try reflexivity.
  unfold acls_any in *. rewrite existsb_app, H. apply orb_true_r.
Qed.

Lemma join_vars_l : forall a b vals, vars_ok a vals = true -> List.length b = List.length a ->
    vars_ok (join_vars a b) vals = true.
Proof.
  induction a as [|x a IH]; intros [|y b] [|v vals] H Hl; cbn [vars_ok] in H; try discriminate H;
    try discriminate Hl; [reflexivity|].
  apply andb_true_iff in H as [H0 H]. cbn [join_vars vars_ok]. rewrite (absv_join_l _ y _ H0). cbn [andb].
  apply IH; [assumption|]. cbn [List.length] in Hl. lia.
Qed.
Lemma join_vars_r : forall a b vals, vars_ok b vals = true -> List.length a = List.length b ->
    vars_ok (join_vars a b) vals = true.
Proof.
  induction a as [|x a IH]; intros [|y b] [|v vals] H Hl; cbn [vars_ok] in H; try discriminate H;
    try discriminate Hl; [reflexivity|].
  apply andb_true_iff in H as [H0 H]. cbn [join_vars vars_ok]. rewrite (absv_join_r x _ _ H0). cbn [andb].
  apply IH; [assumption|]. cbn [List.length] in Hl. lia.
Qed.

Lemma join_vars_length : forall a b, List.length a = List.length b -> List.length (join_vars a b) = List.length a.
Proof.
  induction a as [|x a IH]; intros [|y b] H; try discriminate H; [reflexivity|].
  cbn [join_vars List.length]. f_equal. apply IH. cbn [List.length] in H. lia.
Qed.

Lemma set_nth_length : forall A (l : list A) n x, List.length (set_nth l n x) = List.length l.
Proof. induction l as [|h t IH]; intros [|n] x; cbn [set_nth List.length]; try reflexivity. f_equal. apply IH. Qed.

Lemma refine_on_length : forall env e f, List.length (a_vars (refine_on env e f)) = List.length (a_vars env).
Proof.
  intros env e f. destruct e; cbn [refine_on]; try reflexivity.
  - unfold set_var. cbn [a_vars]. apply set_nth_length.
  - unfold set_attr. destruct (f _); reflexivity.
Qed.

Lemma refine_length : forall c env b, List.length (a_vars (refine env c b)) = List.length (a_vars env).
Proof.
  induction c as [k|e ks|c IH|x IHx y IHy|x IHx y IHy|op a b0|e k|e k|e|e|a b0|a b0|e|e ce]; intros env b; cbn [refine];
    try reflexivity.
  - destruct (Bool.eqb k b); [reflexivity|]. cbn [a_vars]. apply map_length.
  - destruct b; [apply refine_on_length|reflexivity].
  - apply IH.
  - destruct b.
    + rewrite IHy, IHx. reflexivity.
    + cbn [a_vars]. rewrite join_vars_length; [apply IHx|]. rewrite IHx, IHy, IHx. reflexivity.
  - destruct b.
    + cbn [a_vars]. rewrite join_vars_length; [apply IHx|]. rewrite IHx, IHy, IHx. reflexivity.
    + rewrite IHy, IHx. reflexivity.
  - destruct b; apply refine_on_length.
  - apply refine_on_length.
Qed.

Lemma attrs_ok_get : forall attrs self a l,
    attrs_ok attrs self = true -> alist_get attrs a = Some l -> acls_any l (self a) = true.
Proof.
  induction attrs as [|[k l0] t IH]; intros self a l H Hg; [discriminate Hg|].
  cbn [attrs_ok forallb fst snd] in H. apply andb_true_iff in H as [H0 H].
  cbn [alist_get] in Hg. destruct (pystr_eqb k a) eqn:E.
  - inversion Hg; subst. apply pystr_eqb_spec in E. subst. exact H0.
  - apply IH; assumption.
Qed.

Section Sound.
  Variable re : pystr -> bool.
  Variable self : pystr -> pyval.

  Lemma bottom_absurd : forall env vals, env_ok env self vals = true -> bottom env = true -> False.
  Proof.
    intros env vals H Hb. unfold env_ok in H. apply andb_true_iff in H as [Hv Ha].
    unfold bottom in Hb. apply orb_true_iff in Hb as [Hb|Hb].
    - apply existsb_exists in Hb as (a & Hin & He). apply In_nth_error in Hin as (n & Hn).
      destruct (vars_ok_nth _ _ _ _ Hv Hn) as (v & _ & Hh). destruct a as [[|? ?]|]; try discriminate He.
      discriminate Hh.
    - apply existsb_exists in Hb as ([a l] & Hin & He). cbn [snd] in He. destruct l; [|discriminate He].
      unfold attrs_ok in Ha. rewrite forallb_forall in Ha. specialize (Ha _ Hin). discriminate Ha.
  Qed.

  (* the class computed for an expression describes its value *)
  Lemma aty_sound : forall env vals e x,
      env_ok env self vals = true -> eval_val self vals e = Ok x -> absv_has (aty env e) x = true.
  Proof.
    intros env vals e x H He. unfold env_ok in H. apply andb_true_iff in H as [Hv Ha].
    destruct e as [n|a|c|e1|s e1|kv e1|e1|e1]; cbn [eval_val aty] in *.
    - destruct (nth_error vals n) as [v|] eqn:Hn; [|discriminate He]. inversion He; subst.
      destruct (vars_ok_nth_val _ _ _ _ Hv Hn) as (a & Hna & Hh). unfold var_ty. rewrite Hna. exact Hh.
    - inversion He; subst. unfold attr_ty. destruct (alist_get (a_attrs env) a) as [l|] eqn:Hg; [|reflexivity].
      cbn [absv_has]. eapply attrs_ok_get; eassumption.
    - inversion He; subst. apply class_of_const_sound.
    - destruct (eval_val self vals e1) as [v|]; [|discriminate He]. cbn [bind] in He.
      dval v; cbn [py_len] in He; try discriminate He; inversion He; reflexivity.
    - destruct (eval_val self vals e1) as [v|]; [|discriminate He]. cbn [bind] in He.
      dval v; try discriminate He; destruct (mapM name_of l); try discriminate He; cbn [bind] in He;
        inversion He; destruct s; reflexivity.
    - reflexivity.
    - destruct (eval_val self vals e1) as [v|]; [|discriminate He]. cbn [bind] in He.
      dval v; try dnum n; cbn [to_float] in He; try discriminate He.
      + inversion He. unfold int_to_flt. destruct b; cbn; reflexivity.
      + assert (Hf : forall y, absv_has (Some [AK K_float]) (PNum (int_to_flt y)) = true).
        { intro y. cbn [absv_has acls_any existsb]. rewrite int_to_flt_float. reflexivity. }
        destruct (float_exact z); [inversion He; apply Hf|].
        destruct (Z.abs (round_int z) <? two_1024)%Z; [|discriminate He]. inversion He. apply Hf.
      + inversion He. reflexivity.
    - destruct (eval_val self vals e1) as [v|]; [|discriminate He]. cbn [bind] in He.
      unfold py_unique_list in He. destruct (py_seq_items v); [|discriminate He]. cbn [bind] in He.
      inversion He. reflexivity.
  Qed.

  Lemma vsafe_sound : forall env vals e,
      env_ok env self vals = true -> vsafe env e = true -> exists x, eval_val self vals e = Ok x.
  Proof.
    intros env vals e H. induction e as [n|a|c|e1 IH|s e1 IH|kv e1 IH|e1 IH|e1 IH]; intro Hs; cbn [vsafe eval_val] in *.
    - destruct (nth_error (a_vars env) n) as [a|] eqn:Hn; [|discriminate Hs].
      unfold env_ok in H. apply andb_true_iff in H as [Hv _].
      destruct (vars_ok_nth _ _ _ _ Hv Hn) as (v & Hv' & _). rewrite Hv'. eauto.
    - eauto.
    - eauto.
    - apply andb_true_iff in Hs as [Hs Hc]. destruct (IH Hs) as (v & Hv). rewrite Hv. cbn [bind].
      destruct (all_of_has _ _ _ Hc (aty_sound _ _ _ _ H Hv)) as (c & Hp & Hh).
      destruct (sized_sound _ _ Hp Hh) as (z & Hz). rewrite Hz. eauto.
    - apply andb_true_iff in Hs as [Hs Hc]. destruct (IH Hs) as (v & Hv). rewrite Hv. cbn [bind].
      destruct (all_of_has _ _ _ Hc (aty_sound _ _ _ _ H Hv)) as (c & Hp & Hh).
      destruct (enum_seq_sound _ _ Hp Hh) as (l & [E|E] & Hl); subst v;
        destruct (enum_seq_names _ Hl) as (ns & Hns); rewrite Hns; cbn [bind]; eauto.
    - apply andb_true_iff in Hs as [Hs Hc]. destruct (IH Hs) as (v & Hv). rewrite Hv. cbn [bind].
      destruct (all_of_has _ _ _ Hc (aty_sound _ _ _ _ H Hv)) as (c & Hp & Hh).
      rewrite (hashable_sound _ _ Hp Hh). eauto.
    - apply andb_true_iff in Hs as [Hs Hc]. destruct (IH Hs) as (v & Hv). rewrite Hv. cbn [bind].
      destruct (all_of_has _ _ _ Hc (aty_sound _ _ _ _ H Hv)) as (c & Hp & Hh).
      destruct (floatable_sound _ _ Hp Hh) as (x & Hx & _). rewrite Hx. eauto.
    - apply andb_true_iff in Hs as [Hs Hc]. destruct (IH Hs) as (v & Hv). rewrite Hv. cbn [bind].
      destruct (all_of_has _ _ _ Hc (aty_sound _ _ _ _ H Hv)) as (c & Hp & Hh).
      destruct (seq_like_sound _ _ Hp Hh) as (l & Hl). unfold py_unique_list. rewrite Hl. cbn [bind]. eauto.
  Qed.

  (* narrowing the class of a local / an attribute by a fact that holds of its value *)
  Lemma refine_on_sound : forall env vals e f x,
      env_ok env self vals = true -> eval_val self vals e = Ok x ->
      (forall a, absv_has a x = true -> absv_has (f a) x = true) ->
      env_ok (refine_on env e f) self vals = true.
  Proof.
    intros env vals e f x H He Hf. pose proof (aty_sound _ _ _ _ H He) as Hty.
    unfold env_ok in *. apply andb_true_iff in H as [Hv Ha].
    destruct e as [n|a|c|e1|s e1|kv e1|e1|e1]; cbn [refine_on]; try (rewrite Hv, Ha; reflexivity).
    - cbn [eval_val] in He. destruct (nth_error vals n) as [v|] eqn:Hn; [|discriminate He]. inversion He; subst.
      unfold set_var. cbn [a_vars a_attrs]. rewrite Ha. rewrite andb_true_r.
      eapply vars_ok_set; [eassumption|eassumption|]. apply Hf. exact Hty.
    - cbn [eval_val] in He. inversion He; subst. unfold set_attr.
      specialize (Hf _ Hty). cbn [aty] in Hf. destruct (f (attr_ty env a)) as [l|]; [|rewrite Hv, Ha; reflexivity].
      cbn [a_vars a_attrs attrs_ok forallb fst snd]. cbn [absv_has] in Hf. rewrite Hv, Hf. exact Ha.
  Qed.

  Lemma filter_sound : forall (p : acls -> bool) a x,
      (forall c, acls_has c x = true -> p c = true) -> absv_has a x = true -> absv_has (absv_filter p a) x = true.
  Proof.
    intros p [l|] x Hp H; [|reflexivity]. cbn [absv_filter absv_has] in *.
    apply acls_any_ex in H as (c & Hin & Hc). apply acls_any_ex. exists c. split; [|exact Hc].
    apply filter_In. split; [assumption|apply Hp; assumption].
  Qed.

  Lemma refine_sound : forall c env vals b,
      env_ok env self vals = true -> eval_cond re self vals c = Ok b -> env_ok (refine env c b) self vals = true.
  Proof.
    induction c as [k|e ks|c IH|x IHx y IHy|x IHx y IHy|op a b0|e k|e k|e|e|a b0|a b0|e|e ce]; intros env vals b H He;
      cbn [refine eval_cond] in *; try exact H.
    - inversion He; subst. rewrite Bool.eqb_reflx. exact H.
    - destruct (eval_val self vals e) as [v|] eqn:Hv; [|discriminate He]. cbn [bind] in He. inversion He; subst.
      destruct (py_isinstance v ks) eqn:Hi; [|exact H].
      eapply refine_on_sound; [exact H|exact Hv|]. intros a Ha. apply meet_sound; assumption.
    - destruct (eval_cond re self vals c) as [b1|] eqn:Hc; [|discriminate He]. cbn [bind] in He.
      inversion He; subst. rewrite Bool.negb_involutive. apply IH; assumption.
    - destruct (eval_cond re self vals x) as [bx|] eqn:Hx; [|discriminate He]. cbn [bind] in He.
      pose proof (IHx _ _ _ H Hx) as H1. destruct bx.
      + pose proof (IHy _ _ _ H1 He) as H2. destruct b; [exact H2|].
        unfold env_ok in *. cbn [a_vars a_attrs]. apply andb_true_iff in H as [Hv Ha].
        apply andb_true_iff in H2 as [Hv2 _]. rewrite Ha, andb_true_r.
        apply join_vars_r; [exact Hv2|]. rewrite refine_length, refine_length, refine_length. reflexivity.
      + inversion He; subst. unfold env_ok in *. cbn [a_vars a_attrs]. apply andb_true_iff in H as [Hv Ha].
        apply andb_true_iff in H1 as [Hv1 _]. rewrite Ha, andb_true_r.
        apply join_vars_l; [exact Hv1|]. rewrite refine_length, refine_length, refine_length. reflexivity.
    - destruct (eval_cond re self vals x) as [bx|] eqn:Hx; [|discriminate He]. cbn [bind] in He.
      pose proof (IHx _ _ _ H Hx) as H1. destruct bx.
      + inversion He; subst. unfold env_ok in *. cbn [a_vars a_attrs]. apply andb_true_iff in H as [Hv Ha].
        apply andb_true_iff in H1 as [Hv1 _]. rewrite Ha, andb_true_r.
        apply join_vars_l; [exact Hv1|]. rewrite refine_length, refine_length, refine_length. reflexivity.
      + pose proof (IHy _ _ _ H1 He) as H2. destruct b; [|exact H2].
        unfold env_ok in *. cbn [a_vars a_attrs]. apply andb_true_iff in H as [Hv Ha].
        apply andb_true_iff in H2 as [Hv2 _]. rewrite Ha, andb_true_r.
        apply join_vars_r; [exact Hv2|]. rewrite refine_length, refine_length, refine_length. reflexivity.
    - destruct (eval_val self vals e) as [v|] eqn:Hv; [|discriminate He]. cbn [bind] in He. inversion He; subst.
      destruct (identical v k) eqn:Hi.
      + eapply refine_on_sound; [exact H|exact Hv|]. intros a Ha. apply filter_sound; [|exact Ha].
        intros c Hc. eapply const_true_sound; eassumption.
      + eapply refine_on_sound; [exact H|exact Hv|]. intros a Ha. apply filter_sound; [|exact Ha].
        intros c Hc. rewrite (const_false_sound _ _ _ Hc Hi). reflexivity.
    - destruct (eval_val self vals e) as [v|] eqn:Hv; [|discriminate He]. cbn [bind] in He. inversion He; subst.
      eapply refine_on_sound; [exact H|exact Hv|]. intros a Ha. apply filter_sound; [|exact Ha].
      intros c Hc. destruct (py_truthy v) eqn:Ht; [eapply truthy_sound|eapply falsy_sound]; eassumption.
  Qed.

  Lemma cmp_numeric : forall op x y n m, as_num x = Some n -> as_num y = Some m -> exists b, cmp op x y = Ok b.
  Proof.
    intros op x y n m Hx Hy. destruct op; cbn [cmp]; unfold py_gt, py_ge, py_lt, py_le, py_eqv, py_ne;
      rewrite ?Hx, ?Hy; eauto.
  Qed.

  Lemma csafe_sound : forall c env vals,
      env_ok env self vals = true -> csafe env c = true -> exists b, eval_cond re self vals c = Ok b.
  Proof.
    induction c as [k|e ks|c IH|x IHx y IHy|x IHx y IHy|op a b0|e k|e k|e|e|a b0|a b0|e|e ce]; intros env vals H Hs;
      cbn [csafe] in Hs; (apply orb_true_iff in Hs as [Hb|Hs]; [exfalso; eapply bottom_absurd; eassumption|]);
      cbn [eval_cond].
    - eauto.
    - destruct (vsafe_sound _ _ _ H Hs) as (v & Hv). rewrite Hv. cbn [bind]. eauto.
    - destruct (IH _ _ H Hs) as (b & Hb). rewrite Hb. cbn [bind]. eauto.
    - apply andb_true_iff in Hs as [Hx Hy]. destruct (IHx _ _ H Hx) as (bx & Hbx). rewrite Hbx. cbn [bind].
      destruct bx; [|eauto]. apply (IHy (refine env x true)); [|exact Hy]. eapply refine_sound; eassumption.
    - apply andb_true_iff in Hs as [Hx Hy]. destruct (IHx _ _ H Hx) as (bx & Hbx). rewrite Hbx. cbn [bind].
      destruct bx; [eauto|]. apply (IHy (refine env x false)); [|exact Hy]. eapply refine_sound; eassumption.
    - apply andb_true_iff in Hs as [Hs Hop]. apply andb_true_iff in Hs as [Ha Hb].
      destruct (vsafe_sound _ _ _ H Ha) as (x & Hx). destruct (vsafe_sound _ _ _ H Hb) as (y & Hy).
      rewrite Hx, Hy. cbn [bind].
      destruct op; try (cbn [cmp]; unfold py_eqv, py_ne; eauto; fail);
        (apply andb_true_iff in Hop as [Hna Hnb];
         destruct (all_of_has _ _ _ Hna (aty_sound _ _ _ _ H Hx)) as (ca & Hpa & Hha);
         destruct (all_of_has _ _ _ Hnb (aty_sound _ _ _ _ H Hy)) as (cb & Hpb & Hhb);
         destruct (numeric_sound _ _ Hpa Hha) as (n & Hn); destruct (numeric_sound _ _ Hpb Hhb) as (m & Hm);
         eapply cmp_numeric; eassumption).
    - apply andb_true_iff in Hs as [He Hk]. destruct (vsafe_sound _ _ _ H He) as (x & Hx). rewrite Hx. cbn [bind].
      destruct k as [l|d l|ce].
      + eauto.
      + destruct (all_of_has _ _ _ Hk (aty_sound _ _ _ _ H Hx)) as (c & Hp & Hh).
        unfold py_in_hashed, py_in_set. rewrite (hashable_sound _ _ Hp Hh). destruct d; cbn [orb]; eauto.
      + apply andb_true_iff in Hk as [Hce Hk]. destruct (vsafe_sound _ _ _ H Hce) as (cv & Hcv). rewrite Hcv. cbn [bind].
        apply orb_true_iff in Hk as [Hk|Hk].
        * destruct (all_of_has _ _ _ Hk (aty_sound _ _ _ _ H Hcv)) as (c & Hp & Hh).
          eapply scanned_sound; eassumption.
        * apply andb_true_iff in Hk as [Hk Hhx].
          destruct (all_of_has _ _ _ Hk (aty_sound _ _ _ _ H Hcv)) as (c & Hp & Hh).
          destruct (all_of_has _ _ _ Hhx (aty_sound _ _ _ _ H Hx)) as (c' & Hp' & Hh').
          eapply container_sound; [exact Hp|exact Hh|]. eapply hashable_sound; eassumption.
    - destruct (vsafe_sound _ _ _ H Hs) as (v & Hv). rewrite Hv. cbn [bind]. eauto.
    - destruct (vsafe_sound _ _ _ H Hs) as (v & Hv). rewrite Hv. cbn [bind]. eauto.
    - apply andb_true_iff in Hs as [He Hk]. destruct (vsafe_sound _ _ _ H He) as (x & Hx). rewrite Hx. cbn [bind].
      destruct (all_of_has _ _ _ Hk (aty_sound _ _ _ _ H Hx)) as (c & Hp & Hh).
      destruct (is_str_sound _ _ Hp Hh) as (s & Es). subst x. eauto.
    - apply andb_true_iff in Hs as [Hs Hnz]. apply andb_true_iff in Hs as [Hs Hnum].
      apply andb_true_iff in Hs as [Ha Hb].
      destruct (vsafe_sound _ _ _ H Ha) as (x & Hx). destruct (vsafe_sound _ _ _ H Hb) as (y & Hy).
      rewrite Hx, Hy. cbn [bind].
      destruct (all_of_has _ _ _ Hnum (aty_sound _ _ _ _ H Hx)) as (ca & Hpa & Hha).
      destruct (all_of_has _ _ _ Hnz (aty_sound _ _ _ _ H Hy)) as (cb & Hpb & Hhb).
      destruct (numeric_sound _ _ Hpa Hha) as (n & Hn). destruct (nonzero_sound _ _ Hpb Hhb) as (m & Em & Hm0).
      subst y. unfold py_mod. rewrite Hn, Hm0. eauto.
    - discriminate Hs.
    - destruct (vsafe_sound _ _ _ H Hs) as (v & Hv). rewrite Hv. cbn [bind]. eauto.
    - apply andb_true_iff in Hs as [Hs Hk]. apply andb_true_iff in Hs as [He Hce].
      destruct (vsafe_sound _ _ _ H He) as (x & Hx). destruct (vsafe_sound _ _ _ H Hce) as (cv & Hcv).
      rewrite Hx, Hcv. cbn [bind].
      destruct (all_of_has _ _ _ Hk (aty_sound _ _ _ _ H Hcv)) as (c & Hp & Hh).
      destruct (enum_seq_sound _ _ Hp Hh) as (l & [El|El] & Hl); subst cv; cbn [any_is];
        destruct (enum_seq_any_is x l Hl) as (r & Hr); rewrite Hr; cbn [bind]; eauto.
  Qed.

  Lemma tsafe_sound : forall env vals a x,
      env_ok env self vals = true -> tsafe env a x = true ->
      (exists v, eval_val self vals a = Ok v) \/ eval_val self vals a = Raise x.
  Proof.
    intros env vals a x H Hs. unfold tsafe in Hs. apply orb_true_iff in Hs as [Hs|Hs].
    - left. eapply vsafe_sound; eassumption.
    - destruct a as [n|at0|c|e1|sb e1|kv e1|e1|e1]; try discriminate Hs. destruct x; try discriminate Hs.
      apply andb_true_iff in Hs as [Hs Hc]. destruct (vsafe_sound _ _ _ H Hs) as (v & Hv).
      cbn [eval_val]. rewrite Hv. cbn [bind].
      destruct (all_of_has _ _ _ Hc (aty_sound _ _ _ _ H Hv)) as (c & Hp & Hh).
      exact (float_or_overflow_sound _ _ Hp Hh).
  Qed.

  (* ---------------------------------------------------------------- the theorem *)
  Theorem gsafe_sound : forall p env vals,
      env_ok env self vals = true -> gsafe env p = true -> forall e, run re self vals p <> Bare e.
  Proof.
    induction p as [n|tid x|c th IHt el IHe|c a b k IHk|a x h IHh k IHk|x h IHh body IHb|]; intros env vals H Hs e;
      cbn [gsafe] in Hs; (apply orb_true_iff in Hs as [Hb|Hs]; [exfalso; eapply bottom_absurd; eassumption|]);
      cbn [run].
    - destruct (nth_error (a_vars env) n) as [a|] eqn:Hn; [|discriminate Hs].
      unfold env_ok in H. apply andb_true_iff in H as [Hv _].
      destruct (vars_ok_nth _ _ _ _ Hv Hn) as (v & Hv' & _). rewrite Hv'. discriminate.
    - discriminate.
    - apply andb_true_iff in Hs as [Hs Hel]. apply andb_true_iff in Hs as [Hc Hth].
      destruct (csafe_sound _ _ _ H Hc) as (b & Hb). rewrite Hb.
      destruct b; [apply (IHt (refine env c true)); [|exact Hth]|apply (IHe (refine env c false)); [|exact Hel]];
        eapply refine_sound; eassumption.
    - apply andb_true_iff in Hs as [Hs Hk]. apply andb_true_iff in Hs as [Hs Hvb]. apply andb_true_iff in Hs as [Hc Hva].
      destruct (csafe_sound _ _ _ H Hc) as (t & Ht). rewrite Ht.
      pose proof (refine_sound _ _ _ _ H Ht) as Hr.
      assert (Hnb : bottom (refine env c t) = false).
      { destruct (bottom (refine env c t)) eqn:Eb; [|reflexivity]. exfalso. eapply bottom_absurd; eassumption. }
      assert (Hv : exists v, eval_val self vals (if t then a else b) = Ok v).
      { destruct t; [unfold branch_safe in Hva; rewrite Hnb in Hva|unfold branch_safe in Hvb; rewrite Hnb in Hvb];
          eapply vsafe_sound; eassumption. }
      destruct Hv as (v & Hv). rewrite Hv.
      eapply IHk; [|exact Hk]. unfold env_ok in *. cbn [a_vars a_attrs].
      apply andb_true_iff in H as [Hvars Hattrs]. rewrite Hattrs, andb_true_r.
      apply vars_ok_app; [exact Hvars|].
      destruct t; [apply absv_join_l|apply absv_join_r]; unfold branch_ty; rewrite Hnb; eapply aty_sound; eassumption.
    - apply andb_true_iff in Hs as [Hs Hk]. apply andb_true_iff in Hs as [Ht Hh].
      destruct (tsafe_sound _ _ _ _ H Ht) as [(v & Hv)|Hr].
      + rewrite Hv. eapply IHk; [|exact Hk]. unfold env_ok in *. cbn [a_vars a_attrs].
        apply andb_true_iff in H as [Hvars Hattrs]. rewrite Hattrs, andb_true_r.
        apply vars_ok_app; [exact Hvars|]. eapply aty_sound; [|exact Hv]. unfold env_ok. rewrite Hvars, Hattrs. reflexivity.
      + rewrite Hr. assert (Ex : exn_eqb x x = true) by (destruct x; try reflexivity; apply pystr_eqb_refl).
        rewrite Ex. eapply IHh; eassumption.
    - apply andb_true_iff in Hs as [Hb Hh].
      destruct (run re self vals body) as [v|tid y|e0] eqn:Hr; try discriminate.
      exfalso. exact (IHb env vals H Hb e0 Hr).
    - discriminate Hs.
  Qed.

  Theorem run_sites : forall p vals tid x, run re self vals p = Named tid x -> In (tid, x) (sites p).
  Proof.
    induction p as [n|tid0 x0|c th IHt el IHe|c a b k IHk|a x1 h IHh k IHk|x1 h IHh body IHb|]; intros vals tid x Hr; cbn [run sites] in *.
    - destruct (nth_error vals n); discriminate Hr.
    - inversion Hr; subst. left. reflexivity.
    - apply in_or_app. destruct (eval_cond re self vals c) as [[|]|]; [left; eapply IHt|right; eapply IHe|discriminate Hr];
        eassumption.
    - destruct (eval_cond re self vals c) as [t|]; [|discriminate Hr].
      destruct (eval_val self vals (if t then a else b)); [|discriminate Hr]. eapply IHk; eassumption.
    - apply in_or_app. destruct (eval_val self vals a) as [v|e0]; [right; eapply IHk; eassumption|].
      destruct (exn_eqb e0 x1); [left; eapply IHh; eassumption|discriminate Hr].
    - apply in_or_app. destruct (run re self vals body) as [v|tid1 y|e0] eqn:Hb; [discriminate Hr| |].
      + right. eapply IHb. rewrite Hb. exact Hr.
      + destruct (exn_eqb e0 x1); [left; eapply IHh; eassumption|discriminate Hr].
    - discriminate Hr.
  Qed.
End Sound.
