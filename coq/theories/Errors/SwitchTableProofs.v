(* C18: today's setter and getter of the fail-fast switch (Gen/SwitchSites.v) use one process-wide cell. *)
From Coq Require Import NArith List String Bool. Import ListNotations.
From TP Require Import Base.PyVal Errors.Switch Errors.SwitchProofs Gen.SwitchSites.

Lemma switch_today : process_wide switch_write switch_read = true /\
                     alist_get switch_init (the_cell switch_write) = Some true.
Proof. vm_compute. split; reflexivity. Qed.

(* whatever threads call set_fail_fast / failing_fast in whatever order: every failing_fast() answers with
   the value last given to set_fail_fast by ANY thread (True before the first call) *)
Theorem switch_is_process_wide : forall evs,
    run_switch switch_write switch_read (init_store switch_init) evs = spec_switch true evs.
Proof.
  intro evs. destruct switch_today as [H1 H2]. exact (process_wide_sound _ _ _ _ evs H1 H2).
Qed.
