(* C18: what a field object looks like to its validation chain, and for which values each chain is
   claimed to reject only through its own raise statements.

   A [gkind] names a generated chain (Gen/GuardProgs.v, by its g_name), the classes of the attributes
   the chain reads (the SCHEMA: what a declaration that typedpy accepts leaves in the field object) and
   the DOMAIN of the parameters: [None] = every value whatsoever.  A kind whose domain is all-None and
   that passes [gsafe] is unconditionally safe: every scalar field's chain is (Props/C18.v,
   C18_rejection_is_templated_all_values); a kind with a restricted domain states the largest domain
   the analysis accepts ([numbers], [hashables], [no_big_int] below are kept for the witnesses of
   Props/C18.v: shapes that order / hash / convert the value before checking its class).
   The harness compares every generated field object with its schema inside Coq.  No proofs here. *)
From Coq Require Import ZArith NArith List String Bool. Import ListNotations.
From TP Require Import Base.PyVal Base.PyOps Errors.Template Errors.TemplateOk Errors.Guard Gen.Templates Gen.GuardProgs.
Local Open Scope list_scope.

Record gkind := {
  k_label : pystr;                           (* how the harness calls this kind of field *)
  k_entry : pystr;                           (* g_name of the generated chain *)
  k_schema : list (pystr * list acls);
  k_domain : list absv }.                    (* one per parameter *)

Definition opt_of (l : list acls) : list acls := AK K_NoneType :: l.
Definition a_number : list acls := [AK K_int; AK K_float; AK K_Decimal].      (* K_int: bools too *)

Definition number_schema : list (pystr * list acls) :=
  [ (s2p "multiplesOf", opt_of [ANonZeroInt]);
    (s2p "minimum", opt_of a_number);
    (s2p "maximum", opt_of a_number);
    (s2p "exclusiveMaximum", opt_of [AK K_bool]) ].

Definition string_schema : list (pystr * list acls) :=
  [ (s2p "minLength", opt_of [AK K_int]); (s2p "maxLength", opt_of [AK K_int]); (s2p "pattern", opt_of [AK K_str]) ].

Definition enum_cls_schema : list (pystr * list acls) :=
  [ (s2p "_is_enum", [ATrue]); (s2p "_valid_enum_values", [AEnumSeq]) ].
(* the allowed values as the declaration gave them: a list or a tuple (what `in` scans with ==) *)
Definition enum_values_schema : list (pystr * list acls) :=
  [ (s2p "_is_enum", [AFalse]); (s2p "values", [AK K_list; AK K_tuple]) ].

Definition size_schema : list (pystr * list acls) :=
  [ (s2p "minItems", opt_of [AK K_int]); (s2p "maxItems", opt_of [AK K_int]) ].

Definition anything : absv := None.
(* values Python orders against 0 *)
Definition numbers : absv := Some [AK K_int; AK K_float; AK K_Decimal].
(* values with a hash (tuples are left out: hashable only if their elements are) *)
Definition hashables : absv :=
  Some [AK K_int; AK K_float; AK K_Decimal; AK K_str; AK K_NoneType; AK K_frozenset; AEnumMember].
(* every value except an int that float() cannot represent exactly *)
Definition no_big_int : absv :=
  Some [ASmallInt; ATrue; AFalse; AK K_float; AK K_Decimal; AK K_str; AK K_NoneType; AK K_list; AK K_deque;
        AK K_tuple; AK K_set; AK K_frozenset; AK K_dict; AEnumMember].
(* the same, among the values Python orders against 0 *)
Definition numbers_no_big_int : absv := Some [ASmallInt; ATrue; AFalse; AK K_float; AK K_Decimal].
Definition collections : absv :=
  Some [AK K_list; AK K_deque; AK K_tuple; AK K_set; AK K_frozenset; AK K_dict].

Definition kind (label entry : string) (schema : list (pystr * list acls)) (dom : list absv) : gkind :=
  {| k_label := s2p label; k_entry := s2p entry; k_schema := schema; k_domain := dom |}.

(* unconditional: every value.  (Until the "fix:" commits for C18-F22a/b/c and C18-F24 the sign mix-ins,
   Float and its sign variants, Boolean and Enum over a class needed restricted domains - numbers,
   hashables, no int beyond the float range: they ordered, hashed or converted the value before looking
   at its class.  Each now tests the class first, and the analysis accepts its chain on every value.) *)
Definition kinds_all_values : list gkind :=
  [ kind "Number" "Number.__set__" number_schema [anything];
    kind "Positive" "Positive.__set__" number_schema [anything];
    kind "Negative" "Negative.__set__" number_schema [anything];
    kind "NonPositive" "NonPositive.__set__" number_schema [anything];
    kind "NonNegative" "NonNegative.__set__" number_schema [anything];
    kind "Integer" "Integer.__set__" number_schema [anything];
    kind "PositiveInt" "PositiveInt.__set__" number_schema [anything];
    kind "NegativeInt" "NegativeInt.__set__" number_schema [anything];
    kind "NonPositiveInt" "NonPositiveInt.__set__" number_schema [anything];
    kind "NonNegativeInt" "NonNegativeInt.__set__" number_schema [anything];
    kind "Float" "Float.__set__" number_schema [anything];
    kind "PositiveFloat" "PositiveFloat.__set__" number_schema [anything];
    kind "NegativeFloat" "NegativeFloat.__set__" number_schema [anything];
    kind "NonPositiveFloat" "NonPositiveFloat.__set__" number_schema [anything];
    kind "NonNegativeFloat" "NonNegativeFloat.__set__" number_schema [anything];
    kind "String" "String.__set__" string_schema [anything];
    kind "Boolean" "Boolean.__set__" [] [anything];
    kind "Enum[values]" "Enum._validate" enum_values_schema [anything];
    kind "Enum[cls]" "Enum._validate" enum_cls_schema [anything];
    kind "verify[list]" "verify_type_and_uniqueness[list]" [] [anything; anything];
    kind "verify[deque]" "verify_type_and_uniqueness[deque]" [] [anything; anything];
    kind "verify[tuple]" "verify_type_and_uniqueness[tuple]" [] [anything; anything] ].

(* conditional: a helper that its callers reach only after the type check (len() of the value) *)
Definition kinds_restricted : list gkind :=
  [ kind "validate_size" "SizedCollection.validate_size" size_schema [collections] ].

Definition kinds : list gkind := kinds_all_values ++ kinds_restricted.

Definition entry_of (name : pystr) : option gentry := find (fun g => pystr_eqb (g_name g) name) guard_table.
Definition kind_by_label (l : pystr) : option gkind := find (fun k => pystr_eqb (k_label k) l) kinds.

Definition init_env (k : gkind) : aenv := {| a_vars := k_domain k; a_attrs := k_schema k |}.

(* the raise statement tid of a chain has a template of the accepted shape (whatever function of the
   chain it lives in: a helper extracted tomorrow is still covered) *)
Definition site_templated (s : N * exn) : bool :=
  match find (fun t => N.eqb (t_id t) (fst s)) templates with
  | Some t => tmpl_ok (t_segs t)
  | None => false
  end.

Definition kind_ok (k : gkind) : bool :=
  match entry_of (k_entry k) with
  | Some g => Nat.eqb (List.length (k_domain k)) (g_nparams g) &&
              gsafe (init_env k) (g_prog g) && forallb site_templated (sites (g_prog g))
  | None => false
  end.

(* the chains for which NO kind claims all values: each must still be bare on some value (else the
   restriction is obsolete and should be dropped) - checked by witnesses in Props/C18.v *)
