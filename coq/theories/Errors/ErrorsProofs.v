(* C18: proofs about Render / Parse / Collect. *)
From Coq Require Import NArith List String Bool Lia. Import ListNotations.
From TP Require Import Base.PyVal Errors.Template Errors.Render Errors.Parse Errors.TemplateOk Errors.Collect.
Local Open Scope N_scope.
Local Open Scope list_scope.

(* ------------------------------------------------------------------ basic string lemmas *)

Lemma strip_prefix_app pre s : strip_prefix pre (pre ++ s) = Some s.
Proof.
  induction pre as [|p pre IH]; cbn [strip_prefix app]; [reflexivity|].
  rewrite N.eqb_refl. exact IH.
Qed.

Lemma strip_prefix_some pre s r : strip_prefix pre s = Some r -> s = pre ++ r.
Proof.
  revert s; induction pre as [|p pre IH]; intros s H; cbn [strip_prefix] in H.
  - inversion H; reflexivity.
  - destruct s as [|c s']; [discriminate|].
    destruct (p =? c) eqn:E; [|discriminate].
    apply N.eqb_eq in E; subst c. cbn [app]. f_equal. apply IH; exact H.
Qed.

Lemma clash_no_prefix a b t : clash a b = true -> strip_prefix b (a ++ t) = None.
Proof.
  revert b; induction a as [|x a IH]; intros b H; destruct b as [|y b]; cbn [clash] in H; try discriminate.
  cbn [app strip_prefix]. destruct (x =? y) eqn:E.
  - rewrite N.eqb_sym, E. apply IH; exact H.
  - rewrite N.eqb_sym, E. reflexivity.
Qed.

Lemma span_all p f c r : forallb p f = true -> p c = false -> span p (f ++ c :: r) = (f, c :: r).
Proof.
  intros Hf Hc. induction f as [|x f IH]; cbn [app span].
  - rewrite Hc; reflexivity.
  - cbn [forallb] in Hf. apply andb_true_iff in Hf as [Hx Hf].
    rewrite Hx, (IH Hf). reflexivity.
Qed.

Lemma span_split p s v r : span p s = (v, r) -> s = v ++ r.
Proof.
  revert v r; induction s as [|c s IH]; intros v r H; cbn [span] in H.
  - inversion H; reflexivity.
  - destruct (p c).
    + destruct (span p s) as [a b] eqn:E. inversion H; subst. cbn [app]. f_equal. apply IH; reflexivity.
    + inversion H; subst. reflexivity.
Qed.

(* the run stops no later than the first character that fails p *)
Lemma span_len_le p a c b v r :
  p c = false -> span p (a ++ c :: b) = (v, r) -> (List.length v <= List.length a)%nat.
Proof.
  intros Hc. revert v r; induction a as [|x a IH]; intros v r H; cbn [app span] in H.
  - rewrite Hc in H. inversion H; subst. cbn; lia.
  - destruct (p x).
    + destruct (span p (a ++ c :: b)) as [a' b'] eqn:E. inversion H; subst.
      specialize (IH _ _ eq_refl). cbn [List.length]. lia.
    + inversion H; subst. cbn; lia.
Qed.

Lemma no_nl_app a b : no_nl (a ++ b) = no_nl a && no_nl b.
Proof. unfold no_nl. apply forallb_app. Qed.

Lemma no_nl_suffix a b : no_nl (a ++ b) = true -> no_nl b = true.
Proof. rewrite no_nl_app. intro H. apply andb_true_iff in H as [_ H]. exact H. Qed.

Lemma strip_final_nl_id s : no_nl s = true -> strip_final_nl s = s.
Proof.
  induction s as [|c s IH]; intro H; [reflexivity|].
  cbn [no_nl forallb] in H. apply andb_true_iff in H as [Hc Hs].
  cbn [strip_final_nl]. destruct s as [|d s'].
  - apply negb_true_iff in Hc. rewrite Hc. reflexivity.
  - f_equal. apply IH. exact Hs.
Qed.

Lemma dollar_line_id s : no_nl s = true -> dollar_line s = Some s.
Proof. intro H. unfold dollar_line. rewrite (strip_final_nl_id _ H), H. reflexivity. Qed.

Lemma split_last_nonempty sep s a b :
  split_last sep s = Some (a, b) -> strip_prefix sep s = None -> a <> [].
Proof.
  destruct s as [|c t]; cbn [split_last]; intros H Hn; [discriminate|].
  destruct (split_last sep t) as [[a' b']|].
  - inversion H; subst. discriminate.
  - rewrite Hn in H. discriminate.
Qed.

(* ------------------------------------------------------------------ group 1 *)

Lemma take_field_ok f r :
  f <> [] -> forallb is_fieldch f = true -> take_field (f ++ 58 :: r) = Some (f, r).
Proof.
  intros Hne Hf. unfold take_field.
  rewrite (span_all is_fieldch f 58 r Hf eq_refl).
  destruct f; [contradiction|]. reflexivity.
Qed.

(* ------------------------------------------------------------------ transform / problem *)

Lemma transform_nonempty p : p <> [] -> problem_nonempty (transform_class p) = true.
Proof.
  intro H. unfold transform_class.
  destruct (class_of_expected p) as [cn|].
  - destruct (alist_get display_type_by_type cn); reflexivity.
  - destruct p; [contradiction|]. reflexivity.
Qed.

(* ------------------------------------------------------------------ the general parsing lemma *)

(* body: the text after "<path>: " *)
Definition good_body (body : pystr) : Prop :=
  body <> [] /\ no_nl body = true /\ strip_prefix SEMI_GOT body = None /\
  (forall v p, p1 (32 :: body) = Some (v, p) -> p <> []).

Lemma parse_named f body :
  f <> [] -> forallb is_fieldch f = true -> good_body body ->
  let ei := parse_msg false (f ++ 58 :: 32 :: body) in
  ei_field ei = Some f /\ problem_nonempty (ei_problem ei) = true.
Proof.
  intros Hne Hf (Hb & Hnl & Hsg & Hp1). cbv zeta.
  unfold parse_msg. rewrite (take_field_ok f (32 :: body) Hne Hf).
  destruct (p1 (32 :: body)) as [[v p]|] eqn:E1.
  - cbn [ei_field ei_problem]. split; [reflexivity|].
    specialize (Hp1 _ _ eq_refl).
    assert (T := transform_nonempty p Hp1).
    destruct (transform_class p); cbn [try_expand andb] in *; exact T.
  - unfold p2, p3. change (is_ws 32) with true. cbv iota. rewrite (dollar_line_id _ Hnl).
    destruct (split_last SEMI_GOT body) as [[a b]|] eqn:E2.
    + cbn [ei_field ei_problem]. split; [reflexivity|].
      assert (Ha := split_last_nonempty _ _ _ _ E2 Hsg).
      assert (T := transform_nonempty a Ha).
      destruct (transform_class a); cbn [try_expand andb] in *; exact T.
    + cbn [ei_field ei_problem]. split; [reflexivity|].
      assert (T := transform_nonempty body Hb).
      destruct (transform_class body); cbn [try_expand andb] in *; exact T.
Qed.

(* the field part does not depend on the mode, nor on the finer conditions on the body *)
Lemma parse_named_field collect f body :
  f <> [] -> forallb is_fieldch f = true -> no_nl body = true ->
  ei_field (parse_msg collect (f ++ 58 :: 32 :: body)) = Some f.
Proof.
  intros Hne Hf Hnl. unfold parse_msg. rewrite (take_field_ok f (32 :: body) Hne Hf).
  destruct (p1 (32 :: body)) as [[v p]|]; [reflexivity|].
  unfold p2, p3. change (is_ws 32) with true. cbv iota. rewrite (dollar_line_id _ Hnl).
  destruct (split_last SEMI_GOT body) as [[a b]|]; reflexivity.
Qed.

(* ------------------------------------------------------------------ rendering *)

Lemma alist_get_in {A} (l : list (pystr * A)) k v : alist_get l k = Some v -> In (k, v) l.
Proof.
  induction l as [|[k' v'] l IH]; cbn [alist_get]; intro H; [discriminate|].
  destruct (pystr_eqb k' k) eqn:E.
  - apply pystr_eqb_spec in E. subst k'. injection H as H. subst v'. left; reflexivity.
  - right. apply IH; exact H.
Qed.


Lemma render_tail_nonl segs a s :
  forallb seg_tail_ok segs = true -> args_nonl a = true -> render_segs segs a = Some s -> no_nl s = true.
Proof.
  intros Hs Ha. apply andb_true_iff in Ha as [Hg Hp].
  revert s; induction segs as [|x segs IH]; intros s H; cbn [render_segs] in H.
  - inversion H; reflexivity.
  - cbn [forallb] in Hs. apply andb_true_iff in Hs as [Hx Hs].
    destruct (render_segs segs a) as [tail|]; [|discriminate].
    specialize (IH Hs _ eq_refl).
    destruct x as [l| |w|e|]; cbn [seg_tail_ok] in Hx; try discriminate.
    + inversion H; subst. rewrite no_nl_app, Hx, IH. reflexivity.
    + inversion H; subst. rewrite no_nl_app, IH, andb_true_r.
      destruct w; [|exact Hg]. unfold wrap_val. destruct (r_got_is_str a); [|exact Hg].
      change (39 :: r_got a ++ [39]) with ([39] ++ r_got a ++ [39]).
      rewrite !no_nl_app, Hg. reflexivity.
    + destruct (alist_get (r_params a) e) as [v|] eqn:E; [|discriminate].
      inversion H; subst. rewrite no_nl_app, IH, andb_true_r.
      apply alist_get_in in E. rewrite forallb_forall in Hp. exact (Hp _ E).
Qed.

(* shape B: pattern 1 cannot end up with an empty problem *)
Lemma p1_shapeB G M v p :
  M <> [] -> p1 (SP_GOT_SP ++ G ++ SEMI_SP ++ M) = Some (v, p) -> no_nl M = true -> no_nl G = true -> p <> [].
Proof.
  intros HM H HnM HnG. unfold p1 in H. rewrite strip_prefix_app in H.
  destruct (span not_semi (G ++ SEMI_SP ++ M)) as [v' r2] eqn:Es.
  assert (Hlen : (List.length v' <= List.length G)%nat).
  { change (SEMI_SP ++ M) with (59 :: 32 :: M) in Es.
    exact (span_len_le not_semi G 59 (32 :: M) v' r2 eq_refl Es). }
  assert (Hsplit := span_split _ _ _ _ Es).
  destruct (strip_prefix SEMI_SP r2) as [r3|] eqn:E3; [|discriminate].
  apply strip_prefix_some in E3.
  assert (Hn3 : no_nl r3 = true).
  { assert (Hall : no_nl (G ++ SEMI_SP ++ M) = true).
    { rewrite !no_nl_app, HnG, HnM. reflexivity. }
    rewrite Hsplit, E3 in Hall. apply no_nl_suffix in Hall. apply no_nl_suffix in Hall. exact Hall. }
  rewrite (dollar_line_id _ Hn3) in H. inversion H; subst p v.
  intro Hr3; subst r3.
  assert (L : List.length (G ++ SEMI_SP ++ M) = List.length (v' ++ r2)) by (rewrite Hsplit; reflexivity).
  rewrite E3 in L. rewrite !app_length in L. cbn [List.length SEMI_SP s2p map] in L.
  destruct M; [contradiction|]. cbn [List.length] in L. lia.
Qed.

Lemma strip_prefix_cons_ne c d s pre : c <> d -> strip_prefix (d :: pre) (c :: s) = None.
Proof. intro H. cbn [strip_prefix]. destruct (d =? c) eqn:E; [apply N.eqb_eq in E; congruence|reflexivity]. Qed.

(* a rendering of an accepted template is  <path> ": " <good body> *)
Lemma tmpl_ok_body segs a msg :
  tmpl_ok segs = true -> args_nonl a = true -> render_segs segs a = Some msg ->
  exists body, msg = r_path a ++ 58 :: 32 :: body /\ good_body body.
Proof.
  intros Hok Ha Hr.
  destruct segs as [|s0 segs]; [discriminate|].
  destruct s0; try discriminate.
  destruct segs as [|s1 rest]; [discriminate|].
  destruct s1 as [l| | | |]; try discriminate.
  destruct l as [|c0 l]; [discriminate|].
  destruct (c0 =? 58) eqn:Ec0; [apply N.eqb_eq in Ec0; subst c0|
    cbn [tmpl_ok] in Hok; destruct c0 as [|p0]; [discriminate|];
    repeat (destruct p0 as [p0|p0|]; try discriminate)].
  destruct l as [|c1 l1]; [discriminate|].
  destruct (c1 =? 32) eqn:Ec1; [apply N.eqb_eq in Ec1; subst c1|
    cbn [tmpl_ok] in Hok; destruct c1 as [|p1]; [discriminate|];
    repeat (destruct p1 as [p1|p1|]; try discriminate)].
  cbn [tmpl_ok] in Hok.
  apply andb_true_iff in Hok as [Hok Hshape]. apply andb_true_iff in Hok as [Hl1 Hrest].
  cbn [render_segs] in Hr.
  destruct (render_segs rest a) as [tail|] eqn:Et; [|discriminate].
  inversion Hr; subst msg. clear Hr.
  assert (Htail := render_tail_nonl rest a tail Hrest Ha Et).
  exists (l1 ++ tail). split; [reflexivity|].
  assert (Hnl : no_nl (l1 ++ tail) = true) by (rewrite no_nl_app, Hl1, Htail; reflexivity).
  apply orb_true_iff in Hshape as [HA|HB].
  - (* shape A *)
    apply andb_true_iff in HA as [HA Hj]. apply andb_true_iff in HA as [Hc1 Hc2].
    unfold good_body. split; [|split; [|split]].
    + destruct l1; [discriminate Hc1|]. cbn [app]. discriminate.
    + exact Hnl.
    + apply clash_no_prefix; exact Hc2.
    + intros v p H. unfold p1 in H. change SP_GOT_SP with (32 :: GOT_SP) in H.
      cbn [strip_prefix] in H. change (32 =? 32) with true in H. cbv iota in H.
      rewrite (clash_no_prefix _ _ tail Hc1) in H. discriminate.
  - (* shape B *)
    apply andb_true_iff in HB as [Heq HB]. apply pystr_eqb_spec in Heq. subst l1.
    destruct rest as [|r0 rest]; [discriminate|]. destruct r0 as [| |w| |]; try discriminate.
    destruct rest as [|r1 rest]; [discriminate|]. destruct r1 as [l2| | | |]; try discriminate.
    destruct (strip_prefix SEMI_SP l2) as [m|] eqn:E2; [|discriminate].
    destruct m as [|m0 m]; [discriminate|]. apply strip_prefix_some in E2. subst l2.
    cbn [render_segs] in Et.
    destruct (render_segs rest a) as [tail2|] eqn:Et2; [|discriminate].
    inversion Et; subst tail. clear Et.
    set (G := if w then wrap_val (r_got_is_str a) (r_got a) else r_got a) in *.
    cbn [forallb seg_tail_ok] in Hrest.
    apply andb_true_iff in Hrest as [_ Hrest]. apply andb_true_iff in Hrest as [Hl2 Hrest].
    assert (Ht2 := render_tail_nonl rest a tail2 Hrest Ha Et2).
    assert (HG : no_nl G = true).
    { rewrite no_nl_app in Htail. apply andb_true_iff in Htail as [H _]. exact H. }
    assert (HM : no_nl ((m0 :: m) ++ tail2) = true).
    { rewrite no_nl_app in Hl2. apply andb_true_iff in Hl2 as [_ H]. rewrite no_nl_app, H, Ht2. reflexivity. }
    unfold good_body. split; [|split; [|split]].
    + unfold GOT_SP. cbn [s2p map app]. discriminate.
    + exact Hnl.
    + reflexivity.
    + intros v p H.
      refine (p1_shapeB G ((m0 :: m) ++ tail2) v p _ _ HM HG).
      * cbn [app]. discriminate.
      * rewrite <- H. reflexivity.
Qed.

(* ------------------------------------------------------------------ paths *)

Lemma in_range_spec lo hi c : in_range lo hi c = true <-> lo <= c /\ c <= hi.
Proof. unfold in_range. rewrite andb_true_iff, !N.leb_le. reflexivity. Qed.

Lemma identch_fieldch c : is_identch c = true -> is_fieldch c = true.
Proof.
  unfold is_identch, is_fieldch. intro H. rewrite H. reflexivity.
Qed.

Lemma ident_fieldchars s : identb s = true -> s <> [] /\ forallb is_fieldch s = true.
Proof.
  destruct s as [|c s]; [discriminate|]. unfold identb. intro H. split; [discriminate|].
  rewrite forallb_forall in *. intros x Hx. apply identch_fieldch. apply H; exact Hx.
Qed.

Lemma digit_fieldch c : is_digit c = true -> is_fieldch c = true.
Proof. unfold is_digit, is_fieldch. intro H. rewrite H. rewrite !orb_true_r. reflexivity. Qed.

Lemma mod10_digit n : is_digit (48 + n mod 10) = true.
Proof.
  unfold is_digit. apply in_range_spec.
  assert (H : n mod 10 < 10) by (apply N.mod_lt; discriminate).
  generalize dependent (n mod 10). intros k H. lia.
Qed.

Lemma dec_aux_digits fuel : forall n acc,
  forallb is_digit acc = true -> forallb is_digit (dec_aux fuel n acc) = true.
Proof.
  induction fuel as [|f IH]; intros n acc H; cbn [dec_aux]; [exact H|].
  assert (H' : forallb is_digit ((48 + n mod 10) :: acc) = true).
  { cbn [forallb]. rewrite mod10_digit, H. reflexivity. }
  destruct (n <? 10); [exact H'|]. apply IH; exact H'.
Qed.

Lemma dec_aux_nonempty fuel : forall n acc, acc <> [] -> dec_aux fuel n acc <> [].
Proof.
  induction fuel as [|f IH]; intros n acc H; cbn [dec_aux]; [exact H|].
  destruct (n <? 10); [discriminate|]. apply IH; discriminate.
Qed.

Lemma dec_digits n : forallb is_digit (dec n) = true.
Proof. unfold dec. apply dec_aux_digits. reflexivity. Qed.

Lemma dec_nonempty n : dec n <> [].
Proof.
  unfold dec. cbn [dec_aux]. destruct (n <? 10); [discriminate|]. apply dec_aux_nonempty; discriminate.
Qed.

Lemma suffix_ok_render s : suffix_ok (render_suffix s) = true.
Proof.
  destruct s as [|i| |]; try reflexivity.
  cbn [render_suffix]. assert (Hd := dec_digits i). assert (Hn := dec_nonempty i).
  destruct (dec i) as [|d ds]; [contradiction|].
  unfold suffix_ok. rewrite Hd. reflexivity.
Qed.

Lemma suffix_fieldch s : forallb is_fieldch (render_suffix s) = true.
Proof.
  destruct s as [|i| |]; try reflexivity.
  cbn [render_suffix forallb]. change (is_fieldch 95) with true. cbn [andb].
  assert (Hd := dec_digits i). rewrite forallb_forall in *. intros x Hx. apply digit_fieldch. apply Hd; exact Hx.
Qed.

Lemma path_fieldchars name sfx :
  identb name = true -> field_path name sfx <> [] /\ forallb is_fieldch (field_path name sfx) = true.
Proof.
  intro H. apply ident_fieldchars in H as [Hne Hf]. unfold field_path. split.
  - destruct name; [contradiction|]. discriminate.
  - rewrite forallb_app, Hf, suffix_fieldch. reflexivity.
Qed.

Lemma classed_fieldchars cls name sfx :
  identb cls = true -> identb name = true ->
  cls ++ 46 :: field_path name sfx <> [] /\ forallb is_fieldch (cls ++ 46 :: field_path name sfx) = true.
Proof.
  intros Hc Hn. apply ident_fieldchars in Hc as [Hcne Hcf]. apply (path_fieldchars name sfx) in Hn as [_ Hp].
  split.
  - destruct cls; [contradiction|]. discriminate.
  - rewrite forallb_app, Hcf. cbn [forallb]. change (is_fieldch 46) with true. rewrite Hp. reflexivity.
Qed.

Lemma names_plain_path name sfx : names_plain name (field_path name sfx) = true.
Proof. unfold names_plain, field_path. rewrite strip_prefix_app. apply suffix_ok_render. Qed.

Lemma path_names_plain cls name sfx : path_names cls name (field_path name sfx) = true.
Proof. unfold path_names. rewrite names_plain_path. reflexivity. Qed.

Lemma path_names_classed cls name sfx : path_names cls name (cls ++ 46 :: field_path name sfx) = true.
Proof.
  unfold path_names.
  replace (cls ++ 46 :: field_path name sfx) with ((cls ++ [46]) ++ field_path name sfx)
    by (rewrite <- app_assoc; reflexivity).
  rewrite strip_prefix_app, names_plain_path. apply orb_true_r.
Qed.

(* ------------------------------------------------------------------ C18_template_ok, on segments *)

Definition parsed_ok (cls name full : pystr) : Prop :=
  exists p, ei_field (parse_msg false full) = Some p /\ path_names cls name p = true /\
            problem_nonempty (ei_problem (parse_msg false full)) = true.

Lemma tmpl_ok_parse segs a msg cls name sfx :
  tmpl_ok segs = true -> args_nonl a = true -> identb cls = true -> identb name = true ->
  r_path a = field_path name sfx -> render_segs segs a = Some msg ->
  parsed_ok cls name msg /\ parsed_ok cls name (with_class cls msg).
Proof.
  intros Hok Ha Hc Hn Hp Hr.
  destruct (tmpl_ok_body segs a msg Hok Ha Hr) as (body & Hm & Hb). rewrite Hp in Hm. subst msg.
  split.
  - destruct (path_fieldchars name sfx Hn) as [Hne Hf].
    destruct (parse_named _ body Hne Hf Hb) as [H1 H2].
    exists (field_path name sfx). repeat split; [exact H1|apply path_names_plain|exact H2].
  - unfold with_class.
    replace (cls ++ 46 :: field_path name sfx ++ 58 :: 32 :: body)
      with ((cls ++ 46 :: field_path name sfx) ++ 58 :: 32 :: body)
      by (rewrite <- app_assoc; reflexivity).
    destruct (classed_fieldchars cls name sfx Hc Hn) as [Hne Hf].
    destruct (parse_named _ body Hne Hf Hb) as [H1 H2].
    exists (cls ++ 46 :: field_path name sfx). repeat split; [exact H1|apply path_names_classed|exact H2].
Qed.

(* ------------------------------------------------------------------ fallback / totality *)

Lemma parse_fallback collect m :
  ei_field (parse_msg collect m) = None -> parse_msg collect m = {| ei_field := None; ei_value := None; ei_problem := PText m |}.
Proof.
  unfold parse_msg. destruct (take_field m) as [[f r]|]; [|reflexivity].
  destruct (p1 r) as [[v p]|]; [discriminate|].
  destruct (p2 r) as [[p v]|]; [discriminate|].
  destruct (p3 r); [discriminate|reflexivity].
Qed.

Lemma helper_length ff x :
  List.length (helper ff x) =
  if ff then 1%nat else match x_json x with Some l => List.length l | None => 1%nat end.
Proof.
  unfold helper. destruct ff; [reflexivity|]. destruct (x_json x); [apply map_length|reflexivity].
Qed.

(* ------------------------------------------------------------------ construction: fail-fast, collect-all *)

Definition named_msg (n m : pystr) : Prop :=
  exists sfx body, m = field_path n sfx ++ 58 :: 32 :: body /\ no_nl body = true.

Definition wf_args (args : list arg) : Prop :=
  forall n m, In (n, Some m) args -> identb n = true /\ named_msg n m.

Lemma errors_of_in args n m : In (n, m) (errors_of args) <-> In (n, Some m) args.
Proof.
  induction args as [|[n' [m'|]] t IH]; cbn [errors_of In].
  - tauto.
  - rewrite IH. split; intros [H|H]; try (right; exact H); left; congruence.
  - rewrite IH. split; [intro H; right; exact H|intros [H|H]; [discriminate|exact H]].
Qed.

Definition reports (collect : bool) (cls : pystr) (e : pystr * pystr) (ei : error_info) : Prop :=
  exists p, ei_field ei = Some p /\ path_names cls (fst e) p = true.

Lemma classed_named_field collect cls n m :
  identb cls = true -> identb n = true -> named_msg n m ->
  reports collect cls (n, m) (parse_msg collect (with_class cls m)).
Proof.
  intros Hc Hn (sfx & body & Hm & Hnl). subst m. unfold with_class.
  replace (cls ++ 46 :: field_path n sfx ++ 58 :: 32 :: body)
    with ((cls ++ 46 :: field_path n sfx) ++ 58 :: 32 :: body)
    by (rewrite <- app_assoc; reflexivity).
  destruct (classed_fieldchars cls n sfx Hc Hn) as [Hne Hf].
  exists (cls ++ 46 :: field_path n sfx). split.
  - apply parse_named_field; assumption.
  - apply path_names_classed.
Qed.

Lemma Forall2_map_r {A B} (R : A -> B -> Prop) (f : A -> B) l :
  (forall x, In x l -> R x (f x)) -> Forall2 R l (map f l).
Proof.
  induction l as [|x l IH]; intro H; cbn [map]; constructor.
  - apply H; left; reflexivity.
  - apply IH. intros y Hy. apply H; right; exact Hy.
Qed.

Section ConstructProofs.
  Variable dumps : list pystr -> pystr.

  (* collect-all: one ErrorInfo per invalid bound argument, in order, each naming its argument *)
  Lemma construct_all_reports cls args x :
    identb cls = true -> wf_args args ->
    construct dumps false cls args = Some x ->
    Forall2 (reports true cls) (errors_of args) (helper false x).
  Proof.
    intros Hc Hwf H. unfold construct in H.
    destruct (errors_of args) as [|[n m] rest] eqn:E; [discriminate|].
    inversion H; subst x. clear H.
    change (Forall2 (reports true cls) ((n, m) :: rest)
              (map (parse_msg true) (map (fun e => with_class cls (snd e)) ((n, m) :: rest)))).
    rewrite map_map. apply Forall2_map_r. intros [n' m'] Hin. cbn [snd].
    rewrite <- E in Hin. apply errors_of_in in Hin. destruct (Hwf _ _ Hin) as [Hn Hm].
    apply classed_named_field; assumption.
  Qed.

  Lemma construct_accepts_iff ff cls args :
    construct dumps ff cls args = None <-> errors_of args = [].
  Proof.
    unfold construct. destruct (errors_of args) as [|[n m] rest]; [tauto|].
    destruct ff; split; discriminate.
  Qed.

  (* fail-fast: exactly one ErrorInfo, naming the first invalid bound argument *)
  Lemma construct_ff_reports cls args x :
    identb cls = true -> wf_args args ->
    construct dumps true cls args = Some x ->
    exists n m, In (n, Some m) args /\ hd_error (errors_of args) = Some (n, m) /\
                exists ei, helper true x = [ei] /\ reports false cls (n, m) ei.
  Proof.
    intros Hc Hwf H. unfold construct in H.
    destruct (errors_of args) as [|[n m] rest] eqn:E; [discriminate|].
    inversion H; subst x. clear H.
    assert (Hin : In (n, Some m) args) by (apply errors_of_in; rewrite E; left; reflexivity).
    destruct (Hwf _ _ Hin) as [Hn Hm].
    exists n, m. repeat split; [exact Hin|].
    exists (parse_msg false (with_class cls m)). split; [reflexivity|].
    apply classed_named_field; assumption.
  Qed.

  (* ---------------- deserialization in collect-all mode *)

  Definition wf_dargs (ds : list darg) : Prop :=
    forall d, In d ds -> identb (d_name d) = true /\
      (forall m, d_pre d = Some m -> named_msg (d_name d) m) /\
      (forall m, d_ctor d = Some m -> named_msg (d_name d) m).

  Definition reported_d (cls : pystr) (d : darg) (eis : list error_info) : Prop :=
    exists ei p, In ei eis /\ ei_field ei = Some p /\ path_names cls (d_name d) p = true.

  (* the statement of the property for deserialization *)
  Definition deser_collect_all_full : Prop :=
    forall cls ds, identb cls = true -> wf_dargs ds ->
    forall d, In d ds -> d_invalid d = true ->
    exists x, deserialize_all dumps cls ds = Some x /\ reported_d cls d (helper false x).

  Definition ctor_only (d : darg) : bool :=
    match d_pre d, d_ctor d with None, Some _ => true | _, _ => false end.

  Lemma wf_pre ds : wf_dargs ds -> wf_args (pre_args ds).
  Proof.
    intros H n m Hin. unfold pre_args in Hin. apply in_map_iff in Hin as (d & Hd & Hin).
    inversion Hd; subst. destruct (H d Hin) as (Hn & Hp & _). split; [exact Hn|apply Hp; assumption].
  Qed.

  Lemma wf_ctor ds : wf_dargs ds -> wf_args (ctor_args ds).
  Proof.
    intros H n m Hin. unfold ctor_args in Hin. apply in_map_iff in Hin as (d & Hd & Hin).
    inversion Hd; subst. destruct (H d Hin) as (Hn & _ & Hc). split; [exact Hn|apply Hc; assumption].
  Qed.

  Lemma Forall2_in_l {A B} (R : A -> B -> Prop) l1 l2 x :
    Forall2 R l1 l2 -> In x l1 -> exists y, In y l2 /\ R x y.
  Proof.
    induction 1 as [|a b l1 l2 Hab H IH]; intro Hin; [contradiction|].
    destruct Hin as [Hin|Hin].
    - subst. exists b. split; [left; reflexivity|exact Hab].
    - destruct (IH Hin) as (y & Hy & Hr). exists y. split; [right; exact Hy|exact Hr].
  Qed.

  (* what IS reported: every field the pre-validation rejects; and, only when the pre-validation
     rejects nothing, every field the constructor rejects *)
  Lemma deser_reports_pre cls ds d m :
    identb cls = true -> wf_dargs ds -> In d ds -> d_pre d = Some m ->
    exists x, deserialize_all dumps cls ds = Some x /\ reported_d cls d (helper false x).
  Proof.
    intros Hc Hwf Hin Hp.
    assert (Hine : In (d_name d, m) (errors_of (pre_args ds))).
    { apply errors_of_in. unfold pre_args. apply in_map_iff. exists d. rewrite Hp. split; [reflexivity|exact Hin]. }
    assert (Hc2 := construct_all_reports cls (pre_args ds)).
    unfold deserialize_all. unfold construct in Hc2.
    destruct (errors_of (pre_args ds)) as [|[n0 m0] rest] eqn:E; [contradiction|].
    eexists. split; [reflexivity|].
    specialize (Hc2 _ Hc (wf_pre ds Hwf) eq_refl).
    destruct (Forall2_in_l _ _ _ _ Hc2 Hine) as (ei & Hei & p & Hf & Hpn).
    exists ei, p. repeat split; assumption.
  Qed.

  Lemma deser_reports_ctor cls ds d m :
    identb cls = true -> wf_dargs ds -> In d ds ->
    errors_of (pre_args ds) = [] -> d_ctor d = Some m ->
    exists x, deserialize_all dumps cls ds = Some x /\ reported_d cls d (helper false x).
  Proof.
    intros Hc Hwf Hin Hnone Hp.
    assert (Hine : In (d_name d, m) (errors_of (ctor_args ds))).
    { apply errors_of_in. unfold ctor_args. apply in_map_iff. exists d. rewrite Hp. split; [reflexivity|exact Hin]. }
    unfold deserialize_all. rewrite Hnone.
    destruct (construct dumps false cls (ctor_args ds)) as [x|] eqn:E.
    - exists x. split; [reflexivity|].
      assert (Hc2 := construct_all_reports cls (ctor_args ds) x Hc (wf_ctor ds Hwf) E).
      destruct (Forall2_in_l _ _ _ _ Hc2 Hine) as (ei & Hei & p & Hf & Hpn).
      exists ei, p. repeat split; assumption.
    - apply construct_accepts_iff in E. rewrite E in Hine. contradiction.
  Qed.

  (* characterisation: the statement holds whenever no field is invalid for the constructor only
     while another one is rejected by the pre-validation *)
  Lemma deser_collect_all_safe cls ds :
    identb cls = true -> wf_dargs ds ->
    (errors_of (pre_args ds) = [] \/ forallb (fun d => negb (ctor_only d)) ds = true) ->
    forall d, In d ds -> d_invalid d = true ->
    exists x, deserialize_all dumps cls ds = Some x /\ reported_d cls d (helper false x).
  Proof.
    intros Hc Hwf Hsafe d Hin Hinv.
    destruct (d_pre d) as [m|] eqn:Ep.
    - exact (deser_reports_pre cls ds d m Hc Hwf Hin Ep).
    - destruct (d_ctor d) as [m|] eqn:Ec.
      + destruct Hsafe as [Hnone|Hall].
        * exact (deser_reports_ctor cls ds d m Hc Hwf Hin Hnone Ec).
        * rewrite forallb_forall in Hall. specialize (Hall d Hin).
          unfold ctor_only in Hall. rewrite Ep, Ec in Hall. discriminate.
      + unfold d_invalid in Hinv. rewrite Ep, Ec in Hinv. discriminate.
  Qed.

  (* the loop form used by the correspondence check coincides with deserialize_all when every
     pre-validation error is a TypeError / ValueError *)
  Lemma deser_loop_all ds : forall acc,
    forallb d_caught ds = true ->
    deser_loop false ds acc = inr (acc ++ map snd (errors_of (pre_args ds))).
  Proof.
    induction ds as [|d ds IH]; intros acc H; cbn [deser_loop pre_args map errors_of].
    - rewrite app_nil_r. reflexivity.
    - cbn [forallb] in H. apply andb_true_iff in H as [Hd H].
      destruct (d_pre d) as [m|] eqn:E.
      + rewrite Hd. cbn [negb orb andb]. rewrite (IH _ H).
        cbn [map snd]. rewrite <- app_assoc. reflexivity.
      + apply IH; exact H.
  Qed.

  Lemma deserialize_all_eq cls ds :
    forallb d_caught ds = true -> deserialize dumps false cls ds ds = deserialize_all dumps cls ds.
  Proof.
    intro H. unfold deserialize, deserialize_all. rewrite (deser_loop_all ds [] H). cbn [app].
    destruct (errors_of (pre_args ds)) as [|e rest]; [reflexivity|].
    cbn [map]. rewrite map_map. reflexivity.
  Qed.
  (* the loop with uncaught exceptions coincides with [construct] when every error is a TypeError / ValueError:
     the theorems about [construct] speak about the code on exactly those argument lists *)
  Lemma collect_loop_caught : forall args acc,
      all_caught args = true -> collect_loop args acc = inr (acc ++ map snd (errors_of (map forget args))).
  Proof.
    induction args as [|[n [[m c]|]] t IH]; intros acc H; cbn [collect_loop map forget errors_of fst snd option_map].
    - rewrite app_nil_r. reflexivity.
    - cbn [all_caught forallb snd] in H. destruct c; [|discriminate H]. cbn [andb] in H.
      rewrite (IH _ H). cbn [map snd]. rewrite <- app_assoc. reflexivity.
    - cbn [all_caught forallb snd andb] in H. apply IH. exact H.
  Qed.

  Lemma construct_u_caught ff cls args :
    all_caught args = true -> construct_u dumps ff cls args = construct dumps ff cls (map forget args).
  Proof.
    intro H. unfold construct_u. destruct ff; [reflexivity|].
    rewrite (collect_loop_caught args [] H). cbn [app]. unfold construct.
    destruct (errors_of (map forget args)) as [|[n m] rest]; [reflexivity|].
    cbn [map snd]. rewrite map_map. reflexivity.
  Qed.
End ConstructProofs.
