(* C18: typedpy/errors.py transcribed.  The three message patterns and the class pattern are
   regular expressions matched by a backtracking engine; here they are deterministic parsers over
   code points with the same character classes:
     (written with ANY for the regex dot-star, to keep this a well-formed Coq comment)
     _pattern_for_typepy_validation_1 = ^([a-zA-Z0-9_.]+): Got ([^;]STAR); (ANY)$
     _pattern_for_typepy_validation_2 = ^([a-zA-Z0-9_.]+):\s(ANY); Got (ANY)$
     _pattern_for_typepy_validation_3 = ^([a-zA-Z0-9_.]+):\s(ANY)$
     _expected_class_pattern          = ^Expected\s<class '(ANY)'>$
   `.` does not match "\n"; `$` matches at the end or just before a final "\n"; `\s` is the str
   (Unicode) whitespace class.  Why the deterministic reading is exact:
   group 1 is a maximal run of class characters followed by ':' (':' is not in the class, so no
   shorter run can be followed by ':'); in pattern 1 the negated class run is the maximal run of non-';'
   characters (a shorter run would need ';' where there is none); in pattern 2 the greedy first
   group ends at the LAST "; Got " of the line.  No proofs in this file. *)
From Coq Require Import NArith List String Bool. Import ListNotations.
From TP Require Import Base.PyVal.
Local Open Scope string_scope.
Local Open Scope N_scope.
Local Open Scope list_scope.

Definition in_range (lo hi c : N) : bool := (lo <=? c) && (c <=? hi).

(* [a-zA-Z0-9_.] *)
Definition is_fieldch (c : N) : bool :=
  in_range 97 122 c || in_range 65 90 c || in_range 48 57 c || (c =? 95) || (c =? 46).

(* \s for str patterns: Py_UNICODE_ISSPACE *)
Definition is_ws (c : N) : bool :=
  in_range 9 13 c || in_range 28 32 c || (c =? 133) || (c =? 160) || (c =? 5760) ||
  in_range 8192 8202 c || (c =? 8232) || (c =? 8233) || (c =? 8239) || (c =? 8287) || (c =? 12288).

Definition is_nl (c : N) : bool := c =? 10.
Definition not_semi (c : N) : bool := negb (c =? 59).

Fixpoint span (p : N -> bool) (s : pystr) : pystr * pystr :=
  match s with
  | [] => ([], [])
  | c :: t => if p c then let (a, b) := span p t in (c :: a, b) else ([], s)
  end.

(* s = pre ++ rest  ->  Some rest *)
Fixpoint strip_prefix (pre s : pystr) : option pystr :=
  match pre, s with
  | [], _ => Some s
  | p :: pre', c :: s' => if p =? c then strip_prefix pre' s' else None
  | _ :: _, [] => None
  end.

Definition no_nl (s : pystr) : bool := forallb (fun c => negb (is_nl c)) s.

(* remove one final "\n" *)
Fixpoint strip_final_nl (s : pystr) : pystr :=
  match s with
  | [] => []
  | [c] => if is_nl c then [] else [c]
  | c :: t => c :: strip_final_nl t
  end.

(* ANY followed by $ applied to everything that is left: the group, if it matches *)
Definition dollar_line (s : pystr) : option pystr :=
  let s' := strip_final_nl s in if no_nl s' then Some s' else None.

(* s = a ++ sep ++ b with the LAST occurrence of sep  ->  Some (a, b) *)
Fixpoint split_last (sep s : pystr) : option (pystr * pystr) :=
  match s with
  | [] => None
  | c :: t =>
      match split_last sep t with
      | Some (a, b) => Some (c :: a, b)
      | None => match strip_prefix sep s with
                | Some b => Some ([], b)
                | None => None
                end
      end
  end.

(* ^([a-zA-Z0-9_.]+):   ->  (group 1, what follows the colon) *)
Definition take_field (m : pystr) : option (pystr * pystr) :=
  let (w, r) := span is_fieldch m in
  match w, r with
  | _ :: _, c :: r' => if c =? 58 then Some (w, r') else None
  | _, _ => None
  end.

Definition SEMI_SP : pystr := s2p "; ".
Definition SP_GOT_SP : pystr := s2p " Got ".
Definition SEMI_GOT : pystr := s2p "; Got ".

(* pattern 1 after the colon: (value, problem) *)
Definition p1 (r : pystr) : option (pystr * pystr) :=
  match strip_prefix SP_GOT_SP r with
  | None => None
  | Some r1 =>
      let (v, r2) := span not_semi r1 in
      match strip_prefix SEMI_SP r2 with
      | None => None
      | Some r3 => match dollar_line r3 with
                   | Some p => Some (v, p)
                   | None => None
                   end
      end
  end.

(* pattern 2 after the colon: (problem, value) *)
Definition p2 (r : pystr) : option (pystr * pystr) :=
  match r with
  | c :: r1 =>
      if is_ws c then
        match dollar_line r1 with
        | Some line => split_last SEMI_GOT line
        | None => None
        end
      else None
  | [] => None
  end.

(* pattern 3 after the colon: problem *)
Definition p3 (r : pystr) : option pystr :=
  match r with
  | c :: r1 => if is_ws c then dollar_line r1 else None
  | [] => None
  end.

(* ---- _transform_class_to_readable *)
Definition display_type_by_type : list (pystr * pystr) :=
  [ (s2p "int", s2p "an integer number"); (s2p "str", s2p "a text value");
    (s2p "float", s2p "a decimal number"); (s2p "list", s2p "an array") ].

Fixpoint drop_last2 (s : pystr) : option (pystr * pystr) :=   (* (init, last two) *)
  match s with
  | [] | [_] => None
  | [a; b] => Some ([], [a; b])
  | c :: t => match drop_last2 t with Some (i, l) => Some (c :: i, l) | None => None end
  end.

(* group 1 of the class pattern *)
Definition class_of_expected (p : pystr) : option pystr :=
  match strip_prefix (s2p "Expected") p with
  | Some (c :: r) =>
      if is_ws c then
        match strip_prefix (s2p "<class '") r with
        | Some x =>
            match drop_last2 (strip_final_nl x) with
            | Some (cn, l) => if pystr_eqb l (s2p "'>") && no_nl cn then Some cn else None
            | None => None
            end
        | None => None
        end
      else None
  | _ => None
  end.

Inductive problem :=
| PText (s : pystr)
| PMatchRepr          (* "Expected " ++ repr(<re.Match object>): the .get(..., match) default *)
| PExpanded.          (* collect-all mode, problem text that json.loads may accept: not modelled *)

Definition transform_class (p : pystr) : problem :=
  match class_of_expected p with
  | Some cn => match alist_get display_type_by_type cn with
               | Some d => PText (s2p "Expected " ++ d)
               | None => PMatchRepr
               end
  | None => PText p
  end.

(* try_expand: in collect-all mode the problem is fed to json.loads.  A JSON document starts
   (after JSON whitespace) with one of  [ { double-quote - 0-9 t f n N I ; anything else is a JSONDecodeError
   and the problem stays as it is. *)
Definition json_ws (c : N) : bool := (c =? 32) || (c =? 9) || (c =? 10) || (c =? 13).
Definition json_start (c : N) : bool :=
  (c =? 91) || (c =? 123) || (c =? 34) || (c =? 45) || in_range 48 57 c ||
  (c =? 116) || (c =? 102) || (c =? 110) || (c =? 78) || (c =? 73).
Definition may_be_json (s : pystr) : bool :=
  match snd (span json_ws s) with
  | [] => false
  | c :: _ => json_start c
  end.

Definition try_expand (collect : bool) (p : problem) : problem :=
  match p with
  | PText s => if collect && may_be_json s then PExpanded else p
  | _ => if collect then PExpanded else p   (* repr of a match object starts with 'E': see below *)
  end.

Record error_info := { ei_field : option pystr; ei_value : option pystr; ei_problem : problem }.

(* _standard_readable_error_for_typedpy_exception_internal *)
Definition parse_msg (collect : bool) (m : pystr) : error_info :=
  let expand p := match p with
                  | PMatchRepr => PMatchRepr      (* "Expected <re.Match ..." is never JSON *)
                  | _ => try_expand collect p
                  end in
  match take_field m with
  | None => {| ei_field := None; ei_value := None; ei_problem := PText m |}
  | Some (f, r) =>
      match p1 r with
      | Some (v, p) => {| ei_field := Some f; ei_value := Some v; ei_problem := expand (transform_class p) |}
      | None =>
          match p2 r with
          | Some (p, v) => {| ei_field := Some f; ei_value := Some v; ei_problem := expand (transform_class p) |}
          | None =>
              match p3 r with
              | Some p => {| ei_field := Some f; ei_value := None; ei_problem := expand (transform_class p) |}
              | None => {| ei_field := None; ei_value := None; ei_problem := PText m |}
              end
          end
      end
  end.

(* An exception text, with what json.loads makes of it (oracle: the real json module;
   Some l when it is a JSON array of strings). *)
Record exn_text := { x_raw : pystr; x_json : option (list pystr) }.

(* standard_readable_error_for_typedpy_exception(e), top_level=True *)
Definition helper (fail_fast : bool) (x : exn_text) : list error_info :=
  if fail_fast then [parse_msg false (x_raw x)]
  else match x_json x with
       | Some l => map (parse_msg true) l
       | None => [parse_msg true (x_raw x)]
       end.

Definition problem_nonempty (p : problem) : bool :=
  match p with
  | PText s => negb (match s with [] => true | _ => false end)
  | PMatchRepr => true
  | PExpanded => false
  end.

(* ---- which top-level field a reported path names:  [Cls.]name[_<digits>|_key|_value] *)
Definition is_digit (c : N) : bool := in_range 48 57 c.
Definition suffix_ok (s : pystr) : bool :=
  match s with
  | [] => true
  | 95 :: d :: ds => (forallb is_digit (d :: ds)) || pystr_eqb s (s2p "_key") || pystr_eqb s (s2p "_value")
  | _ => false
  end.

Definition names_plain (name path : pystr) : bool :=
  match strip_prefix name path with
  | Some s => suffix_ok s
  | None => false
  end.

Definition path_names (cls name path : pystr) : bool :=
  names_plain name path ||
  match strip_prefix (cls ++ [46]) path with
  | Some rest => names_plain name rest
  | None => false
  end.
