(* C18: a switch kept in one process-wide cell behaves as documented under EVERY interleaving of calls
   from any number of threads; a switch kept per thread does not. *)
From Coq Require Import NArith List String Bool. Import ListNotations.
From TP Require Import Base.PyVal Errors.Switch.
Local Open Scope list_scope.

Lemma run_global : forall n evs s cur,
    alist_get (s_global s) n = Some cur ->
    run_switch (WCell (CGlobal n)) (RCells [CGlobal n]) s evs = spec_switch cur evs.
Proof.
  induction evs as [|[t b|t] rest IH]; intros s cur H; cbn [run_switch spec_switch]; [reflexivity| |].
  - apply IH. cbn [cell_set s_global alist_get]. rewrite pystr_eqb_refl. reflexivity.
  - cbn [chain_get cell_get]. rewrite H. f_equal. apply IH. exact H.
Qed.

Theorem process_wide_sound : forall w r init cur evs,
    process_wide w r = true -> alist_get init (the_cell w) = Some cur ->
    run_switch w r (init_store init) evs = spec_switch cur evs.
Proof.
  intros w r init cur evs H Hi. destruct w as [[n|n]|]; try discriminate H.
  destruct r as [[|[m|m] [|c cs]]|]; try discriminate H. cbn [process_wide] in H.
  apply pystr_eqb_spec in H. subst m. apply run_global. exact Hi.
Qed.

(* a per-thread cell with a process-wide fallback: thread 0 switches to collect-all, thread 1 still fails fast *)
Theorem thread_local_refuted : forall x y,
    run_switch (WCell (CLocal x)) (RCells [CLocal x; CGlobal y]) (init_store [(y, true)]) [ESet 0 false; EGet 1]
    <> spec_switch true [ESet 0 false; EGet 1].
Proof.
  intros x y. cbn [run_switch spec_switch cell_set chain_get cell_get init_store s_local s_global local_get alist_get].
  cbn [Nat.eqb andb]. rewrite pystr_eqb_refl. discriminate.
Qed.
