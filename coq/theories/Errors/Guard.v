(* C18: WHO raises.  The message templates (Errors/Template.v, Gen/Templates.v) say what a `raise`
   statement of typedpy prints; they do not say whether a rejection comes from a `raise` statement at
   all.  A validator is a chain of guards, and a guard is an expression: `value <= 0`, `value in
   mapping`, `len(value) > self.maxLength`.  Evaluating it on a value of an unexpected class makes the
   INTERPRETER raise (TypeError: '<=' not supported ..., unhashable type: 'list', int too large to
   convert to float) - an exception that carries no field name.

   This file is a deep embedding of the guard fragment of Python in which the validation chains of
   typedpy's scalar fields are written, its semantics over the value universe (operators of
   Base/PyOps.v), and a flow-sensitive class analysis [gsafe] that decides, for a program and a
   description of the field object's attributes, that NO guard can raise by itself: every rejection
   then is a `raise` statement of the program, i.e. a template.  The programs themselves
   (Gen/GuardProgs.v) are regenerated from typedpy's source - following the real MRO of every concrete
   field class - on every run.  Soundness of the analysis is proved in Errors/GuardProofs.v.
   Executable; no proofs in this file. *)
From Coq Require Import ZArith NArith List String Bool. Import ListNotations.
From TP Require Import Base.PyVal Base.PyOps Fields.SetChain.
Local Open Scope list_scope.

(* ------------------------------------------------------------------ syntax *)

Inductive cmpop := OLt | OLe | OGt | OGe | OEq | ONe.

(* expressions that denote a value *)
Inductive gval :=
| GVar (n : nat)                                    (* local n: 0.. are the parameters, then the rebindings *)
| GAttr (a : pystr)                                 (* self.<a> *)
| GConst (c : pyval)
| GLen (e : gval)                                   (* len(e) *)
| GNames (as_set : bool) (e : gval)                 (* {m.name for m in e} / [m.name for m in e] *)
| GLitGetOr (kv : list (pyval * pyval)) (e : gval)  (* D[e] if e in D else e, D a dict display *)
| GToFloat (e : gval)                               (* float(e) *)
| GUnique (e : gval).                               (* the accumulate-unique reduce idiom *)

(* what `in` looks into *)
Inductive gcont :=
| KScan (items : list pyval)          (* a tuple / list display: compared with == *)
| KHashed (dict : bool) (items : list pyval)   (* a set display / the keys of a dict display: hashed first *)
| KExpr (e : gval).                   (* a container known at run time only *)

Inductive gcond :=
| CConst (b : bool)
| CIsInst (e : gval) (ks : list pyclass)
| CNot (c : gcond)
| CAnd (a b : gcond)
| COr (a b : gcond)
| CCmp (op : cmpop) (a b : gval)
| CIn (e : gval) (k : gcont)
| CIs (e : gval) (c : pyval)          (* identity with None / True / False *)
| CTruthy (e : gval)
| CReMatch (e : gval)                 (* self._compiled_pattern.match(e) is a match *)
| CMod (a b : gval)                   (* truthiness of a % b *)
| CDivNotInt (a b : gval)             (* int(a / b) != a / b *)
| CIsEnum (e : gval)                  (* isinstance(e, enum.Enum): e is a member of an enum class *)
| CAnyIs (e ce : gval).               (* any(e is v for v in ce): identity with one of the elements of ce *)

(* a validation chain, in continuation form: the statements after an `if` are in both branches *)
Inductive gprog :=
| PDone (n : nat)                              (* Field.__set__ reached: local n is stored *)
| PRaise (tid : N) (e : exn)                   (* `raise`: the template Gen/Templates.v numbers tid *)
| PIf (c : gcond) (th el : gprog)
| PLet (c : gcond) (a b : gval) (k : gprog)    (* a new local := a if c else b *)
| PTry (a : gval) (x : exn) (h k : gprog)      (* try: new local := a  except x: h   (h ends in a raise); then k *)
| PCatch (x : exn) (h body : gprog)            (* try: body  except x: h    (body: the guarded block AND what follows it) *)
| PUnknown.                                    (* a statement the translator does not recognise *)

(* ------------------------------------------------------------------ semantics *)

Inductive outcome :=
| Pass (v : pyval)            (* accepted by this chain; v is what is stored *)
| Named (tid : N) (e : exn)   (* rejected by a raise statement *)
| Bare (e : exn).             (* an operator raised: the exception text has no field name *)

Definition name_of (v : pyval) : res pyval :=
  match v with PEnum _ n _ => Ok (PStr n) | _ => Raise AttributeError end.

(* any(x is v for v in c): the identity of enum members only is known (one object per class and name; a value
   of any other kind is never that object); whether two equal strs / ints are one object is not predicted *)
Definition is_member_obj (x v : pyval) : res bool :=
  match v with
  | PEnum c n _ => Ok (match x with PEnum c' n' _ => pystr_eqb c' c && pystr_eqb n' n | _ => false end)
  | _ => Raise Unmodelled
  end.
Definition any_is (x c : pyval) : res bool :=
  match c with
  | PList l | PTuple l => r <- mapM (is_member_obj x) l ;; Ok (existsb (fun b => b) r)
  | _ => Raise Unmodelled
  end.

Definition two_1024 : Z := 2 ^ 1024.

(* float(z) for an int beyond 2^53: round to nearest, ties to even, on 53 significant bits; the result
   is an integer again (a multiple of a power of two) *)
Definition round_int (z : Z) : Z :=
  (let a := Z.abs z in
   let n := Z.log2 a in
   if n <? 53 then z
   else let sh := n - 52 in
        let q := Z.shiftr a sh in
        let r := a - Z.shiftl q sh in
        let half := Z.shiftl 1 (sh - 1) in
        let q' := if (half <? r) || ((r =? half) && Z.odd q) then q + 1 else q in
        Z.sgn z * Z.shiftl q' sh)%Z.

Definition to_float (v : pyval) : res pyval :=
  match v with
  | PNum (NInt z) =>
      if float_exact z then Ok (PNum (int_to_flt z))
      else let r := round_int z in
           if (Z.abs r <? two_1024)%Z then Ok (PNum (int_to_flt r))
           else Raise OverflowError                               (* int too large to convert to float *)
  | PBool b => Ok (PNum (int_to_flt (if b then 1 else 0)))
  | PNum (NFlt _ _) => Ok v
  | PNum (NDec _ _) => Raise Unmodelled
  | PStr _ => Raise Unmodelled                                    (* float("1.5") parses *)
  | POther _ _ | PStruct _ _ => Raise Unmodelled
  | _ => Raise TypeError
  end.

(* `x in <set>`: x is hashed - except that a set is looked up as the frozenset of its elements *)
Definition is_set (v : pyval) : bool := match v with PSet _ _ => true | _ => false end.
Definition py_in_set (x : pyval) (l : list pyval) : res bool :=
  if py_hashable' x || is_set x then Ok (py_in x l) else Raise TypeError.

Definition py_in_container (x c : pyval) : res bool :=
  match c with
  | PList l | PTuple l | PDeque l => Ok (py_in x l)
  | PSet _ l => py_in_set x l
  | PDict kv => if py_hashable' x then Ok (py_in x (map fst kv)) else Raise TypeError
  | PStr _ => match x with PStr _ => Raise Unmodelled | _ => Raise TypeError end
  | POther _ _ | PStruct _ _ => Raise Unmodelled
  | _ => Raise TypeError
  end.

Definition identical (v c : pyval) : bool :=
  match v, c with
  | PNone, PNone => true
  | PBool a, PBool b => Bool.eqb a b
  | _, _ => false
  end.

Definition py_mod (a b : pyval) : res bool :=
  match as_num a, b with
  | Some x, PNum (NInt m) =>
      if (m =? 0)%Z then Raise ZeroDivisionError else Ok (negb (num_multiple_of x (NInt m)))
  | Some _, _ => Raise Unmodelled
  | None, _ => match a with
               | PStr _ => Raise Unmodelled                       (* "%s" % x formats *)
               | POther _ _ | PStruct _ _ => Raise Unmodelled
               | _ => Raise TypeError
               end
  end.

Definition cmp (op : cmpop) (x y : pyval) : res bool :=
  match op with
  | OLt => py_lt x y | OLe => py_le x y | OGt => py_gt x y | OGe => py_ge x y
  | OEq => py_eqv x y | ONe => py_ne x y
  end.

Section Run.
  Variable re : pystr -> bool.        (* oracle: the field's compiled pattern matches the string *)
  Variable self : pystr -> pyval.     (* the field object's attributes *)

  Fixpoint eval_val (vals : list pyval) (e : gval) : res pyval :=
    match e with
    | GVar n => match nth_error vals n with Some v => Ok v | None => Raise Unmodelled end
    | GAttr a => Ok (self a)
    | GConst c => Ok c
    | GLen e1 => v <- eval_val vals e1 ;; py_len v
    | GNames as_set e1 =>
        v <- eval_val vals e1 ;;
        match v with
        | PList l | PTuple l =>
            ns <- mapM name_of l ;; Ok (if as_set then PSet false (py_dedup ns) else PList ns)
        | _ => Raise Unmodelled
        end
    | GLitGetOr kv e1 =>
        v <- eval_val vals e1 ;;
        if py_hashable' v then Ok (match dict_get kv v with Some x => x | None => v end) else Raise TypeError
    | GToFloat e1 => v <- eval_val vals e1 ;; to_float v
    | GUnique e1 => v <- eval_val vals e1 ;; py_unique_list v
    end.

  Fixpoint eval_cond (vals : list pyval) (c : gcond) : res bool :=
    match c with
    | CConst b => Ok b
    | CIsInst e ks => v <- eval_val vals e ;; Ok (py_isinstance v ks)
    | CNot c1 => b <- eval_cond vals c1 ;; Ok (negb b)
    | CAnd a b => x <- eval_cond vals a ;; if x then eval_cond vals b else Ok false
    | COr a b => x <- eval_cond vals a ;; if x then Ok true else eval_cond vals b
    | CCmp op a b => x <- eval_val vals a ;; y <- eval_val vals b ;; cmp op x y
    | CIn e k =>
        x <- eval_val vals e ;;
        match k with
        | KScan l => Ok (py_in x l)
        | KHashed d l => if d then py_in_hashed x l else py_in_set x l
        | KExpr ce => c1 <- eval_val vals ce ;; py_in_container x c1
        end
    | CIs e k => v <- eval_val vals e ;; Ok (identical v k)
    | CTruthy e => v <- eval_val vals e ;; Ok (py_truthy v)
    | CReMatch e => v <- eval_val vals e ;;
                    match v with
                    | PStr s => Ok (re s)
                    | POther _ _ | PStruct _ _ => Raise Unmodelled
                    | _ => Raise TypeError
                    end
    | CMod a b => x <- eval_val vals a ;; y <- eval_val vals b ;; py_mod x y
    | CDivNotInt a b => _ <- eval_val vals a ;; _ <- eval_val vals b ;; Raise Unmodelled
    | CIsEnum e => v <- eval_val vals e ;; Ok (py_is_enum_member v)
    | CAnyIs e ce => x <- eval_val vals e ;; c1 <- eval_val vals ce ;; any_is x c1
    end.

  Fixpoint run (vals : list pyval) (p : gprog) : outcome :=
    match p with
    | PDone n => match nth_error vals n with Some v => Pass v | None => Bare Unmodelled end
    | PRaise tid e => Named tid e
    | PIf c th el =>
        match eval_cond vals c with
        | Ok true => run vals th
        | Ok false => run vals el
        | Raise e => Bare e
        end
    | PLet c a b k =>
        match eval_cond vals c with
        | Raise e => Bare e
        | Ok t => match eval_val vals (if t then a else b) with
                  | Ok v => run (vals ++ [v]) k
                  | Raise e => Bare e
                  end
        end
    | PTry a x h k =>
        match eval_val vals a with
        | Ok v => run (vals ++ [v]) k
        | Raise e => if exn_eqb e x then run vals h else Bare e
        end
    | PCatch x h body =>
        match run vals body with
        | Bare e => if exn_eqb e x then run vals h else Bare e
        | o => o
        end
    | PUnknown => Bare Unmodelled
    end.
End Run.

(* the raise statements of a program *)
Fixpoint sites (p : gprog) : list (N * exn) :=
  match p with
  | PRaise tid e => [(tid, e)]
  | PIf _ th el => sites th ++ sites el
  | PLet _ _ _ k => sites k
  | PTry _ _ h k => sites h ++ sites k
  | PCatch _ h body => sites h ++ sites body
  | PDone _ | PUnknown => []
  end.

(* ------------------------------------------------------------------ abstract classes of values *)

Inductive acls :=
| AK (k : pyclass)
| ATrue | AFalse               (* the two bools, separately: `value is not True` *)
| ASmallInt                    (* an int (not bool) that float() represents exactly *)
| ANonZeroInt                  (* an int (not bool) other than 0: multiplesOf *)
| AEnumMember                  (* a member of an enum class *)
| AEnumSeq.                    (* a list / tuple of enum members *)

Definition is_enum_member (v : pyval) : bool := match v with PEnum _ _ _ => true | _ => false end.

Definition acls_has (c : acls) (v : pyval) : bool :=
  match c with
  | AK k => isinstance1 v k
  | ATrue => match v with PBool true => true | _ => false end
  | AFalse => match v with PBool false => true | _ => false end
  | ASmallInt => match v with PNum (NInt z) => float_exact z | _ => false end
  | ANonZeroInt => match v with PNum (NInt z) => negb (z =? 0)%Z | _ => false end
  | AEnumMember => is_enum_member v
  | AEnumSeq => match v with PList l | PTuple l => forallb is_enum_member l | _ => false end
  end.

Definition acls_any (l : list acls) (v : pyval) : bool := existsb (fun c => acls_has c v) l.

(* None = nothing known *)
Definition absv := option (list acls).
Definition absv_has (a : absv) (v : pyval) : bool :=
  match a with None => true | Some l => acls_any l v end.

Definition pyclass_eqb (a b : pyclass) : bool :=
  match a, b with
  | K_int, K_int | K_float, K_float | K_Decimal, K_Decimal | K_str, K_str | K_bool, K_bool
  | K_list, K_list | K_deque, K_deque | K_tuple, K_tuple | K_set, K_set | K_frozenset, K_frozenset
  | K_dict, K_dict | K_NoneType, K_NoneType => true
  | _, _ => false
  end.
Definition kmem (k : pyclass) (ks : list pyclass) : bool := existsb (pyclass_eqb k) ks.

(* c and isinstance(_, ks) can hold of the same value (false only when provably disjoint) *)
Definition overlap (c : acls) (ks : list pyclass) : bool :=
  match c with
  | AK K_bool => kmem K_bool ks || kmem K_int ks
  | AK K_int => kmem K_int ks || kmem K_bool ks
  | AK k => kmem k ks
  | ATrue | AFalse => kmem K_bool ks || kmem K_int ks
  | ASmallInt | ANonZeroInt => kmem K_int ks
  | AEnumMember => false
  | AEnumSeq => kmem K_list ks || kmem K_tuple ks
  end.

(* every value of c satisfies isinstance(_, ks) *)
Definition incl_in (c : acls) (ks : list pyclass) : bool :=
  match c with
  | AK K_bool => kmem K_bool ks || kmem K_int ks
  | AK k => kmem k ks
  | ATrue | AFalse => kmem K_bool ks || kmem K_int ks
  | ASmallInt | ANonZeroInt => kmem K_int ks
  | AEnumMember => false
  | AEnumSeq => kmem K_list ks && kmem K_tuple ks
  end.

Definition numeric (c : acls) : bool :=
  match c with
  | AK K_int | AK K_float | AK K_Decimal | AK K_bool | ATrue | AFalse | ASmallInt | ANonZeroInt => true
  | _ => false
  end.

Definition hashable (c : acls) : bool :=
  match c with
  | AK K_int | AK K_float | AK K_Decimal | AK K_bool | AK K_str | AK K_NoneType | AK K_frozenset
  | ATrue | AFalse | ASmallInt | ANonZeroInt | AEnumMember => true
  | _ => false
  end.

Definition sized (c : acls) : bool :=
  match c with
  | AK K_str | AK K_list | AK K_deque | AK K_tuple | AK K_set | AK K_frozenset | AK K_dict | AEnumSeq => true
  | _ => false
  end.

Definition seq_like (c : acls) : bool :=     (* py_seq_items succeeds *)
  match c with
  | AK K_list | AK K_deque | AK K_tuple | AK K_set | AK K_frozenset | AEnumSeq => true
  | _ => false
  end.

Definition scanned (c : acls) : bool :=      (* `in` compares with ==, never hashes *)
  match c with AK K_list | AK K_tuple | AK K_deque | AEnumSeq => true | _ => false end.

Definition hashing (c : acls) : bool :=      (* `in` hashes the candidate *)
  match c with AK K_set | AK K_frozenset | AK K_dict => true | _ => false end.

Definition is_str_cls (c : acls) : bool := match c with AK K_str => true | _ => false end.
Definition enum_seq (c : acls) : bool := match c with AEnumSeq => true | _ => false end.
Definition nonzero_int (c : acls) : bool := match c with ANonZeroInt => true | _ => false end.

(* float() neither overflows nor rounds *)
Definition floatable (c : acls) : bool :=
  match c with AK K_float | AK K_bool | ATrue | AFalse | ASmallInt => true | _ => false end.

Definition may_be_truthy (c : acls) : bool :=
  match c with AK K_NoneType | AFalse => false | _ => true end.
Definition may_be_falsy (c : acls) : bool :=
  match c with ATrue | ANonZeroInt | AEnumMember => false | _ => true end.

(* c can be the very object k (None / True / False) *)
Definition may_be_const (k : pyval) (c : acls) : bool :=
  match k, c with
  | PNone, AK K_NoneType => true
  | PNone, _ => false
  | PBool true, (AK K_bool | AK K_int | ATrue) => true
  | PBool true, _ => false
  | PBool false, (AK K_bool | AK K_int | AFalse) => true
  | PBool false, _ => false
  | _, _ => true
  end.
(* c is exactly {k} *)
Definition is_const (k : pyval) (c : acls) : bool :=
  match k, c with
  | PNone, AK K_NoneType => true
  | PBool true, ATrue => true
  | PBool false, AFalse => true
  | _, _ => false
  end.

Definition class_of_const (c : pyval) : absv :=
  match c with
  | PNone => Some [AK K_NoneType]
  | PBool true => Some [ATrue]
  | PBool false => Some [AFalse]
  | PNum (NInt z) => Some ((if float_exact z then [ASmallInt] else []) ++
                           (if (z =? 0)%Z then [] else [ANonZeroInt]) ++ [AK K_int])
  | PNum (NFlt _ _) => Some [AK K_float]
  | PNum (NDec _ _) => Some [AK K_Decimal]
  | PStr _ => Some [AK K_str]
  | _ => None
  end.

(* ------------------------------------------------------------------ abstract environments *)

Record aenv := { a_vars : list absv; a_attrs : list (pystr * list acls) }.

Definition all_of (p : acls -> bool) (a : absv) : bool :=
  match a with Some l => forallb p l | None => false end.

Definition absv_join (a b : absv) : absv :=
  match a, b with Some x, Some y => Some (x ++ y) | _, _ => None end.

Definition absv_filter (p : acls -> bool) (a : absv) : absv :=
  match a with Some l => Some (filter p l) | None => None end.

(* what is known after isinstance(_, ks) held *)
Definition absv_meet (a : absv) (ks : list pyclass) : absv :=
  match a with
  | None => Some (map AK ks)
  | Some l => let f := filter (fun c => overlap c ks) l in
              if forallb (fun c => incl_in c ks) f then Some f else Some (map AK ks)
  end.

Definition var_ty (env : aenv) (n : nat) : absv :=
  match nth_error (a_vars env) n with Some a => a | None => Some [] end.
Definition attr_ty (env : aenv) (a : pystr) : absv :=
  match alist_get (a_attrs env) a with Some l => Some l | None => None end.

Fixpoint set_nth {A} (l : list A) (n : nat) (x : A) : list A :=
  match l, n with
  | [], _ => []
  | _ :: t, O => x :: t
  | h :: t, S m => h :: set_nth t m x
  end.

Definition set_var (env : aenv) (n : nat) (a : absv) : aenv :=
  {| a_vars := set_nth (a_vars env) n a; a_attrs := a_attrs env |}.
Definition set_attr (env : aenv) (x : pystr) (a : absv) : aenv :=
  match a with
  | Some l => {| a_vars := a_vars env; a_attrs := (x, l) :: a_attrs env |}
  | None => env
  end.

(* some local or attribute has no possible class left: the program point is unreachable *)
Definition is_empty (a : absv) : bool := match a with Some [] => true | _ => false end.
Definition bottom (env : aenv) : bool :=
  existsb is_empty (a_vars env) || existsb (fun p => match snd p with [] => true | _ => false end) (a_attrs env).

Definition aty (env : aenv) (e : gval) : absv :=
  match e with
  | GVar n => var_ty env n
  | GAttr a => attr_ty env a
  | GConst c => class_of_const c
  | GLen _ => Some [AK K_int]
  | GNames as_set _ => Some [AK (if as_set then K_set else K_list)]
  | GLitGetOr _ _ => None
  | GToFloat _ => Some [AK K_float]
  | GUnique _ => Some [AK K_list]
  end.

(* evaluating e cannot raise *)
Fixpoint vsafe (env : aenv) (e : gval) : bool :=
  match e with
  | GVar n => match nth_error (a_vars env) n with Some _ => true | None => false end
  | GAttr _ | GConst _ => true
  | GLen e1 => vsafe env e1 && all_of sized (aty env e1)
  | GNames _ e1 => vsafe env e1 && all_of enum_seq (aty env e1)
  | GLitGetOr _ e1 => vsafe env e1 && all_of hashable (aty env e1)
  | GToFloat e1 => vsafe env e1 && all_of floatable (aty env e1)
  | GUnique e1 => vsafe env e1 && all_of seq_like (aty env e1)
  end.

Definition refine_on (env : aenv) (e : gval) (f : absv -> absv) : aenv :=
  match e with
  | GVar n => set_var env n (f (var_ty env n))
  | GAttr a => set_attr env a (f (attr_ty env a))
  | _ => env
  end.

Definition join_vars (a b : list absv) : list absv :=
  (fix go (x y : list absv) : list absv :=
     match x, y with
     | h :: t, h' :: t' => absv_join h h' :: go t t'
     | _, _ => []
     end) a b.

(* the environment in the branch where c evaluated to b *)
Fixpoint refine (env : aenv) (c : gcond) (b : bool) : aenv :=
  match c with
  | CConst k => if Bool.eqb k b then env else {| a_vars := map (fun _ => Some []) (a_vars env); a_attrs := a_attrs env |}
  | CIsInst e ks => if b then refine_on env e (fun a => absv_meet a ks) else env
  | CNot c1 => refine env c1 (negb b)
  | CAnd x y =>
      if b then refine (refine env x true) y true
      else {| a_vars := join_vars (a_vars (refine env x false)) (a_vars (refine (refine env x true) y false));
              a_attrs := a_attrs env |}
  | COr x y =>
      if b then {| a_vars := join_vars (a_vars (refine env x true)) (a_vars (refine (refine env x false) y true));
                   a_attrs := a_attrs env |}
      else refine (refine env x false) y false
  | CIs e k =>
      if b then refine_on env e (absv_filter (may_be_const k))
      else refine_on env e (absv_filter (fun c => negb (is_const k c)))
  | CTruthy e => refine_on env e (absv_filter (if b then may_be_truthy else may_be_falsy))
  | CCmp _ _ _ | CIn _ _ | CReMatch _ | CMod _ _ | CDivNotInt _ _ | CIsEnum _ | CAnyIs _ _ => env
  end.

(* evaluating c cannot raise *)
Fixpoint csafe (env : aenv) (c : gcond) : bool :=
  bottom env ||
  match c with
  | CConst _ => true
  | CIsInst e _ | CIs e _ | CTruthy e | CIsEnum e => vsafe env e
  | CAnyIs e ce => vsafe env e && vsafe env ce && all_of enum_seq (aty env ce)
  | CNot c1 => csafe env c1
  | CAnd x y => csafe env x && csafe (refine env x true) y
  | COr x y => csafe env x && csafe (refine env x false) y
  | CCmp op a b =>
      vsafe env a && vsafe env b &&
      match op with
      | OEq | ONe => true
      | _ => all_of numeric (aty env a) && all_of numeric (aty env b)
      end
  | CIn e k =>
      vsafe env e &&
      match k with
      | KScan _ => true
      | KHashed _ _ => all_of hashable (aty env e)
      | KExpr ce => vsafe env ce &&
                    (all_of scanned (aty env ce) ||
                     (all_of (fun c => scanned c || hashing c) (aty env ce) && all_of hashable (aty env e)))
      end
  | CReMatch e => vsafe env e && all_of is_str_cls (aty env e)
  | CMod a b => vsafe env a && vsafe env b && all_of numeric (aty env a) && all_of nonzero_int (aty env b)
  | CDivNotInt _ _ => false
  end.

(* an arm of a conditional rebinding: nothing is required of, or learnt from, an arm that cannot run *)
Definition branch_safe (env : aenv) (e : gval) : bool := bottom env || vsafe env e.
Definition branch_ty (env : aenv) (e : gval) : absv := if bottom env then Some [] else aty env e.

(* float() of c raises nothing, or OverflowError only *)
Definition float_or_overflow (c : acls) : bool :=
  floatable c || match c with AK K_int | ANonZeroInt => true | _ => false end.

(* evaluating a can raise x and nothing else *)
Definition tsafe (env : aenv) (a : gval) (x : exn) : bool :=
  vsafe env a ||
  match a, x with
  | GToFloat e1, OverflowError => vsafe env e1 && all_of float_or_overflow (aty env e1)
  | _, _ => false
  end.

Fixpoint gsafe (env : aenv) (p : gprog) : bool :=
  bottom env ||
  match p with
  | PDone n => match nth_error (a_vars env) n with Some _ => true | None => false end
  | PRaise _ _ => true
  | PIf c th el => csafe env c && gsafe (refine env c true) th && gsafe (refine env c false) el
  | PLet c a b k =>
      csafe env c && branch_safe (refine env c true) a && branch_safe (refine env c false) b &&
      gsafe {| a_vars := a_vars env ++ [absv_join (branch_ty (refine env c true) a) (branch_ty (refine env c false) b)];
               a_attrs := a_attrs env |} k
  | PTry a x h k =>
      tsafe env a x && gsafe env h &&
      gsafe {| a_vars := a_vars env ++ [aty env a]; a_attrs := a_attrs env |} k
  | PCatch _ h body => gsafe env body && gsafe env h     (* the guarded program raises nothing by itself *)
  | PUnknown => false
  end.

(* ------------------------------------------------------------------ concretisation *)

Definition attrs_ok (attrs : list (pystr * list acls)) (self : pystr -> pyval) : bool :=
  forallb (fun p => acls_any (snd p) (self (fst p))) attrs.

Fixpoint vars_ok (avs : list absv) (vals : list pyval) : bool :=
  match avs, vals with
  | [], [] => true
  | a :: avs', v :: vals' => absv_has a v && vars_ok avs' vals'
  | _, _ => false
  end.

Definition env_ok (env : aenv) (self : pystr -> pyval) (vals : list pyval) : bool :=
  vars_ok (a_vars env) vals && attrs_ok (a_attrs env) self.
