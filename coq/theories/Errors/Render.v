(* C18: how a rejection message is assembled.  The per-field text is rendered from a generated
   template; the element suffixes (`_<index>`, `_key`, `_value`: array.py extract_field_value /
   positional loops, map_field.py), the class-name prefix `Cls.` (Structure.__init__ in fail-fast
   mode, commons.raise_errs_if_needed in collect-all mode) are transcribed by hand.  No proofs here. *)
From Coq Require Import NArith List String Bool. Import ListNotations.
From TP Require Import Base.PyVal Errors.Template.
Local Open Scope string_scope.
Local Open Scope N_scope.
Local Open Scope list_scope.

(* decimal text of a natural number: str(i) *)
Fixpoint dec_aux (fuel : nat) (n : N) (acc : pystr) : pystr :=
  match fuel with
  | O => acc
  | S f => let acc' := (48 + n mod 10) :: acc in
           if n <? 10 then acc' else dec_aux f (n / 10) acc'
  end.
Definition dec (n : N) : pystr := dec_aux (S (N.to_nat (N.log2 n))) n [].

Inductive suffix := SNone | SIndex (i : N) | SKey | SValue.

Definition render_suffix (s : suffix) : pystr :=
  match s with
  | SNone => []
  | SIndex i => 95 :: dec i
  | SKey => s2p "_key"
  | SValue => s2p "_value"
  end.

(* what the field object's _name is when the raise site runs *)
Definition field_path (name : pystr) (s : suffix) : pystr := name ++ render_suffix s.

(* commons.wrap_val *)
Definition wrap_val (is_str : bool) (text : pystr) : pystr :=
  if is_str then 39 :: text ++ [39] else text.

Record rargs := {
  r_path : pystr;                      (* the field's _name: top-level name + element suffix *)
  r_got : pystr;                       (* str(value) *)
  r_got_is_str : bool;                 (* isinstance(value, str) *)
  r_params : list (pystr * pystr) }.   (* source expression -> its str() *)

Fixpoint render_segs (segs : list seg) (a : rargs) : option pystr :=
  match segs with
  | [] => Some []
  | s :: rest =>
      match render_segs rest a with
      | None => None
      | Some tail =>
          match s with
          | Lit l => Some (l ++ tail)
          | FieldName => Some (r_path a ++ tail)
          | ValueRepr w => Some ((if w then wrap_val (r_got_is_str a) (r_got a) else r_got a) ++ tail)
          | Param e => match alist_get (r_params a) e with
                       | Some v => Some (v ++ tail)
                       | None => None
                       end
          | Other => None
          end
      end
  end.

Definition render (t : template) (a : rargs) : option pystr := render_segs (t_segs t) a.

(* Structure.__init__, fail-fast:  raise e.__class__(f"{cls_name}.{e}")
   commons.raise_errs_if_needed:    messages = [f"{cls_name}.{e}" for e in errors] *)
Definition with_class (cls msg : pystr) : pystr := cls ++ 46 :: msg.

(* serialization.deserialize_list_like, single `items` field:
     prefix = "" if str(e).startswith(item_name) else f"{item_name}: "
   positional items:  f"{name}_{i}: {str(e)}" *)
Fixpoint starts_withb (pre s : pystr) : bool :=
  match pre, s with
  | [], _ => true
  | p :: pre', c :: s' => N.eqb p c && starts_withb pre' s'
  | _ :: _, [] => false
  end.

Definition wrap_item_each (name : pystr) (i : N) (inner : pystr) : pystr :=
  let item_name := name ++ 95 :: dec i in
  if starts_withb item_name inner then inner else item_name ++ s2p ": " ++ inner.

Definition wrap_item_pos (name : pystr) (i : N) (inner : pystr) : pystr :=
  name ++ 95 :: dec i ++ s2p ": " ++ inner.
