(* C18: the fail-fast switch as STATE.  `Structure.set_fail_fast(b)` writes it, `Structure.failing_fast()`
   reads it, from any thread; the documented switch is one for the process ("process-wide switch between
   first-error and collect-all").  A cell is either one for the process (an attribute of a class or of a
   module-level object) or one per thread (an attribute of a threading.local()); the getter reads a chain
   of cells (`getattr(o, a, <next>)`: the first that holds a value).  Which cells the two functions use is
   regenerated from the source on every run (Gen/SwitchSites.v).  Executable; no proofs here. *)
From Coq Require Import NArith List String Bool. Import ListNotations.
From TP Require Import Base.PyVal.
Local Open Scope list_scope.

Inductive cell := CGlobal (name : pystr) | CLocal (name : pystr).
Inductive waccess := WCell (c : cell) | WUnrecognised.
Inductive raccess := RCells (cs : list cell) | RUnrecognised.

(* the store: process-wide cells, and per-thread cells *)
Record store := { s_global : list (pystr * bool); s_local : list (nat * pystr * bool) }.

Fixpoint local_get (l : list (nat * pystr * bool)) (t : nat) (n : pystr) : option bool :=
  match l with
  | [] => None
  | (t', n', b) :: r => if Nat.eqb t' t && pystr_eqb n' n then Some b else local_get r t n
  end.

Definition cell_get (s : store) (t : nat) (c : cell) : option bool :=
  match c with
  | CGlobal n => alist_get (s_global s) n
  | CLocal n => local_get (s_local s) t n
  end.

Definition cell_set (s : store) (t : nat) (c : cell) (b : bool) : store :=
  match c with
  | CGlobal n => {| s_global := (n, b) :: s_global s; s_local := s_local s |}
  | CLocal n => {| s_global := s_global s; s_local := (t, n, b) :: s_local s |}
  end.

(* getattr chain: the first cell that holds a value; an attribute that does not exist raises *)
Fixpoint chain_get (s : store) (t : nat) (cs : list cell) : option bool :=
  match cs with
  | [] => None
  | c :: r => match cell_get s t c with Some b => Some b | None => chain_get s t r end
  end.

(* what happens in a process: thread t calls set_fail_fast(b) / failing_fast() *)
Inductive event := ESet (t : nat) (b : bool) | EGet (t : nat).

(* the answers of the failing_fast() calls, in order (None: the call raised / is not modelled) *)
Fixpoint run_switch (w : waccess) (r : raccess) (s : store) (evs : list event) : list (option bool) :=
  match evs with
  | [] => []
  | ESet t b :: rest =>
      match w with
      | WCell c => run_switch w r (cell_set s t c b) rest
      | WUnrecognised => map (fun _ => None) (filter (fun e => match e with EGet _ => true | _ => false end) rest)
      end
  | EGet t :: rest =>
      match r with
      | RCells cs => chain_get s t cs :: run_switch w r s rest
      | RUnrecognised => None :: run_switch w r s rest
      end
  end.

(* the documented behaviour: ONE switch; a read gives what was last written, by whichever thread *)
Fixpoint spec_switch (cur : bool) (evs : list event) : list (option bool) :=
  match evs with
  | [] => []
  | ESet _ b :: rest => spec_switch b rest
  | EGet _ :: rest => Some cur :: spec_switch cur rest
  end.

(* the setter and the getter use the same single process-wide cell *)
Definition process_wide (w : waccess) (r : raccess) : bool :=
  match w, r with
  | WCell (CGlobal n), RCells [CGlobal m] => pystr_eqb n m
  | _, _ => false
  end.

Definition init_store (init : list (pystr * bool)) : store := {| s_global := init; s_local := [] |}.

Definition the_cell (w : waccess) : pystr :=
  match w with WCell (CGlobal n) | WCell (CLocal n) => n | WUnrecognised => [] end.
