(* C18: the decidable shape condition on a generated template under which its renderings are
   always parsed back to the field path with a non-empty problem.  (Executable part; the proof
   that the condition suffices is in ErrorsProofs.v.) *)
From Coq Require Import NArith List String Bool. Import ListNotations.
From TP Require Import Base.PyVal Errors.Template Errors.Render Errors.Parse.
Local Open Scope string_scope.
Local Open Scope N_scope.
Local Open Scope list_scope.

(* a and b differ at a position both have: neither is a prefix of the other *)
Fixpoint clash (a b : pystr) : bool :=
  match a, b with
  | x :: a', y :: b' => if x =? y then clash a' b' else true
  | _, _ => false
  end.

Definition seg_tail_ok (s : seg) : bool :=
  match s with
  | Lit l => no_nl l
  | ValueRepr _ | Param _ => true
  | FieldName | Other => false
  end.

Definition GOT_SP : pystr := s2p "Got ".

Definition head_not_json (l : pystr) : bool :=
  match l with c :: _ => negb (json_ws c || json_start c) | [] => false end.

(* FieldName ": " text ...   with either
     A: the text after ": " cannot be confused with "Got " / "; Got " and does not look like JSON, or
     B: exactly  FieldName ": Got " ValueRepr "; <non-empty text>" ... *)
Definition tmpl_ok (segs : list seg) : bool :=
  match segs with
  | FieldName :: Lit (58 :: 32 :: l1) :: rest =>
      no_nl l1 && forallb seg_tail_ok rest &&
      ((clash l1 GOT_SP && clash l1 SEMI_GOT && head_not_json l1)
       || (pystr_eqb l1 GOT_SP &&
           match rest with
           | ValueRepr _ :: Lit l2 :: _ =>
               match strip_prefix SEMI_SP l2 with Some (_ :: _) => true | _ => false end
           | _ => false
           end))
  | _ => false
  end.

Definition template_ok (t : template) : bool := negb (scalar_kind t) || tmpl_ok (t_segs t).

(* ASCII identifier characters (field and class names of the statement's domain) *)
Definition is_identch (c : N) : bool :=
  in_range 97 122 c || in_range 65 90 c || in_range 48 57 c || (c =? 95).
Definition identb (s : pystr) : bool :=
  match s with [] => false | _ => forallb is_identch s end.

(* hypotheses on the interpolated texts: no newline in the value text nor in any parameter text *)
Definition args_nonl (a : rargs) : bool :=
  no_nl (r_got a) && forallb (fun kv => no_nl (snd kv)) (r_params a).
