(* C18: the shape of typedpy's error-message templates.  The table itself (Gen/Templates.v) is
   GENERATED on every run from the raise sites of the working tree; this file only fixes the
   vocabulary and says which raise sites are the per-field validation messages of scalar fields
   and of collections of scalars (the sites the theorem C18_template_ok speaks about). *)
From Coq Require Import NArith List String Bool. Import ListNotations.
From TP Require Import Base.PyVal.
Local Open Scope string_scope.

Inductive seg :=
| Lit (s : pystr)             (* literal text of the f-string *)
| FieldName                   (* {self._name} / the `name` parameter: the path of the field *)
| ValueRepr (wrapped : bool)  (* the rejected value: {value} or {wrap_val(value)} *)
| Param (expr : pystr)        (* a constraint parameter, by its source expression *)
| Other.                      (* anything the translator did not recognise: fails closed *)

Record template := {
  t_id : N; t_file : pystr; t_line : N; t_cls : pystr; t_fn : pystr; t_exn : pystr;
  t_segs : list seg }.

(* (class, function) of the validation code of the field classes the property is about:
   scalars (Number family, String, Boolean, typed fields, Enum) and collections of them. *)
Definition covered_sites : list (pystr * pystr) :=
  [ (s2p "Number", s2p "_validate_static");
    (s2p "Positive", s2p "__set__"); (s2p "NonPositive", s2p "__set__");
    (s2p "Negative", s2p "__set__"); (s2p "NonNegative", s2p "__set__");
    (s2p "String", s2p "_validate_static");
    (s2p "Boolean", s2p "_validate");
    (s2p "TypedField", s2p "_validate");
    (s2p "Enum", s2p "_validate");
    (s2p "Array", s2p "__set__"); (s2p "Deque", s2p "__set__"); (s2p "Tuple", s2p "__set__");
    (s2p "Set", s2p "__set__"); (s2p "ImmutableSet", s2p "__set__"); (s2p "Map", s2p "__set__");
    (s2p "SizedCollection", s2p "validate_size");
    ([], s2p "verify_type_and_uniqueness");
    ([], s2p "deserialize_map") ].

Definition site_eqb (a b : pystr * pystr) : bool :=
  pystr_eqb (fst a) (fst b) && pystr_eqb (snd a) (snd b).

Definition scalar_kind (t : template) : bool :=
  existsb (site_eqb (t_cls t, t_fn t)) covered_sites.

(* every covered site still exists in the generated table (the theorem is not vacuous for it) *)
Definition site_present (ts : list template) (s : pystr * pystr) : bool :=
  existsb (fun t => site_eqb (t_cls t, t_fn t) s) ts.
