(* L0, further part: the dynamic operators that the GENERATED translation of the schema-to-code direction of
   typedpy/json_schema/json_schema_mapping.py (Gen/CodegenSrc.v, emitted by harness/genmods/py2v_codegen.py) uses
   on top of Base/PyOps.v, PyOps2.v and PyOpsSchema.v: repr() / str() of JSON data (through the oracles of the
   running CPython: str.isprintable and the text of a number), str.join, slices, any(), comprehensions with a
   filter, += / .remove on a list, dict displays with ** and the static-method dispatch on a class value.
   As in PyOps.v every operator raises the exception class CPython raises for the operand kinds it can meet
   and [Unmodelled] where the model declines to predict.  Executable; no proofs here. *)
From Coq Require Import ZArith NArith String Bool List.
Import ListNotations.
From TP Require Import Base.PyVal Base.PyOps Base.PyOps2 Base.PyOpsSchema Schema.PyLiteral.
Local Open Scope Z_scope.

(* ------------------------------------------------------------------ the oracles *)

(* what the model does not compute about the running CPython: str.isprintable (consulted by repr() of a str for
   non-ASCII characters only) and str() = repr() of an int / a float *)
Record cg_oracle := mk_cgo {
  co_printable : N -> bool;
  co_num_text : num -> pystr }.

(* repr(s) of a str: exactly the discipline [Repr] of Schema/PyLiteral.v *)
Definition str_repr (O : cg_oracle) (s : pystr) : pystr := emit (co_printable O) Repr s.

Fixpoint join_strs (sep : pystr) (l : list pystr) : pystr :=
  match l with
  | [] => []
  | x :: t => match t with [] => x | _ :: _ => x ++ sep ++ join_strs sep t end
  end.

Definition comma : pystr := s2p ", ".

(* repr(v) of JSON data (None, bool, number, str, list, tuple, dict in insertion order); other kinds are not
   predicted *)
Fixpoint cg_repr (O : cg_oracle) (v : pyval) {struct v} : res pystr :=
  let fix reprs (l : list pyval) {struct l} : res (list pystr) :=
      match l with
      | [] => Ok []
      | x :: t => y <- cg_repr O x ;; ys <- reprs t ;; Ok (y :: ys)
      end in
  match v with
  | PNone => Ok (s2p "None")
  | PBool b => Ok (if b then s2p "True" else s2p "False")
  | PNum n => Ok (co_num_text O n)
  | PStr s => Ok (str_repr O s)
  | PList l => xs <- reprs l ;; Ok (s2p "[" ++ join_strs comma xs ++ s2p "]")%list
  | PTuple l =>
      xs <- reprs l ;;
      Ok (s2p "(" ++ join_strs comma xs ++ (if Nat.eqb (length l) 1 then s2p "," else []) ++ s2p ")")%list
  | PDict kv =>
      xs <- (fix go (l : list (pyval * pyval)) : res (list pystr) :=
               match l with
               | [] => Ok []
               | (a, b) :: t => k <- cg_repr O a ;; x <- cg_repr O b ;; r <- go t ;; Ok ((k ++ s2p ": " ++ x)%list :: r)
               end) kv ;;
      Ok (s2p "{" ++ join_strs comma xs ++ s2p "}")%list
  | _ => Raise Unmodelled
  end.

(* the same list recursion, named (for statements about it) *)
Fixpoint cg_reprs (O : cg_oracle) (l : list pyval) : res (list pystr) :=
  match l with
  | [] => Ok []
  | x :: t => y <- cg_repr O x ;; ys <- cg_reprs O t ;; Ok (y :: ys)
  end.

(* str(v) / format(v) in an f-string without conversion or format spec: a str is itself, the other kinds of JSON
   data have no __str__ of their own and show their repr *)
Definition cg_format (O : cg_oracle) (v : pyval) : res pystr :=
  match v with
  | PStr s => Ok s
  | _ => cg_repr O v
  end.

(* repr(v) as a value *)
Definition cg_repr_val (O : cg_oracle) (v : pyval) : res pyval := s <- cg_repr O v ;; Ok (PStr s).

(* ------------------------------------------------------------------ strings and sequences *)

Fixpoint as_strs (l : list pyval) : option (list pystr) :=
  match l with
  | [] => Some []
  | PStr s :: t => match as_strs t with Some r => Some (s :: r) | None => None end
  | _ :: _ => None
  end.

Definition is_opaque (v : pyval) : bool :=
  match v with POther _ _ | PStruct _ _ | PEnum _ _ _ => true | _ => false end.

(* sep.join(l): TypeError for an item that is not a str *)
Definition cg_str_join (sep l : pyval) : res pyval :=
  match sep with
  | PStr s =>
      match l with
      | PList xs | PTuple xs =>
          match as_strs xs with
          | Some ss => Ok (PStr (join_strs s ss))
          | None => if existsb is_opaque xs then Raise Unmodelled else Raise TypeError
          end
      | PNone | PBool _ | PNum _ => Raise TypeError
      | _ => Raise Unmodelled
      end
  | _ => Raise Unmodelled
  end.

(* v[n:] for a non-negative int n *)
Definition cg_slice_from (v n : pyval) : res pyval :=
  match n with
  | PNum (NInt z) =>
      if z <? 0 then Raise Unmodelled
      else match v with
           | PStr s => Ok (PStr (skipn (Z.to_nat z) s))
           | PList l => Ok (PList (skipn (Z.to_nat z) l))
           | PTuple l => Ok (PTuple (skipn (Z.to_nat z) l))
           | PNone | PBool _ | PNum _ | PDict _ | PSet _ _ => Raise TypeError
           | _ => Raise Unmodelled
           end
  | _ => Raise Unmodelled
  end.

(* the items a `for` / a comprehension / any() sees: the elements of a sequence, the keys of a dict *)
Definition cg_iter (v : pyval) : res (list pyval) :=
  match v with
  | PList l | PTuple l | PDeque l => Ok l
  | PDict kv => Ok (map fst kv)
  | PNone | PBool _ | PNum _ => Raise TypeError
  | _ => Raise Unmodelled
  end.

(* any(c(x) for x in it): stops at the first true *)
Fixpoint any_cond (f : pyval -> res bool) (l : list pyval) : res bool :=
  match l with
  | [] => Ok false
  | x :: t => b <- f x ;; if b then Ok true else any_cond f t
  end.
Definition cg_any (f : pyval -> res bool) (it : pyval) : res bool :=
  l <- cg_iter it ;; any_cond f l.

(* [e(x) for x in it if c(x)]: the function answers None for a filtered item *)
Fixpoint filter_mapM (f : pyval -> res (option pyval)) (l : list pyval) : res (list pyval) :=
  match l with
  | [] => Ok []
  | x :: t =>
      r <- f x ;; rs <- filter_mapM f t ;;
      Ok (match r with Some y => y :: rs | None => rs end)
  end.
Definition cg_comp (f : pyval -> res (option pyval)) (it : pyval) : res pyval :=
  l <- cg_iter it ;; r <- filter_mapM f l ;; Ok (PList r).

(* a += b for a list a (in place: the caller re-binds) *)
Definition cg_list_concat (a b : pyval) : res pyval :=
  match a with
  | PList xs =>
      match b with
      | PList ys | PTuple ys | PDeque ys => Ok (PList (xs ++ ys))
      | PDict kv => Ok (PList (xs ++ map fst kv))
      | PNone | PBool _ | PNum _ => Raise TypeError
      | _ => Raise Unmodelled
      end
  | _ => Raise Unmodelled
  end.

(* l.remove(x): the first element equal to x; ValueError when there is none *)
Fixpoint remove_first_eq (x : pyval) (l : list pyval) : option (list pyval) :=
  match l with
  | [] => None
  | y :: t => if py_eq y x then Some t
              else match remove_first_eq x t with Some r => Some (y :: r) | None => None end
  end.
Definition cg_list_remove (l x : pyval) : res pyval :=
  match l with
  | PList xs => match remove_first_eq x xs with Some r => Ok (PList r) | None => Raise ValueError end
  | _ => Raise Unmodelled
  end.

(* d.values() *)
Definition cg_dict_values (v : pyval) : res pyval :=
  match v with PDict kv => Ok (PList (map snd kv)) | _ => Raise Unmodelled end.

(* { **d1, k: v, ... }: the entries of each part in turn, a later equal key keeps its first position and takes the
   later value *)
Fixpoint cg_dict_unpack_all (acc : list (pyval * pyval)) (ds : list pyval) : res pyval :=
  match ds with
  | [] => Ok (PDict acc)
  | PDict kv :: t => cg_dict_unpack_all (fold_left (fun a p => dict_set a (fst p) (snd p)) kv acc) t
  | (POther _ _ | PStruct _ _ | PEnum _ _ _) :: _ => Raise Unmodelled
  | _ :: _ => Raise TypeError
  end.
Definition cg_dict_unpack (ds : list pyval) : res pyval := cg_dict_unpack_all [] ds.

(* a local that the function has not bound on every path (bound only inside a loop body): using it is CPython's
   UnboundLocalError, which the model does not predict: no operator accepts this value *)
Definition cg_unbound : pyval := POther (s2p "unbound-local") [].

(* o.m(...) for a method the model does not look into *)
Definition cg_opaque_method (o : pyval) (m : pystr) : res pyval := Raise Unmodelled.
