(* L0: Python's dynamic operators over the value universe, as the GENERATED guard functions
   (Gen/Guards.v, emitted by harness/genmods/py2v.py from typedpy's source) use them.
   Each operator raises TypeError where CPython does for the operand kinds the guards can meet,
   and [Unmodelled] where the model declines to predict.  Executable; the few facts about them that
   proofs need are at the end. *)
From Coq Require Import ZArith QArith NArith String Ascii Bool Lia List.
Import ListNotations.
From TP Require Import Base.PyVal.
Local Open Scope Z_scope.

Inductive pyclass :=
| K_int | K_float | K_Decimal | K_str | K_bool
| K_list | K_deque | K_tuple | K_set | K_frozenset | K_dict | K_NoneType.

Definition isinstance1 (v : pyval) (k : pyclass) : bool :=
  match k, v with
  | K_int, PBool _ => true
  | K_int, PNum (NInt _) => true
  | K_float, PNum (NFlt _ _) => true
  | K_Decimal, PNum (NDec _ _) => true
  | K_str, PStr _ => true
  | K_bool, PBool _ => true
  | K_list, PList _ => true
  | K_deque, PDeque _ => true
  | K_tuple, PTuple _ => true
  | K_set, PSet false _ => true
  | K_frozenset, PSet true _ => true
  | K_dict, PDict _ => true
  | K_NoneType, PNone => true
  | _, _ => false
  end.

Definition py_isinstance (v : pyval) (ks : list pyclass) : bool := existsb (isinstance1 v) ks.

(* short-circuit boolean connectives: the right operand is a thunk, so WHICH operand may raise
   is preserved *)
Definition py_and (a : res bool) (b : unit -> res bool) : res bool :=
  x <- a ;; if x then b tt else Ok false.
Definition py_or (a : res bool) (b : unit -> res bool) : res bool :=
  x <- a ;; if x then Ok true else b tt.
Definition py_not (a : res bool) : res bool := x <- a ;; Ok (negb x).

Definition py_is_none (v : pyval) : bool := match v with PNone => true | _ => false end.
Definition py_is_not_none (v : pyval) : bool := negb (py_is_none v).
Definition py_is_false (v : pyval) : bool := match v with PBool false => true | _ => false end.
Definition py_is_true (v : pyval) : bool := match v with PBool true => true | _ => false end.

(* ordering: numbers (bool included) compare exactly; two values of the same non-numeric kind are
   outside the model; anything else is CPython's TypeError *)
Definition same_kind (a b : pyval) : bool :=
  match a, b with
  | PStr _, PStr _ | PList _, PList _ | PTuple _, PTuple _ | PDeque _, PDeque _
  | PSet _ _, PSet _ _ | PEnum _ _ _, PEnum _ _ _ | PStruct _ _, PStruct _ _
  | POther _ _, POther _ _ => true
  | _, _ => false
  end.

Definition cmp_fallback (a b : pyval) : res bool :=
  if same_kind a b then Raise Unmodelled else Raise TypeError.

Definition py_lt (a b : pyval) : res bool :=
  match as_num a, as_num b with
  | Some x, Some y => Ok (num_ltb x y)
  | _, _ => cmp_fallback a b
  end.
Definition py_le (a b : pyval) : res bool :=
  match as_num a, as_num b with
  | Some x, Some y => Ok (num_leb x y)
  | _, _ => cmp_fallback a b
  end.
Definition py_gt (a b : pyval) : res bool := py_lt b a.
Definition py_ge (a b : pyval) : res bool := py_le b a.
Definition py_eqv (a b : pyval) : res bool := Ok (py_eq a b).
Definition py_ne (a b : pyval) : res bool := Ok (negb (py_eq a b)).

Definition lenZ' {A} (l : list A) : Z := Z.of_nat (length l).

Definition py_len (v : pyval) : res pyval :=
  match v with
  | PStr s => Ok (PNum (NInt (lenZ' s)))
  | PList l | PTuple l | PDeque l | PSet _ l => Ok (PNum (NInt (lenZ' l)))
  | PDict kv => Ok (PNum (NInt (lenZ' kv)))
  | POther _ _ | PStruct _ _ => Raise Unmodelled
  | _ => Raise TypeError
  end.

(* truthiness of [a % b] for an int b: non-zero remainder <-> a is not an exact multiple of b
   (float fmod is exact, Decimal remainder is exact within the context precision) *)
Definition py_mod_truthy (a b : pyval) : res bool :=
  match as_num a, b with
  | Some x, PNum (NInt m) =>
      if m =? 0 then Raise ZeroDivisionError else Ok (negb (num_multiple_of x (NInt m)))
  | Some x, PBool m => if m then Ok (negb (num_multiple_of x (NInt 1))) else Raise ZeroDivisionError
  | _, _ => Raise Unmodelled
  end.

(* true division and int(): only reached for a float multiplesOf, which is outside the documented
   domain (multiplesOf is documented as int): the model declines *)
Definition py_truediv (a b : pyval) : res pyval := Raise Unmodelled.
Definition py_int (a : pyval) : res pyval := Raise Unmodelled.

(* x in (literal tuple / set / keys of a literal dict) *)
Definition py_in_lit (x : pyval) (l : list pyval) : res bool := Ok (py_in x l).  (* a tuple scan uses ==, never hash *)
(* membership in a dict / set literal hashes the candidate first *)
Fixpoint py_hashable' (v : pyval) : bool :=
  match v with
  | PList _ | PDeque _ | PDict _ => false
  | PSet frozen _ => frozen
  | PTuple l => forallb py_hashable' l
  | _ => true
  end.
Definition py_in_hashed (x : pyval) (l : list pyval) : res bool :=
  if py_hashable' x then Ok (py_in x l) else Raise TypeError.

Definition py_dict_getitem (kv : list (pyval * pyval)) (k : pyval) : res pyval :=
  if py_hashable' k then match dict_get kv k with Some v => Ok v | None => Raise KeyError end
  else Raise TypeError.

(* compiled_pattern.match(value) is not None, through the oracle; the pattern is carried as its id *)
Definition py_re_match (re_match : N -> pystr -> bool) (pat v : pyval) : res bool :=
  match pat, v with
  | PNum (NInt p), PStr s => Ok (re_match (Z.to_N p) s)
  | _, _ => Raise Unmodelled
  end.

(* the accumulate-unique idiom of verify_type_and_uniqueness: reduce(lambda acc, x: acc+[x] if x not in acc …) *)
Definition py_seq_items (v : pyval) : res (list pyval) :=
  match v with
  | PList l | PTuple l | PDeque l | PSet _ l => Ok l
  | _ => Raise Unmodelled
  end.
Definition py_unique_list (v : pyval) : res pyval :=
  l <- py_seq_items v ;; Ok (PList (py_dedup l)).

Definition zint (z : Z) : pyval := PNum (NInt z).

(* isinstance(v, enum.Enum): a member of an enum class *)
Definition py_is_enum_member (v : pyval) : bool := match v with PEnum _ _ _ => true | _ => false end.

(* try: body  except <x>: handler   (both are statement blocks: res unit) *)
Definition py_catch (x : exn) (body handler : res unit) : res unit :=
  match body with
  | Raise e => if exn_eqb e x then handler else Raise e
  | Ok u => Ok u
  end.

(* ------------------------------------------------------------------ facts *)

Lemma num_ltb_int a b : num_ltb (NInt a) (NInt b) = (a <? b).
Proof.
  unfold num_ltb, Qle_bool; cbn [num_to_Q Qnum Qden].
  rewrite !Z.mul_1_r. destruct (Z.ltb_spec a b); destruct (Z.leb_spec b a); simpl; try reflexivity; lia.
Qed.

Lemma num_leb_int a b : num_leb (NInt a) (NInt b) = (a <=? b).
Proof.
  unfold num_leb, Qle_bool; cbn [num_to_Q Qnum Qden]. rewrite !Z.mul_1_r. reflexivity.
Qed.
