(* L0, fourth part: the further dynamic operators that the GENERATED translations of the class-derivation
   operators (typedpy/structures/structures_reuse.py, Structure.omit / Structure.pick / _init_class_dict of
   structures.py; Gen/DeriveSrc.v, emitted by harness/genmods/py2v_derive.py) use: loops over a finite
   collection (a monadic fold), iteration / unpacking of a run-time sequence, subscription and item
   assignment, list.append, set displays, f-strings, isinstance against a class that is itself an object
   of the heap, and the request `type(name, bases, dict)`.
   Local containers are VALUES: `d[k] = v` re-binds the local d to the updated dict (the translator only
   accepts this for containers the function itself created and never aliases).
   As in PyOps.v every operator raises the exception class CPython raises for the operand kinds it can
   meet and [Unmodelled] where the model declines to predict.  Executable; no proofs here. *)
From Coq Require Import ZArith NArith String Bool List.
Import ListNotations.
From TP Require Import Base.PyVal Base.PyOps Base.PyOps2 Base.PyObj.
Local Open Scope Z_scope.

(* ------------------------------------------------------------------ loops *)

(* for x in l: s = f s x   (a `raise` in the body ends the loop) *)
Fixpoint py_foldM {S : Type} (f : S -> pyval -> res S) (l : list pyval) (s : S) : res S :=
  match l with
  | [] => Ok s
  | x :: t => s' <- f s x ;; py_foldM f t s'
  end.

(* [x for x in l if c x]: the kept elements, in order *)
Fixpoint py_filterM (c : pyval -> res bool) (l : list pyval) : res (list pyval) :=
  match l with
  | [] => Ok []
  | x :: t => b <- c x ;; r <- py_filterM c t ;; Ok (if b then x :: r else r)
  end.

(* iter(v): the elements a `for` / an unpacking / a *-argument sees.  A dict yields its keys, a str its
   one-character strings; the iteration order of a set is not predicted *)
Definition py_iter_items (v : pyval) : res (list pyval) :=
  match v with
  | PList l | PTuple l | PDeque l => Ok l
  | PDict kv => Ok (map fst kv)
  | PStr s => Ok (map (fun c => PStr [c]) s)
  | PSet _ _ => Raise Unmodelled
  | POther _ _ | PStruct _ _ | PEnum _ _ _ => Raise Unmodelled
  | PNone | PBool _ | PNum _ => Raise TypeError
  end.

(* v.items() *)
Definition py_dict_items (v : pyval) : res (list pyval) :=
  match v with
  | PDict kv => Ok (map (fun p => PTuple [fst p; snd p]) kv)
  | POther _ _ | PStruct _ _ | PEnum _ _ _ => Raise Unmodelled
  | _ => Raise AttributeError
  end.

(* a1, ..., an = v   /   a1, ..., an, *rest = v : the n values (and the rest as a list) *)
Definition py_unpack (n : nat) (star : bool) (v : pyval) : res (list pyval) :=
  l <- py_iter_items v ;;
  if star then
    if Nat.leb n (length l) then Ok (firstn n l ++ [PList (skipn n l)]) else Raise ValueError
  else
    if Nat.eqb (length l) n then Ok l else Raise ValueError.

(* f( *v ): the positional arguments as the tuple the callee's *args receives *)
Definition py_star_args (v : pyval) : res pyval := l <- py_iter_items v ;; Ok (PTuple l).

(* ------------------------------------------------------------------ containers *)

Definition nth_item (l : list pyval) (i : Z) : res pyval :=
  let n := Z.of_nat (length l) in
  let j := if i <? 0 then i + n else i in
  if (j <? 0) || (n <=? j) then Raise IndexError
  else match nth_error l (Z.to_nat j) with Some x => Ok x | None => Raise IndexError end.

Definition as_index (k : pyval) : option Z :=
  match k with
  | PNum (NInt i) => Some i
  | PBool b => Some (if b then 1 else 0)
  | _ => None
  end.

(* c[k] as a value *)
Definition py_subscript (c k : pyval) : res pyval :=
  match c with
  | PDict kv => py_dict_getitem kv k
  | PList l | PTuple l | PDeque l =>
      match as_index k with Some i => nth_item l i | None => Raise TypeError end
  | PStr s =>
      match as_index k with
      | Some i => nth_item (map (fun c => PStr [c]) s) i
      | None => Raise TypeError
      end
  | PNone | PBool _ | PNum _ | PSet _ _ => Raise TypeError
  | POther _ _ | PStruct _ _ | PEnum _ _ _ => Raise Unmodelled
  end.

(* d[k] = v  on a local dict: the updated dict (position of an existing key kept, a new key appended) *)
Definition py_setitem (d k v : pyval) : res pyval :=
  match d with
  | PDict kv => if py_hashable' k then Ok (PDict (dict_set kv k v)) else Raise TypeError
  | PNone | PBool _ | PNum _ | PStr _ | PTuple _ | PSet _ _ => Raise TypeError
  | PList _ | PDeque _ | POther _ _ | PStruct _ _ | PEnum _ _ _ => Raise Unmodelled
  end.

(* l.append(x): the extended list *)
Definition py_list_append (l x : pyval) : res pyval :=
  match l with
  | PList xs => Ok (PList (xs ++ [x]))
  | PDeque xs => Ok (PDeque (xs ++ [x]))
  | POther _ _ | PStruct _ _ | PEnum _ _ _ => Raise Unmodelled
  | _ => Raise AttributeError
  end.

(* {a, b, c} *)
Definition py_set_display (l : list pyval) : res pyval :=
  if forallb py_hashable' l then Ok (PSet false (py_dedup l)) else Raise TypeError.

(* ------------------------------------------------------------------ text *)

(* f"{v}": only str operands are predicted *)
Definition py_format (v : pyval) : res pystr :=
  match v with PStr s => Ok s | _ => Raise Unmodelled end.

(* ------------------------------------------------------------------ classes as objects *)

(* isinstance(v, C) for a class C of typedpy (StructMeta, ...): an object of the heap says so by its
   pseudo-attribute "isinstance:C"; plain data is never an instance *)
Definition isinstance_attr (c : pystr) : pystr := s2p "isinstance:" ++ c.

Definition obj_isinstance (h : heap) (v : pyval) (c : pystr) : res bool :=
  match v with
  | POther t name =>
      if pystr_eqb t ref_tag
      then Ok (match h name (isinstance_attr c) with Some b => py_truthy b | None => false end)
      else Raise Unmodelled
  | PStruct _ _ | PEnum _ _ _ => Raise Unmodelled
  | _ => Ok false
  end.

(* type(name, bases, dict): the class-creation request, as a value (what happens then is
   StructMeta.__new__: Struct/Define.v [define]) *)
Definition new_class_tag : pystr := s2p "type()".
Definition new_class (name bases d : pyval) : pyval := PTuple [PStr new_class_tag; name; bases; d].
