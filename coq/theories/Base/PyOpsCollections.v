(* L0, fifth part: the object universe and the further dynamic operators that the GENERATED translation of
   the element / option loops of typedpy's collection fields and multi-field wrappers uses
   (Gen/CollectionsSrc.v, emitted by harness/genmods/py2v_collections.py from typedpy/fields/array.py,
   deque_field.py, tuple_field.py, set_field.py, map_field.py, multified_wrappers.py).

   The translated functions do not only handle plain data: they receive and create OBJECTS.
     [OVal v]          plain data (the value universe of Base/PyVal.v);
     [OFld f]          a Field instance, BY IDENTITY f.  The only mutable state of a Field these functions
                       touch is its `_name`; it lives in the store [names] (f -> current name), so that
                       setattr(field, "_name", n) is seen by every later getattr(field, "_name") whatever
                       expression denotes the field.  What `field.__set__(scratch, v)` does is the parameter
                       [rec f v]: the value the field's own chain hands on, or the exception it raises
                       before storing anything;
     [OFlds l]         a Python list whose elements are the Field instances l (self.items, self._fields);
     [OObj k attrs]    an object described by its attributes: `self` (KSelf: instance and class attributes
                       the functions read), the instance the descriptor is invoked on (KInst: the flags that
                       getattr(instance, flag, False) can see), a scratch `Structure()` created by the function
                       (KScratch: its __dict__);
     [OCls k], [OPkg n] a builtin container class / a class of the typedpy package, as a value.
   Local containers and scratch structures the function itself created are VALUES: an in-place update
   re-binds the local (the translator accepts it only for locals it can show un-aliased, see its doc).

   As in PyOps.v every operator raises the exception class CPython raises for the operand kinds it can meet
   and [Unmodelled] where the model declines to predict.  Executable; the few facts about the operators that
   proofs need are at the end. *)
From Coq Require Import ZArith NArith String Ascii Bool Lia List.
Import ListNotations.
From TP Require Import Base.PyVal Base.PyOps Base.PyOps2 Base.PyOpsVersioned.
From TP Require Base.PyObj Base.PyOpsDerive.
Local Open Scope Z_scope.

(* ------------------------------------------------------------------ objects *)

Inductive okind := KSelf | KInst | KScratch.

Inductive cobj :=
| OVal (v : pyval)
| OFld (f : nat)
| OFlds (l : list nat)
| OObj (k : okind) (attrs : list (pystr * cobj))
| OCls (k : pyclass)
| OPkg (name : pystr).

(* the `_name` of every Field instance *)
Definition names := nat -> pystr.
Definition nm_set (nm : names) (f : nat) (s : pystr) : names :=
  fun g => if Nat.eqb g f then s else nm g.

Definition name_attr : pystr := s2p "_name".
Definition skip_flag : pystr := s2p "_skip_validation".
Definition trust_flag : pystr := s2p "_trust_supplied_values".

Definition co_none : cobj := OVal PNone.

Definition co_val (o : cobj) : res pyval :=
  match o with OVal v => Ok v | _ => Raise Unmodelled end.

(* ------------------------------------------------------------------ attributes *)

(* o.a  /  getattr(o, a) *)
Definition co_getattr (nm : names) (o : cobj) (a : pystr) : res cobj :=
  match o with
  | OObj _ attrs => match alist_get attrs a with Some x => Ok x | None => Raise AttributeError end
  | OFld f => if pystr_eqb a name_attr then Ok (OVal (PStr (nm f))) else Raise Unmodelled
  | OVal v => if is_object v then Raise Unmodelled else Raise AttributeError
  | OFlds _ | OCls _ | OPkg _ => Raise Unmodelled
  end.

(* getattr(o, a, d) *)
Definition co_getattr_def (nm : names) (o : cobj) (a : pystr) (d : cobj) : res cobj :=
  match o with
  | OObj _ attrs => Ok (match alist_get attrs a with Some x => x | None => d end)
  | OFld f => if pystr_eqb a name_attr then Ok (OVal (PStr (nm f))) else Raise Unmodelled
  | OVal v => if is_object v then Raise Unmodelled else Ok d
  | OFlds _ | OCls _ | OPkg _ => Raise Unmodelled
  end.

(* the second argument of getattr / setattr when it is computed: it has to be a str *)
Definition co_attr_name (o : cobj) : res pystr :=
  match o with
  | OVal (PStr s) => Ok s
  | OVal v => if is_object v then Raise Unmodelled else Raise TypeError
  | _ => Raise TypeError
  end.

(* setattr(o, a, v) / o.a = v on an object held BY REFERENCE: only a Field's `_name` is modelled *)
Definition co_setattr_fld (nm : names) (o : cobj) (a : pystr) (v : cobj) : res names :=
  match o with
  | OFld f =>
      if pystr_eqb a name_attr
      then match v with OVal (PStr s) => Ok (nm_set nm f s) | _ => Raise Unmodelled end
      else Raise Unmodelled
  | OVal w => if is_object w then Raise Unmodelled else Raise AttributeError
  | _ => Raise Unmodelled
  end.

(* o.a = v / o.__dict__[a] = v on a scratch structure the function created: its new value *)
Definition co_setattr_own (o : cobj) (a : pystr) (v : cobj) : res cobj :=
  match o with
  | OObj KScratch attrs => Ok (OObj KScratch (alist_set attrs a v))
  | _ => Raise Unmodelled
  end.

(* o.__dict__[a] *)
Definition co_dict_attr (o : cobj) (a : pystr) : res cobj :=
  match o with
  | OObj _ attrs => match alist_get attrs a with Some x => Ok x | None => Raise KeyError end
  | _ => Raise Unmodelled
  end.

(* ------------------------------------------------------------------ Structure() and field.__set__ *)

(* the __dict__ of a bare Structure() *)
Definition new_scratch : cobj :=
  OObj KScratch [(s2p "_none_fields", OVal (PSet false [])); (s2p "_instantiated", OVal (PBool true))].

Definition flag_on (attrs : list (pystr * cobj)) (a : pystr) : bool :=
  match alist_get attrs a with
  | Some (OVal v) => py_truthy v
  | Some _ => true
  | None => false
  end.

(* the structure neither skips validation nor trusts supplied values *)
Definition validating (attrs : list (pystr * cobj)) : bool :=
  negb (flag_on attrs skip_flag) && negb (flag_on attrs trust_flag).

(* x.__set__(s, v) for a Field x and a scratch structure s: the field's own chain ([rec]) decides; on
   success Field.__set__ stores the normal form in s.__dict__ under the field's CURRENT name.  A scratch that
   skips validation or trusts values, an immutable item field meeting an occupied slot, and any receiver
   other than a Field are outside the model. *)
Definition co_field_set (rec : nat -> pyval -> res pyval) (nm : names) (x s v : cobj) : res cobj :=
  match x with
  | OFld f =>
      match s, v with
      | OObj KScratch attrs, OVal w =>
          if validating attrs
          then nf <- rec f w ;; Ok (OObj KScratch (alist_set attrs (nm f) (OVal nf)))
          else Raise Unmodelled
      | _, _ => Raise Unmodelled
      end
  | OVal w => if is_object w then Raise Unmodelled else Raise AttributeError
  | _ => Raise Unmodelled
  end.

(* ------------------------------------------------------------------ classes *)

Definition field_class : pystr := s2p "Field".
Definition structure_class : pystr := s2p "Structure".

(* isinstance(o, c) for one class c *)
Definition co_isinstance1 (o c : cobj) : res bool :=
  match c with
  | OCls k =>
      match o with
      | OVal v => Ok (isinstance1 v k)
      | OFlds _ => Ok (match k with K_list => true | _ => false end)
      | OFld _ | OObj _ _ => Ok false
      | OCls _ | OPkg _ => Raise Unmodelled
      end
  | OPkg n =>
      match o with
      | OFld _ => if pystr_eqb n field_class then Ok true else Raise Unmodelled
      | OFlds _ => Ok false
      | OVal (POther _ _) => Raise Unmodelled
      | OVal _ => if pystr_eqb n field_class then Ok false else Raise Unmodelled
      | _ => Raise Unmodelled
      end
  | _ => Raise Unmodelled
  end.

(* isinstance(o, (c1, ..., cn)) *)
Fixpoint co_isinstance (o : cobj) (cs : list cobj) : res bool :=
  match cs with
  | [] => Ok false
  | c :: t => b <- co_isinstance1 o c ;; if b then Ok true else co_isinstance o t
  end.

(* the elements an iteration of plain data sees *)
Definition co_iter_vals (o : cobj) : res (list pyval) :=
  match o with
  | OVal v => py_iter v
  | OFld _ => Raise TypeError
  | _ => Raise Unmodelled
  end.

(* c(args) for a class object c.  set(x) / frozenset(x) of a set keeps its elements (a set is duplicate
   free), of another iterable hashes every element and keeps first occurrences; dict() only of nothing or a
   dict; Structure() is the bare scratch structure. *)
Definition co_call (f : cobj) (args : list cobj) : res cobj :=
  match f with
  | OCls K_list =>
      match args with
      | [] => Ok (OVal (PList []))
      | [x] => l <- co_iter_vals x ;; Ok (OVal (PList l))
      | _ => Raise TypeError
      end
  | OCls K_deque =>
      match args with
      | [] => Ok (OVal (PDeque []))
      | [x] => l <- co_iter_vals x ;; Ok (OVal (PDeque l))
      | _ => Raise Unmodelled
      end
  | OCls K_tuple =>
      match args with
      | [] => Ok (OVal (PTuple []))
      | [x] => l <- co_iter_vals x ;; Ok (OVal (PTuple l))
      | _ => Raise TypeError
      end
  | OCls K_set =>
      match args with
      | [] => Ok (OVal (PSet false []))
      | [OVal (PSet _ l)] => Ok (OVal (PSet false l))
      | [x] => l <- co_iter_vals x ;;
               if forallb py_hashable' l then Ok (OVal (PSet false (py_dedup l))) else Raise TypeError
      | _ => Raise TypeError
      end
  | OCls K_frozenset =>
      match args with
      | [] => Ok (OVal (PSet true []))
      | [OVal (PSet _ l)] => Ok (OVal (PSet true l))
      | [x] => l <- co_iter_vals x ;;
               if forallb py_hashable' l then Ok (OVal (PSet true (py_dedup l))) else Raise TypeError
      | _ => Raise TypeError
      end
  | OCls K_dict =>
      match args with
      | [] => Ok (OVal (PDict []))
      | [OVal (PDict kv)] => Ok (OVal (PDict kv))
      | _ => Raise Unmodelled
      end
  | OPkg n =>
      match args with
      | [] => if pystr_eqb n structure_class then Ok new_scratch else Raise Unmodelled
      | _ => Raise Unmodelled
      end
  | _ => Raise Unmodelled
  end.

(* ------------------------------------------------------------------ tests, numbers, text *)

Definition co_is_none (o : cobj) : bool := match o with OVal PNone => true | _ => false end.
Definition co_is_not_none (o : cobj) : bool := negb (co_is_none o).
Definition co_is_false (o : cobj) : bool := match o with OVal (PBool false) => true | _ => false end.
Definition co_is_true (o : cobj) : bool := match o with OVal (PBool true) => true | _ => false end.

Definition co_truthy (o : cobj) : res bool :=
  match o with
  | OVal v => Ok (py_truthy v)
  | OFld _ => Ok true
  | OFlds l => Ok (negb (Nat.eqb (length l) 0))
  | OCls _ | OPkg _ => Ok true
  | OObj _ _ => Raise Unmodelled
  end.

Definition co_bool (b : bool) : cobj := OVal (PBool b).

(* a comparison operator of PyOps.v on two pieces of plain data *)
Definition co_cmp (f : pyval -> pyval -> res bool) (a b : cobj) : res bool :=
  x <- co_val a ;; y <- co_val b ;; f x y.

Definition co_len (o : cobj) : res cobj :=
  match o with
  | OVal v => r <- py_len v ;; Ok (OVal r)
  | OFlds l => Ok (OVal (zint (Z.of_nat (length l))))
  | OFld _ => Raise TypeError
  | _ => Raise Unmodelled
  end.

(* a + b *)
Definition co_add (a b : cobj) : res cobj :=
  x <- co_val a ;; y <- co_val b ;; r <- py_add x y ;; Ok (OVal r).

(* a * b: a list of fields repeated (self.items * n); other products are not predicted *)
Definition co_mul (a b : cobj) : res cobj :=
  match a, b with
  | OFlds l, OVal n =>
      match as_int n with
      | Some z => Ok (OFlds (concat (repeat l (Z.to_nat z))))
      | None => if is_object n then Raise Unmodelled else Raise TypeError
      end
  | _, _ => Raise Unmodelled
  end.

(* a += b on a local the function owns: a list / deque is extended in place by the elements of b *)
Definition co_iadd_own (a b : cobj) : res cobj :=
  match a with
  | OVal (PList l) => xs <- co_iter_vals b ;; Ok (OVal (PList (l ++ xs)))
  | OVal (PDeque l) => xs <- co_iter_vals b ;; Ok (OVal (PDeque (l ++ xs)))
  | _ => co_add a b
  end.

(* a += b on any other local: predicted only where += builds a new object (numbers, str, tuple) *)
Definition co_iadd_val (a b : cobj) : res cobj :=
  match a with
  | OVal (PList _ | PDeque _ | PSet _ _ | PDict _) => Raise Unmodelled
  | _ => co_add a b
  end.

(* decimal digits of an int *)
Fixpoint digits_fuel (fuel : nat) (n : Z) (acc : pystr) : pystr :=
  match fuel with
  | O => acc
  | S f =>
      let acc' := Z.to_N (48 + n mod 10) :: acc in
      if n / 10 =? 0 then acc' else digits_fuel f (n / 10) acc'
  end.
Definition Z_to_pystr (z : Z) : pystr :=
  let fuel := S (Z.to_nat (Z.log2_up (Z.abs z + 1))) in
  if z <? 0 then 45%N :: digits_fuel fuel (- z) [] else digits_fuel fuel z [].

(* str(o) *)
Definition co_str (o : cobj) : res cobj :=
  match o with
  | OVal (PStr s) => Ok o
  | OVal (PNum (NInt z)) => Ok (OVal (PStr (Z_to_pystr z)))
  | _ => Raise Unmodelled
  end.

(* f"...{e}...": literal pieces and formatted values (str and int are predicted) *)
Inductive fpart := FLit (s : pystr) | FVal (o : cobj).

Fixpoint fstring_parts (ps : list fpart) : res pystr :=
  match ps with
  | [] => Ok []
  | FLit s :: t => r <- fstring_parts t ;; Ok (s ++ r)
  | FVal o :: t =>
      x <- co_str o ;;
      match x with
      | OVal (PStr s) => r <- fstring_parts t ;; Ok (s ++ r)
      | _ => Raise Unmodelled
      end
  end.
Definition co_fstring (ps : list fpart) : res cobj := s <- fstring_parts ps ;; Ok (OVal (PStr s)).

(* ------------------------------------------------------------------ containers *)

Definition nth_fld (l : list nat) (i : Z) : res cobj :=
  let n := Z.of_nat (length l) in
  let j := if i <? 0 then i + n else i in
  if (j <? 0) || (n <=? j) then Raise IndexError
  else match nth_error l (Z.to_nat j) with Some f => Ok (OFld f) | None => Raise IndexError end.

(* c[k] *)
Definition co_subscript (c k : cobj) : res cobj :=
  match c with
  | OFlds l =>
      match k with
      | OVal kv => match as_int kv with
                   | Some i => nth_fld l i
                   | None => if is_object kv then Raise Unmodelled else Raise TypeError
                   end
      | _ => Raise Unmodelled
      end
  | OVal v => kv <- co_val k ;; r <- PyOpsDerive.py_subscript v kv ;; Ok (OVal r)
  | OFld _ => Raise TypeError
  | _ => Raise Unmodelled
  end.

Definition opt_val (o : option cobj) : res (option pyval) :=
  match o with None => Ok None | Some x => v <- co_val x ;; Ok (Some v) end.

(* c[lo:hi] *)
Definition co_slice (c : cobj) (lo hi : option cobj) : res cobj :=
  v <- co_val c ;; a <- opt_val lo ;; b <- opt_val hi ;; r <- py_slice v a b ;; Ok (OVal r).

(* c.append(x) on a local the function owns *)
Definition co_append (c x : cobj) : res cobj :=
  cv <- co_val c ;; xv <- co_val x ;; r <- PyOpsDerive.py_list_append cv xv ;; Ok (OVal r).

(* c.add(x) on a local set the function owns *)
Definition co_set_add (c x : cobj) : res cobj :=
  cv <- co_val c ;; xv <- co_val x ;;
  match cv with
  | PSet false l =>
      if py_hashable' xv then Ok (OVal (PSet false (if py_in xv l then l else l ++ [xv]))) else Raise TypeError
  | _ => if is_object cv then Raise Unmodelled else Raise AttributeError
  end.

(* c[k] = v on a local dict the function owns *)
Definition co_setitem (c k v : cobj) : res cobj :=
  cv <- co_val c ;; kv <- co_val k ;; vv <- co_val v ;; r <- py_setitem cv kv vv ;; Ok (OVal r).

(* ------------------------------------------------------------------ iteration *)

(* for x in o *)
Definition co_iter (o : cobj) : res (list cobj) :=
  match o with
  | OVal v => l <- py_iter v ;; Ok (map OVal l)
  | OFlds l => Ok (map OFld l)
  | OFld _ => Raise TypeError
  | _ => Raise Unmodelled
  end.

(* enumerate(...) *)
Fixpoint enum_from (i : Z) (l : list cobj) : list (cobj * cobj) :=
  match l with
  | [] => []
  | x :: t => (OVal (zint i), x) :: enum_from (i + 1) t
  end.
Definition co_enumerate (l : list cobj) : list (cobj * cobj) := enum_from 0 l.

(* o.items() *)
Definition co_dict_items (o : cobj) : res (list (cobj * cobj)) :=
  v <- co_val o ;; kv <- py_dict_items v ;; Ok (map (fun p => (OVal (fst p), OVal (snd p))) kv).

(* range(a, b) *)
Definition co_range (a b : cobj) : res (list cobj) :=
  x <- co_val a ;; y <- co_val b ;;
  match as_int x, as_int y with
  | Some lo, Some hi => Ok (map (fun i => OVal (zint (lo + Z.of_nat i))) (seq 0 (Z.to_nat (hi - lo))))
  | _, _ => if is_object x || is_object y then Raise Unmodelled else Raise TypeError
  end.

(* ------------------------------------------------------------------ exceptions *)

(* isinstance(e, cls) for a raised exception e: InvalidStructureErr derives from both ValueError and
   TypeError (typedpy/commons.py); the model's other classes are unrelated to each other; the pseudo
   exceptions OutOfFuel / Unmodelled are never caught; OtherExn names a class outside these families *)
Definition exn_is_a (e cls : exn) : bool :=
  match e with
  | OutOfFuel | Unmodelled => false
  | _ =>
      match cls with
      | TypeError => match e with TypeError | InvalidStructureErr => true | _ => false end
      | ValueError => match e with ValueError | InvalidStructureErr => true | _ => false end
      | _ => exn_eqb e cls
      end
  end.

(* one protected step of a try block: the handler sees the exception, the rest runs unprotected *)
Definition catch {A B} (r : res A) (h : exn -> res B) (k : A -> res B) : res B :=
  match r with Ok a => k a | Raise e => h e end.

(* ------------------------------------------------------------------ the self seen by Gen/Guards.v *)

(* the guard functions of Gen/Guards.v read plain attributes of self through a function *)
Definition co_self_vals (o : cobj) (a : pystr) : pyval :=
  match o with
  | OObj _ attrs =>
      match alist_get attrs a with
      | Some (OVal v) => v
      | Some _ => POther (s2p "object") []
      | None => PNone
      end
  | _ => PNone
  end.
Definition co_no_self (a : pystr) : pyval := PNone.

(* the outcome of a __set__: the plain value handed on *)
Definition set_result (r : res (cobj * names)) : res pyval :=
  match r with
  | Ok (OVal v, _) => Ok v
  | Ok _ => Raise Unmodelled
  | Raise e => Raise e
  end.

(* ------------------------------------------------------------------ facts *)

Lemma alist_get_set_same {A} (l : list (pystr * A)) k v : alist_get (alist_set l k v) k = Some v.
Proof.
  induction l as [|[k' v'] t IH]; cbn [alist_set alist_get].
  - rewrite pystr_eqb_refl. reflexivity.
  - destruct (pystr_eqb k' k) eqn:E; cbn [alist_get]; rewrite E; [reflexivity | exact IH].
Qed.

Lemma alist_get_set_other {A} (l : list (pystr * A)) k k' v :
  pystr_eqb k k' = false -> alist_get (alist_set l k v) k' = alist_get l k'.
Proof.
  intros Hne. induction l as [|[k0 v0] t IH]; cbn [alist_set alist_get].
  - rewrite Hne. reflexivity.
  - destruct (pystr_eqb k0 k) eqn:E; cbn [alist_get].
    + apply pystr_eqb_spec in E. subst k0. rewrite Hne. reflexivity.
    + destruct (pystr_eqb k0 k'); [reflexivity | exact IH].
Qed.

Lemma concat_repeat_single {A} (x : A) n : concat (repeat [x] n) = repeat x n.
Proof. induction n as [|n IH]; cbn [repeat concat app]; [reflexivity | rewrite IH; reflexivity]. Qed.
