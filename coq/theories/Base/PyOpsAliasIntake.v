(* L0, alias part II: the further dynamic operators of the GENERATED translation Gen/AliasIntakeSrc.v
   (harness/genmods/py2v_alias_intake.py) of typedpy's INTAKE sites -- Field.__set__ and the __set__ of the
   collection fields, where validated elements are rebuilt into a fresh container and wrapped.  Same universe as
   Base/PyOpsAlias.v: the identity heap of Struct/CopyHeap.v, [AV c] for atoms / allocated objects, [ATmp k kids]
   for a container the function has just built (no other reference exists; it gets its location when it escapes).

   Further objects seen through their attributes ([AObj]):
     a Field instance     "@fid" its identity f (AId (Some f)), "_name", "items", "_immutable", ...
                          What `field.__set__(scratch, v)` STORES for v is the parameter [recf f]: the heap after the
                          field's own chain ran and the stored child (a nested collection field allocates its wrapper).
     a scratch Structure() / the instance a descriptor is invoked on: its __dict__ entries and flags as attributes.
   A Python list of Field instances (self.items of a positional Array / Tuple / Map) is [AList].
   Field objects are VALUES here: an attribute write is seen through the expression it was written through (the
   translator rejects a read of `_name` through another path).  Pure validations (verify_type_and_uniqueness,
   validate_size, uniqueness bookkeeping, __validate__) are the oracle [CK]: they may raise, they do not touch
   the heap; their value-level translations are Gen/Guards.v / Gen/CollectionsSrc.v.

   Every operator raises the exception class CPython raises, [Unmodelled] where the model declines.  No proofs. *)
From Coq Require Import ZArith NArith Bool List Arith String.
Import ListNotations.
From TP Require Import Base.PyVal Base.PyEq Struct.CopyHeap Base.PyOpsAlias.
From TP Require Base.PyOpsCollections.

Definition checks := pystr -> list aval -> heap -> option exn.

Definition a_check (CK : checks) (name : pystr) (args : list aval) : M aval := fun h =>
  match CK name args h with Some e => Raise e | None => Ok (h, anone) end.

Definition fid_key : pystr := s2p "@fid".
Definition name_key : pystr := s2p "_name".

(* a Field instance *)
Definition a_is_field (v : aval) : M bool :=
  match v with
  | AObj attrs => mret (match alist_get attrs fid_key with Some _ => true | None => false end)
  | AList _ | AV (CAtom _) | ATmp _ _ => mret false
  | _ => mraise Unmodelled
  end.

(* isinstance on the values of this file: a list of Fields is a list *)
Definition a_isinstance2 (v : aval) (tys : list tyname) : M bool :=
  match v with
  | AList _ => mret (existsb (tyname_eqb TList) tys)
  | AObj attrs =>
      match alist_get attrs body_key, alist_get attrs fid_key with
      | None, Some _ => mret false            (* a Field is none of the container / scalar types *)
      | _, _ => a_isinstance v tys
      end
  | _ => a_isinstance v tys
  end.

(* isinstance(v, cls) for a built-in container class held in a variable *)
Definition a_isinstance_class (v cls : aval) : M bool :=
  match cls with
  | AClass KSet => a_isinstance v [TSet]
  | AClass KFrozen => a_isinstance v [TFrozenset]
  | AClass KList => a_isinstance v [TList]
  | AClass KDeque => a_isinstance v [TDeque]
  | AClass KTuple => a_isinstance v [TTuple]
  | AClass KDict => a_isinstance v [TDict]
  | _ => mraise Unmodelled
  end.

Definition a_is_false (v : aval) : M bool :=
  mret (match v with AV (CAtom (PBool false)) => true | _ => false end).

(* ------------------------------------------------------------------ dynamic attribute names *)

Definition a_name_of (n : aval) : M pystr :=
  match n with AV (CAtom (PStr s)) => mret s | AV (CAtom _) => mraise TypeError | _ => mraise Unmodelled end.

Definition a_getattr_dyn (E : aenv) (o n : aval) : M aval := s <~ a_name_of n ;; a_getattr E o s.

(* o.__dict__[n] = v / setattr(o, n, v) on an object seen through its attributes: the updated object *)
Definition a_setattr_dyn (o n v : aval) : M aval := s <~ a_name_of n ;; a_setattr o s v.

(* n in o.__dict__ *)
Definition a_in_dict (o n : aval) : M bool :=
  s <~ a_name_of n ;;
  match o with
  | AObj attrs => mret (match alist_get attrs s with Some _ => true | None => false end)
  | _ => mraise Unmodelled
  end.

(* setattr(self.<path>, a, v): the updated self *)
Definition a_setattr_path (o : aval) (path : pystr) (a : pystr) (v : aval) : M aval :=
  match o with
  | AObj attrs =>
      match alist_get attrs path with
      | Some (AObj sub) => mret (AObj (alist_set attrs path (AObj (alist_set sub a v))))
      | Some _ => mraise Unmodelled
      | None => mraise AttributeError
      end
  | _ => mraise Unmodelled
  end.

(* field.__set__(scratch, v): [recf f] decides what is stored under the field's current name *)
Definition a_field_set (recf : nat -> heap -> child -> res (heap * child)) (x s v : aval) : M aval := fun h =>
  match x, s, v with
  | AObj fa, AObj sa, AV c =>
      match alist_get fa fid_key, alist_get fa name_key with
      | Some (AId (Some f)), Some (AV (CAtom (PStr n))) =>
          match recf f h c with
          | Ok (h1, c1) => Ok (h1, AObj (alist_set sa n (AV c1)))
          | Raise e => Raise e
          end
      | _, _ => Raise Unmodelled
      end
  | _, _, _ => Raise Unmodelled
  end.

(* ------------------------------------------------------------------ numbers and strings *)

Inductive cmpop := CGt | CGe | CLt | CLe | CEq | CNe.

Definition a_cmp (op : cmpop) (a b : aval) : M bool :=
  match a, b with
  | AV (CAtom (PNum (NInt x))), AV (CAtom (PNum (NInt y))) =>
      mret (match op with
            | CGt => Z.gtb x y | CGe => Z.geb x y | CLt => Z.ltb x y | CLe => Z.leb x y
            | CEq => Z.eqb x y | CNe => negb (Z.eqb x y)
            end)
  | _, _ => mraise Unmodelled
  end.

Definition a_str (v : aval) : M aval :=
  match v with
  | AV (CAtom (PStr _)) => mret v
  | AV (CAtom (PNum (NInt z))) => mret (astr (PyOpsCollections.Z_to_pystr z))
  | _ => mraise Unmodelled
  end.

(* a + b on str *)
Definition a_add (a b : aval) : M aval :=
  match a, b with
  | AV (CAtom (PStr x)), AV (CAtom (PStr y)) => mret (astr (x ++ y))
  | _, _ => mraise Unmodelled
  end.

(* ------------------------------------------------------------------ containers *)

Definition a_len (v : aval) : M aval :=
  match v with
  | AList xs => mret (aint (Z.of_nat (List.length xs)))
  | AV (CAtom _) => mraise TypeError
  | _ =>
      k <~ kind_of v ;; kids <~ a_kids v ;;
      match k with
      | KInst _ _ => mraise Unmodelled
      | KDict | KWDict =>
          match kid_pairs kids with Some ps => mret (aint (Z.of_nat (List.length ps))) | None => mraise Unmodelled end
      | _ => mret (aint (Z.of_nat (List.length kids)))
      end
  end.

Definition norm_index (n : nat) (z : Z) : option nat :=
  let i := if Z.ltb z 0 then Z.add (Z.of_nat n) z else z in
  if Z.ltb i 0 then None else if Z.ltb i (Z.of_nat n) then Some (Z.to_nat i) else None.

(* v[i]; [getitem]: the __getitem__ of the wrapper classes *)
Definition a_subscript (E : aenv) (getitem : aval -> aval -> M aval) (v i : aval) : M aval :=
  match v, i with
  | AList xs, AV (CAtom (PNum (NInt z))) =>
      match norm_index (List.length xs) z with
      | Some n => match nth_error xs n with Some x => mret x | None => mraise IndexError end
      | None => mraise IndexError
      end
  | AList _, _ => mraise Unmodelled
  | _, AV (CAtom (PNum (NInt z))) =>
      k <~ kind_of v ;; kids <~ a_kids v ;;
      match k with
      | KWList | KWDeque => s <~ a_as_self E v ;; getitem s i
      | KList | KDeque | KTuple =>
          match norm_index (List.length kids) z with
          | Some n => match nth_kid kids n with Some c => mret (AV c) | None => mraise IndexError end
          | None => mraise IndexError
          end
      | _ => mraise Unmodelled
      end
  | _, _ => mraise Unmodelled
  end.

(* v[n:] of a plain list / tuple (or a fresh one): a NEW list of the remaining items *)
Definition a_slice_from (v n : aval) : M aval :=
  match n with
  | AV (CAtom (PNum (NInt z))) =>
      k <~ kind_of v ;; kids <~ a_kids v ;;
      if Z.ltb z 0 then mraise Unmodelled
      else match k with
           | KList => mret (ATmp KList (skipn (Z.to_nat z) kids))
           | KTuple => mret (ATmp KTuple (skipn (Z.to_nat z) kids))
           | _ => mraise Unmodelled
           end
  | _ => mraise Unmodelled
  end.

(* lst * n for a list of Fields *)
Definition a_mul (v n : aval) : M aval :=
  match v, n with
  | AList xs, AV (CAtom (PNum (NInt z))) => mret (AList (List.concat (repeat xs (Z.to_nat z))))
  | _, _ => mraise Unmodelled
  end.

(* c.append(x) on a container the function owns: its new value *)
Definition a_append (c x : aval) : M aval :=
  match c, x with
  | ATmp k kids, AV ch =>
      match k with
      | KList | KDeque => mret (ATmp k (kids ++ [(([] : pystr), ch)]))
      | _ => mraise AttributeError
      end
  | _, _ => mraise Unmodelled
  end.

Definition child_eqb (a b : child) : bool :=
  match a, b with
  | CAtom x, CAtom y => pyval_eqb x y
  | CRef l, CRef m => Nat.eqb l m
  | _, _ => false
  end.

(* s.add(x) on an owned set: atoms compare by value, objects by identity (user __eq__ / __hash__: not modelled) *)
Definition a_set_add (c x : aval) : M aval :=
  match c, x with
  | ATmp KSet kids, AV ch =>
      if existsb (fun p => child_eqb (snd p) ch) kids then mret c
      else mret (ATmp KSet (kids ++ [(([] : pystr), ch)]))
  | _, _ => mraise Unmodelled
  end.

(* c += other on an owned list: the items of other appended *)
Definition a_iadd (c other : aval) : M aval :=
  match c with
  | ATmp KList kids =>
      k <~ kind_of other ;; ks <~ a_kids other ;;
      match k with
      | KList | KTuple | KDeque => mret (ATmp KList (kids ++ map (fun p => (([] : pystr), snd p)) ks))
      | _ => mraise Unmodelled
      end
  | _ => mraise Unmodelled
  end.

Fixpoint dict_set_kids (kids : list (pystr * child)) (k v : child) : list (pystr * child) :=
  match kids with
  | (a, k0) :: (b, v0) :: t => if child_eqb k0 k then (a, k0) :: (b, v) :: t else (a, k0) :: (b, v0) :: dict_set_kids t k v
  | _ => [(([] : pystr), k); (([] : pystr), v)]
  end.

(* d[k] = v on an owned dict *)
Definition a_setitem (d k v : aval) : M aval :=
  match d, k, v with
  | ATmp KDict kids, AV kc, AV vc => mret (ATmp KDict (dict_set_kids kids kc vc))
  | _, _, _ => mraise Unmodelled
  end.

(* cls() / cls(x) for a built-in container class held in a variable, K a built-in class *)
Definition a_call_class (E : aenv) (witer : aval -> M aval) (getitem : aval -> aval -> M aval)
           (cls : aval) (args : list aval) : M aval :=
  match cls, args with
  | AClass k, [] => mret (ATmp k [])
  | AClass k, [x] =>
      match k with
      | KList | KDeque | KTuple => a_new_from E witer getitem k x
      | KSet | KFrozen =>
          (* a set built from values that are already distinct (a list of validated set elements) *)
          r <~ a_new_from E witer getitem k x ;;
          match r with
          | ATmp _ kids =>
              if (fix nodupb (l : list (pystr * child)) : bool :=
                    match l with
                    | [] => true
                    | p :: t => negb (existsb (fun q => child_eqb (snd q) (snd p)) t) && nodupb t
                    end) kids
              then mret r else mraise Unmodelled
          | _ => mraise Unmodelled
          end
      | _ => mraise Unmodelled
      end
  | _, _ => mraise Unmodelled
  end.

(* ------------------------------------------------------------------ iteration *)

Fixpoint enum_thunks (ths : list (M aval)) (i : Z) : list (M aval) :=
  match ths with
  | [] => []
  | t :: r => (x <~ t ;; mret (APair (aint i) x)) :: enum_thunks r (Z.succ i)
  end.

(* iter(v) also for a list of Fields *)
Definition a_iterate2 (E : aenv) (witer : aval -> M aval) (getitem : aval -> aval -> M aval) (v : aval)
  : M (list (M aval)) :=
  match v with
  | AList xs => mret (map (fun x => mret x) xs)
  | _ => a_iterate E witer getitem v
  end.

(* value.items(): the entries of a plain dict; of a _DictStruct through its own items() ([ditems]) *)
Definition a_items (E : aenv) (ditems : aval -> M aval) (v : aval) : M (list (M aval)) :=
  k <~ kind_of v ;; kids <~ a_kids v ;;
  match k with
  | KDict =>
      match kid_pairs kids with
      | Some ps => mret (map (fun p => mret (APair (AV (fst p)) (AV (snd p)))) ps)
      | None => mraise Unmodelled
      end
  | KWDict =>
      s <~ a_as_self E v ;; g <~ ditems s ;;
      match g with AGen ths => mret ths | _ => mraise Unmodelled end
  | _ => mraise AttributeError
  end.

Fixpoint range_thunks (n : nat) (i : Z) : list (M aval) :=
  match n with O => [] | S n' => mret (aint i) :: range_thunks n' (Z.succ i) end.

Definition a_range (a b : aval) : M (list (M aval)) :=
  match a, b with
  | AV (CAtom (PNum (NInt x))), AV (CAtom (PNum (NInt y))) => mret (range_thunks (Z.to_nat (y - x)) x)
  | _, _ => mraise Unmodelled
  end.

(* try: m  except <exns>: raise e' *)
Definition a_try_reraise {A} (m : M A) (exns : list exn) (e' : exn) : M A := fun h =>
  match m h with
  | Raise e => if existsb (exn_eqb e) exns then Raise e' else Raise e
  | r => r
  end.
