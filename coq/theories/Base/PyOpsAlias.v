(* L0, alias part: the dynamic operators the GENERATED translation Gen/AliasSrc.v (harness/genmods/py2v_alias.py) of
   typedpy's copy / wrap / hand-out code is written in.  The value universe is the IDENTITY heap of the hand model
   Struct/CopyHeap.v (objects are heap locations, allocation of a fresh object is the model's [alloc]); a
   computation is a state transformer over that heap that may raise.

   Python-level values ([aval]):
     AV c          an atom (None / bool / number / str / enum member ...) or a reference to an ALLOCATED object
     ATmp k kids   a container that was just built and to which no other reference exists yet (the result of
                   list.copy(), x[:], deque(x), a comprehension ...).  It is given a location when it escapes:
                   when it becomes the body of a finished wrapper, or is returned to the heap-level caller
                   ([a_to_child]).  The hand model does not allocate temporaries either.
     AObj attrs    a Python object seen through its attributes: a wrapper (`self`: its list/deque/dict body under the
                   attribute "@body", plus _field_definition / _instance / _name), a Field definition
     ADict items   a dict literal with constant string keys (the pickled state of a wrapper)
     APair, ASliceAll, AMemo, AId, AGen (a generator: delayed computations, run when consumed), AProxy
                   (_IteratorProxyMixin.ListIteratorProxy(target): yields target[0], target[1], ...)
   What is NOT in the heap (the hand model says so: "the owner back-reference of a wrapper"): the attributes of an
   allocated wrapper.  They come from the environment [e_wattrs] (None for a wrapper allocated during the run: the
   model then declines, [Unmodelled]).

   Every operator raises the exception class CPython raises, [Unmodelled] where the model declines to predict.
   Executable; no proofs here. *)
From Coq Require Import ZArith NArith Bool List Arith String.
Import ListNotations.
From TP Require Import Base.PyVal Base.PyEq Struct.CopyHeap.

Inductive aval :=
| AV (c : child)
| ATmp (k : okind) (kids : list (pystr * child))
| AObj (attrs : list (pystr * aval))
| ADict (items : list (pystr * aval))
| APair (a b : aval)
| ASliceAll
| AMemo (m : list (loc * aval))
| AId (i : option loc)
| AGen (ths : list (heap -> res (heap * aval)))
| AProxy (target : aval)
| AClass (k : okind)                 (* a built-in container class as a value (PyOpsAliasIntake.v) *)
| AList (xs : list aval).            (* a Python list of objects that are not heap values: Field instances *)

Record aenv := {
  e_wattrs : loc -> option (list (pystr * aval));   (* _field_definition / _instance / _name of an allocated wrapper *)
  e_iattr : loc -> pystr -> option pyval;           (* attributes of a Structure instance / its class other than `_immutable` *)
  e_defaults : pystr -> option pyval                (* attributes of the configuration class TypedPyDefaults *)
}.

(* ------------------------------------------------------------------------------------------ the monad *)

Definition M (A : Type) := heap -> res (heap * A).
Definition mret {A} (a : A) : M A := fun h => Ok (h, a).
Definition mraise {A} (e : exn) : M A := fun _ => Raise e.
Definition mbind {A B} (m : M A) (f : A -> M B) : M B :=
  fun h => match m h with Ok (h1, a) => f a h1 | Raise e => Raise e end.
Notation "x <~ m ;; k" := (mbind m (fun x => k)) (at level 61, m at next level, right associativity).

Definition anone : aval := AV (CAtom PNone).
Definition abool (b : bool) : aval := AV (CAtom (PBool b)).
Definition astr (s : pystr) : aval := AV (CAtom (PStr s)).
Definition aint (z : Z) : aval := AV (CAtom (PNum (NInt z))).

Definition body_key : pystr := s2p "@body".

(* the children one after the other, the heap threaded through (CopyHeap.map_kids with exceptions) *)
Fixpoint map_kidsR (f : heap -> child -> res (heap * child)) (h : heap) (kids : list (pystr * child))
  : res (heap * list (pystr * child)) :=
  match kids with
  | [] => Ok (h, [])
  | (k, c) :: t =>
      match f h c with
      | Raise e => Raise e
      | Ok (h1, c1) =>
          match map_kidsR f h1 t with
          | Raise e => Raise e
          | Ok (h2, t2) => Ok (h2, (k, c1) :: t2)
          end
      end
  end.

(* ------------------------------------------------------------------------------------------ truth values *)

Definition plain_kind (k : okind) : bool :=
  match k with KList | KDeque | KSet | KDict => true | _ => false end.

Definition a_truthy (v : aval) : M bool := fun h =>
  match v with
  | AV (CAtom x) => Ok (h, py_truthy x)
  | AV (CRef l) =>
      match get h l with
      | Some o => match o_kind o with
                  | KInst _ _ => Raise Unmodelled        (* a Structure may define __len__ / __bool__ *)
                  | _ => Ok (h, negb (Nat.eqb (List.length (o_kids o)) 0))
                  end
      | None => Raise Unmodelled
      end
  | ATmp _ kids => Ok (h, negb (Nat.eqb (List.length kids) 0))
  | _ => Raise Unmodelled
  end.

Definition m_not (c : M bool) : M bool := b <~ c ;; mret (negb b).
Definition m_and (c : M bool) (d : M bool) : M bool := b <~ c ;; if b then d else mret false.
Definition m_or (c : M bool) (d : M bool) : M bool := b <~ c ;; if b then mret true else d.
(* `x or y` / `x and y` in value position *)
Definition m_or_val (x : M aval) (y : M aval) : M aval := v <~ x ;; b <~ a_truthy v ;; if b then mret v else y.
Definition m_and_val (x : M aval) (y : M aval) : M aval := v <~ x ;; b <~ a_truthy v ;; if b then y else mret v.
Definition m_boolval (c : M bool) : M aval := b <~ c ;; mret (abool b).

Definition a_is_none (v : aval) : M bool :=
  mret (match v with AV (CAtom PNone) => true | _ => false end).

(* isinstance(v, tys): the hand model's kind / atom tests *)
Definition a_isinstance (v : aval) (tys : list tyname) : M bool := fun h =>
  match v with
  | AV c => Ok (h, child_isinstance h c tys)
  | ATmp k _ => Ok (h, existsb (kind_isinstance k) tys)
  | AObj attrs =>
      match alist_get attrs body_key with
      | Some (AV c) => Ok (h, child_isinstance h c tys)
      | Some (ATmp k _) => Ok (h, existsb (kind_isinstance k) tys)
      | _ => Raise Unmodelled
      end
  | _ => Raise Unmodelled
  end.

(* ------------------------------------------------------------------------------------------ attributes *)

Definition immutable_key : pystr := s2p "_immutable".

(* attribute [n] of the object [o]: Some v / None (no such attribute) *)
Definition a_lookup (E : aenv) (o : aval) (n : pystr) : M (option aval) := fun h =>
  match o with
  | AObj attrs => Ok (h, alist_get attrs n)
  | AV (CAtom PNone) => Ok (h, None)
  | AV (CAtom _) => Raise Unmodelled
  | AV (CRef l) =>
      match get h l with
      | None => Raise Unmodelled
      | Some ob =>
          match o_kind ob with
          | KInst _ imm =>
              if pystr_eqb n immutable_key
              then Ok (h, if imm then Some (abool true) else None)       (* ImmutableStructure._immutable = True *)
              else Ok (h, match e_iattr E l n with Some v => Some (AV (CAtom v)) | None => None end)
          | KWList | KWDeque | KWDict =>
              match e_wattrs E l with
              | Some attrs => Ok (h, alist_get attrs n)
              | None => Raise Unmodelled
              end
          | _ => Ok (h, None)
          end
      end
  | _ => Raise Unmodelled
  end.

Definition a_getattr (E : aenv) (o : aval) (n : pystr) : M aval :=
  r <~ a_lookup E o n ;; match r with Some v => mret v | None => mraise AttributeError end.

Definition a_getattr_def (E : aenv) (o : aval) (n : pystr) (d : aval) : M aval :=
  r <~ a_lookup E o n ;; mret (match r with Some v => v | None => d end).

(* self.n = v on an object seen through its attributes; the updated object is the result *)
Definition a_setattr (o : aval) (n : pystr) (v : aval) : M aval :=
  match o with
  | AObj attrs => mret (AObj (alist_set attrs n v))
  | _ => mraise Unmodelled
  end.

Definition a_defaults (E : aenv) (n : pystr) : M aval :=
  match e_defaults E n with Some v => mret (AV (CAtom v)) | None => mraise AttributeError end.

(* d["key"] on a dict literal *)
Definition a_dict_subscript (d : aval) (k : pystr) : M aval :=
  match d with
  | ADict items => match alist_get items k with Some v => mret v | None => mraise KeyError end
  | _ => mraise Unmodelled
  end.

(* an allocated wrapper as `self` *)
Definition a_as_self (E : aenv) (v : aval) : M aval := fun h =>
  match v with
  | AObj _ => Ok (h, v)
  | AV (CRef l) =>
      match get h l with
      | Some ob =>
          if is_wrapper (o_kind ob)
          then match e_wattrs E l with
               | Some attrs => Ok (h, AObj ((body_key, AV (CRef l)) :: attrs))
               | None => Raise Unmodelled
               end
          else Raise AttributeError
      | None => Raise Unmodelled
      end
  | AV (CAtom _) => Raise AttributeError
  | _ => Raise Unmodelled
  end.

(* v.m(...) for a method m of the wrapper classes, v not syntactically `self` *)
Definition a_with_self {A} (E : aenv) (v : aval) (f : aval -> M A) : M A := s <~ a_as_self E v ;; f s.

(* ------------------------------------------------------------------------------------------ identity, memo *)

Definition id_key : pystr := s2p "@id".

(* id(v).  A Structure instance may also be given as a DESCRIPTION (an AObj carrying its identity under "@id"):
   the owner of a wrapper is not part of the hand model's heap *)
Definition a_id (v : aval) : M aval :=
  match v with
  | AObj attrs => match alist_get attrs id_key with Some (AId i) => mret (AId i) | _ => mraise Unmodelled end
  | AV (CRef l) => mret (AId (Some l))
  | AV (CAtom _) => mret (AId None)         (* an id no live container has *)
  | _ => mraise Unmodelled
  end.

Fixpoint memo_find (m : list (loc * aval)) (l : loc) : option aval :=
  match m with [] => None | (k, c) :: t => if Nat.eqb k l then Some c else memo_find t l end.

(* memo.get(key, default) *)
Definition a_memo_get (memo key d : aval) : M aval :=
  match memo, key with
  | AMemo m, AId (Some l) => mret (match memo_find m l with Some c => c | None => d end)
  | AMemo _, AId None => mret d
  | _, _ => mraise Unmodelled
  end.

(* ------------------------------------------------------------------------------------------ containers *)

Definition kind_of (v : aval) : M okind := fun h =>
  match v with
  | ATmp k _ => Ok (h, k)
  | AV (CRef l) => match get h l with Some o => Ok (h, o_kind o) | None => Raise Unmodelled end
  | _ => Raise Unmodelled
  end.

(* the children of a container value *)
Definition a_kids (v : aval) : M (list (pystr * child)) := fun h =>
  match v with
  | ATmp _ kids => Ok (h, kids)
  | AV (CRef l) => match get h l with Some o => Ok (h, o_kids o) | None => Raise Unmodelled end
  | _ => Raise TypeError
  end.

Definition a_body (s : aval) : M aval :=
  match s with
  | AObj attrs => match alist_get attrs body_key with Some b => mret b | None => mraise Unmodelled end
  | _ => mraise Unmodelled
  end.

(* the plain built-in class a wrapper class derives from *)
Definition base_kind (k : okind) : okind :=
  match k with KWList => KList | KWDeque => KDeque | KWDict => KDict | _ => k end.

(* super().copy() of a list / dict subclass: a new PLAIN container with the same children *)
Definition a_super_copy (s : aval) : M aval :=
  b <~ a_body s ;; k <~ kind_of b ;; kids <~ a_kids b ;;
  match k with
  | KWList | KWDict => mret (ATmp (base_kind k) kids)
  | _ => mraise Unmodelled
  end.

Fixpoint nth_kid (kids : list (pystr * child)) (n : nat) : option child :=
  match kids, n with
  | [], _ => None
  | (_, c) :: _, O => Some c
  | _ :: t, S n' => nth_kid t n'
  end.

Fixpoint kid_pairs (kids : list (pystr * child)) : option (list (child * child)) :=
  match kids with
  | [] => Some []
  | (_, k) :: (_, v) :: t => match kid_pairs t with Some r => Some ((k, v) :: r) | None => None end
  | _ => None
  end.

(* dict keys: atoms compare by value, objects by identity (user __eq__ / __hash__: not modelled) *)
Definition key_eqb (a b : child) : bool :=
  match a, b with
  | CAtom x, CAtom y => pyval_eqb x y
  | CRef l, CRef m => Nat.eqb l m
  | _, _ => false
  end.

Fixpoint dict_find (ps : list (child * child)) (k : child) : option child :=
  match ps with [] => None | (k0, v) :: t => if key_eqb k0 k then Some v else dict_find t k end.

(* super().__getitem__(item) of a list / deque / dict subclass *)
Definition a_super_getitem (s : aval) (item : aval) : M aval :=
  b <~ a_body s ;; k <~ kind_of b ;; kids <~ a_kids b ;;
  match k, item with
  | KWList, ASliceAll => mret (ATmp KList kids)
  | KWDeque, ASliceAll => mraise TypeError                 (* a deque index must be an integer *)
  | KWDict, AV kc =>
      match kid_pairs kids with
      | Some ps => match dict_find ps kc with Some v => mret (AV v) | None => mraise KeyError end
      | None => mraise Unmodelled
      end
  | (KWList | KWDeque), AV (CAtom (PNum (NInt z))) =>
      let n := Z.of_nat (List.length kids) in
      let i := if Z.ltb z 0 then Z.add n z else z in
      if Z.ltb i 0 then mraise IndexError
      else match nth_kid kids (Z.to_nat i) with Some c => mret (AV c) | None => mraise IndexError end
  | _, _ => mraise Unmodelled
  end.

(* super().__iter__(): the children as they are *)
Definition a_super_iter (s : aval) : M aval :=
  b <~ a_body s ;; k <~ kind_of b ;; kids <~ a_kids b ;;
  match k with
  | KWList | KWDeque => mret (AGen (map (fun p => mret (AV (snd p))) kids))
  | _ => mraise Unmodelled
  end.


(* super().items() / super().values() of a dict subclass: the entries as they are (lazily) *)
Definition a_super_items (s : aval) : M aval :=
  b <~ a_body s ;; k <~ kind_of b ;; kids <~ a_kids b ;;
  match k, kid_pairs kids with
  | KWDict, Some ps => mret (AGen (map (fun p => mret (APair (AV (fst p)) (AV (snd p)))) ps))
  | _, _ => mraise Unmodelled
  end.

Definition a_super_values (s : aval) : M aval :=
  b <~ a_body s ;; k <~ kind_of b ;; kids <~ a_kids b ;;
  match k, kid_pairs kids with
  | KWDict, Some ps => mret (AGen (map (fun p => mret (AV (snd p))) ps))
  | _, _ => mraise Unmodelled
  end.

Definition a_unpair (v : aval) : M (aval * aval) :=
  match v with APair a b => mret (a, b) | _ => mraise Unmodelled end.

Fixpoint run_thunks (ths : list (heap -> res (heap * aval))) : M (list aval) :=
  match ths with
  | [] => mret []
  | t :: r => x <~ t ;; xs <~ run_thunks r ;; mret (x :: xs)
  end.

Fixpoint proxy_thunks (getitem : aval -> aval -> M aval) (target : aval) (n : nat) (i : Z) : list (M aval) :=
  match n with
  | O => []
  | S n' => getitem target (aint i) :: proxy_thunks getitem target n' (Z.succ i)
  end.

(* iter(v): the DELAYED values the iterable yields (a generator runs as it is consumed).  [witer]: the __iter__
   of the wrapper classes; [getitem]: their __getitem__ (what ListIteratorProxy.__next__ calls).  Plain built-in
   containers yield their children. *)
Definition a_iterate (E : aenv) (witer : aval -> M aval) (getitem : aval -> aval -> M aval) (v : aval)
  : M (list (M aval)) :=
  let consume (it : aval) : M (list (M aval)) :=
      match it with
      | AGen ths => mret ths
      | AProxy t => b <~ a_body t ;; kids <~ a_kids b ;; mret (proxy_thunks getitem t (List.length kids) 0%Z)
      | _ => mraise Unmodelled
      end in
  let keys (kids : list (pystr * child)) : M (list (M aval)) :=
      match kid_pairs kids with
      | Some ps => mret (map (fun p => mret (AV (fst p))) ps)
      | None => mraise Unmodelled
      end in
  match v with
  | AGen _ | AProxy _ => consume v
  | ATmp k kids =>
      match k with
      | KDict => keys kids
      | KInst _ _ => mraise Unmodelled
      | _ => mret (map (fun p => mret (AV (snd p))) kids)
      end
  | AObj _ => it <~ witer v ;; consume it
  | AV (CRef l) =>
      k <~ kind_of v ;; kids <~ a_kids v ;;
      match k with
      | KWList | KWDeque => s <~ a_as_self E v ;; it <~ witer s ;; consume it
      | KDict | KWDict => keys kids
      | KInst _ _ => mraise Unmodelled
      | _ => mret (map (fun p => mret (AV (snd p))) kids)
      end
  | AV (CAtom _) => mraise TypeError
  | _ => mraise Unmodelled
  end.

Fixpoint as_kids (xs : list aval) : option (list (pystr * child)) :=
  match xs with
  | [] => Some []
  | AV c :: t => match as_kids t with Some r => Some (([] : pystr, c) :: r) | None => None end
  | _ => None
  end.

(* list(x) / deque(x) / set(x) : a new plain container of kind k holding what x yields *)
Definition a_new_from (E : aenv) (witer : aval -> M aval) (getitem : aval -> aval -> M aval) (k : okind) (v : aval) : M aval :=
  ths <~ a_iterate E witer getitem v ;; xs <~ run_thunks ths ;;
  match as_kids xs with Some kids => mret (ATmp k kids) | None => mraise Unmodelled end.

Definition a_new_empty (k : okind) : M aval := mret (ATmp k []).

(* the entries of a dict-like source, for dict.__init__(self, mapping): CPython's PyDict_Merge reads the raw
   entries of a dict (subclass) whose __iter__ is the built-in one *)
Definition a_dict_entries (v : aval) : M (list (pystr * child)) :=
  k <~ kind_of v ;; kids <~ a_kids v ;;
  match k with
  | KDict | KWDict => match kid_pairs kids with Some _ => mret kids | None => mraise Unmodelled end
  | _ => mraise Unmodelled
  end.

(* super().__init__(src) of the wrapper class of kind k, on an object under construction (no body yet):
   the body becomes a container of that class holding what src yields *)
Definition a_super_init (E : aenv) (witer : aval -> M aval) (getitem : aval -> aval -> M aval)
           (k : okind) (s : aval) (src : aval) : M aval :=
  match s with
  | AObj attrs =>
      match alist_get attrs body_key with
      | Some _ => mraise Unmodelled                  (* re-initialising a live container in place: not modelled *)
      | None =>
          match k with
          | KWDict => kids <~ a_dict_entries src ;; mret (AObj ((body_key, ATmp k kids) :: attrs))
          | KWList | KWDeque =>
              ths <~ a_iterate E witer getitem src ;; xs <~ run_thunks ths ;;
              match as_kids xs with
              | Some kids => mret (AObj ((body_key, ATmp k kids) :: attrs))
              | None => mraise Unmodelled
              end
          | _ => mraise Unmodelled
          end
      end
  | _ => mraise Unmodelled
  end.

(* the end of `Cls(...)`: the new object gets its location *)
Definition a_finish_new (k : okind) (s : aval) : M aval := fun h =>
  match s with
  | AObj attrs =>
      match alist_get attrs body_key with
      | Some (ATmp k' kids) =>
          let (h1, c) := alloc h {| o_kind := k'; o_kids := kids |} in
          Ok (h1, AObj (alist_set attrs body_key (AV c)))
      | Some (AV _) => Raise Unmodelled
      | None =>
          let (h1, c) := alloc h {| o_kind := k; o_kids := [] |} in
          Ok (h1, AObj ((body_key, AV c) :: attrs))
      | _ => Raise Unmodelled
      end
  | _ => Raise Unmodelled
  end.

(* a value handed to the heap-level caller: a temporary gets its location now *)
Definition a_to_child (v : aval) : M child := fun h =>
  match v with
  | AV c => Ok (h, c)
  | ATmp k kids => let (h1, c) := alloc h {| o_kind := k; o_kids := kids |} in Ok (h1, c)
  | AObj attrs =>
      match alist_get attrs body_key with
      | Some (AV c) => Ok (h, c)
      | _ => Raise Unmodelled
      end
  | _ => Raise Unmodelled
  end.

(* ------------------------------------------------------------------------------------------ deepcopy *)

(* copy.deepcopy(v), [rec] = deepcopy on heap values.  A fresh plain container is copied child by child; a Field
   definition is a description (its copy has the same attributes). *)
Definition a_deepcopy (rec : heap -> child -> res (heap * child)) (v : aval) : M aval := fun h =>
  match v with
  | AV c => match rec h c with Ok (h1, c1) => Ok (h1, AV c1) | Raise e => Raise e end
  | ATmp k kids =>
      if plain_kind k
      then match map_kidsR rec h kids with Ok (h1, kids1) => Ok (h1, ATmp k kids1) | Raise e => Raise e end
      else Raise Unmodelled
  | AObj attrs =>
      match alist_get attrs body_key with
      | None => Ok (h, v)
      | Some _ => Raise Unmodelled
      end
  | _ => Raise Unmodelled
  end.

(* loops over delayed elements: `for x in it` with an accumulator; comprehensions.  The element is produced,
   then the body runs, then the next element is produced. *)
Fixpoint a_fold {A} (f : A -> aval -> M A) (ths : list (M aval)) (acc : A) : M A :=
  match ths with
  | [] => mret acc
  | t :: r => x <~ t ;; a1 <~ f acc x ;; a_fold f r a1
  end.

(* a generator expression: nothing runs until it is consumed *)
Definition a_genexp (f : aval -> M aval) (ths : list (M aval)) : M aval :=
  mret (AGen (map (fun t => x <~ t ;; f x) ths)).

Definition a_child (v : aval) : M child :=
  match v with AV c => mret c | _ => mraise Unmodelled end.

(* [e for x in it] *)
Definition a_listcomp (f : aval -> M aval) (ths : list (M aval)) : M aval :=
  kids <~ a_fold (fun acc x => y <~ f x ;; c <~ a_child y ;; mret (acc ++ [(([] : pystr), c)])) ths [] ;;
  mret (ATmp KList kids).

(* {ek: ev for x in it} *)
Definition a_dictcomp (fk fv : aval -> M aval) (ths : list (M aval)) : M aval :=
  kids <~ a_fold (fun acc x => k <~ fk x ;; kc <~ a_child k ;; v <~ fv x ;; vc <~ a_child v ;;
                              mret (acc ++ [(([] : pystr), kc); (([] : pystr), vc)])) ths [] ;;
  mret (ATmp KDict kids).

(* ------------------------------------------------------------------------------------------ copy.deepcopy *)

(* CPython's copy.deepcopy on the identity heap: the built-in containers as copy._deepcopy_list / _dict / _tuple
   do; an object with a __deepcopy__ method through that method -- [wrap_dc] for the three wrapper classes (the
   GENERATED translations), [inst_dc] for Structure.__deepcopy__. *)
Section PyDeepcopy.
  Variable wrap_dc : (heap -> child -> res (heap * child)) -> loc -> heap -> res (heap * child).
  Variable inst_dc : (heap -> child -> res (heap * child)) -> loc -> obj -> heap -> res (heap * child).

  Definition fresh_objR (k : okind) (r : res (heap * list (pystr * child))) : res (heap * child) :=
    match r with
    | Raise e => Raise e
    | Ok (h1, kids1) => Ok (alloc h1 {| o_kind := k; o_kids := kids1 |})
    end.

  Fixpoint py_deepcopy (fuel : nat) (h : heap) (c : child) {struct fuel} : res (heap * child) :=
    match c with
    | CAtom _ => Ok (h, c)
    | CRef l =>
        match fuel with
        | O => Raise OutOfFuel
        | S f =>
            match get h l with
            | None => Raise Unmodelled
            | Some o =>
                match o_kind o with
                | KList | KDeque | KSet | KDict | KFrozen =>
                    fresh_objR (o_kind o) (map_kidsR (py_deepcopy f) h (o_kids o))
                | KTuple =>
                    match map_kidsR (py_deepcopy f) h (o_kids o) with
                    | Raise e => Raise e
                    | Ok (h1, kids1) =>
                        if same_refs (o_kids o) kids1 then Ok (h1, c)
                        else Ok (alloc h1 {| o_kind := KTuple; o_kids := kids1 |})
                    end
                | KInst _ _ => inst_dc (py_deepcopy f) l o h
                | KWList | KWDeque | KWDict => wrap_dc (py_deepcopy f) l h
                end
            end
        end
    end.
End PyDeepcopy.

Definition ro {A} (r : res A) : option A := match r with Ok a => Some a | Raise _ => None end.
