(* L0, operators for the GENERATED translation of Structure.__init__ and the other ways into an instance
   (Gen/InitSrc.v, emitted by harness/genmods/py2v_init.py).

   The instance under construction is its __dict__ (an association list, ALL keys: fields, extra
   attributes, `_instantiated`, `_none_fields`, ...).  A statement is a state transformer that ends
   normally with a value or with a raised exception OBJECT (class and str()), in the state reached so far:
       M A  =  istate -> istate * (A + pyexc).
   `try ... except` inspects the exception, loops thread the state and their loop-carried locals.
   Everything that dispatches through the run-time class of an object the function does not own
   (setattr(self, ..), self.__validate__(), super().__init__(), a default factory, Signature.bind, repr,
   json.dumps) is a component of the [world] the translation is parametric in: the bridging lemmas say
   which world the hand-written models are.  Pure operators come from Base/PyOps*.v, lifted with [lift]
   (an interpreter-raised exception has no modelled text: []).  Executable; no proofs here. *)
From Coq Require Import ZArith NArith String Bool List.
Import ListNotations.
From TP Require Import Base.PyVal Base.PyOps Base.PyOps2 Base.PyObj.
From TP Require Base.PyOpsVersioned Base.PyOpsFields Base.PyOpsDerive.
Local Open Scope Z_scope.

(* ------------------------------------------------------------------ exception objects *)
Record pyexc := mk_exc { x_cls : exn; x_arg : pystr }.     (* x_arg: the single str argument it was built with *)

Definition json_decode_error : exn := OtherExn (s2p "JSONDecodeError").

(* issubclass(c, k) on the classes the translated functions name.  InvalidStructureErr(ValueError, TypeError);
   json.JSONDecodeError(ValueError); any other class is related to itself only. *)
Definition exc_subclass (c k : exn) : bool :=
  exn_eqb c k ||
  match c, k with
  | InvalidStructureErr, (ValueError | TypeError) => true
  | OtherExn n, ValueError => pystr_eqb n (s2p "JSONDecodeError")
  | _, _ => false
  end.

(* the model's own pseudo exceptions are never caught by a translated handler *)
Definition model_level (c : exn) : bool :=
  match c with Unmodelled | OutOfFuel => true | _ => false end.

Inductive xpat :=
| XP_Exception                 (* except Exception *)
| XP_class (k : exn).          (* except K *)

Definition catches (pats : list xpat) (x : pyexc) : bool :=
  negb (model_level (x_cls x)) &&
  existsb (fun p => match p with XP_Exception => true | XP_class k => exc_subclass (x_cls x) k end) pats.

Definition exc_isinstance (x : pyexc) (k : exn) : bool :=
  negb (model_level (x_cls x)) && exc_subclass (x_cls x) k.

(* ------------------------------------------------------------------ the monad *)
Definition istate := list (pystr * pyval).
Definition M (A : Type) := istate -> istate * (A + pyexc).

Definition ret {A} (a : A) : M A := fun s => (s, inl a).
Definition raiseM {A} (x : pyexc) : M A := fun s => (s, inr x).
Definition bindM {A B} (m : M A) (f : A -> M B) : M B :=
  fun s => match m s with
           | (s', inl a) => f a s'
           | (s', inr x) => (s', inr x)
           end.
Notation "x <~ m ;; k" := (bindM m (fun x => k)) (at level 61, m at next level, right associativity).
Notation "' p <~ m ;; k" := (bindM m (fun p => k)) (at level 61, p pattern, m at next level, right associativity).

Definition lift {A} (r : res A) : M A :=
  match r with Ok a => ret a | Raise e => raiseM (mk_exc e []) end.

(* try: m  except <pats> as x: h x *)
Definition tryM {A} (m : M A) (pats : list xpat) (h : pyexc -> M A) : M A :=
  fun s => match m s with
           | (s', inr x) => if catches pats x then h x s' else (s', inr x)
           | r => r
           end.

(* for x in l: acc = body x acc   (an exception leaves the loop) *)
Fixpoint for_acc {X S} (body : X -> S -> M S) (l : list X) (acc : S) : M S :=
  match l with
  | [] => ret acc
  | x :: t => bindM (body x acc) (for_acc body t)
  end.

(* [e for x in l if c] with effects *)
Fixpoint filterMM {A B} (f : A -> M (option B)) (l : list A) : M (list B) :=
  match l with
  | [] => ret []
  | x :: t => o <~ f x ;; r <~ filterMM f t ;; ret (match o with Some y => y :: r | None => r end)
  end.

Definition andM (a : M bool) (b : unit -> M bool) : M bool := x <~ a ;; if x then b tt else ret false.
Definition orM (a : M bool) (b : unit -> M bool) : M bool := x <~ a ;; if x then ret true else b tt.
Definition notM (a : M bool) : M bool := x <~ a ;; ret (negb x).

Definition nonempty {A} (l : list A) : bool := match l with [] => false | _ => true end.

(* ------------------------------------------------------------------ the instance under construction *)
(* getattr(self, a[, d]): the instance __dict__ first, then what the class provides (the heap's "self") *)
Definition self_getattr_def (h : heap) (a : pystr) (d : pyval) : M pyval :=
  fun s => match alist_get s a with
           | Some v => (s, inl v)
           | None => lift (obj_getattr_def h (ref (s2p "self")) a d) s
           end.
Definition self_getattr (h : heap) (a : pystr) : M pyval :=
  fun s => match alist_get s a with
           | Some v => (s, inl v)
           | None => lift (obj_getattr h (ref (s2p "self")) a) s
           end.

(* self.m() used as a value: the pure query "m()" of what the class provides; an instance attribute named m
   would shadow the method (and be called instead): outside the model *)
Definition self_query (h : heap) (m : pystr) : M pyval :=
  fun s => match alist_get s m with
           | Some _ => (s, inr (mk_exc Unmodelled []))
           | None => lift (obj_getattr h (ref (s2p "self")) (m ++ s2p "()")) s
           end.

(* hasattr(self, a) *)
Definition self_hasattr (h : heap) (a : pystr) : M bool :=
  fun s => match alist_get s a with
           | Some _ => (s, inl true)
           | None => lift (obj_hasattr h (ref (s2p "self")) a) s
           end.

(* self.__dict__[k] = v *)
Definition self_dict_set (k v : pyval) : M unit :=
  fun s => match k with
           | PStr n => (alist_set s n v, inl tt)
           | _ => (s, inr (mk_exc Unmodelled []))
           end.

(* x is G  for a module-level singleton G (Undefined, ...): an object of the heap named G *)
Definition is_global (v : pyval) (g : pystr) : bool :=
  match v with POther t n => pystr_eqb t ref_tag && pystr_eqb n g | _ => false end.

(* ------------------------------------------------------------------ the world *)
Record world := {
  w_bind : pyval -> pyval -> pyval -> M pyval;          (* sig.bind( *args, **kwargs): its `.arguments`, a dict in
                                                           the signature's parameter order; "kwargs" -> the extras *)
  w_setattr : pyval -> pyval -> M unit;                 (* setattr(self, k, v)  /  self.k = v *)
  w_call : pystr -> list pyval -> M pyval;              (* self.m(args) for a method not translated here *)
  w_super : pystr -> list pyval -> M pyval;             (* super().m(args) *)
  w_invoke : pyval -> pystr -> list pyval -> M pyval;   (* o.m(args) on another object *)
  w_apply : pyval -> list pyval -> M pyval;             (* f(args), f a run-time callable *)
  w_callable : pyval -> bool;                           (* callable(x) *)
  w_repr_str : pystr -> pystr;                          (* repr of a str *)
  w_json_dumps : list pystr -> pystr;                   (* json.dumps of a list of str *)
  w_new : pyval -> pyval -> pyval -> M pyval            (* C( *args, **kwargs): creating an instance of class C *)
}.

(* str(e): the argument; KeyError shows its repr *)
Definition exc_str (w : world) (x : pyexc) : pystr :=
  match x_cls x with KeyError => w_repr_str w (x_arg x) | _ => x_arg x end.

(* ------------------------------------------------------------------ run-time attribute access (entry points)
   The object may be `self` (then: the instance __dict__ first, then what the class provides, the heap's "self") or
   any other object of the heap.  A run-time attribute NAME must be a str. *)
Definition is_self_ref (o : pyval) : bool :=
  match o with POther t n => pystr_eqb t ref_tag && pystr_eqb n (s2p "self") | _ => false end.

(* getattr(o, k[, d]) *)
Definition getattr_dynM (h : heap) (o k : pyval) (d : option pyval) : M pyval :=
  fun s =>
    match k with
    | PStr n =>
        match (if is_self_ref o then alist_get s n else None) with
        | Some v => (s, inl v)
        | None => match d with
                  | Some dv => lift (obj_getattr_def h o n dv) s
                  | None => lift (obj_getattr h o n) s
                  end
        end
    | _ => (s, inr (mk_exc TypeError []))
    end.

(* hasattr(o, k) *)
Definition hasattr_dynM (h : heap) (o k : pyval) : M bool :=
  fun s =>
    match k with
    | PStr n =>
        match (if is_self_ref o then alist_get s n else None) with
        | Some _ => (s, inl true)
        | None => lift (obj_hasattr h o n) s
        end
    | _ => (s, inr (mk_exc TypeError []))
    end.

(* m.get(k[, d]) on a run-time mapping (a dict; a heap object that is a Mapping is outside the model) *)
Definition obj_or_dict_get (h : heap) (m k d : pyval) : res pyval := PyOpsVersioned.py_dict_get m k d.

(* a is b  for two objects of the heap (classes, singletons): the same name *)
Definition py_is_obj (a b : pyval) : res bool :=
  match a, b with
  | POther ta na, POther tb nb =>
      if pystr_eqb ta ref_tag && pystr_eqb tb ref_tag then Ok (pystr_eqb na nb) else Raise Unmodelled
  | _, _ => Raise Unmodelled
  end.

(* issubclass(a, b) / isinstance(o, b) for a class object b: the heap says so by the pseudo-attributes
   "issubclass:<b>" of the class a and "isinstance:<b>" of the object o (b: the NAME of the class object) *)
Definition rel_attr (rel : pystr) (b : pystr) : pystr := rel ++ b.
Definition obj_rel (h : heap) (rel : pystr) (a b : pyval) : res bool :=
  match a, b with
  | POther ta na, POther tb nb =>
      if pystr_eqb ta ref_tag && pystr_eqb tb ref_tag then
        match h na (rel_attr rel nb) with
        | Some v => Ok (py_truthy v)
        | None => Raise Unmodelled
        end
      else Raise Unmodelled
  | _, POther tb nb => if pystr_eqb tb ref_tag then (if pystr_eqb rel (s2p "isinstance:") then Ok false else Raise TypeError) else Raise Unmodelled
  | _, _ => Raise Unmodelled
  end.
Definition obj_issubclass (h : heap) (a b : pyval) : res bool := obj_rel h (s2p "issubclass:") a b.
Definition obj_isinstance_of (h : heap) (o b : pyval) : res bool := obj_rel h (s2p "isinstance:") o b.

(* a in b  for two str *)
Fixpoint str_prefix_of (p s : pystr) : bool :=
  match p, s with
  | [], _ => true
  | x :: p', y :: s' => N.eqb x y && str_prefix_of p' s'
  | _, [] => false
  end.
Fixpoint str_contains (p s : pystr) : bool :=
  str_prefix_of p s || match s with [] => false | _ :: s' => str_contains p s' end.
Definition py_substr (p s : pystr) : res bool := Ok (str_contains p s).

(* isinstance(v, collections.abc.Mapping): a dict is one; an object of the heap says so ("isinstance:Mapping") *)
Definition py_is_mapping (h : heap) (v : pyval) : res bool :=
  match v with
  | PDict _ => Ok true
  | POther t n =>
      if pystr_eqb t ref_tag
      then Ok (match h n (s2p "isinstance:Mapping") with Some b => py_truthy b | None => false end)
      else Raise Unmodelled
  | PStruct _ _ | PEnum _ _ _ => Raise Unmodelled
  | _ => Ok false
  end.
