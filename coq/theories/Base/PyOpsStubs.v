(* L0, further part: the dynamic operators that the GENERATED translation of the .pyi generator
   (typedpy/stubs/type_info_getter.py get_all_type_info, typedpy/stubs/type_helpers.py _get_ordered_args,
   typedpy/stubs/methods_info_getter.py get_init / get_additional_structure_methods; Gen/StubsSrc.v, emitted by
   harness/genmods/py2v_stubs.py) uses on top of Base/PyOps.v, PyOps2.v, PyObj.v and PyOpsDerive.v
   (loops, .items(), unpacking, item stores on a local dict, f-strings):
   `try: ... except Exception: ...`, str.startswith / str.endswith / str.join, sequence repetition ( * ),
   + on sequences, the dict display { **a, **b } and comprehensions with a computed element.
   As in PyOps.v every operator raises the exception class CPython raises for the operand kinds it can meet
   and [Unmodelled] where the model declines to predict.  Executable; no proofs here. *)
From Coq Require Import ZArith NArith String Bool List.
Import ListNotations.
From TP Require Import Base.PyVal Base.PyOps Base.PyOps2 Base.PyObj Base.PyOpsDerive.
From TP Require Base.PyOpsVersioned Base.PyOpsFields.
Local Open Scope Z_scope.

Definition is_object (v : pyval) : bool := PyOpsVersioned.is_object v.

(* ------------------------------------------------------------------ try / except Exception *)

(* does `except Exception` catch it?  Every Python exception class the model names derives from Exception;
   [Unmodelled] / [OutOfFuel] are not Python exceptions (the model has stopped predicting: they pass through
   every handler), and for a class the model only knows by name it does not say *)
Definition caught_by_Exception (e : exn) : bool :=
  match e with
  | Unmodelled | OutOfFuel | OtherExn _ => false
  | _ => true
  end.

(* try: body   except Exception [as e]: handler        (no else / finally).
   The handler is a thunk: it runs only when the body raised. *)
Definition py_try_Exception {A} (body : res A) (handler : unit -> res A) : res A :=
  match body with
  | Ok a => Ok a
  | Raise e => if caught_by_Exception e then handler tt
               else match e with OtherExn _ => Raise Unmodelled | _ => Raise e end
  end.

(* ------------------------------------------------------------------ strings *)

Definition str_startswith (prefix s : pystr) : bool := PyOpsFields.str_prefix prefix s.
Definition str_endswith (suffix s : pystr) : bool := PyOpsFields.str_endswith suffix s.

(* v.startswith("literal") / v.endswith("literal") *)
Definition py_str_startswith (v : pyval) (prefix : pystr) : res bool :=
  match v with
  | PStr s => Ok (str_startswith prefix s)
  | POther _ _ | PStruct _ _ | PEnum _ _ _ => Raise Unmodelled
  | _ => Raise AttributeError
  end.
Definition py_str_endswith (v : pyval) (suffix : pystr) : res bool :=
  match v with
  | PStr s => Ok (str_endswith suffix s)
  | POther _ _ | PStruct _ _ | PEnum _ _ _ => Raise Unmodelled
  | _ => Raise AttributeError
  end.

Fixpoint join_strs (sep : pystr) (l : list pystr) : pystr :=
  match l with
  | [] => []
  | x :: t => match t with [] => x | _ :: _ => x ++ sep ++ join_strs sep t end
  end.

(* the str items of a list; None as soon as one is not a str *)
Fixpoint as_strs (l : list pyval) : option (list pystr) :=
  match l with
  | [] => Some []
  | PStr s :: t => match as_strs t with Some r => Some (s :: r) | None => None end
  | _ :: _ => None
  end.

(* sep.join(iterable): TypeError for an item that is not a str (an object may be a str subclass: not predicted) *)
Definition py_str_join (sep l : pyval) : res pyval :=
  match sep with
  | PStr s =>
      items <- py_iter_items l ;;
      match as_strs items with
      | Some ss => Ok (PStr (join_strs s ss))
      | None => if existsb is_object items then Raise Unmodelled else Raise TypeError
      end
  | POther _ _ | PStruct _ _ | PEnum _ _ _ => Raise Unmodelled
  | _ => Raise AttributeError
  end.

(* ------------------------------------------------------------------ * and + *)

Fixpoint repeat_list {A} (n : nat) (l : list A) : list A :=
  match n with O => [] | S k => l ++ repeat_list k l end.

Definition as_int (v : pyval) : option Z := PyOpsVersioned.as_int v.

(* a * b: int * int, and sequence repetition (either order; a count <= 0 gives the empty sequence) *)
Definition py_mul (a b : pyval) : res pyval :=
  match as_int a, as_int b with
  | Some x, Some y => Ok (PNum (NInt (x * y)))
  | _, _ =>
      let rep (s : pyval) (n : Z) : res pyval :=
          match s with
          | PStr l => Ok (PStr (repeat_list (Z.to_nat n) l))
          | PList l => Ok (PList (repeat_list (Z.to_nat n) l))
          | PTuple l => Ok (PTuple (repeat_list (Z.to_nat n) l))
          | _ => if is_object s then Raise Unmodelled
                 else match s with PNum _ => Raise Unmodelled | _ => Raise TypeError end
          end in
      match as_int b, as_int a with
      | Some n, _ => rep a n
      | None, Some n => rep b n
      | None, None =>
          if is_object a || is_object b then Raise Unmodelled
          else match a, b with PNum _, PNum _ => Raise Unmodelled | _, _ => Raise TypeError end
      end
  end.

(* a + b: exactly the + of the versioned-mapping translation (ints, float + int when exact, str, list, tuple) *)
Definition py_add (a b : pyval) : res pyval := PyOpsVersioned.py_add a b.

(* ------------------------------------------------------------------ dict displays and comprehensions *)

(* { **d1, **d2, ... }: the entries of each mapping in turn, a later equal key keeps its first position and
   takes the later value *)
Fixpoint py_dict_unpack_all (acc : list (pyval * pyval)) (ds : list pyval) : res pyval :=
  match ds with
  | [] => Ok (PDict acc)
  | PDict kv :: t => py_dict_unpack_all (fold_left (fun a p => dict_set a (fst p) (snd p)) kv acc) t
  | (POther _ _ | PStruct _ _ | PEnum _ _ _) :: _ => Raise Unmodelled
  | _ :: _ => Raise TypeError
  end.
Definition py_dict_unpack (ds : list pyval) : res pyval := py_dict_unpack_all [] ds.

(* [e for x in l]: the computed elements, in order (the first raise ends it) *)
Definition py_mapM (f : pyval -> res pyval) (l : list pyval) : res (list pyval) := mapM f l.
