(* Exact structural equality on model values (used to compare the model's outcome with the
   implementation's reified outcome: insertion order of dicts/sets is significant here). *)
From Coq Require Import ZArith QArith NArith String Ascii Bool Lia List.
Import ListNotations.
From TP Require Import Base.PyVal.
Local Open Scope Z_scope.

Definition num_struct_eqb (a b : num) : bool :=
  match a, b with
  | NInt x, NInt y => Z.eqb x y
  | NFlt m e, NFlt m' e' => Z.eqb m m' && Z.eqb e e'
  | NDec m e, NDec m' e' => Z.eqb m m' && Z.eqb e e'
  | _, _ => false
  end.

Fixpoint pyval_eqb (a b : pyval) {struct a} : bool :=
  let fix eq_list (l m : list pyval) {struct l} : bool :=
      match l, m with
      | [], [] => true
      | x :: l', y :: m' => pyval_eqb x y && eq_list l' m'
      | _, _ => false
      end in
  match a, b with
  | PNone, PNone => true
  | PBool x, PBool y => Bool.eqb x y
  | PNum x, PNum y => num_struct_eqb x y
  | PStr s, PStr t => pystr_eqb s t
  | PList l, PList m => eq_list l m
  | PTuple l, PTuple m => eq_list l m
  | PDeque l, PDeque m => eq_list l m
  | PSet f l, PSet g m =>
      (* iteration order of a Python set is not observable: compare as sets *)
      Bool.eqb f g && Nat.eqb (length l) (length m) &&
      (fix all_in (l : list pyval) : bool :=
         match l with
         | [] => true
         | x :: l' => existsb (fun y => pyval_eqb x y) m && all_in l'
         end) l
  | PDict kv, PDict kw =>
      (fix eq_kv (l m : list (pyval * pyval)) {struct l} : bool :=
         match l, m with
         | [], [] => true
         | (k, x) :: l', (k', y) :: m' => pyval_eqb k k' && pyval_eqb x y && eq_kv l' m'
         | _, _ => false
         end) kv kw
  | PEnum c n v, PEnum c' n' v' => pystr_eqb c c' && pystr_eqb n n' && pyval_eqb v v'
  | PStruct c at1, PStruct c' at2 =>
      (* the order of instance.__dict__ is not significant: compare as maps *)
      pystr_eqb c c' && Nat.eqb (length at1) (length at2) &&
      (fix all_at (l : list (pystr * pyval)) : bool :=
         match l with
         | [] => true
         | (k, x) :: l' =>
             existsb (fun p => pystr_eqb k (fst p) && pyval_eqb x (snd p)) at2 && all_at l'
         end) at1
  | POther t r, POther t' r' => pystr_eqb t t' && pystr_eqb r r'
  | _, _ => false
  end.

(* an observed outcome, as the harness reifies it: a value or an exception class *)
Definition res_val_eqb (a b : res pyval) : bool :=
  match a, b with
  | Ok x, Ok y => pyval_eqb x y
  | Raise e, Raise e' => exn_eqb e e'
  | _, _ => false
  end.

(* weaker comparison: only the fact of raising is compared, not the class *)
(* exception classes up to "is a TypeError or ValueError" *)
Definition exn_equiv (a b : exn) : bool := exn_eqb a b || (is_te_ve a && is_te_ve b).

Definition res_val_equiv (a b : res pyval) : bool :=
  match a, b with
  | Ok x, Ok y => pyval_eqb x y
  | Raise e, Raise e' => exn_equiv e e'
  | _, _ => false
  end.

Definition res_val_eqb_weak (a b : res pyval) : bool :=
  match a, b with
  | Ok x, Ok y => pyval_eqb x y
  | Raise _, Raise _ => true
  | _, _ => false
  end.

Fixpoint indices_where {A} (f : A -> bool) (l : list A) (i : nat) : list nat :=
  match l with
  | [] => []
  | x :: t => if f x then i :: indices_where f t (S i) else indices_where f t (S i)
  end.
