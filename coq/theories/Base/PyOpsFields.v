(* L0, fourth part: the further dynamic operators that the GENERATED translation of the trusted-
   deserialization classifier of typedpy/serialization/serialization.py (Gen/TrustedSrc.v, emitted by
   harness/genmods/py2v_trusted.py) uses.

   Objects.  An INSTANCE of a typedpy class (a Field object: Integer(), Array(items=...), AnyOf([...]),
   a ClassReference ...) is [PStruct cls attrs]: the name of its class and the attributes it carries
   (a parameterless query method m is seen as the attribute "m()", as in Base/PyObj.v).  A CLASS object
   (a Structure class, a Field class) is the reference [ref name] of Base/PyObj.v; the attributes of a
   Structure class live in the heap.  The subclass relation of the typedpy classes is a TABLE
   (class name -> all its proper ancestors), generated from the class statements of the source.

   As in PyOps.v every operator raises the exception class CPython raises for the operand kinds it can
   meet and [Unmodelled] where the model declines to predict.  Executable; the few facts about the
   operators that proofs need are at the end. *)
From Coq Require Import ZArith NArith String Bool List.
Import ListNotations.
From TP Require Import Base.PyVal Base.PyEq Base.PyOps Base.PyOps2 Base.PyObj.
Local Open Scope Z_scope.

(* ------------------------------------------------------------------ classes *)

Definition class_table := list (pystr * list pystr).

Definition class_known (tbl : class_table) (c : pystr) : bool := alist_has tbl c.

(* issubclass(c, k) for two typedpy classes *)
Definition subclass_of (tbl : class_table) (c k : pystr) : bool :=
  pystr_eqb c k || match alist_get tbl c with Some anc => str_in k anc | None => false end.

Definition class_in (tbl : class_table) (c : pystr) (ks : list pystr) : bool := existsb (subclass_of tbl c) ks.

(* isinstance(v, (K1, ..., Kn)) for typedpy classes Ki: an instance of a class the table does not know,
   an enum member and an opaque object are not predicted; plain data is an instance of none of them *)
Definition fld_isinstance (tbl : class_table) (v : pyval) (ks : list pystr) : res bool :=
  match v with
  | PStruct c _ => if class_known tbl c then Ok (class_in tbl c ks) else Raise Unmodelled
  | POther _ _ | PEnum _ _ _ => Raise Unmodelled
  | _ => Ok false
  end.

(* ------------------------------------------------------------------ attributes *)

(* o.a / getattr(o, a) *)
Definition fld_getattr (h : heap) (o : pyval) (a : pystr) : res pyval :=
  match o with
  | PStruct _ attrs => match alist_get attrs a with Some v => Ok v | None => Raise AttributeError end
  | _ => obj_getattr h o a
  end.

(* getattr(o, a, d) *)
Definition fld_getattr_def (h : heap) (o : pyval) (a : pystr) (d : pyval) : res pyval :=
  match o with
  | PStruct _ attrs => Ok (match alist_get attrs a with Some v => v | None => d end)
  | _ => obj_getattr_def h o a d
  end.

(* o.__class__ : defined for instances; the class of plain data is outside the model *)
Definition fld_class_of (o : pyval) : res pyval :=
  match o with
  | PStruct c _ => Ok (ref c)
  | _ => Raise Unmodelled
  end.

(* a is K / a is not K, for a class K: classes are identified by their names; neither a piece of plain data nor
   an instance / an enum member is a class object *)
Definition py_is_class (a b : pyval) : res bool :=
  match a, b with
  | POther t1 n1, POther t2 n2 =>
      (* class objects are always references: an opaque object that is not a reference is not a class *)
      if pystr_eqb t2 ref_tag then Ok (pystr_eqb t1 ref_tag && pystr_eqb n1 n2) else Raise Unmodelled
  | _, POther t2 _ => if pystr_eqb t2 ref_tag then Ok false else Raise Unmodelled
  | _, _ => Raise Unmodelled
  end.

(* a is M / a is not M, for a member M of an enum class: members are singletons identified by class and name *)
Definition py_is_member (a m : pyval) : res bool :=
  match m with
  | PEnum c n _ =>
      match a with
      | PEnum c' n' _ => Ok (pystr_eqb c c' && pystr_eqb n n')
      | POther _ _ => Raise Unmodelled
      | _ => Ok false
      end
  | _ => Raise Unmodelled
  end.

(* getattr(o, k, d) with a run-time attribute name *)
Definition fld_getattr_dyn_def (h : heap) (o k d : pyval) : res pyval :=
  match k with
  | PStr a => fld_getattr_def h o a d
  | POther _ _ | PStruct _ _ | PEnum _ _ _ => Raise Unmodelled
  | _ => Raise TypeError
  end.

(* issubclass(c, K) for a class object c: the heap lists the classes of its mro under "__mro__" *)
Definition cls_issubclass (h : heap) (c : pyval) (k : pystr) : res bool :=
  match c with
  | POther t n =>
      if pystr_eqb t ref_tag then
        match h n (s2p "__mro__") with
        | Some (PList l) => Ok (py_in (ref k) l)
        | _ => Raise Unmodelled
        end
      else Raise Unmodelled
  | PStruct _ _ | PEnum _ _ _ => Raise Unmodelled
  | _ => Raise TypeError
  end.

(* isinstance(v, collections.abc.Mapping): among the model's kinds of data only a dict *)
Definition py_is_mapping (v : pyval) : res bool :=
  match v with
  | PDict _ => Ok true
  | POther _ _ | PStruct _ _ => Raise Unmodelled
  | _ => Ok false
  end.

(* ------------------------------------------------------------------ dicts, iteration, subscription *)

(* d.items() / d.values() / d.keys(): only a dict has them among the model's kinds of plain data *)
Definition py_dict_items (v : pyval) : res (list (pyval * pyval)) :=
  match v with
  | PDict kv => Ok kv
  | POther _ _ | PStruct _ _ | PEnum _ _ _ => Raise Unmodelled
  | _ => Raise AttributeError
  end.
Definition py_dict_values (v : pyval) : res (list pyval) := kv <- py_dict_items v ;; Ok (map snd kv).
Definition py_dict_keys (v : pyval) : res (list pyval) := kv <- py_dict_items v ;; Ok (map fst kv).

(* for x in v *)
Definition py_iter (v : pyval) : res (list pyval) :=
  match v with
  | PList l | PTuple l | PDeque l | PSet _ l => Ok l
  | PDict kv => Ok (map fst kv)
  | PStr s => Ok (map (fun c => PStr [c]) s)
  | PNone | PBool _ | PNum _ => Raise TypeError
  | PEnum _ _ _ | PStruct _ _ | POther _ _ => Raise Unmodelled
  end.

(* c[k]: a sequence indexed by an int (negative indices count from the end), a dict by a key *)
Definition seq_index (l : list pyval) (i : Z) : res pyval :=
  let n := Z.of_nat (length l) in
  let j := if i <? 0 then i + n else i in
  if (j <? 0) || (n <=? j) then Raise IndexError
  else match nth_error l (Z.to_nat j) with Some x => Ok x | None => Raise IndexError end.

Definition py_subscript (c k : pyval) : res pyval :=
  match c with
  | PList l | PTuple l | PDeque l =>
      match k with
      | PNum (NInt i) => seq_index l i
      | PBool b => seq_index l (if b then 1 else 0)
      | POther _ _ | PStruct _ _ | PEnum _ _ _ => Raise Unmodelled
      | _ => Raise TypeError
      end
  | PDict kv => py_dict_getitem kv k
  | PNone | PBool _ | PNum _ | PSet _ _ => Raise TypeError
  | _ => Raise Unmodelled
  end.

(* s.endswith("literal") *)
Fixpoint str_prefix (p s : pystr) : bool :=
  match p, s with
  | [], _ => true
  | x :: p', y :: s' => N.eqb x y && str_prefix p' s'
  | _ :: _, [] => false
  end.
Definition str_endswith (suffix s : pystr) : bool := str_prefix (rev suffix) (rev s).

Definition py_str_endswith (v : pyval) (suffix : pystr) : res bool :=
  match v with
  | PStr s => Ok (str_endswith suffix s)
  | POther _ _ | PStruct _ _ | PEnum _ _ _ => Raise Unmodelled
  | _ => Raise AttributeError
  end.

(* comprehensions: [e for x in l if c] -- f x = Some e when the condition holds, None when it does not *)
Fixpoint filterM {A B} (f : A -> res (option B)) (l : list A) : res (list B) :=
  match l with
  | [] => Ok []
  | x :: t => o <- f x ;; r <- filterM f t ;; Ok (match o with Some y => y :: r | None => r end)
  end.

(* {k: v ...}: entries inserted in order, a later equal key overrides; every key is hashed *)
Fixpoint dict_build (acc : list (pyval * pyval)) (kvs : list (pyval * pyval)) : res (list (pyval * pyval)) :=
  match kvs with
  | [] => Ok acc
  | (k, v) :: t => if py_hashable' k then dict_build (dict_set acc k v) t else Raise TypeError
  end.
Definition py_dict_of (kvs : list (pyval * pyval)) : res pyval := r <- dict_build [] kvs ;; Ok (PDict r).

(* {**a, **b} *)
Definition py_dict_merge (a b : pyval) : res pyval :=
  match a, b with
  | PDict ka, PDict kb => Ok (PDict (fold_left (fun acc p => dict_set acc (fst p) (snd p)) kb ka))
  | (POther _ _ | PStruct _ _ | PEnum _ _ _), _ | _, (POther _ _ | PStruct _ _ | PEnum _ _ _) => Raise Unmodelled
  | _, _ => Raise TypeError
  end.

(* d.get(k[, default]) *)
Definition py_dict_get_method (d k dflt : pyval) : res pyval :=
  match d with
  | PDict kv => if py_hashable' k then Ok (match dict_get kv k with Some v => v | None => dflt end) else Raise TypeError
  | POther _ _ | PStruct _ _ | PEnum _ _ _ => Raise Unmodelled
  | _ => Raise AttributeError
  end.

(* d[k] = v on a dict that the function itself created (no alias): the updated dict *)
Definition py_setitem (d k v : pyval) : res pyval :=
  match d with
  | PDict kv => if py_hashable' k then Ok (PDict (dict_set kv k v)) else Raise TypeError
  | PNone | PBool _ | PNum _ | PStr _ | PTuple _ | PSet _ _ => Raise TypeError
  | _ => Raise Unmodelled
  end.

(* set(...): membership in a Python set is equal hash and ==.  Structure.__hash__ is hash(str(self)), so two
   instances that are == but print differently (a = 7 / a = 7.0) are distinct elements (Ser/Trusted.v elem_eq) *)
Definition set_elem_eq (x y : pyval) : bool :=
  py_eq x y && match x with PStruct _ _ => PyEq.pyval_eqb x y | _ => true end.
Fixpoint set_dedup_from (seen l : list pyval) : list pyval :=
  match l with
  | [] => rev seen
  | x :: t => if existsb (set_elem_eq x) seen then set_dedup_from seen t else set_dedup_from (x :: seen) t
  end.
Definition py_set_of (l : list pyval) : res pyval :=
  if forallb py_hashable' l then Ok (PSet false (set_dedup_from [] l)) else Raise TypeError.
(* set(v) *)
Definition py_set_call (v : pyval) : res pyval := l <- py_iter v ;; py_set_of l.

(* obj = C.__new__(C); setattr(obj, FLAG, True); obj.__init__( **kwargs ): with FLAG = _trust_supplied_values the
   constructor stores the keyword arguments as the instance's attributes, unchanged and unvalidated
   (Structure.__init__, trusted branch: Props/C10.v C10_from_trusted); any other flag is outside the model *)
Fixpoint kwargs_alist (kv : list (pyval * pyval)) : option (list (pystr * pyval)) :=
  match kv with
  | [] => Some []
  | (PStr k, v) :: t => match kwargs_alist t with Some r => Some ((k, v) :: r) | None => None end
  | _ => None
  end.
Definition py_trusted_instance (c : pyval) (flag : pystr) (kwargs : pyval) : res pyval :=
  match c, kwargs with
  | POther t n, PDict kv =>
      if pystr_eqb t ref_tag && pystr_eqb flag (s2p "_trust_supplied_values") then
        match kwargs_alist kv with Some a => Ok (PStruct n a) | None => Raise TypeError end   (* keywords must be strings *)
      else Raise Unmodelled
  | _, _ => Raise Unmodelled
  end.

(* x and y / x or y as VALUES: the operand that decides *)
Definition py_and_val (a : res pyval) (b : unit -> res pyval) : res pyval :=
  x <- a ;; if py_truthy x then b tt else Ok x.
Definition py_or_val (a : res pyval) (b : unit -> res pyval) : res pyval :=
  x <- a ;; if py_truthy x then Ok x else b tt.

(* ------------------------------------------------------------------ facts *)

Lemma filterM_app {A B} (f : A -> res (option B)) l1 l2 :
  filterM f (l1 ++ l2) = (a <- filterM f l1 ;; b <- filterM f l2 ;; Ok (a ++ b)).
Proof.
  induction l1 as [|x t IH]; cbn [app filterM bind].
  - destruct (filterM f l2); reflexivity.
  - destruct (f x) as [o|ex]; cbn [bind]; [|reflexivity].
    rewrite IH. destruct (filterM f t) as [a|ex]; cbn [bind]; [|reflexivity].
    destruct (filterM f l2) as [b|ex]; cbn [bind]; [|reflexivity].
    destruct o; reflexivity.
Qed.
