(* L0, fifth part: the further dynamic operators that the GENERATED translation of
   typedpy/serialization/mappers.py (Gen/MappersSrc.v, emitted by harness/genmods/py2v_mappers.py) uses,
   on top of Base/PyOps.v, PyOps2.v, PyObj.v, PyOpsVersioned.v (split, slices, dict methods, item stores,
   loops, heights), PyOpsFields.v (class tables, attribute reads, `or` as a value) and PyOpsDerive.v
   (subscription by an index, f-strings).

   Objects, as in PyOpsFields.v.  An INSTANCE of a class of the package (a Field object, a FunctionCall,
   and also a Structure CLASS seen as the instance of its metaclass that it is) is [PStruct cls attrs]:
   the name of its class and the attributes it carries; a parameterless query method m is the attribute
   "m()".  A class the code only compares by identity or hands around (DoNotSerialize) is the reference
   [ref name] of Base/PyObj.v.  A member of an enum.Enum class of the source is [PEnum cls name value].
   The subclass relation of the package's classes is a TABLE generated from the class statements.

   As in PyOps.v every operator raises the exception class CPython raises for the operand kinds it can
   meet and [Unmodelled] where the model declines to predict (opaque objects, non-ASCII case mappings).
   Executable; the few facts about the operators that proofs need are at the end. *)
From Coq Require Import ZArith NArith String Bool List Lia.
Import ListNotations.
From TP Require Import Base.PyVal Base.PyOps Base.PyOps2 Base.PyObj Base.PyOpsVersioned.
From TP Require Base.PyOpsFields Base.PyOpsDerive.
Local Open Scope N_scope.

(* ------------------------------------------------------------------ strings: ASCII case mappings *)

(* str.upper() / str.title() are predicted on ASCII text only: outside it the Unicode case mappings
   (one-to-many, context dependent) are not modelled *)
Definition ascii_char (c : N) : bool := c <? 128.
Definition ascii_str (s : pystr) : bool := forallb ascii_char s.

Definition chr_is_lower (c : N) : bool := (97 <=? c) && (c <=? 122).
Definition chr_is_upper (c : N) : bool := (65 <=? c) && (c <=? 90).
Definition chr_upper (c : N) : N := if chr_is_lower c then c - 32 else c.
Definition chr_lower (c : N) : N := if chr_is_upper c then c + 32 else c.

Definition ascii_upper (s : pystr) : pystr := map chr_upper s.

(* CPython's str.title(): a cased character becomes upper case when the previous character is not
   cased (or there is none) and lower case when it is *)
Fixpoint ascii_title_from (prev_cased : bool) (s : pystr) : pystr :=
  match s with
  | [] => []
  | c :: t =>
      let cased := chr_is_lower c || chr_is_upper c in
      (if cased then (if prev_cased then chr_lower c else chr_upper c) else c)
        :: ascii_title_from cased t
  end.
Definition ascii_title (s : pystr) : pystr := ascii_title_from false s.

Definition str_method (f : pystr -> pystr) (v : pyval) : res pyval :=
  match v with
  | PStr s => if ascii_str s then Ok (PStr (f s)) else Raise Unmodelled
  | _ => if is_object v then Raise Unmodelled else Raise AttributeError
  end.

Definition m_str_upper (v : pyval) : res pyval := str_method ascii_upper v.
Definition m_str_title (v : pyval) : res pyval := str_method ascii_title v.

(* sep.join(items), the items already evaluated (join materialises its argument before it looks at
   any element): every item must be a str *)
Fixpoint join_strs (sep : pystr) (l : list pystr) : pystr :=
  match l with
  | [] => []
  | [x] => x
  | x :: t => x ++ sep ++ join_strs sep t
  end.

Fixpoint str_items (l : list pyval) : res (list pystr) :=
  match l with
  | [] => Ok []
  | PStr s :: t => r <- str_items t ;; Ok (s :: r)
  | (PEnum _ _ _ | POther _ _) :: _ => Raise Unmodelled        (* may be an instance of a str subclass *)
  | _ :: _ => Raise TypeError
  end.

Definition m_str_join (sep : pyval) (items : list pyval) : res pyval :=
  match sep with
  | PStr s => l <- str_items items ;; Ok (PStr (join_strs s l))
  | _ => if is_object sep then Raise Unmodelled else Raise AttributeError
  end.

(* ------------------------------------------------------------------ identity *)

(* v is K, for a class K of the source: classes are identified by their names; plain data, an
   instance and an enum member are never identical to a class; an opaque object is not predicted *)
Definition m_is_class (v : pyval) (k : pystr) : res bool :=
  match v with
  | POther t n => if pystr_eqb t ref_tag then Ok (pystr_eqb n k) else Raise Unmodelled
  | _ => Ok false
  end.

(* v is E.MEMBER, for a member of an enum class of the source: members are singletons *)
Definition m_is_member (v : pyval) (cls name : pystr) : res bool :=
  match v with
  | PEnum c n _ => Ok (pystr_eqb c cls && pystr_eqb n name)
  | POther t _ => if pystr_eqb t ref_tag then Ok false else Raise Unmodelled
  | _ => Ok false
  end.

(* ------------------------------------------------------------------ isinstance *)

(* the second argument of isinstance: a builtin class, collections.abc.Mapping, an enum class of the
   source, or a class of the package (looked up in the generated table; none of them is a metaclass,
   so a class object is an instance of none) *)
Inductive mclass :=
| MC_k (k : pyclass)
| MC_Mapping
| MC_enum (n : pystr)
| MC_cls (n : pystr).

Definition is_ref (v : pyval) : bool :=
  match v with POther t _ => pystr_eqb t ref_tag | _ => false end.

Definition m_isinstance1 (tbl : PyOpsFields.class_table) (v : pyval) (c : mclass) : res bool :=
  match c with
  | MC_k k =>
      match v with
      | POther _ _ => if is_ref v then Ok false else Raise Unmodelled
      | _ => Ok (isinstance1 v k)
      end
  | MC_Mapping =>
      match v with
      | PDict _ => Ok true
      | POther _ _ => if is_ref v then Ok false else Raise Unmodelled
      | PStruct _ _ => Raise Unmodelled              (* a Structure may implement the protocol *)
      | _ => Ok false
      end
  | MC_enum n =>
      match v with
      | PEnum c' _ _ => Ok (pystr_eqb c' n)
      | POther _ _ => if is_ref v then Ok false else Raise Unmodelled
      | _ => Ok false
      end
  | MC_cls n =>
      match v with
      | PStruct c' _ =>
          if PyOpsFields.class_known tbl c' then Ok (PyOpsFields.subclass_of tbl c' n) else Raise Unmodelled
      | POther _ _ => if is_ref v then Ok false else Raise Unmodelled
      | _ => Ok false
      end
  end.

(* isinstance(v, (C1, ..., Cn)): the classes are tried in order *)
Fixpoint m_isinstance (tbl : PyOpsFields.class_table) (v : pyval) (cs : list mclass) : res bool :=
  match cs with
  | [] => Ok false
  | c :: t => b <- m_isinstance1 tbl v c ;; if b then Ok true else m_isinstance tbl v t
  end.

(* ------------------------------------------------------------------ dict.update on a local dict *)

(* d.update(other) on a dict the function owns: the new value of d *)
Definition m_dict_update (d other : pyval) : res pyval :=
  match d with
  | PDict ka =>
      match other with
      | PDict kb => Ok (PDict (fold_left (fun acc p => dict_set acc (fst p) (snd p)) kb ka))
      | PNone | PBool _ | PNum _ => Raise TypeError
      | _ => Raise Unmodelled                          (* an iterable of pairs, an object with keys() *)
      end
  | _ => if is_object d then Raise Unmodelled else Raise AttributeError
  end.

(* ------------------------------------------------------------------ f-strings *)

(* f"{v}": a str is itself; a class object is "<class 'module.Name'>" when the class statement shows that
   nothing customises its text (the table is generated from the source); anything else is not predicted *)
Definition m_format (reprs : list (pystr * pystr)) (v : pyval) : res pystr :=
  match v with
  | PStr s => Ok s
  | POther _ n =>
      if is_ref v then match alist_get reprs n with Some r => Ok r | None => Raise Unmodelled end
      else Raise Unmodelled
  | _ => Raise Unmodelled
  end.

(* ------------------------------------------------------------------ attributes named like builtin methods *)

(* o.a where the builtin types define a method of that name (field.items): an attribute of an object of
   the model; on plain data it would be the bound method, which the model does not represent *)
Definition m_getattr_obj (h : heap) (o : pyval) (a : pystr) : res pyval :=
  match o with
  | PStruct _ _ => PyOpsFields.fld_getattr h o a
  | POther _ _ => if is_ref o then PyOpsFields.fld_getattr h o a else Raise Unmodelled
  | _ => Raise Unmodelled
  end.

(* ------------------------------------------------------------------ facts *)

Lemma str_items_strs l : str_items (map PStr l) = Ok l.
Proof.
  induction l as [|x t IH]; [reflexivity|]. cbn [map str_items]. rewrite IH. reflexivity.
Qed.

Lemma ascii_str_app a b : ascii_str (a ++ b) = ascii_str a && ascii_str b.
Proof. unfold ascii_str. apply forallb_app. Qed.
