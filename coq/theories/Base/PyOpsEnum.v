(* Dynamic operators the GENERATED translation of typedpy/fields/enum.py uses (Gen/GuardsEnum.v,
   emitted by harness/genmods/c01_enum_guard.py), on top of Base/PyOps.v.
   An enum CLASS is seen as the list of its members, a member as [PEnum cls name value].
   Executable; no proofs here. *)
From Coq Require Import ZArith NArith String Bool List.
Import ListNotations.
From TP Require Import Base.PyVal Base.PyOps.

(* [x.name for x in v] *)
Definition py_member_name (x : pyval) : res pyval :=
  match x with PEnum _ n _ => Ok (PStr n) | _ => Raise AttributeError end.

Definition py_names_list (v : pyval) : res pyval :=
  match v with
  | PList l | PTuple l => r <- mapM py_member_name l ;; Ok (PList r)
  | _ => Raise Unmodelled
  end.

(* {x.name for x in v}: only membership is ever asked of the result, so the elements are kept as
   they come (a repeated name changes no membership answer) *)
Definition py_names_set (v : pyval) : res pyval :=
  match v with
  | PList l | PTuple l => r <- mapM py_member_name l ;; Ok (PSet false r)
  | _ => Raise Unmodelled
  end.

(* x in c, for a container that is a VALUE (not a literal): a set/frozenset/dict hashes the
   candidate first, a list/tuple scans with ==; anything else is not iterable *)
Definition py_in_dyn (x c : pyval) : res bool :=
  match c with
  | PSet _ l => if py_hashable' x then Ok (py_in x l) else Raise TypeError
  | PDict kv => if py_hashable' x then Ok (py_in x (map fst kv)) else Raise TypeError
  | PList l | PTuple l | PDeque l => Ok (py_in x l)
  | POther _ _ | PStruct _ _ => Raise Unmodelled
  | _ => Raise TypeError
  end.

(* EnumClass[name] *)
Fixpoint enum_lookup (ms : list pyval) (n : pystr) : res pyval :=
  match ms with
  | [] => Raise KeyError
  | (PEnum c n' x) :: t => if pystr_eqb n' n then Ok (PEnum c n' x) else enum_lookup t n
  | _ :: t => enum_lookup t n
  end.

Definition py_enum_getitem (cls k : pyval) : res pyval :=
  match cls, k with
  | PList ms, PStr n => enum_lookup ms n
  | PList _, _ => Raise KeyError
  | _, _ => Raise Unmodelled
  end.

(* any(x is v for v in c): identity with one of the elements of the VALUE c.  The model knows the
   identity of enum members only (one object per class and name; a value of any other kind is never
   that object); whether two equal strs / ints are one object is not predicted. *)
Definition py_is_member (x v : pyval) : res bool :=
  match v with
  | PEnum c n _ =>
      Ok (match x with PEnum c' n' _ => pystr_eqb c' c && pystr_eqb n' n | _ => false end)
  | _ => Raise Unmodelled
  end.

Definition py_any_is (x c : pyval) : res bool :=
  match c with
  | PList l | PTuple l => r <- mapM (py_is_member x) l ;; Ok (existsb (fun b => b) r)
  | _ => Raise Unmodelled
  end.
