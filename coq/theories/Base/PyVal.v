(* L0: the Python value universe used by every model of typedpy.
   Strings are lists of code points (len() = List.length, never bytes).
   Numbers are exact: ints, finite binary64 floats as the dyadic m*2^e, Decimals as m*10^e;
   every comparison goes through num_to_Q, so there is a single order. *)
From Coq Require Import ZArith QArith NArith String Ascii Bool Lia List.
Import ListNotations.
Local Open Scope Z_scope.

Definition pystr := list N.

Fixpoint pystr_eqb (a b : pystr) : bool :=
  match a, b with
  | [], [] => true
  | x :: a', y :: b' => N.eqb x y && pystr_eqb a' b'
  | _, _ => false
  end.

Lemma pystr_eqb_spec a b : pystr_eqb a b = true <-> a = b.
Proof.
  revert b; induction a as [|x a IH]; intros [|y b]; simpl; split; intro H;
    try congruence; try reflexivity.
  - apply andb_true_iff in H as [H1 H2]. apply N.eqb_eq in H1. apply IH in H2. congruence.
  - inversion H; subst. apply andb_true_iff; split; [apply N.eqb_refl | apply IH; reflexivity].
Qed.

Lemma pystr_eqb_refl a : pystr_eqb a a = true.
Proof. apply pystr_eqb_spec; reflexivity. Qed.

Lemma pystr_eqb_neq a b : pystr_eqb a b = false <-> a <> b.
Proof.
  split; intro H.
  - intro E. apply pystr_eqb_spec in E. congruence.
  - destruct (pystr_eqb a b) eqn:E; [apply pystr_eqb_spec in E; contradiction | reflexivity].
Qed.

Definition s2p (s : string) : pystr := map N_of_ascii (list_ascii_of_string s).

(* -------------------------------------------------------------------- numbers *)

Inductive num :=
| NInt (z : Z)
| NFlt (m e : Z)      (* finite float, exact value m * 2^e *)
| NDec (m e : Z).     (* Decimal, exact value m * 10^e *)

Definition scaleQ (base m e : Z) : Q :=
  if 0 <=? e then Qmake (m * base ^ e) 1
  else Qmake m (Z.to_pos (base ^ (- e))).

Definition num_to_Q (n : num) : Q :=
  match n with
  | NInt z => Qmake z 1
  | NFlt m e => scaleQ 2 m e
  | NDec m e => scaleQ 10 m e
  end.

Definition num_eqb (a b : num) : bool := Qeq_bool (num_to_Q a) (num_to_Q b).
Definition num_leb (a b : num) : bool := Qle_bool (num_to_Q a) (num_to_Q b).
Definition num_ltb (a b : num) : bool := negb (Qle_bool (num_to_Q b) (num_to_Q a)).

Definition Q_is_int (q : Q) : bool := Z.eqb (Z.modulo (Qnum q) (Zpos (Qden q))) 0.

(* value is an exact integer multiple of m (m <> 0) *)
Definition num_multiple_of (v m : num) : bool :=
  let qm := num_to_Q m in
  if Qeq_bool qm 0 then false else Q_is_int (Qdiv (num_to_Q v) qm).

Definition num_is_int (n : num) : bool := match n with NInt _ => true | _ => false end.
Definition num_is_float (n : num) : bool := match n with NFlt _ _ => true | _ => false end.
Definition num_is_dec (n : num) : bool := match n with NDec _ _ => true | _ => false end.

(* ---------------------------------------------------------------------- values *)

Inductive pyval :=
| PNone
| PBool (b : bool)
| PNum (n : num)
| PStr (s : pystr)
| PList (l : list pyval)
| PTuple (l : list pyval)
| PDeque (l : list pyval)
| PSet (frozen : bool) (l : list pyval)        (* insertion order kept, equality order-free *)
| PDict (kv : list (pyval * pyval))             (* insertion order kept, equality order-free *)
| PEnum (cls name : pystr) (value : pyval)
| PStruct (cls : pystr) (attrs : list (pystr * pyval))
| POther (tag repr : pystr).                    (* any other Python object: type tag + canonical repr *)

Section pyval_ind_strong.
  Variable P : pyval -> Prop.
  Hypothesis HNone : P PNone.
  Hypothesis HBool : forall b, P (PBool b).
  Hypothesis HNum : forall n, P (PNum n).
  Hypothesis HStr : forall s, P (PStr s).
  Hypothesis HList : forall l, Forall P l -> P (PList l).
  Hypothesis HTuple : forall l, Forall P l -> P (PTuple l).
  Hypothesis HDeque : forall l, Forall P l -> P (PDeque l).
  Hypothesis HSet : forall f l, Forall P l -> P (PSet f l).
  Hypothesis HDict : forall kv, Forall (fun p => P (fst p) /\ P (snd p)) kv -> P (PDict kv).
  Hypothesis HEnum : forall c n v, P v -> P (PEnum c n v).
  Hypothesis HStruct : forall c attrs, Forall (fun p => P (snd p)) attrs -> P (PStruct c attrs).
  Hypothesis HOther : forall t r, P (POther t r).

  Fixpoint pyval_ind' (v : pyval) : P v :=
    let fix go (l : list pyval) : Forall P l :=
        match l with
        | [] => Forall_nil _
        | x :: t => Forall_cons _ (pyval_ind' x) (go t)
        end in
    match v with
    | PNone => HNone
    | PBool b => HBool b
    | PNum n => HNum n
    | PStr s => HStr s
    | PList l => HList l (go l)
    | PTuple l => HTuple l (go l)
    | PDeque l => HDeque l (go l)
    | PSet f l => HSet f l (go l)
    | PDict kv =>
        HDict kv
          ((fix gd (l : list (pyval * pyval)) : Forall (fun p => P (fst p) /\ P (snd p)) l :=
              match l with
              | [] => Forall_nil _
              | (k, x) :: t => Forall_cons (k, x) (conj (pyval_ind' k) (pyval_ind' x)) (gd t)
              end) kv)
    | PEnum c n x => HEnum c n x (pyval_ind' x)
    | PStruct c attrs =>
        HStruct c attrs
          ((fix gs (l : list (pystr * pyval)) : Forall (fun p => P (snd p)) l :=
              match l with
              | [] => Forall_nil _
              | (k, x) :: t => Forall_cons (k, x) (pyval_ind' x) (gs t)
              end) attrs)
    | POther t r => HOther t r
    end.
End pyval_ind_strong.

(* numeric view used by == : bool is an int *)
Definition as_num (v : pyval) : option num :=
  match v with
  | PBool b => Some (NInt (if b then 1 else 0))
  | PNum n => Some n
  | _ => None
  end.

(* Python ==, structural recursion on the first argument. Sets and dicts compare
   order-free; the model keeps them duplicate-free (by ==), so inclusion + equal length suffices. *)
Fixpoint py_eq (a b : pyval) {struct a} : bool :=
  let fix eq_list (l : list pyval) (m : list pyval) {struct l} : bool :=
      match l, m with
      | [], [] => true
      | x :: l', y :: m' => py_eq x y && eq_list l' m'
      | _, _ => false
      end in
  let fix all_in (l : list pyval) (m : list pyval) {struct l} : bool :=
      match l with
      | [] => true
      | x :: l' => existsb (fun y => py_eq x y) m && all_in l' m
      end in
  match a with
  | PNone => match b with PNone => true | _ => false end
  | PBool _ | PNum _ =>
      match as_num a, as_num b with
      | Some x, Some y => num_eqb x y
      | _, _ => false
      end
  | PStr s => match b with PStr t => pystr_eqb s t | _ => false end
  | PList l => match b with PList m => eq_list l m | _ => false end
  | PTuple l => match b with PTuple m => eq_list l m | _ => false end
  | PDeque l => match b with PDeque m => eq_list l m | _ => false end
  | PSet _ l => match b with
                | PSet _ m => Nat.eqb (length l) (length m) && all_in l m
                | _ => false end
  | PDict kv =>
      match b with
      | PDict kw =>
          Nat.eqb (length kv) (length kw) &&
          (fix all_kv (l : list (pyval * pyval)) : bool :=
             match l with
             | [] => true
             | (k, x) :: l' =>
                 existsb (fun p => py_eq k (fst p) && py_eq x (snd p)) kw && all_kv l'
             end) kv
      | _ => false
      end
  | PEnum c n _ => match b with PEnum c' n' _ => pystr_eqb c c' && pystr_eqb n n' | _ => false end
  | PStruct c attrs =>
      match b with
      | PStruct c' attrs' =>
          pystr_eqb c c' && Nat.eqb (length attrs) (length attrs') &&
          (fix all_at (l : list (pystr * pyval)) : bool :=
             match l with
             | [] => true
             | (k, x) :: l' =>
                 existsb (fun p => pystr_eqb k (fst p) && py_eq x (snd p)) attrs' && all_at l'
             end) attrs
      | _ => false
      end
  | POther t r => match b with POther t' r' => pystr_eqb t t' && pystr_eqb r r' | _ => false end
  end.

(* Python truthiness *)
Definition py_truthy (v : pyval) : bool :=
  match v with
  | PNone => false
  | PBool b => b
  | PNum n => negb (Qeq_bool (num_to_Q n) 0)
  | PStr s => negb (Nat.eqb (length s) 0)
  | PList l | PTuple l | PDeque l | PSet _ l => negb (Nat.eqb (length l) 0)
  | PDict kv => negb (Nat.eqb (length kv) 0)
  | PEnum _ _ _ => true
  | PStruct _ _ => true
  | POther _ _ => true
  end.

Definition py_in (x : pyval) (l : list pyval) : bool := existsb (fun y => py_eq x y) l.

(* order-preserving de-duplication under == (keeps first occurrences) *)
Fixpoint py_dedup_aux (seen : list pyval) (l : list pyval) : list pyval :=
  match l with
  | [] => rev seen
  | x :: t => if py_in x seen then py_dedup_aux seen t else py_dedup_aux (x :: seen) t
  end.
Definition py_dedup (l : list pyval) : list pyval := py_dedup_aux [] l.
Definition py_unique (l : list pyval) : bool := Nat.eqb (length (py_dedup l)) (length l).

(* dict operations on association lists keyed by == *)
Fixpoint dict_get (kv : list (pyval * pyval)) (k : pyval) : option pyval :=
  match kv with
  | [] => None
  | (k', v) :: t => if py_eq k' k then Some v else dict_get t k
  end.

Fixpoint dict_set (kv : list (pyval * pyval)) (k v : pyval) : list (pyval * pyval) :=
  match kv with
  | [] => [(k, v)]
  | (k', v') :: t => if py_eq k' k then (k', v) :: t else (k', v') :: dict_set t k v
  end.

Fixpoint dict_del (kv : list (pyval * pyval)) (k : pyval) : list (pyval * pyval) :=
  match kv with
  | [] => []
  | (k', v') :: t => if py_eq k' k then t else (k', v') :: dict_del t k
  end.

Definition dict_has (kv : list (pyval * pyval)) (k : pyval) : bool :=
  match dict_get kv k with Some _ => true | None => false end.

(* association lists keyed by names *)
Fixpoint alist_get {A} (l : list (pystr * A)) (k : pystr) : option A :=
  match l with
  | [] => None
  | (k', v) :: t => if pystr_eqb k' k then Some v else alist_get t k
  end.

Fixpoint alist_set {A} (l : list (pystr * A)) (k : pystr) (v : A) : list (pystr * A) :=
  match l with
  | [] => [(k, v)]
  | (k', v') :: t => if pystr_eqb k' k then (k', v) :: t else (k', v') :: alist_set t k v
  end.

Fixpoint alist_del {A} (l : list (pystr * A)) (k : pystr) : list (pystr * A) :=
  match l with
  | [] => []
  | (k', v') :: t => if pystr_eqb k' k then alist_del t k else (k', v') :: alist_del t k
  end.

Definition alist_has {A} (l : list (pystr * A)) (k : pystr) : bool :=
  match alist_get l k with Some _ => true | None => false end.

Definition str_in (s : pystr) (l : list pystr) : bool := existsb (pystr_eqb s) l.

(* exceptions and results *)
Inductive exn :=
| TypeError | ValueError | InvalidStructureErr
| IndexError | KeyError | AttributeError | OverflowError | ZeroDivisionError
| NotImplementedError | RuntimeError | OutOfFuel
| Unmodelled            (* the model declines to predict: input outside its stated domain *)
| OtherExn (name : pystr).

Definition exn_eqb (a b : exn) : bool :=
  match a, b with
  | TypeError, TypeError | ValueError, ValueError | InvalidStructureErr, InvalidStructureErr
  | IndexError, IndexError | KeyError, KeyError | AttributeError, AttributeError
  | OverflowError, OverflowError | ZeroDivisionError, ZeroDivisionError
  | NotImplementedError, NotImplementedError | RuntimeError, RuntimeError
  | OutOfFuel, OutOfFuel | Unmodelled, Unmodelled => true
  | OtherExn x, OtherExn y => pystr_eqb x y
  | _, _ => false
  end.

(* "is a TypeError or ValueError" in the sense of isinstance *)
Definition is_te_ve (e : exn) : bool :=
  match e with TypeError | ValueError | InvalidStructureErr => true | _ => false end.

Inductive res (A : Type) :=
| Ok (a : A)
| Raise (e : exn).
Arguments Ok {A} a.
Arguments Raise {A} e.

Definition bind {A B} (r : res A) (f : A -> res B) : res B :=
  match r with Ok a => f a | Raise e => Raise e end.
Notation "x <- r ;; k" := (bind r (fun x => k)) (at level 61, r at next level, right associativity).

Fixpoint mapM {A B} (f : A -> res B) (l : list A) : res (list B) :=
  match l with
  | [] => Ok []
  | x :: t => y <- f x ;; ys <- mapM f t ;; Ok (y :: ys)
  end.

Definition is_ok {A} (r : res A) : bool := match r with Ok _ => true | Raise _ => false end.
